(* L2 proofs: the UPER writer/reader model (Uper/Writer.v, Uper/Reader.v) against the scope-free
   reference encoder of Uper/Spec.v; round trip (C01) and SEQUENCE preamble facts (C03). *)
From A1 Require Export Uper.Spec.
From A1 Require Import Bits.Proofs.
From A1 Require Import Per.Proofs.
Require Import ZifyBool ZifyNat ZifyN.
Local Open Scope N_scope.



(** * induction principles for the nested types *)
Section TyInd.
  Variable P : ty -> Prop.
  Hypothesis HBool : P TBool.
  Hypothesis HNull : P TNull.
  Hypothesis HInt : forall k lo hi e, P (TInt k lo hi e).
  Hypothesis HStr : forall c lo hi e, P (TStr c lo hi e).
  Hypothesis HOct : forall lo hi e, P (TOctets lo hi e).
  Hypothesis HBit : forall lo hi e, P (TBitStr lo hi e).
  Hypothesis HList : forall e lo hi x, P e -> P (TListOf e lo hi x).
  Hypothesis HSeq : forall fs so fc ea, Forall (fun f => P (snd f)) fs -> P (TSeq fs so fc ea).
  Hypothesis HChoice : forall alts std ext, Forall P alts -> P (TChoice alts std ext).
  Hypothesis HEnum : forall vc std ext, P (TEnum vc std ext).
  Fixpoint ty_ind' (t : ty) : P t :=
    match t with
    | TBool => HBool
    | TNull => HNull
    | TInt k lo hi e => HInt k lo hi e
    | TStr c lo hi e => HStr c lo hi e
    | TOctets lo hi e => HOct lo hi e
    | TBitStr lo hi e => HBit lo hi e
    | TListOf e lo hi x => HList e lo hi x (ty_ind' e)
    | TSeq fs so fc ea =>
        HSeq fs so fc ea
          ((fix go (fs : list (fkind * ty)) : Forall (fun f => P (snd f)) fs :=
              match fs with
              | [] => Forall_nil _
              | f :: r => Forall_cons f (match f as f0 return P (snd f0) with (k, ft) => ty_ind' ft end) (go r)
              end) fs)
    | TChoice alts std ext =>
        HChoice alts std ext
          ((fix go (l : list ty) : Forall P l :=
              match l with
              | [] => Forall_nil _
              | a :: r => Forall_cons a (ty_ind' a) (go r)
              end) alts)
    | TEnum vc std ext => HEnum vc std ext
    end.
End TyInd.

Definition optP (P : val -> Prop) (o : option val) : Prop := match o with Some x => P x | None => True end.
Section ValInd.
  Variable P : val -> Prop.
  Hypothesis H1 : forall b, P (VBool b).
  Hypothesis H2 : P VNull.
  Hypothesis H3 : forall z, P (VInt z).
  Hypothesis H4 : forall c, P (VStr c).
  Hypothesis H5 : forall c, P (VOctets c).
  Hypothesis H6 : forall c n, P (VBits c n).
  Hypothesis H7 : forall vs, Forall P vs -> P (VList vs).
  Hypothesis H8 : forall fs, Forall (optP P) fs -> P (VSeq fs).
  Hypothesis H9 : forall i v, P v -> P (VChoice i v).
  Hypothesis H10 : forall i, P (VEnum i).
  Fixpoint val_ind' (v : val) : P v :=
    match v with
    | VBool b => H1 b
    | VNull => H2
    | VInt z => H3 z
    | VStr c => H4 c
    | VOctets c => H5 c
    | VBits c n => H6 c n
    | VList vs => H7 vs ((fix go (l : list val) : Forall P l :=
                            match l with [] => Forall_nil _ | a :: r => Forall_cons a (val_ind' a) (go r) end) vs)
    | VSeq fs => H8 fs ((fix go (l : list (option val)) : Forall (optP P) l :=
                            match l with
                            | [] => Forall_nil _
                            | o :: r => @Forall_cons _ (optP P) o r
                                          (match o as o0 return optP P o0 with
                                           | Some x => val_ind' x | None => I end) (go r)
                            end) fs)
    | VChoice i x => H9 i x (val_ind' x)
    | VEnum i => H10 i
    end.
End ValInd.

Lemma list_eqb_N_eq a : forall b, list_eqb N.eqb a b = true -> a = b.
Proof.
  induction a as [|x a IH]; intros [|y b] H; cbn [list_eqb] in H; try discriminate; [reflexivity|].
  apply andb_true_iff in H. destruct H as [H1 H2]. apply N.eqb_eq in H1. f_equal; auto.
Qed.

Lemma val_eqb_eq a : forall b, val_eqb a b = true -> a = b.
Proof.
  induction a as [x| |x|x|x|x n|xs IH|xs IH|i x IH|i] using val_ind'; intros [y| |y|y|y|y k|ys|ys|j y|j] H;
    cbn [val_eqb] in H; try discriminate H.
  - apply Bool.eqb_prop in H. congruence.
  - reflexivity.
  - apply Z.eqb_eq in H. congruence.
  - apply list_eqb_N_eq in H. congruence.
  - apply list_eqb_N_eq in H. congruence.
  - apply andb_true_iff in H. destruct H as [H1 H2]. apply list_eqb_N_eq in H1. apply N.eqb_eq in H2. congruence.
  - f_equal. revert ys H. induction IH as [|x xs Hx _ IHl]; intros [|y ys] H; try discriminate H; [reflexivity|].
    apply andb_true_iff in H. destruct H as [H1 H2]. f_equal; [apply Hx; exact H1|apply IHl; exact H2].
  - f_equal. revert ys H. induction IH as [|x xs Hx _ IHl]; intros [|y ys] H; try discriminate H; [reflexivity|].
    apply andb_true_iff in H. destruct H as [H1 H2]. f_equal; [|apply IHl; exact H2].
    destruct x as [x|], y as [y|]; try discriminate H1; [|reflexivity]. f_equal. apply Hx. exact H1.
  - apply andb_true_iff in H. destruct H as [H1 H2]. apply N.eqb_eq in H1. apply IH in H2. congruence.
  - apply N.eqb_eq in H. congruence.
Qed.



(** * writer state basics *)
Definition wst_wf (w : wst) : Prop := w_n w = N.of_nat (length (w_rbits w)).

Lemma rev_append_app {A} (a b r : list A) : rev_append (a ++ b) r = rev_append b (rev_append a r).
Proof. revert r. induction a as [|x a IH]; intros r; cbn [app rev_append]; auto. Qed.

Lemma w_append_app w a b : w_append (w_append w a) b = w_append w (a ++ b).
Proof.
  unfold w_append. cbn [w_rbits w_n w_scope]. rewrite rev_append_app, app_length. f_equal. lia.
Qed.
Lemma w_append_nil w : w_append w [] = w.
Proof. destruct w. unfold w_append. cbn. f_equal. lia. Qed.
Lemma w_bits_append w b : w_bits (w_append w b) = w_bits w ++ b.
Proof.
  unfold w_bits, w_append, frev. cbn [w_rbits]. rewrite !rev_append_rev, !app_nil_r, rev_app_distr, rev_involutive.
  reflexivity.
Qed.
Lemma w_append_wf w b : wst_wf w -> wst_wf (w_append w b).
Proof. unfold wst_wf, w_append. cbn [w_n w_rbits]. rewrite rev_append_rev, app_length, rev_length. lia. Qed.
Lemma w_append_scope w b : w_scope (w_append w b) = w_scope w.
Proof. reflexivity. Qed.
Lemma w_append_n w b : w_n (w_append w b) = w_n w + bl b.
Proof. reflexivity. Qed.
Lemma w_set_scope_wf w sc : wst_wf w -> wst_wf (w_set_scope w sc).
Proof. auto. Qed.
Lemma w_empty_wf : wst_wf w_empty. Proof. reflexivity. Qed.
Lemma w_set_scope_append w sc b : w_set_scope (w_append w b) sc = w_append (w_set_scope w sc) b.
Proof. reflexivity. Qed.
Lemma w_set_scope_set w a b : w_set_scope (w_set_scope w a) b = w_set_scope w b.
Proof. reflexivity. Qed.
Lemma w_set_scope_id w : w_set_scope w (w_scope w) = w.
Proof. destruct w; reflexivity. Qed.
Lemma w_bits_empty_append b : w_bits (w_append w_empty b) = b.
Proof. rewrite w_bits_append. reflexivity. Qed.

Lemma set_nth_app {A} (X : list A) a Y b : set_nth (X ++ a :: Y) (length X) b = X ++ b :: Y.
Proof. induction X as [|x X IH]; cbn [app length set_nth]; [reflexivity|]. rewrite IH. reflexivity. Qed.

(* back-patching one bit of what was appended after [w0] *)
Lemma w_patch_spec w0 sc A old B bit : wst_wf w0 ->
  w_patch (w_set_scope (w_append w0 (A ++ old :: B)) sc) (w_n w0 + bl A) bit
  = Ok (w_set_scope (w_append w0 (A ++ bit :: B)) sc).
Proof.
  intros Hw. unfold w_patch, w_set_scope, w_append. cbn [w_rbits w_n w_scope].
  rewrite !app_length. cbn [length]. unfold bl.
  destruct (N.ltb_spec (w_n w0 + N.of_nat (length A)) (w_n w0 + N.of_nat (length A + S (length B)))); [|lia].
  f_equal. f_equal.
  rewrite !rev_append_rev, !rev_app_distr. cbn [rev]. rewrite <- !app_assoc. cbn [app].
  replace (N.to_nat (w_n w0 + N.of_nat (length A + S (length B)) - 1 - (w_n w0 + N.of_nat (length A))))
    with (length (rev B)) by (rewrite rev_length; lia).
  apply set_nth_app.
Qed.

(** the comparison of a writer run with a reference encoding: success with exactly these bits
    appended, or failure on both sides *)
Definition wsim (r : res wst) (w : wst) (e : res bits) : Prop :=
  match e with Ok b => r = Ok (w_append w b) | _ => is_ok r = false end.

Lemma w_put_ok w r b : r = Ok b -> w_put w r = Ok (w_append w b).
Proof. intros ->. reflexivity. Qed.

Lemma wsim_put w e : wsim (w_put w e) w e.
Proof. destruct e; reflexivity. Qed.

(** * scope factoring: every write_* method first runs the bit-field entry of the enclosing
    scope, then writes its content either directly (restoring the scope) or, inside an
    extension-addition scope, into a fresh buffer that is appended as an open type *)
Definition wopen (w : wst) : bool :=
  match w_scope w with Some s => encode_as_open_type_field s | None => false end.

Definition shape (t : ty) (v : val) : bool :=
  match t, v with
  | TBool, VBool _ | TNull, VNull | TInt _ _ _ _, VInt _ | TStr _ _ _ _, VStr _
  | TOctets _ _ _, VOctets _ | TBitStr _ _ _, VBits _ _ | TListOf _ _ _ _, VList _
  | TSeq _ _ _ _, VSeq _ | TChoice _ _ _, VChoice _ _ | TEnum _ _ _, VEnum _ => true
  | _, _ => false
  end.

Lemma entry_none m w p : w_scope w = None -> write_bit_field_entry m w false p = Ok w.
Proof. unfold write_bit_field_entry. intros ->. reflexivity. Qed.

Lemma with_buffer_none m w f : w_scope w = None -> with_buffer m w f = f w.
Proof. unfold with_buffer. intros ->. reflexivity. Qed.

Definition scope_nat (f : wst -> res wst) : Prop :=
  forall w, f w = let! w2 := f (w_set_scope w None) in Ok (w_set_scope w2 (w_scope w)).

Lemma with_buffer_factor m w1 f : scope_nat f ->
  with_buffer m w1 f =
  if wopen w1 then
    let! sub := with_buffer m w_empty f in w_put w1 (wrap_open m (w_bits sub))
  else
    let! w2 := with_buffer m (w_set_scope w1 None) f in Ok (w_set_scope w2 (w_scope w1)).
Proof.
  intros Hf. unfold with_buffer at 2 3. cbn [w_scope w_empty w_set_scope].
  unfold with_buffer, wopen. destruct (w_scope w1) as [sc|] eqn:E.
  - destruct (encode_as_open_type_field sc); [reflexivity|]. rewrite (Hf w1), E. reflexivity.
  - rewrite (Hf w1), E. reflexivity.
Qed.

Lemma scope_nat_put r : scope_nat (fun w => w_put w r).
Proof. intros w. destruct r, w; reflexivity. Qed.
Lemma scope_nat_stashed g : scope_nat (fun w => scope_stashed w g).
Proof.
  intros w. unfold scope_stashed. cbn [w_scope w_set_scope].
  change (w_set_scope (w_set_scope w None) None) with (w_set_scope w None).
  destruct (g (w_set_scope w None)); reflexivity.
Qed.
Lemma scope_nat_pushed m (pre : wst -> wst) (sc : wst -> scope) g :
  (forall w s, pre (w_set_scope w s) = w_set_scope (pre w) s) ->
  (forall w s, sc (w_set_scope w s) = sc w) ->
  scope_nat (fun w => scope_pushed m (pre w) (sc w) g).
Proof.
  intros Hp Hs w. unfold scope_pushed. rewrite Hp, Hs. cbn [w_scope w_set_scope].
  assert (E : w_scope (pre w) = w_scope w).
  { rewrite <- (w_set_scope_id w) at 1. rewrite Hp. reflexivity. }
  rewrite E.
  change (w_set_scope (w_set_scope (pre w) None) (Some (sc w))) with (w_set_scope (pre w) (Some (sc w))).
  destruct (g (w_set_scope (pre w) (Some (sc w)))) as [w'| |]; cbn [bind]; try reflexivity.
  destruct (debug_asserts m && _); cbn [bind]; reflexivity.
Qed.

Lemma wel_eq m w ext lo hi up len :
  write_ext_bit_and_length m w ext lo hi up len = w_put w (len_hdr m ext lo hi up len).
Proof.
  unfold write_ext_bit_and_length, len_hdr.
  destruct ((len <? opt_or lo 0) || (opt_or hi up <? len)), ext; cbn [negb];
    try reflexivity;
    match goal with |- context [w_length_determinant ?a ?b ?c ?d] => destruct (w_length_determinant a b c d) as [[b0 fs0]| |] end;
    cbn [bind w_put app]; rewrite ?w_append_app; reflexivity.
Qed.

Lemma write_ty_factor m t v w : shape t v = true ->
  write_ty m t v w =
  let! w1 := write_bit_field_entry m w false true in
  if wopen w1 && negb (is_choice t) then
    let! sub := write_ty m t v w_empty in
    w_put w1 (wrap_open m (w_bits sub))
  else
    let! w2 := write_ty m t v (w_set_scope w1 None) in Ok (w_set_scope w2 (w_scope w1)).
Proof.
  intros Hs.
  destruct t as [| |k lo hi ext|c lo hi ext|lo hi ext|lo hi ext|e lo hi ext|fs so fc ea|alts std ext|vc std ext], v;
    try discriminate Hs; clear Hs; try destruct c.
  all: cbn [write_ty is_choice negb andb].
  all: destruct (write_bit_field_entry m w false true) as [w1| |]; cbn [bind]; try reflexivity.
  all: rewrite ?andb_true_r, ?andb_false_r.
  all: rewrite !entry_none by reflexivity; cbn [bind].
  all: try (apply with_buffer_factor; first [apply scope_nat_put | apply scope_nat_stashed | idtac]).
  - intros [rb n sc]; reflexivity.
  - intros [rb n sc]; reflexivity.
  - intros [rb n sc]. destruct ext; cbn [w_set_scope w_scope];
      match goal with |- context [if ?c then _ else _] => destruct c end;
      match goal with |- context [w_put _ ?r] => destruct r end; reflexivity.
  - match goal with |- context [if ?c then _ else _] => destruct c end; [intros w0; reflexivity|apply scope_nat_put].
  - destruct (find_invalid _ _); [intros w0; reflexivity|]. intros w0. rewrite !wel_eq.
    destruct (len_hdr _ _ _ _ _ _), w0; reflexivity.
  - destruct (find_invalid _ _); [intros w0; reflexivity|]. intros w0. rewrite !wel_eq.
    destruct (len_hdr _ _ _ _ _ _), w0; reflexivity.
  - destruct (find_invalid _ _); [intros w0; reflexivity|]. intros w0. rewrite !wel_eq.
    destruct (len_hdr _ _ _ _ _ _), w0; reflexivity.
  - destruct (find_invalid _ _); [intros w0; reflexivity|]. intros w0. rewrite !wel_eq.
    destruct (len_hdr _ _ _ _ _ _), w0; reflexivity.
  - destruct ea as [e|].
    + destruct (usub m fc (e + 1)) as [nx| |]; cbn [bind]; try (intros w0; reflexivity).
      apply (scope_nat_pushed m (fun w0 => w_append (w_append w0 [false]) (repeat false (N.to_nat so)))
               (fun w0 => ExtSeq (w_n w0) (Some (w_n (w_append w0 [false]), w_n (w_append w0 [false]) + so)) (e + 1) nx));
        intros; reflexivity.
    + apply (scope_nat_pushed m (fun w0 => w_append w0 (repeat false (N.to_nat so)))
               (fun w0 => OptBitField (w_n w0) (w_n w0 + so))); intros; reflexivity.
  - apply (scope_nat_stashed _ w1).
Qed.



(** * reader: scope factoring *)
Definition ropen (r : rst) : bool :=
  match r_scope r with Some s => encode_as_open_type_field s | None => false end.

Definition rscope_nat {A} (f : rst -> res (A * rst)) : Prop :=
  forall r, f r = let! (x, r2) := f (r_set_scope r None) in Ok (x, r_set_scope r2 (r_scope r)).

Lemma r_set_scope_id r : r_set_scope r (r_scope r) = r.
Proof. destruct r; reflexivity. Qed.

Lemma rwith_buffer_factor {A} m r1 (f : rst -> res (A * rst)) : rscope_nat f ->
  rwith_buffer m r1 f =
  if ropen r1 then
    let! (len, r2) := r_get r1 (r_length_determinant m None None) in
    let! (x, r3) := read_whole_sub_slice m (r_set_scope r2 None) len f in
    Ok (x, r_set_scope r3 (r_scope r1))
  else
    let! (x, r2) := f (r_set_scope r1 None) in Ok (x, r_set_scope r2 (r_scope r1)).
Proof.
  intros Hf. unfold rwith_buffer, ropen. destruct (r_scope r1) as [sc|] eqn:E.
  - destruct (encode_as_open_type_field sc).
    + unfold r_get. destruct (r_length_determinant m None None (r_src r1)) as [[len s]| |]; cbn [bind]; try reflexivity.
      unfold read_whole_sub_slice. cbn [r_src r_set_src r_set_scope].
      destruct (umul m len BYTE_LEN) as [lb| |]; cbn [bind]; try reflexivity.
      destruct (uadd m (s_pos s) lb) as [wp| |]; cbn [bind]; try reflexivity.
      rewrite (Hf (r_set_src r1 s)). cbn [r_set_scope r_set_src r_src r_scope]. rewrite E.
      destruct (f _) as [[x r3]| |]; reflexivity.
    + rewrite (Hf r1), E. reflexivity.
  - rewrite (Hf r1), E. reflexivity.
Qed.

Lemma rscope_nat_get {A B} (g : src -> res (A * src)) (k : A -> B) :
  rscope_nat (fun r => let! (a, r) := r_get r g in Ok (k a, r)).
Proof.
  intros r. unfold r_get. cbn [r_src r_set_scope]. destruct (g (r_src r)) as [[a s]| |]; reflexivity.
Qed.
Lemma rscope_nat_get' {A} (g : src -> res (A * src)) : rscope_nat (fun r => r_get r g).
Proof.
  intros r. unfold r_get. cbn [r_src r_set_scope]. destruct (g (r_src r)) as [[a s]| |]; reflexivity.
Qed.
Lemma rscope_nat_stashed {A} (g : rst -> res (A * rst)) : rscope_nat (fun r => rscope_stashed r g).
Proof.
  intros r. unfold rscope_stashed. cbn [r_scope r_set_scope r_src].
  change (r_set_scope (r_set_scope r None) None) with (r_set_scope r None).
  destruct (g (r_set_scope r None)) as [[a r']| |]; reflexivity.
Qed.

Lemma rentry_none m r : r_scope r = None -> read_bit_field_entry_st m r false = Ok (f_ok None, r).
Proof. unfold read_bit_field_entry_st. intros ->. reflexivity. Qed.
Lemma rentry_none' m r : r_scope r = None -> read_bit_field_entry m r false = Ok (None, r).
Proof. unfold read_bit_field_entry. intros H. rewrite rentry_none by exact H. reflexivity. Qed.

Lemma rwith_buffer_none {A} m r (f : rst -> res (A * rst)) : r_scope r = None -> rwith_buffer m r f = f r.
Proof. unfold rwith_buffer. intros ->. reflexivity. Qed.

Lemma read_factor_gen m t f :
  rscope_nat f ->
  (forall r' ob' r1', read_bit_field_entry_st m r' false = Ok (inl ob', r1') ->
     read_ty m t r' = rwith_buffer m r1' f) ->
  forall r ob r1, read_bit_field_entry_st m r false = Ok (inl ob, r1) ->
  read_ty m t r =
  if ropen r1 then
    let! (len, r2) := r_get r1 (r_length_determinant m None None) in
    let! (x, r3) := read_whole_sub_slice m (r_set_scope r2 None) len (read_ty m t) in
    Ok (x, r_set_scope r3 (r_scope r1))
  else
    let! (x, r2) := read_ty m t (r_set_scope r1 None) in Ok (x, r_set_scope r2 (r_scope r1)).
Proof.
  intros Hf Hrt r ob r1 He.
  assert (Hn : forall r', r_scope r' = None -> read_ty m t r' = f r').
  { intros r' Hr'. rewrite (Hrt r' None r') by (apply rentry_none; exact Hr').
    apply rwith_buffer_none. exact Hr'. }
  rewrite (Hrt _ _ _ He), (rwith_buffer_factor m r1 f Hf).
  destruct (ropen r1).
  - destruct (r_get r1 _) as [[len r2]| |]; cbn [bind]; try reflexivity.
    unfold read_whole_sub_slice. rewrite (Hn (r_set_scope r2 None)) by reflexivity. reflexivity.
  - rewrite (Hn (r_set_scope r1 None)) by reflexivity. reflexivity.
Qed.

Lemma rsn_bind {A B} (g : rst -> res (A * rst)) (k : A -> rst -> res (B * rst)) :
  rscope_nat g -> (forall a, rscope_nat (k a)) ->
  rscope_nat (fun r => let! (a, r') := g r in k a r').
Proof.
  intros Hg Hk r. rewrite (Hg r). destruct (g (r_set_scope r None)) as [[a r2]| |]; cbn [bind]; try reflexivity.
  rewrite (Hk a (r_set_scope r2 (r_scope r))), (Hk a r2). cbn [r_set_scope r_scope r_src].
  change (r_set_scope (r_set_scope r2 (r_scope r)) None) with (r_set_scope r2 None).
  destruct (k a (r_set_scope r2 None)) as [[x r3]| |]; reflexivity.
Qed.
Lemma rsn_bind0 {A B} (c : res A) (k : A -> rst -> res (B * rst)) :
  (forall a, rscope_nat (k a)) -> rscope_nat (fun r => let! a := c in k a r).
Proof. intros Hk r. destruct c as [a| |]; cbn [bind]; try reflexivity. apply Hk. Qed.
Lemma rsn_ret {A} (a : A) : rscope_nat (fun r => Ok (a, r)).
Proof. intros [s sc]; reflexivity. Qed.
Lemma rsn_err {A} e : rscope_nat (fun r => @Err (A * rst) e).
Proof. intros r; reflexivity. Qed.
Lemma rsn_panic {A} e : rscope_nat (fun r => @Panic (A * rst) e).
Proof. intros r; reflexivity. Qed.
Lemma rsn_if {A} (c : bool) (f g : rst -> res (A * rst)) :
  rscope_nat f -> rscope_nat g -> rscope_nat (fun r => if c then f r else g r).
Proof. destruct c; auto. Qed.
Lemma rsn_len_ext m ext lo hi : rscope_nat (fun r => read_len_ext m r ext lo hi).
Proof.
  unfold read_len_ext. destruct ext; [|apply rscope_nat_get'].
  apply rsn_bind; [apply rscope_nat_get'|]. intros [|]; apply rscope_nat_get'.
Qed.
Lemma rsn_read_chars n w : forall acc, rscope_nat (fun r => read_chars n w r acc).
Proof.
  induction n as [|n IH]; intros acc; cbn [read_chars]; [apply rsn_ret|].
  apply rsn_bind; [apply rscope_nat_get'|]. intros a. apply IH.
Qed.
Lemma rsn_pushed {A} m (pre : rst -> rst) (sc : rst -> scope) (g : rst -> res (A * rst)) :
  (forall r s, pre (r_set_scope r s) = r_set_scope (pre r) s) ->
  (forall r s, sc (r_set_scope r s) = sc r) ->
  rscope_nat (fun r => rscope_pushed m (pre r) (sc r) g).
Proof.
  intros Hp Hs r. unfold rscope_pushed. rewrite Hp, Hs. cbn [r_scope r_set_scope r_src].
  assert (E : r_scope (pre r) = r_scope r).
  { rewrite <- (r_set_scope_id r) at 1. rewrite Hp. reflexivity. }
  rewrite E.
  change (r_set_scope (r_set_scope (pre r) None) (Some (sc r))) with (r_set_scope (pre r) (Some (sc r))).
  destruct (g (r_set_scope (pre r) (Some (sc r)))) as [[a r']| |]; cbn [bind]; try reflexivity.
  destruct (debug_asserts m && _); cbn [bind]; reflexivity.
Qed.

Lemma rsn_src_dep {A} (F : src -> rst -> res (A * rst)) :
  (forall s, rscope_nat (fun r => F s r)) -> rscope_nat (fun r => F (r_src r) r).
Proof. intros H r. rewrite (H (r_src r) r). reflexivity. Qed.

Ltac rsn :=
  repeat first
    [ apply rscope_nat_get' | apply rsn_ret | apply rsn_err | apply rsn_panic | apply rsn_len_ext
    | apply rsn_read_chars | apply rscope_nat_stashed
    | apply rsn_if
    | apply rsn_bind0; intros ?
    | apply rsn_bind; [|intros ?] ].

Lemma rsn_pushed_at {A} m s sc0 scp (g : rst -> res (A * rst)) :
  rscope_pushed m {| r_src := s; r_scope := sc0 |} scp g =
  let! (x, r2) := rscope_pushed m {| r_src := s; r_scope := None |} scp g in Ok (x, r_set_scope r2 sc0).
Proof.
  unfold rscope_pushed. cbn [r_scope r_set_scope r_src].
  destruct (g _) as [[a r']| |]; cbn [bind]; try reflexivity.
  destruct (debug_asserts m && _); reflexivity.
Qed.

Lemma rsn_str (w : N) (dcd : list N -> list N) len :
  rscope_nat (fun r =>
    let rem := s_len (r_src r) - s_pos (r_src r) in
    let iters := N.min len (rem / w + 1) in
    let! (codes, r) := read_chars (N.to_nat iters) w r [] in
    if iters <? len then Panic P_OTHER else
    let! v := from_utf8 (dcd codes) in Ok (v, r)).
Proof.
  apply (rsn_src_dep (fun s r =>
    let rem := s_len s - s_pos s in
    let iters := N.min len (rem / w + 1) in
    let! (codes, r) := read_chars (N.to_nat iters) w r [] in
    if iters <? len then Panic P_OTHER else
    let! v := from_utf8 (dcd codes) in Ok (v, r))).
  intros s. cbv zeta. rsn.
Qed.

Lemma read_ty_factor m t r ob r1 :
  read_bit_field_entry_st m r false = Ok (inl ob, r1) ->
  read_ty m t r =
  if ropen r1 && negb (is_choice t) then
    let! (len, r2) := r_get r1 (r_length_determinant m None None) in
    let! (x, r3) := read_whole_sub_slice m (r_set_scope r2 None) len (read_ty m t) in
    Ok (x, r_set_scope r3 (r_scope r1))
  else
    let! (x, r2) := read_ty m t (r_set_scope r1 None) in Ok (x, r_set_scope r2 (r_scope r1)).
Proof.
  destruct t as [| |k lo hi ext|c lo hi ext|lo hi ext|lo hi ext|e lo hi ext|fs so fc ea|alts std ext|vc std ext];
    try destruct c.
  all: cbn [is_choice negb]; rewrite ?andb_true_r, ?andb_false_r; revert r ob r1.
  all: try (eapply read_factor_gen;
            [|intros r' ob' r1' He'; cbn [read_ty]; unfold read_bit_field_entry; rewrite He'; cbn [bind]; reflexivity]).
  all: try solve [rsn].
  1-4: apply rsn_bind; [rsn|intros len]; apply rsn_bind0; intros u.
  1,3,4: apply (rsn_str 7 (fun c => c) len).
  1: apply (rsn_str 4 (map (fun x => if x =? 0 then 32 else 32 + 15 + x)) len).
  - apply (rsn_bind (fun r => r_get r (r_bitstring m lo hi ext))
             (fun a r0 => let '(bs, bl, buflen) := a in
                Ok (VBits (bytes_of_bits bs ++ repeat 0 (N.to_nat buflen - length (bytes_of_bits bs))) bl, r0))); [rsn|].
    intros [[bs bl] bf]. rsn.
  - intros [s sc]. cbn [r_set_scope r_src r_scope].
    destruct ea as [e|]; unfold r_get; cbn [r_src r_set_src r_set_scope bind].
    + destruct (r_bit s) as [[b s']| |]; cbn [bind r_src r_set_src r_set_scope r_scope]; try reflexivity.
      destruct (src_remaining m s') as [rem| |]; cbn [bind]; try reflexivity.
      destruct (rem <? so); try reflexivity.
      destruct (uadd m (s_pos s') so) as [stop| |]; cbn [bind]; try reflexivity.
      destruct b.
      * destruct (usub m fc (e + 1)) as [nx| |]; cbn [bind]; try reflexivity. apply rsn_pushed_at.
      * apply rsn_pushed_at.
    + destruct (src_remaining m s) as [rem| |]; cbn [bind]; try reflexivity.
      destruct (rem <? so); try reflexivity.
      destruct (uadd m (s_pos s) so) as [stop| |]; cbn [bind]; try reflexivity.
      apply rsn_pushed_at.
  - intros r ob r1 He. cbn [read_ty]. unfold read_bit_field_entry. rewrite He, rentry_none by reflexivity.
    cbn [bind]. apply (rscope_nat_stashed _ r1).
  - eapply (read_factor_gen m _ (fun r => let! (index, r) := r_get r (r_enumeration_index m std ext) in
                                            if index <? vc then Ok (VEnum index, r) else Err E_INVALID_CHOICE)).
    + apply rsn_bind; [rsn|]. intros a. rsn.
    + intros r' ob' r1' He'. cbn [read_ty]. unfold read_bit_field_entry. rewrite He'. cbn [bind].
      unfold rwith_buffer. destruct (match r_scope r1' with Some s => encode_as_open_type_field s | None => false end).
      * destruct (r_get r1' (r_length_determinant m None None)) as [[len r2]| |]; cbn [bind]; try reflexivity.
        unfold read_whole_sub_slice.
        destruct (umul m len BYTE_LEN) as [lb| |]; cbn [bind]; try reflexivity.
        destruct (uadd m (s_pos (r_src r2)) lb) as [wp| |]; cbn [bind]; try reflexivity.
        destruct (r_get r2 (r_enumeration_index m std ext)) as [[i r3]| |]; cbn [bind]; try reflexivity.
        destruct (i <? vc); reflexivity.
      * reflexivity.
Qed.



(** * the writer against [enc]: flat types, SEQUENCE OF, CHOICE *)
Definition welems (m : mode) (e : ty) :=
  fix elems (vs : list val) (w : wst) : res wst :=
    match vs with
    | [] => Ok w
    | x :: vs' => let! w := write_ty m e x w in elems vs' w
    end.
Definition enc_elems (m : mode) (e : ty) :=
  fix elems (vs : list val) : res bits :=
    match vs with
    | [] => Ok []
    | x :: r => let! a := enc m e x in let! b := elems r in Ok (a ++ b)
    end.
Definition wpick (m : mode) (x : val) (w : wst) :=
  fix pick (alts : list ty) (i : nat) : res wst :=
    match alts, i with
    | a :: _, O => write_ty m a x w
    | _ :: r, S i' => pick r i'
    | [], _ => Panic P_OTHER
    end.
Definition enc_pick (m : mode) (x : val) :=
  fix pick (alts : list ty) (i : nat) : res bits :=
    match alts, i with
    | a :: _, O => enc m a x
    | _ :: r, S i' => pick r i'
    | [], _ => Panic P_OTHER
    end.

Definition Wprop (m : mode) (t : ty) : Prop :=
  forall v w, wst_wf w -> w_scope w = None -> wsim (write_ty m t v w) w (enc m t v).

Lemma scope_stashed_none w f : w_scope w = None ->
  scope_stashed w f = let! w' := f w in Ok (w_set_scope w' None).
Proof. destruct w as [rb n sc]. cbn [w_scope]. intros ->. reflexivity. Qed.

Lemma set_none_append w b : w_scope w = None -> w_set_scope (w_append w b) None = w_append w b.
Proof. destruct w as [rb n sc]. cbn [w_scope]. intros ->. reflexivity. Qed.

Lemma not_ok_bind {A B} (r : res A) (f : A -> res B) : is_ok r = false -> is_ok (bind r f) = false.
Proof. destruct r; cbn; congruence. Qed.

Lemma write_flat_eq m t v w : w_scope w = None ->
  match t with TListOf _ _ _ _ | TSeq _ _ _ _ | TChoice _ _ _ => True
  | _ => write_ty m t v w = w_put w (enc m t v) end.
Proof.
  intros Hs.
  destruct t as [| |k lo hi ext|c lo hi ext|lo hi ext|lo hi ext|e lo hi ext|fs so fc ea|alts std ext|vc std ext];
    try exact I; try destruct c; destruct v; try reflexivity;
    cbn [write_ty enc]; rewrite entry_none by exact Hs; cbn [bind]; rewrite with_buffer_none by exact Hs;
    try reflexivity.
  - cbn [w_put bind]. rewrite w_append_nil. reflexivity.
  - unfold int_enc. destruct ext;
      match goal with |- context [if ?c then _ else _] => destruct c end;
      match goal with |- context [w_put _ ?r] => destruct r end; cbn [w_put bind app]; rewrite ?w_append_app; reflexivity.
  - destruct (negb ext && _); reflexivity.
  - destruct (find_invalid _ _); [reflexivity|]. rewrite wel_eq.
    destruct (len_hdr _ _ _ _ _ _); cbn [w_put bind]; rewrite ?w_append_app; reflexivity.
  - destruct (find_invalid _ _); [reflexivity|]. rewrite wel_eq.
    destruct (len_hdr _ _ _ _ _ _); cbn [w_put bind]; rewrite ?w_append_app; reflexivity.
  - destruct (find_invalid _ _); [reflexivity|]. rewrite wel_eq.
    destruct (len_hdr _ _ _ _ _ _); cbn [w_put bind]; rewrite ?w_append_app; reflexivity.
  - destruct (find_invalid _ _); [reflexivity|]. rewrite wel_eq.
    destruct (len_hdr _ _ _ _ _ _); cbn [w_put bind]; rewrite ?w_append_app; reflexivity.
Qed.

Lemma welems_sim m e : Wprop m e ->
  forall vs w, wst_wf w -> w_scope w = None -> wsim (welems m e vs w) w (enc_elems m e vs).
Proof.
  intros IH. induction vs as [|x vs IHl]; intros w Hw Hs; cbn [welems enc_elems].
  - cbn [wsim]. rewrite w_append_nil. reflexivity.
  - pose proof (IH x w Hw Hs) as Hx. unfold wsim in Hx.
    destruct (enc m e x) as [a| |]; cbn [bind]; try (apply not_ok_bind; exact Hx).
    rewrite Hx. cbn [bind].
    pose proof (IHl (w_append w a) (w_append_wf _ _ Hw) Hs) as Hr. unfold wsim in Hr.
    destruct (enc_elems m e vs) as [b| |]; cbn [bind wsim]; try exact Hr.
    rewrite Hr, w_append_app. reflexivity.
Qed.

Lemma W_list m e lo hi ext : Wprop m e -> Wprop m (TListOf e lo hi ext).
Proof.
  intros IH v w Hw Hs. destruct v; try reflexivity.
  cbn [write_ty enc]. rewrite entry_none by exact Hs. cbn [bind]. rewrite with_buffer_none by exact Hs.
  rewrite scope_stashed_none by exact Hs. rewrite wel_eq.
  change (fix elems (vs0 : list val) : res bits := match vs0 with [] => Ok [] | x :: r => let! a := enc m e x in let! b := elems r in Ok (a ++ b) end) with (enc_elems m e).
  change (fix elems (vs0 : list val) (w5 : wst) {struct vs0} : res wst := match vs0 with [] => Ok w5 | x :: vs' => let! w6 := write_ty m e x w5 in elems vs' w6 end) with (welems m e).
  destruct (len_hdr m ext lo hi I64_MAX (N.of_nat (length vs))) as [h| |]; cbn [w_put bind wsim]; try reflexivity.
  rewrite scope_stashed_none by exact Hs.
  pose proof (welems_sim m e IH vs (w_append w h) (w_append_wf _ _ Hw) Hs) as Hr. unfold wsim in Hr.
  destruct (enc_elems m e vs) as [b| |]; cbn [bind].
  - rewrite Hr. cbn [bind]. rewrite w_append_app, !set_none_append by exact Hs. reflexivity.
  - destruct (welems m e vs (w_append w h)); try discriminate Hr; reflexivity.
  - destruct (welems m e vs (w_append w h)); try discriminate Hr; reflexivity.
Qed.

Lemma wpick_sim m x : forall alts, Forall (Wprop m) alts ->
  forall i w, wst_wf w -> w_scope w = None -> wsim (wpick m x w alts i) w (enc_pick m x alts i).
Proof.
  induction alts as [|a alts IHl]; intros F i w Hw Hs; cbn [wpick enc_pick]; [reflexivity|].
  apply Forall_cons_iff in F. destruct F as [Ha F]. destruct i as [|i]; [apply Ha; assumption|].
  apply IHl; assumption.
Qed.

Lemma wpick_guard m x w : forall alts i, (length alts <= i)%nat -> wpick m x w alts i = Panic P_OTHER.
Proof.
  induction alts as [|a alts IH]; intros i H; [destruct i; reflexivity|].
  destruct i as [|i]; [cbn [length] in H; lia|]. cbn [wpick]. apply IH. cbn [length] in H. lia.
Qed.

Lemma wpick_guarded m x w alts index :
  (if N.of_nat (length alts) <=? index then Panic P_OTHER else wpick m x w alts (N.to_nat index))
  = wpick m x w alts (N.to_nat index).
Proof.
  destruct (N.leb_spec (N.of_nat (length alts)) index); [|reflexivity].
  symmetry. apply wpick_guard. lia.
Qed.

Lemma W_choice m alts std ext : Forall (Wprop m) alts -> Wprop m (TChoice alts std ext).
Proof.
  intros F v w Hw Hs. destruct v; try reflexivity.
  cbn [write_ty enc]. rewrite entry_none by exact Hs. cbn [bind].
  rewrite scope_stashed_none by exact Hs.
  change (fix pick (alts0 : list ty) (i : nat) {struct alts0} : res bits :=
            match alts0 with [] => Panic P_OTHER | a :: r => match i with 0%nat => enc m a v | S i' => pick r i' end end)
    with (enc_pick m v).
  destruct (w_enumeration_index m std ext index) as [ib| |]; cbn [w_put bind wsim]; try reflexivity.
  destruct (std <=? index).
  - match goal with |- context [bind (if _ then Panic P_OTHER else ?X) _] =>
      change X with (wpick m v w_empty alts (N.to_nat index)) end.
    rewrite wpick_guarded.
    pose proof (wpick_sim m v alts F (N.to_nat index) w_empty w_empty_wf eq_refl) as Hr. unfold wsim in Hr.
    destruct (enc_pick m v alts (N.to_nat index)) as [cb| |]; cbn [bind].
    + rewrite Hr. cbn [bind]. rewrite w_bits_empty_append. fold (wrap_open m cb).
      destruct (wrap_open m cb) as [wb| |]; cbn [w_put bind]; try reflexivity.
      rewrite w_append_app, set_none_append by exact Hs. reflexivity.
    + destruct (wpick m v w_empty alts (N.to_nat index)); try discriminate Hr; reflexivity.
    + destruct (wpick m v w_empty alts (N.to_nat index)); try discriminate Hr; reflexivity.
  - match goal with |- context [bind (if _ then Panic P_OTHER else ?X) _] =>
      change X with (wpick m v (w_append w ib) alts (N.to_nat index)) end.
    rewrite wpick_guarded.
    pose proof (wpick_sim m v alts F (N.to_nat index) (w_append w ib) (w_append_wf _ _ Hw) Hs) as Hr. unfold wsim in Hr.
    destruct (enc_pick m v alts (N.to_nat index)) as [cb| |]; cbn [bind].
    + rewrite Hr. cbn [bind]. rewrite w_append_app, set_none_append by exact Hs. reflexivity.
    + destruct (wpick _ _ _ _ _); try discriminate Hr; reflexivity.
    + destruct (wpick _ _ _ _ _); try discriminate Hr; reflexivity.
Qed.



(** * octet padding: bytes_of_bits / bits_of_bytes *)
Definition pad8 (n : nat) : nat := ((8 - n mod 8) mod 8)%nat.

Lemma byte_bits_of_bits8 b0 b1 b2 b3 b4 b5 b6 b7 :
  byte_bits (byte_of_bits [b0; b1; b2; b3; b4; b5; b6; b7]) = [b0; b1; b2; b3; b4; b5; b6; b7]
  /\ byte_of_bits [b0; b1; b2; b3; b4; b5; b6; b7] < 256.
Proof. destruct b0, b1, b2, b3, b4, b5, b6, b7; vm_compute; split; reflexivity. Qed.

Lemma byte_of_bits_pad l : (length l <= 8)%nat ->
  byte_of_bits l = byte_of_bits (l ++ repeat false (8 - length l)).
Proof.
  intros H. unfold byte_of_bits.
  assert (E : forall i, nth i (l ++ repeat false (8 - length l)) false = nth i l false).
  { intros i. destruct (Nat.lt_ge_cases i (length l)) as [L|L].
    - apply app_nth1. exact L.
    - rewrite app_nth2 by exact L. rewrite (nth_overflow l) by exact L.
      destruct (Nat.lt_ge_cases (i - length l) (8 - length l)) as [L2|L2].
      + apply nth_repeat.
      + apply nth_overflow. rewrite repeat_length. exact L2. }
  rewrite !E. reflexivity.
Qed.

Lemma list8 {A} (l : list A) : length l = 8%nat ->
  exists a b c d e f g h, l = [a; b; c; d; e; f; g; h].
Proof.
  destruct l as [|a [|b [|c [|d [|e [|f [|g [|h [|i l]]]]]]]]]; cbn [length]; intros H; try discriminate H.
  repeat eexists.
Qed.

Lemma bytes_of_bits_fuel_spec : forall fuel l, (length l < fuel)%nat ->
  bits_of_bytes (bytes_of_bits_fuel fuel l) = l ++ repeat false (pad8 (length l))
  /\ Forall (fun b => b < 256) (bytes_of_bits_fuel fuel l).
Proof.
  induction fuel as [|fuel IH]; intros l Hl; [lia|].
  cbn [bytes_of_bits_fuel]. destruct l as [|b0 l0] eqn:El; [split; [reflexivity|constructor]|].
  assert (Hne : (1 <= length l)%nat) by (rewrite El; cbn [length]; lia).
  rewrite <- El in *. clear El b0 l0.
  destruct (Nat.lt_ge_cases (length l) 8) as [Hs|Hs].
  - (* last, partial octet *)
    assert (Hsk : skipn 8 l = []) by (apply skipn_all2; lia).
    assert (Hfi : firstn 8 l = l) by (apply firstn_all2; lia).
    rewrite Hsk, Hfi.
    assert (Hn : bytes_of_bits_fuel fuel [] = []) by (destruct fuel; reflexivity).
    rewrite Hn. rewrite byte_of_bits_pad by lia.
    destruct (list8 (l ++ repeat false (8 - length l))) as (a & b & c & d & e & f & g & h & E).
    { rewrite app_length, repeat_length. lia. }
    rewrite E. destruct (byte_bits_of_bits8 a b c d e f g h) as [E1 E2].
    split.
    + rewrite bits_cons, E1. cbn [bits_of_bytes flat_map]. rewrite app_nil_r, <- E.
      f_equal. f_equal. unfold pad8.
      clear - Hs Hne. revert Hs Hne. generalize (length l). intros n Hs Hne.
      destruct n as [|[|[|[|[|[|[|[|k]]]]]]]]; try reflexivity; lia.
    + constructor; [exact E2|constructor].
  - destruct (IH (skipn 8 l)) as [I1 I2]; [rewrite skipn_length; lia|].
    destruct (list8 (firstn 8 l)) as (a & b & c & d & e & f & g & h & E); [rewrite firstn_length; lia|].
    rewrite E. destruct (byte_bits_of_bits8 a b c d e f g h) as [E1 E2].
    split.
    + rewrite bits_cons, E1, I1, <- E. rewrite app_assoc, firstn_skipn. f_equal. f_equal.
      rewrite skipn_length. unfold pad8.
      replace (length l) with (length l - 8 + 1 * 8)%nat at 2 by lia.
      rewrite Nat.mod_add by lia. reflexivity.
    + constructor; assumption.
Qed.

Lemma bits_of_bytes_of_bits l :
  bits_of_bytes (bytes_of_bits l) = l ++ repeat false (pad8 (length l)).
Proof. apply bytes_of_bits_fuel_spec. lia. Qed.
Lemma bytes_of_bits_bytes l : Forall (fun b => b < 256) (bytes_of_bits l).
Proof. apply bytes_of_bits_fuel_spec. lia. Qed.

Lemma bytes_of_bits_unique l bytes k : Forall (fun b => b < 256) bytes ->
  bits_of_bytes bytes = l ++ repeat false k -> (k < 8)%nat ->
  bytes_of_bits l = bytes.
Proof.
  intros Fb E Hk. apply bits_inj; [apply bytes_of_bits_bytes|exact Fb|].
  rewrite bits_of_bytes_of_bits, E. f_equal. f_equal.
  pose proof (f_equal (@length bool) E) as EL. rewrite bits_length, app_length, repeat_length in EL.
  unfold pad8.
  assert (length l = (8 * length bytes - k))%nat by lia.
  destruct (Nat.eq_dec k 0) as [->|Hk0].
  - replace (length l) with (0 + length bytes * 8)%nat by lia. rewrite Nat.mod_add by lia. reflexivity.
  - assert (1 <= length bytes)%nat by lia.
    replace (length l) with ((8 - k) + (length bytes - 1) * 8)%nat by lia.
    rewrite Nat.mod_add by lia. rewrite (Nat.mod_small (8 - k)) by lia.
    rewrite Nat.mod_small by lia. lia.
Qed.

Lemma bytes_of_bits_of_bytes bytes : Forall (fun b => b < 256) bytes ->
  bytes_of_bits (bits_of_bytes bytes) = bytes.
Proof.
  intros F. apply (bytes_of_bits_unique _ _ 0%nat F); [|lia]. cbn [repeat]. rewrite app_nil_r. reflexivity.
Qed.

Lemma bytes_of_bits_len l : blen (bytes_of_bits l) = (bl l + 7) / 8.
Proof.
  pose proof (f_equal (@length bool) (bits_of_bytes_of_bits l)) as E.
  rewrite bits_length, app_length, repeat_length in E. unfold blen, bl, pad8 in *.
  generalize dependent (length (bytes_of_bits l)). intros L E.
  pose proof (Nat.div_mod (length l) 8 ltac:(lia)) as D.
  pose proof (Nat.mod_upper_bound (length l) 8 ltac:(lia)) as U.
  destruct (Nat.eq_dec (length l mod 8) 0) as [Z|NZ].
  - rewrite Z in *. change ((8 - 0) mod 8)%nat with 0%nat in E.
    apply N.div_unique with (r := 7); lia.
  - rewrite (Nat.mod_small (8 - length l mod 8)) in E by lia.
    apply N.div_unique with (r := N.of_nat (length l mod 8) - 1); lia.
Qed.

(** * integers: from_i64 after to_i64 *)
Lemma from_to_i64 k z : ik_fitsb k z = true -> from_i64 k (to_i64 z) = z.
Proof.
  intros H. unfold to_i64, i64_of_u64, u64_of_i64.
  assert (E64 : Z.of_N two64 = 18446744073709551616%Z) by reflexivity.
  assert (E63 : two63 = 9223372036854775808) by reflexivity.
  rewrite E64.
  assert (Hq : exists q, (if N.ltb (Z.to_N (z mod 18446744073709551616)) two63
                          then Z.of_N (Z.to_N (z mod 18446744073709551616))
                          else Z.of_N (Z.to_N (z mod 18446744073709551616)) - 18446744073709551616)%Z
                         = (z + q * 18446744073709551616)%Z).
  { pose proof (Z.mod_pos_bound z 18446744073709551616 ltac:(lia)) as B.
    pose proof (Z.div_mod z 18446744073709551616 ltac:(lia)) as D.
    destruct (N.ltb_spec (Z.to_N (z mod 18446744073709551616)) two63).
    - exists (- (z / 18446744073709551616))%Z. lia.
    - exists (- (z / 18446744073709551616) - 1)%Z. lia. }
  destruct Hq as [q ->].
  unfold from_i64, ik_fitsb in *.
  destruct k; cbn [ik_signed ik_bits] in *;
    match goal with |- context [(2 ^ Z.of_N ?b)%Z] =>
      let v := eval vm_compute in (2 ^ Z.of_N b)%Z in change (2 ^ Z.of_N b)%Z with v in * end;
    match goal with |- context [((?zz + ?qq * 18446744073709551616) mod ?M)%Z] =>
      replace ((zz + qq * 18446744073709551616) mod M)%Z with (zz mod M)%Z
        by (replace (qq * 18446744073709551616)%Z with ((qq * (18446744073709551616 / M)) * M)%Z
              by (cbn; lia); rewrite Z.mod_add by lia; reflexivity) end.
  all: try (rewrite Z.mod_small by lia; reflexivity).
  all: cbn in H.
  all: match goal with |- context [(?zz mod ?M)%Z] =>
         pose proof (Z.mod_pos_bound zz M ltac:(lia)) as B; pose proof (Z.div_mod zz M ltac:(lia)) as D end.
  all: match goal with |- context [(?M / 2)%Z] => let v := eval vm_compute in (M / 2)%Z in change (M / 2)%Z with v end.
  all: match goal with |- (if ?c then _ else _) = _ => destruct c eqn:C end; lia.
Qed.



Ltac dlia := Z.to_euclidean_division_equations; lia.

(** * UTF-8 *)
Lemma utf8_char_decode fuel c rest : scalar c ->
  utf8_decode_fuel (S fuel) (utf8_char c ++ rest) = option_map (cons c) (utf8_decode_fuel fuel rest).
Proof.
  intros Hc. unfold scalar in Hc. unfold utf8_char.
  destruct (N.ltb_spec c 128) as [H1|H1].
  { cbn [app utf8_decode_fuel]. destruct (N.ltb_spec c 128); [reflexivity|lia]. }
  destruct (N.ltb_spec c 2048) as [H2|H2].
  { cbn [app utf8_decode_fuel].
    assert (A1 : 192 + c / 64 <? 128 = false) by (apply N.ltb_ge; zify; dlia).
    assert (A2 : (194 <=? 192 + c / 64) && (192 + c / 64 <? 224) = true).
    { apply andb_true_iff. split; [apply N.leb_le|apply N.ltb_lt]; zify; dlia. }
    assert (A3 : is_cont (128 + c mod 64) = true).
    { unfold is_cont. apply andb_true_iff. split; [apply N.leb_le|apply N.ltb_lt]; zify; dlia. }
    rewrite A1, A2, A3. do 2 f_equal. zify; dlia. }
  destruct (N.ltb_spec c 65536) as [H3|H3].
  { cbn [app utf8_decode_fuel].
    assert (A1 : 224 + c / 4096 <? 128 = false) by (apply N.ltb_ge; zify; dlia).
    assert (A2 : (194 <=? 224 + c / 4096) && (224 + c / 4096 <? 224) = false).
    { apply andb_false_iff. right. apply N.ltb_ge. lia. }
    assert (A2' : (224 <=? 224 + c / 4096) && (224 + c / 4096 <? 240) = true).
    { apply andb_true_iff. split; [apply N.leb_le|apply N.ltb_lt]; zify; dlia. }
    assert (A3 : is_cont (128 + (c / 64) mod 64) = true).
    { unfold is_cont. apply andb_true_iff. split; [apply N.leb_le|apply N.ltb_lt]; zify; dlia. }
    assert (A4 : is_cont (128 + c mod 64) = true).
    { unfold is_cont. apply andb_true_iff. split; [apply N.leb_le|apply N.ltb_lt]; zify; dlia. }
    assert (E : (224 + c / 4096 - 224) * 4096 + (128 + (c / 64) mod 64 - 128) * 64 + (128 + c mod 64 - 128) = c)
      by (zify; dlia).
    rewrite A1, A2, A2', A3, A4, E. cbn [andb].
    destruct (N.leb_spec 2048 c); [|lia]. cbn [andb].
    assert (A5 : (55296 <=? c) && (c <? 57344) = false).
    { apply andb_false_iff. destruct Hc as [Hc|Hc]; [left; apply N.leb_gt; lia|right; apply N.ltb_ge; lia]. }
    rewrite A5. reflexivity. }
  cbn [app utf8_decode_fuel].
  assert (Hc' : c < 1114112) by lia.
  assert (A1 : 240 + c / 262144 <? 128 = false) by (apply N.ltb_ge; zify; dlia).
  assert (A2 : (194 <=? 240 + c / 262144) && (240 + c / 262144 <? 224) = false).
  { apply andb_false_iff. right. apply N.ltb_ge. lia. }
  assert (A2' : (224 <=? 240 + c / 262144) && (240 + c / 262144 <? 240) = false).
  { apply andb_false_iff. right. apply N.ltb_ge. lia. }
  assert (A2'' : (240 <=? 240 + c / 262144) && (240 + c / 262144 <? 245) = true).
  { apply andb_true_iff. split; [apply N.leb_le|apply N.ltb_lt]; zify; dlia. }
  assert (A3 : is_cont (128 + (c / 4096) mod 64) = true).
  { unfold is_cont. apply andb_true_iff. split; [apply N.leb_le|apply N.ltb_lt]; zify; dlia. }
  assert (A4 : is_cont (128 + (c / 64) mod 64) = true).
  { unfold is_cont. apply andb_true_iff. split; [apply N.leb_le|apply N.ltb_lt]; zify; dlia. }
  assert (A5 : is_cont (128 + c mod 64) = true).
  { unfold is_cont. apply andb_true_iff. split; [apply N.leb_le|apply N.ltb_lt]; zify; dlia. }
  assert (E : (240 + c / 262144 - 240) * 262144 + (128 + (c / 4096) mod 64 - 128) * 4096
              + (128 + (c / 64) mod 64 - 128) * 64 + (128 + c mod 64 - 128) = c) by (zify; dlia).
  rewrite A1, A2, A2', A2'', A3, A4, A5, E. cbn [andb].
  destruct (N.leb_spec 65536 c); [|lia]. destruct (N.ltb_spec c 1114112); [|lia]. reflexivity.
Qed.

Lemma utf8_roundtrip_fuel : forall cs fuel, (length cs < fuel)%nat -> Forall scalar cs ->
  utf8_decode_fuel fuel (utf8_encode cs) = Some cs.
Proof.
  induction cs as [|c cs IH]; intros fuel Hf F.
  - destruct fuel; [lia|reflexivity].
  - destruct fuel as [|fuel]; [lia|]. apply Forall_cons_iff in F. destruct F as [Hc F].
    unfold utf8_encode. cbn [flat_map]. rewrite utf8_char_decode by exact Hc.
    fold (utf8_encode cs). rewrite IH by (cbn [length] in Hf; try lia; exact F). reflexivity.
Qed.

Lemma utf8_char_len c : (1 <= length (utf8_char c))%nat.
Proof. unfold utf8_char. destruct (c <? 128), (c <? 2048), (c <? 65536); cbn [length]; lia. Qed.
Lemma utf8_encode_len cs : (length cs <= length (utf8_encode cs))%nat.
Proof.
  induction cs as [|c cs IH]; [cbn; lia|]. unfold utf8_encode. cbn [flat_map length].
  rewrite app_length. fold (utf8_encode cs). pose proof (utf8_char_len c). lia.
Qed.

Lemma utf8_roundtrip cs : Forall scalar cs -> utf8_decode (utf8_encode cs) = Some cs.
Proof.
  intros F. unfold utf8_decode. apply utf8_roundtrip_fuel; [|exact F].
  pose proof (utf8_encode_len cs). lia.
Qed.

Lemma utf8_char_bytes c : scalar c -> Forall (fun b => b < 256) (utf8_char c).
Proof.
  intros Hc. unfold scalar in Hc. unfold utf8_char.
  destruct (N.ltb_spec c 128); [repeat constructor; lia|].
  destruct (N.ltb_spec c 2048); [repeat constructor; zify; dlia|].
  destruct (N.ltb_spec c 65536); repeat constructor; zify; dlia.
Qed.
Lemma utf8_encode_bytes cs : Forall scalar cs -> Forall (fun b => b < 256) (utf8_encode cs).
Proof.
  induction 1 as [|c cs Hc _ IH]; [constructor|]. unfold utf8_encode. cbn [flat_map].
  apply Forall_app. split; [apply utf8_char_bytes; exact Hc|exact IH].
Qed.

Lemma utf8_ascii cs : Forall (fun c => c < 128) cs -> utf8_encode cs = cs.
Proof.
  induction 1 as [|c cs Hc _ IH]; [reflexivity|]. unfold utf8_encode. cbn [flat_map]. fold (utf8_encode cs).
  rewrite IH. unfold utf8_char. destruct (N.ltb_spec c 128); [reflexivity|lia].
Qed.
Lemma from_utf8_ascii cs : Forall (fun c => c < 128) cs -> from_utf8 cs = Ok (VStr cs).
Proof.
  intros F. unfold from_utf8. rewrite <- (utf8_ascii cs F) at 1. rewrite utf8_roundtrip; [reflexivity|].
  eapply Forall_impl; [|exact F]. intros c Hc. left. cbv beta in Hc. lia.
Qed.

(** * restricted character strings *)
Definition cwidth (c : cset) : N := match c with Numeric => 4 | _ => 7 end.
Definition cdecode (c : cset) (x : N) : N :=
  match c with Numeric => if x =? 0 then 32 else 32 + 15 + x | _ => x end.

Lemma find_invalid_false c cs : find_invalid c cs = false -> Forall (fun ch => cs_valid c ch = true) cs.
Proof.
  induction cs as [|ch cs IH]; cbn [find_invalid]; intros H; [constructor|].
  apply orb_false_iff in H. destruct H as [H1 H2]. constructor; [|apply IH; exact H2].
  destruct (cs_valid c ch); [reflexivity|discriminate H1].
Qed.

Lemma cs_valid_ascii c ch : c <> Utf8 -> cs_valid c ch = true -> ch < 128.
Proof.
  intros Hc H. destruct c; try congruence; cbn [cs_valid] in H; lia.
Qed.

Lemma byte_bits_bov b : byte_bits b = bits_of_val 8 b.
Proof. reflexivity. Qed.

Lemma char_bits_spec c ch : c <> Utf8 -> cs_valid c ch = true ->
  bl (char_bits c ch) = cwidth c /\ cdecode c (val_of_bits (char_bits c ch)) = ch.
Proof.
  intros Hc Hv. pose proof (cs_valid_ascii c ch Hc Hv) as Ha.
  assert (Em : ch mod 256 = ch) by (apply N.mod_small; lia).
  destruct c; try congruence; unfold char_bits; rewrite Em; cbn [cwidth cdecode].
  1,3,4: rewrite byte_bits_bov; change 8%nat with (1 + 7)%nat; rewrite bov_skipn;
         split; [unfold bl; rewrite bov_length; reflexivity|apply vob_bov_small; cbn; lia].
  cbn [cs_valid] in Hv.
  rewrite byte_bits_bov. change 8%nat with (4 + 4)%nat. rewrite bov_skipn.
  split; [unfold bl; rewrite bov_length; reflexivity|].
  destruct (N.eqb_spec (ch - 32) 0) as [E|E].
  - assert (ch = 32) by lia. subst ch. reflexivity.
  - assert (E2 : (ch - 32 - 15) mod 256 = ch - 47) by (rewrite N.mod_small; lia).
    rewrite E2. rewrite vob_bov_small by (cbn; lia).
    destruct (N.eqb_spec (ch - 47) 0); lia.
Qed.



(** * the reader against [enc] *)
(* the source keeps its whole buffer: absolute positions (presence bits, open-type ends) are
   meaningful; the declared length is a usize *)
Definition src_ok (s : src) : Prop :=
  s_rest s = skipn (N.to_nat (s_pos s)) (s_all s) /\ s_len s < two64.
Definition rsrc (s : src) (bs tail : bits) : Prop := at_src s bs tail /\ src_ok s.

Definition Rprop (m : mode) (t : ty) : Prop :=
  wf_ty t -> forall v bs, enc m t v = Ok bs -> wf_val t v -> ~ Known_C01 m t v ->
  forall s tail, rsrc s bs tail ->
  read_ty m t (r_of_src s) = Ok (v, r_of_src (src_adv s (bl bs) tail)).

Lemma r_get_of_src {A} s (f : src -> res (A * src)) :
  r_get (r_of_src s) f = let! (a, s') := f s in Ok (a, r_of_src s').
Proof. reflexivity. Qed.

Lemma src_adv_nil s tail : at_src s [] tail -> src_adv s 0 tail = s.
Proof. intros (E & _). cbn [app] in E. rewrite <- E. apply src_adv_0. Qed.

Lemma skipn_app_exact {A} (a b : list A) n : n = length a -> skipn n (a ++ b) = b.
Proof. intros ->. rewrite skipn_app, Nat.sub_diag, skipn_all. reflexivity. Qed.

Lemma src_ok_adv s bs tail : src_ok s -> at_src s bs tail -> src_ok (src_adv s (bl bs) tail).
Proof.
  intros (E & L) (R & _). unfold src_ok, src_adv. cbn [s_rest s_pos s_all s_len]. split; [|exact L].
  replace (N.to_nat (s_pos s + bl bs)) with (N.to_nat (s_pos s) + length bs)%nat by (unfold bl; lia).
  rewrite <- skipn_skipn', <- E, R. symmetry. apply skipn_app_exact. reflexivity.
Qed.

Lemma rsrc_split s a b tail : rsrc s (a ++ b) tail ->
  rsrc s a (b ++ tail) /\ rsrc (src_adv s (bl a) (b ++ tail)) b tail.
Proof.
  intros [H O]. apply at_src_split in H. destruct H as [H1 H2].
  split; split; auto. apply src_ok_adv; assumption.
Qed.

Lemma len_hdr_read m ext lo hi up n h s tail :
  len_hdr m ext lo hi up n = Ok h -> ~ Known_C01_len lo hi up n -> at_src s h tail ->
  read_len_ext m (r_of_src s) ext lo hi = Ok (n, r_of_src (src_adv s (bl h) tail)) /\ n < 65536.
Proof.
  unfold len_hdr, read_len_ext. intros He Hk Hs.
  assert (Hunc : forall s' tl, n < 16384 -> at_src s' (x_len_first n) tl ->
            r_length_determinant m None None s' = Ok (n, src_adv s' (bl (x_len_first n)) tl)).
  { intros s' tl Hn Hs'.
    assert (Ex : x_length None None n = Some (x_len_first n)).
    { unfold x_length. destruct (N.leb_spec 0 n); [reflexivity|lia]. }
    rewrite (length_read m None None n (x_len_first n) s' tl); [|intros C; apply C; reflexivity|exact Ex|exact Hs'].
    unfold len_result, len_frag. rewrite frag_of_short by exact Hn. reflexivity. }
  destruct ((n <? opt_or lo 0) || (opt_or hi up <? n)) eqn:Eo.
  - destruct ext; cbn [negb] in He; [|discriminate He].
    rewrite w_len_unc in He. cbn [bind app] in He. injection He as <-.
    assert (Hn : n < 16384).
    { destruct (N.lt_ge_cases n 16384) as [L|L]; [exact L|]. exfalso. apply Hk. right. split; [exact L|].
      left. unfold count_in_range. lia. }
    apply at_src_cons in Hs. destruct Hs as [H1 H2].
    rewrite r_get_of_src, (r_bit_ok _ _ _ H1). cbn [bind]. rewrite r_get_of_src.
    rewrite (Hunc _ _ Hn H2). cbn [bind]. rewrite src_adv_adv, bl_cons. split; [reflexivity|lia].
  - assert (Hin : count_in_range lo hi up n) by (unfold count_in_range; lia).
    assert (Hnk : ~ Known_C10_length_semi_or_large_bound lo hi).
    { intros C. apply Hk. left. split; assumption. }
    destruct (w_length_determinant m lo hi n) as [[b fs]| |] eqn:Ew; cbn [bind] in He; try discriminate He.
    injection He as <-.
    destruct (x_length lo hi n) as [xb|] eqn:Ex.
    2:{ rewrite (length_reject m lo hi n Hnk Ex) in Ew. discriminate Ew. }
    rewrite (length_write m lo hi n xb Hnk Ex) in Ew. injection Ew as <- _.
    assert (Hres : len_result hi n = n /\ n < 65536).
    { destruct (not_known_cases lo hi Hnk) as [(u & -> & Hu)|[-> ->]].
      - split; [reflexivity|]. destruct Hin as [_ Hin]. cbn [opt_or] in Hin. lia.
      - assert (Hn : n < 16384).
        { destruct (N.lt_ge_cases n 16384) as [L|L]; [exact L|]. exfalso. apply Hk. right. split; [exact L|].
          right. split; reflexivity. }
        unfold len_result, len_frag. rewrite frag_of_short by exact Hn. split; [reflexivity|lia]. }
    destruct Hres as [Hres Hlt].
    destruct ext.
    + apply at_src_cons in Hs. destruct Hs as [H1 H2].
      rewrite r_get_of_src, (r_bit_ok _ _ _ H1). cbn [bind]. rewrite r_get_of_src.
      rewrite (length_read m lo hi n xb _ _ Hnk Ex H2), Hres. cbn [bind].
      rewrite src_adv_adv. cbn [app]. rewrite bl_cons. split; [reflexivity|exact Hlt].
    + cbn [app] in *. rewrite r_get_of_src, (length_read m lo hi n xb _ _ Hnk Ex Hs), Hres. split; [reflexivity|exact Hlt].
Qed.

Lemma read_chars_spec c : c <> Utf8 -> forall cs s tail acc,
  Forall (fun ch => cs_valid c ch = true) cs ->
  at_src s (flat_map (char_bits c) cs) tail ->
  exists codes, read_chars (length cs) (cwidth c) (r_of_src s) acc
    = Ok (rev acc ++ codes, r_of_src (src_adv s (bl (flat_map (char_bits c) cs)) tail))
    /\ map (cdecode c) codes = cs.
Proof.
  intros Hc. induction cs as [|ch cs IH]; intros s tail acc F Hs.
  - exists []. cbn [length read_chars flat_map map]. unfold frev. rewrite rev_append_rev, !app_nil_r.
    rewrite bl_nil, (src_adv_nil _ _ Hs). split; reflexivity.
  - apply Forall_cons_iff in F. destruct F as [Hv F]. cbn [flat_map] in *.
    apply at_src_split in Hs. destruct Hs as [H1 H2].
    destruct (char_bits_spec c ch Hc Hv) as [Hl Hd].
    cbn [length read_chars]. rewrite r_get_of_src.
    rewrite (r_bits_into_ok _ _ _ 8 (8 - cwidth c) (cwidth c) H1) by (rewrite ?Hl; destruct c; cbn [cwidth]; lia).
    cbn [bind]. rewrite Hl in H2.
    destruct (IH _ _ (val_of_bits (char_bits c ch) :: acc) F H2) as (codes & E & M).
    exists (val_of_bits (char_bits c ch) :: codes). rewrite E. split.
    + cbn [rev]. rewrite <- app_assoc. cbn [app]. rewrite src_adv_adv, bl_app, Hl. reflexivity.
    + cbn [map]. rewrite Hd, M. reflexivity.
Qed.

Lemma w_octet_ok_x m lo hi ext bytes bs : blen bytes < two63 -> ~ Known_C10_sized_length lo hi (blen bytes) ->
  w_octetstring m lo hi ext bytes = Ok bs -> x_octetstring lo hi ext bytes = Some bs.
Proof.
  intros H1 H2 H. rewrite octetstring_write in H by assumption.
  destruct (x_octetstring lo hi ext bytes); [congruence|discriminate H].
Qed.

Lemma char_bits_total c : c <> Utf8 -> forall cs, Forall (fun ch => cs_valid c ch = true) cs ->
  bl (flat_map (char_bits c) cs) = N.of_nat (length cs) * cwidth c.
Proof.
  intros Hc. induction 1 as [|ch cs Hv _ IH]; [reflexivity|].
  cbn [flat_map length]. rewrite bl_app, IH. destruct (char_bits_spec c ch Hc Hv) as [-> _]. lia.
Qed.

Lemma str_read m c lo hi ext chars h s tail :
  c <> Utf8 -> find_invalid c chars = false ->
  len_hdr m ext lo hi U64_MAX (N.of_nat (length chars)) = Ok h ->
  ~ Known_C01_len lo hi U64_MAX (N.of_nat (length chars)) ->
  at_src s (h ++ flat_map (char_bits c) chars) tail ->
  (let! (len, r) := read_len_ext m (r_of_src s) ext lo hi in
   let! _ := alloc len in
   let rem := s_len (r_src r) - s_pos (r_src r) in
   let iters := N.min len (rem / cwidth c + 1) in
   let! (codes, r) := read_chars (N.to_nat iters) (cwidth c) r [] in
   if iters <? len then Panic P_OTHER else
   let! v := from_utf8 (match c with
                        | Numeric => map (fun x => if x =? 0 then 32 else 32 + 15 + x) codes
                        | _ => codes end) in Ok (v, r))
  = Ok (VStr chars, r_of_src (src_adv s (bl (h ++ flat_map (char_bits c) chars)) tail)).
Proof.
  intros Hc Hf Hh Hk Hs. apply at_src_split in Hs. destruct Hs as [H1 H2].
  destruct (len_hdr_read m ext lo hi U64_MAX _ h s _ Hh Hk H1) as [E Hn]. rewrite E. cbn [bind].
  rewrite alloc_ok by (unfold ALLOC_LIMIT; lia). cbn [bind]. cbv zeta.
  pose proof (find_invalid_false c chars Hf) as Fv.
  assert (Hit : N.min (N.of_nat (length chars))
                  ((s_len (r_src (r_of_src (src_adv s (bl h) (flat_map (char_bits c) chars ++ tail))))
                    - s_pos (r_src (r_of_src (src_adv s (bl h) (flat_map (char_bits c) chars ++ tail))))) / cwidth c + 1)
                = N.of_nat (length chars)).
  { cbn [r_src r_of_src]. destruct H2 as (_ & L & _). rewrite (char_bits_total c Hc chars Fv) in L.
    apply N.min_l.
    assert (W : 0 < cwidth c) by (destruct c; cbn; lia).
    assert (D : N.of_nat (length chars) <=
                (s_len (src_adv s (bl h) (flat_map (char_bits c) chars ++ tail))
                 - s_pos (src_adv s (bl h) (flat_map (char_bits c) chars ++ tail))) / cwidth c).
    { apply N.div_le_lower_bound; lia. }
    lia. }
  rewrite Hit. rewrite Nat2N.id.
  destruct (read_chars_spec c Hc chars _ tail [] Fv H2) as (codes & Er & Em).
  rewrite Er. cbn [bind rev app]. rewrite N.ltb_irrefl.
  assert (Ed : match c with
               | Numeric => map (fun x => if x =? 0 then 32 else 32 + 15 + x) codes
               | _ => codes end = chars).
  { rewrite <- Em. destruct c; try reflexivity; cbn [cdecode]; rewrite map_id; reflexivity. }
  rewrite Ed, from_utf8_ascii.
  - cbn [bind]. rewrite src_adv_adv, bl_app. reflexivity.
  - eapply Forall_impl; [|exact Fv]. intros ch Hv. apply (cs_valid_ascii c ch Hc Hv).
Qed.

Lemma canonical_content bytes n : canonical_bits bytes n ->
  let content := firstn (N.to_nat n) (bits_of_bytes bytes) in
  bl content = n /\ bytes_of_bits content = bytes /\ n <= 8 * blen bytes.
Proof.
  intros (Fb & Hl & Hp) content.
  assert (Hle : n <= 8 * blen bytes).
  { rewrite Hl. pose proof (N.div_mod (n + 7) 8 ltac:(lia)). pose proof (N.mod_lt (n + 7) 8 ltac:(lia)). lia. }
  assert (Hlt : 8 * blen bytes - n < 8).
  { rewrite Hl. pose proof (N.div_mod (n + 7) 8 ltac:(lia)). pose proof (N.mod_lt (n + 7) 8 ltac:(lia)). lia. }
  split; [|split; [|exact Hle]].
  - unfold content, bl. rewrite firstn_length, bits_length. unfold blen in Hle. lia.
  - apply (bytes_of_bits_unique _ _ (N.to_nat (8 * blen bytes - n)) Fb); [|lia].
    unfold content. rewrite <- Hp. symmetry. apply firstn_skipn.
Qed.

Lemma R_flat m t :
  match t with TListOf _ _ _ _ | TSeq _ _ _ _ | TChoice _ _ _ => True | _ => Rprop m t end.
Proof.
  destruct t as [| |k lo hi ext|c lo hi ext|lo hi ext|lo hi ext|e lo hi ext|fs so fc ea|alts std ext|vc std ext];
    try exact I; intros Hty v bs He Hv Hk s tail [Hs Ho]; destruct v; try discriminate He; try contradiction Hv;
    cbn [enc] in He; cbn [read_ty]; rewrite rentry_none' by reflexivity; cbn [bind].
  - (* BOOLEAN *) injection He as <-. rewrite rwith_buffer_none by reflexivity.
    rewrite r_get_of_src, (r_bit_ok _ _ _ Hs). reflexivity.
  - (* NULL *) injection He as <-. rewrite rwith_buffer_none by reflexivity. rewrite bl_nil, (src_adv_nil _ _ Hs). reflexivity.
  - (* INTEGER *)
    rewrite rwith_buffer_none by reflexivity. cbn [wf_val] in Hv. cbn [wf_ty] in Hty. destruct Hty as (Hlo & Hhi & _).
    unfold int_enc in He.
    assert (Hi : is_i64 (to_i64 z)) by (apply i64_of_u64_range, u64_of_i64_lt).
    assert (Hl : is_i64 (opt_or lo 0%Z)) by (destruct lo; [exact Hlo|unfold is_i64; cbn; lia]).
    assert (Hh : is_i64 (opt_or hi I64_MAXz)) by (destruct hi; [exact Hhi|unfold is_i64, I64_MAXz; cbn; lia]).
    set (mx := if ext then ((to_i64 z <? opt_or lo 0) || (opt_or hi I64_MAXz <? to_i64 z))%Z
               else negb (is_some lo) && negb (is_some hi)) in *.
    assert (Hbody : forall s' tl b, (if mx then w_unconstrained m (to_i64 z)
                     else w_constrained m (opt_or lo 0%Z) (opt_or hi I64_MAXz) (to_i64 z)) = Ok b ->
              at_src s' b tl ->
              (if mx then r_get (r_of_src s') (r_unconstrained m)
               else r_get (r_of_src s') (r_constrained m (opt_or lo 0%Z) (opt_or hi I64_MAXz)))
              = Ok (to_i64 z, r_of_src (src_adv s' (bl b) tl))).
    { intros s' tl b Hb Hs'. destruct mx.
      - rewrite unconstrained_write in Hb by exact Hi. injection Hb as <-.
        rewrite r_get_of_src, (unconstrained_read m _ _ _ Hi Hs'). reflexivity.
      - destruct (Z_lt_le_dec (to_i64 z) (opt_or lo 0%Z)) as [L|L].
        { rewrite constrained_reject in Hb by lia. discriminate Hb. }
        destruct (Z_lt_le_dec (opt_or hi I64_MAXz) (to_i64 z)) as [U|U].
        { rewrite constrained_reject in Hb by lia. discriminate Hb. }
        destruct (constrained_write m _ _ (to_i64 z) Hl Hh (conj L U)) as (xb & Ew & Ex).
        rewrite Ew in Hb. injection Hb as <-.
        rewrite r_get_of_src, (constrained_read m _ _ _ _ _ _ Hl Hh (conj L U) Ex Hs'). reflexivity. }
    destruct (if mx then _ else _) as [b| |] eqn:Eb in He; cbn [bind] in He; try discriminate He.
    injection He as <-.
    destruct ext.
    + cbn [app] in *. apply at_src_cons in Hs. destruct Hs as [H1 H2].
      rewrite r_get_of_src, (r_bit_ok _ _ _ H1). cbn [bind].
      rewrite (Hbody _ _ _ Eb H2). cbn [bind]. rewrite src_adv_adv, bl_cons, from_to_i64 by exact Hv. reflexivity.
    + cbn [app bind] in *. fold mx. rewrite (Hbody _ _ _ Eb Hs). cbn [bind]. rewrite from_to_i64 by exact Hv. reflexivity.
  - (* character strings *)
    cbn [wf_val] in Hv. destruct Hv as [Hsc Hlen].
    destruct c.
    + (* UTF8String *)
      rewrite rwith_buffer_none by reflexivity.
      destruct (negb ext && _); [discriminate He|].
      assert (Hb : blen (utf8_encode chars) < two63) by (unfold SIZE_LIMIT in Hlen; unfold two63; lia).
      assert (Hnk : ~ Known_C10_sized_length None None (blen (utf8_encode chars))).
      { intros [C _]. apply C. reflexivity. }
      apply (w_octet_ok_x m _ _ _ _ _ Hb Hnk) in He.
      assert (Ha : blen (utf8_encode chars) <= ALLOC_LIMIT) by (unfold ALLOC_LIMIT, SIZE_LIMIT in *; lia).
      rewrite r_get_of_src, (octetstring_read m None None false _ _ _ _ Ha Hnk He Hs).
      cbn [bind]. rewrite bytes_of_bits_of_bytes by (apply utf8_encode_bytes; exact Hsc).
      unfold from_utf8. rewrite utf8_roundtrip by exact Hsc. reflexivity.
    + rewrite rwith_buffer_none by reflexivity.
      destruct (find_invalid Ia5 chars) eqn:Ef; [discriminate He|].
      destruct (len_hdr _ _ _ _ _ _) as [h| |] eqn:Eh; cbn [bind] in He; try discriminate He. injection He as <-.
      apply (str_read m Ia5 lo hi ext chars h s tail ltac:(discriminate) Ef Eh Hk Hs).
    + rewrite rwith_buffer_none by reflexivity.
      destruct (find_invalid Numeric chars) eqn:Ef; [discriminate He|].
      destruct (len_hdr _ _ _ _ _ _) as [h| |] eqn:Eh; cbn [bind] in He; try discriminate He. injection He as <-.
      apply (str_read m Numeric lo hi ext chars h s tail ltac:(discriminate) Ef Eh Hk Hs).
    + rewrite rwith_buffer_none by reflexivity.
      destruct (find_invalid Printable chars) eqn:Ef; [discriminate He|].
      destruct (len_hdr _ _ _ _ _ _) as [h| |] eqn:Eh; cbn [bind] in He; try discriminate He. injection He as <-.
      apply (str_read m Printable lo hi ext chars h s tail ltac:(discriminate) Ef Eh Hk Hs).
    + rewrite rwith_buffer_none by reflexivity.
      destruct (find_invalid Visible chars) eqn:Ef; [discriminate He|].
      destruct (len_hdr _ _ _ _ _ _) as [h| |] eqn:Eh; cbn [bind] in He; try discriminate He. injection He as <-.
      apply (str_read m Visible lo hi ext chars h s tail ltac:(discriminate) Ef Eh Hk Hs).
  - (* OCTET STRING *)
    rewrite rwith_buffer_none by reflexivity. cbn [wf_val] in Hv. destruct Hv as [Fb Hlen]. cbn [Known_C01] in Hk.
    assert (Hb : blen bytes < two63) by (unfold SIZE_LIMIT in Hlen; unfold two63; lia).
    assert (Ha : blen bytes <= ALLOC_LIMIT) by (unfold ALLOC_LIMIT, SIZE_LIMIT in *; lia).
    apply (w_octet_ok_x m _ _ _ _ _ Hb Hk) in He.
    rewrite r_get_of_src, (octetstring_read m lo hi ext _ _ _ _ Ha Hk He Hs). cbn [bind].
    rewrite bytes_of_bits_of_bytes by exact Fb. reflexivity.
  - (* BIT STRING *)
    rewrite rwith_buffer_none by reflexivity. cbn [wf_val] in Hv. destruct Hv as [Hc Hlen]. cbn [Known_C01] in Hk.
    destruct (canonical_content bytes bit_len Hc) as (Hbl & Hby & Hle). cbv zeta in Hbl, Hby.
    set (content := firstn (N.to_nat bit_len) (bits_of_bytes bytes)) in *.
    assert (Hk1 : ~ Known_C10_sized_length lo hi bit_len) by tauto.
    assert (Hk2 : ~ Known_C10_bitstring_16k lo hi bit_len) by tauto.
    rewrite bitstring_write in He; [|lia|unfold SIZE_LIMIT in Hlen; unfold two63; lia|exact Hk1|exact Hk2].
    change (N.to_nat 0) with 0%nat in He. cbn [skipn] in He. fold content in He.
    destruct (x_bitstring lo hi ext content) as [xb|] eqn:Ex; [|discriminate He]. injection He as <-.
    rewrite <- Hbl in Hk1, Hk2.
    assert (Ha : bl content <= ALLOC_LIMIT) by (rewrite Hbl; unfold ALLOC_LIMIT, SIZE_LIMIT in *; lia).
    rewrite r_get_of_src, (bitstring_read m lo hi ext content xb s tail Ha Hk1 Hk2 Ex Hs). cbn [bind].
    rewrite Hby, Hbl. destruct Hc as (_ & Hl & _). unfold blen in Hl.
    replace (N.to_nat ((bit_len + 7) / 8) - length bytes)%nat with 0%nat by lia.
    cbn [repeat]. rewrite app_nil_r. reflexivity.
  - (* ENUMERATED *)
    cbn [wf_val] in Hv. cbn [wf_ty] in Hty. destruct Hty as (H1 & H2 & H3 & H4).
    assert (Hstd : std < two64) by (unfold SIZE_LIMIT in H3; unfold two64; lia).
    assert (Hix : index < two64) by (unfold SIZE_LIMIT in H3; unfold two64; lia).
    destruct (x_index std ext index) as [xb|] eqn:Ex.
    2:{ rewrite (index_reject m std ext index Ex) in He. discriminate He. }
    rewrite (index_write m std ext index xb Hstd Hix Ex) in He. injection He as <-.
    rewrite rwith_buffer_none by reflexivity.
    rewrite r_get_of_src, (index_read m std ext index xb s tail Hstd Hix Ex Hs). cbn [bind].
    destruct (N.ltb_spec index vc); [reflexivity|lia].
Qed.



(** * open types *)
Lemma wrap_open_x m cb : bl cb < two63 ->
  wrap_open m cb = Ok (x_unconstrained_length_run 8 ((bl cb + 7) / 8) (cb ++ repeat false (pad8 (length cb)))).
Proof.
  intros Hb. unfold wrap_open.
  assert (Hn : blen (bytes_of_bits cb) < two63).
  { rewrite bytes_of_bits_len. unfold two63 in *. pose proof (N.div_mod (bl cb + 7) 8 ltac:(lia)).
    pose proof (N.mod_lt (bl cb + 7) 8 ltac:(lia)). lia. }
  rewrite octetstring_write; [|exact Hn|intros [C _]; apply C; reflexivity].
  unfold x_octetstring, x_sized_run. fold (blen (bytes_of_bits cb)). rewrite bytes_of_bits_len, bits_of_bytes_of_bits.
  destruct (N.leb_spec 0 ((bl cb + 7) / 8)); [|lia]. reflexivity.
Qed.

Lemma wrap_open_small m cb wb : wrap_open m cb = Ok wb -> (bl cb + 7) / 8 < 16384 ->
  wb = x_len_short ((bl cb + 7) / 8) ++ cb ++ repeat false (pad8 (length cb)).
Proof.
  intros H Hn. rewrite wrap_open_x in H.
  - rewrite x_run_short in H by exact Hn. congruence.
  - pose proof (N.div_mod (bl cb + 7) 8 ltac:(lia)). pose proof (N.mod_lt (bl cb + 7) 8 ltac:(lia)).
    unfold two63. lia.
Qed.

Definition same_buf (s s' : src) : Prop :=
  s_all s = s_all s' /\ s_total s = s_total s' /\ s_len s = s_len s'.
Lemma same_buf_adv s n tl : same_buf s (src_adv s n tl).
Proof. repeat split. Qed.
Lemma same_buf_refl s : same_buf s s.
Proof. repeat split. Qed.
Lemma same_buf_trans a b c : same_buf a b -> same_buf b c -> same_buf a c.
Proof. unfold same_buf. intuition congruence. Qed.

(* jumping to the absolute end of a window that starts at the cursor of [s] *)
Lemma src_set_pos_end s s' bs tail : rsrc s bs tail -> same_buf s s' ->
  src_set_pos s' (s_pos s + bl bs) = src_adv s (bl bs) tail.
Proof.
  intros [(R & L & T) (E & _)] (A & To & Le). unfold src_set_pos, src_adv. rewrite <- A, <- To, <- Le.
  rewrite N.min_l by exact L. f_equal.
  replace (N.to_nat (s_pos s + bl bs)) with (N.to_nat (s_pos s) + length bs)%nat by (unfold bl; lia).
  rewrite <- skipn_skipn', <- E, R. apply skipn_app_exact. reflexivity.
Qed.

Lemma open_read {A} m cb wb s tail (f : rst -> res (A * rst)) x :
  wrap_open m cb = Ok wb -> (bl cb + 7) / 8 < 16384 -> rsrc s wb tail ->
  (forall s' tl, rsrc s' cb tl -> f (r_of_src s') = Ok (x, r_of_src (src_adv s' (bl cb) tl))) ->
  (let! (len, r2) := r_get (r_of_src s) (r_length_determinant m None None) in
   read_whole_sub_slice m r2 len f) = Ok (x, r_of_src (src_adv s (bl wb) tail)).
Proof.
  intros Hw Hn Hs Hf. pose proof (wrap_open_small m cb wb Hw Hn) as E.
  set (n := (bl cb + 7) / 8) in *. set (pad := repeat false (pad8 (length cb))) in *.
  assert (Hpad : bl cb + bl pad = 8 * n).
  { pose proof (f_equal bl (bits_of_bytes_of_bits cb)) as EL. rewrite bits_len8, bytes_of_bits_len, bl_app in EL.
    fold pad n in EL. lia. }
  assert (Hwb : bl wb = bl (x_len_short n) + 8 * n) by (rewrite E, !bl_app; lia).
  pose proof Hs as Hs0. rewrite E in Hs. apply rsrc_split in Hs. destruct Hs as [H1 H2].
  assert (Ex : x_length None None n = Some (x_len_first n)).
  { unfold x_length. destruct (N.leb_spec 0 n); [reflexivity|lia]. }
  rewrite <- (x_len_first_short n Hn) in H1, H2.
  rewrite r_get_of_src.
  rewrite (length_read m None None n _ s _ ltac:(intros C; apply C; reflexivity) Ex (proj1 H1)).
  unfold len_result, len_frag. rewrite frag_of_short by exact Hn. cbn [bind].
  unfold read_whole_sub_slice. cbn [r_src r_of_src].
  destruct Hs0 as [(_ & HL & HT) (_ & H64)].
  assert (U1 : umul m n BYTE_LEN = Ok (8 * n)).
  { unfold umul, BYTE_LEN. destruct (N.ltb_spec (n * 8) two64) as [L|L]; [f_equal; lia|unfold two64 in L; lia]. }
  rewrite U1. cbn [bind]. unfold src_adv at 1. cbn [s_pos].
  rewrite (x_len_first_short n Hn) in *.
  rewrite uadd_ok by lia. cbn [bind].
  apply rsrc_split in H2. destruct H2 as [H2 _].
  rewrite (Hf _ _ H2). cbn [bind]. unfold r_set_src. cbn [r_src r_scope r_of_src].
  replace (s_pos s + bl (x_len_short n) + 8 * n) with (s_pos s + bl wb) by lia.
  match goal with |- context [src_set_pos ?a ?b] =>
    assert (Efin : src_set_pos a b = src_adv s (bl wb) tail) end.
  { apply src_set_pos_end; [rewrite E; split; [|exact (proj2 H1)]|].
    - destruct H1 as [H1 _]. destruct H1 as (R & _). split; [rewrite R, <- !app_assoc; reflexivity|].
      rewrite <- E. split; lia.
    - eapply same_buf_trans; apply same_buf_adv. }
  rewrite Efin. reflexivity.
Qed.

(** * SEQUENCE OF *)
Definition relems (m : mode) (e : ty) (big : bool) :=
  fix elems (n : nat) (r : rst) (acc : list val) : res (val * rst) :=
    match n with
    | O => if big then Panic P_UNBOUNDED else Ok (VList (frev acc), r)
    | S n' =>
        let! (x, r') := read_ty m e r in
        if big && (s_pos (r_src r') =? s_pos (r_src r)) then Panic P_UNBOUNDED
        else elems n' r' (x :: acc)
    end.
Definition all_wf_val (e : ty) :=
  fix all (vs : list val) : Prop := match vs with [] => True | x :: r => wf_val e x /\ all r end.
Definition any_known (m : mode) (e : ty) :=
  fix any (vs : list val) : Prop := match vs with [] => False | x :: r => Known_C01 m e x \/ any r end.

Lemma relems_spec m e : Rprop m e -> wf_ty e ->
  forall vs body s tail acc, enc_elems m e vs = Ok body -> all_wf_val e vs -> ~ any_known m e vs ->
  rsrc s body tail ->
  relems m e false (length vs) (r_of_src s) acc = Ok (VList (rev acc ++ vs), r_of_src (src_adv s (bl body) tail)).
Proof.
  intros IH Hty. induction vs as [|x vs IHl]; intros body s tail acc He Hv Hk Hs.
  - cbn [enc_elems] in He. injection He as <-. cbn [length relems]. unfold frev.
    rewrite rev_append_rev, !app_nil_r, bl_nil, (src_adv_nil _ _ (proj1 Hs)). reflexivity.
  - cbn [enc_elems] in He. destruct (enc m e x) as [a| |] eqn:Ea; cbn [bind] in He; try discriminate He.
    destruct (enc_elems m e vs) as [b| |] eqn:Eb; cbn [bind] in He; try discriminate He. injection He as <-.
    cbn [all_wf_val] in Hv. destruct Hv as [Hx Hv]. cbn [any_known] in Hk.
    apply rsrc_split in Hs. destruct Hs as [H1 H2].
    cbn [length relems]. rewrite (IH Hty x a Ea Hx ltac:(tauto) _ _ H1). cbn [bind andb].
    rewrite (IHl b _ tail (x :: acc) eq_refl Hv ltac:(tauto) H2). cbn [rev]. rewrite <- app_assoc. cbn [app].
    rewrite src_adv_adv, bl_app. reflexivity.
Qed.

Lemma rscope_stashed_of_src {A} s (f : rst -> res (A * rst)) x s' :
  f (r_of_src s) = Ok (x, r_of_src s') -> rscope_stashed (r_of_src s) f = Ok (x, r_of_src s').
Proof.
  unfold rscope_stashed. change (r_set_scope (r_of_src s) None) with (r_of_src s).
  intros ->. reflexivity.
Qed.

Lemma R_list m e lo hi ext : Rprop m e -> Rprop m (TListOf e lo hi ext).
Proof.
  intros IH Hty v bs He Hv Hk s tail Hs. destruct v; try discriminate He; try contradiction Hv.
  cbn [wf_ty] in Hty. destruct Hty as [_ Hte].
  cbn [enc] in He. fold (enc_elems m e) in He.
  destruct (len_hdr m ext lo hi I64_MAX (N.of_nat (length vs))) as [h| |] eqn:Eh; cbn [bind] in He; try discriminate He.
  destruct (enc_elems m e vs) as [body| |] eqn:Eb; cbn [bind] in He; try discriminate He. injection He as <-.
  cbn [wf_val] in Hv. destruct Hv as [Hlen Hv]. cbn [Known_C01] in Hk.
  cbn [read_ty]. rewrite rentry_none' by reflexivity. cbn [bind]. rewrite rwith_buffer_none by reflexivity.
  apply rsrc_split in Hs. destruct Hs as [H1 H2].
  destruct (len_hdr_read m ext lo hi I64_MAX _ h s _ Eh ltac:(tauto) (proj1 H1)) as [E Hn]. rewrite E. cbn [bind].
  destruct (N.ltb_spec 0 (N.of_nat (length vs))) as [L|L].
  - apply rscope_stashed_of_src.
    rewrite alloc_ok by (unfold ALLOC_LIMIT; lia). cbn [bind]. cbv zeta.
    destruct (N.ltb_spec LOOP_LIMIT (N.of_nat (length vs))) as [L2|L2]; [unfold LOOP_LIMIT in L2; lia|].
    rewrite Nat2N.id. fold (relems m e false).
    rewrite (relems_spec m e IH Hte vs body _ tail [] Eb Hv ltac:(tauto) H2). cbn [rev app].
    rewrite src_adv_adv, bl_app. reflexivity.
  - destruct vs; [|cbn [length] in L; lia]. cbn [enc_elems] in Eb. injection Eb as <-.
    rewrite app_nil_r. cbn [app]. reflexivity.
Qed.

(** * CHOICE *)
Definition rpick (m : mode) (index : N) (r : rst) :=
  fix pick (alts : list ty) (i : nat) : res (option val * rst) :=
    match alts, i with
    | a :: _, O => let! (x, r) := read_ty m a r in Ok (Some (VChoice index x), r)
    | _ :: rest, S i' => pick rest i'
    | [], _ => Ok (None, r)
    end.
Definition all_wf_ty := fix all (alts : list ty) : Prop := match alts with [] => True | a :: r => wf_ty a /\ all r end.
Definition pick_wf (x : val) :=
  fix pick (alts : list ty) (n : nat) : Prop :=
    match alts, n with a :: _, O => wf_val a x | _ :: r, S n' => pick r n' | [], _ => False end.
Definition pick_known (m : mode) (std i : N) (x : val) :=
  fix pick (alts : list ty) (n : nat) : Prop :=
    match alts, n with
    | a :: _, O => Known_C01 m a x \/ (std <= i /\ Known_C01_open_type_16k m a x)
    | _ :: r, S n' => pick r n'
    | [], _ => False
    end.

Lemma rpick_spec m index std x : forall alts, Forall (Rprop m) alts -> all_wf_ty alts ->
  forall i cb, enc_pick m x alts i = Ok cb -> pick_wf x alts i -> ~ pick_known m std index x alts i ->
  (i < length alts)%nat /\ (std <= index -> (bl cb + 7) / 8 < 16384) /\
  forall s tl, rsrc s cb tl ->
  rpick m index (r_of_src s) alts i = Ok (Some (VChoice index x), r_of_src (src_adv s (bl cb) tl)).
Proof.
  induction alts as [|a alts IHl]; intros F Hty i cb He Hv Hk; [destruct i; discriminate He|].
  apply Forall_cons_iff in F. destruct F as [Ha F]. cbn [all_wf_ty] in Hty. destruct Hty as [Hta Hty].
  destruct i as [|i]; cbn [enc_pick pick_wf pick_known rpick length] in *.
  - split; [lia|]. split.
    + intros Hs. destruct (N.lt_ge_cases ((bl cb + 7) / 8) 16384) as [L|L]; [exact L|].
      exfalso. apply Hk. right. split; [exact Hs|]. exists cb. split; assumption.
    + intros s tl Hs. rewrite (Ha Hta x cb He Hv ltac:(tauto) s tl Hs). reflexivity.
  - destruct (IHl F Hty i cb He Hv Hk) as (I1 & I2 & I3). split; [lia|]. split; assumption.
Qed.

Lemma R_choice m alts std ext : Forall (Rprop m) alts -> Rprop m (TChoice alts std ext).
Proof.
  intros F Hty v bs He Hv Hk s tail Hs. destruct v; try discriminate He; try contradiction Hv.
  cbn [wf_ty] in Hty. destruct Hty as (H1 & H2 & H3 & H4 & Hta).
  cbn [enc] in He. fold (enc_pick m v) in He.
  destruct (w_enumeration_index m std ext index) as [ib| |] eqn:Ei; cbn [bind] in He; try discriminate He.
  destruct (enc_pick m v alts (N.to_nat index)) as [cb| |] eqn:Ec; cbn [bind] in He; try discriminate He.
  cbn [wf_val] in Hv. cbn [Known_C01] in Hk.
  destruct (rpick_spec m index std v alts F Hta (N.to_nat index) cb Ec Hv Hk) as (Hi & Hsmall & Hr).
  assert (Hstd : std < two64) by (unfold SIZE_LIMIT in H3; unfold two64; lia).
  assert (Hix : index < two64) by (unfold SIZE_LIMIT in H3; unfold two64; lia).
  destruct (x_index std ext index) as [xb|] eqn:Ex.
  2:{ rewrite (index_reject m std ext index Ex) in Ei. discriminate Ei. }
  rewrite (index_write m std ext index xb Hstd Hix Ex) in Ei. injection Ei as <-.
  cbn [read_ty]. rewrite rentry_none' by reflexivity. cbn [bind].
  apply rscope_stashed_of_src.
  assert (Eg : N.of_nat (length alts) <=? index = false) by (apply N.leb_gt; lia).
  set (gpick := fun r0 : rst => if N.of_nat (length alts) <=? index then Ok (None, r0)
                                else rpick m index r0 alts (N.to_nat index)).
  assert (Hr' : forall s tl, rsrc s cb tl ->
            gpick (r_of_src s) = Ok (Some (VChoice index v), r_of_src (src_adv s (bl cb) tl))).
  { intros s' tl' Hs'. unfold gpick. rewrite Eg. apply Hr. exact Hs'. }
  destruct (N.leb_spec std index) as [L|L].
  - destruct (wrap_open m cb) as [wb| |] eqn:Ew; cbn [bind] in He; try discriminate He. injection He as <-.
    apply rsrc_split in Hs. destruct Hs as [Hs1 Hs2].
    rewrite r_get_of_src, (index_read m std ext index xb s _ Hstd Hix Ex (proj1 Hs1)). cbn [bind].
    rewrite (proj2 (N.leb_le std index) L).
    match goal with |- context [read_whole_sub_slice m _ _ ?f] => change f with gpick end.
    rewrite (open_read m cb wb _ tail gpick (Some (VChoice index v)) Ew (Hsmall L) Hs2 Hr').
    cbn [bind]. rewrite src_adv_adv, bl_app. reflexivity.
  - injection He as <-. apply rsrc_split in Hs. destruct Hs as [Hs1 Hs2].
    rewrite r_get_of_src, (index_read m std ext index xb s _ Hstd Hix Ex (proj1 Hs1)). cbn [bind].
    rewrite (proj2 (N.leb_gt std index) L).
    match goal with |- bind ?X _ = _ =>
      change X with (gpick (r_of_src (src_adv s (bl xb) (cb ++ tail)))) end.
    rewrite (Hr' _ _ Hs2). cbn [bind]. rewrite src_adv_adv, bl_app. reflexivity.
Qed.



(** * SEQUENCE, writer side *)
Definition wfield (m : mode) (f : fkind * ty) (ov : option val) (w : wst) : res wst :=
  match f, ov with
  | (FReq, ft), Some x => write_ty m ft x w
  | (FOpt, ft), ov =>
      let! w := write_bit_field_entry m w true (is_some ov) in
      match ov with
      | Some x => with_buffer m w (fun w => scope_stashed w (fun w => write_ty m ft x w))
      | None => Ok w
      end
  | (FDef d, ft), Some x =>
      let present := negb (val_eqb d x) in
      let! w := write_bit_field_entry m w true present in
      if present then with_buffer m w (fun w => scope_stashed w (fun w => write_ty m ft x w)) else Ok w
  | _, _ => Panic P_OTHER
  end.

Definition wfields (m : mode) :=
  fix fields (fs : list (fkind * ty)) (vals : list (option val)) (w : wst) : res wst :=
    match fs, vals with
    | [], _ => Ok w
    | (FReq, ft) :: fs', Some x :: vals' =>
        let! w := write_ty m ft x w in fields fs' vals' w
    | (FOpt, ft) :: fs', ov :: vals' =>
        let! w := write_bit_field_entry m w true (is_some ov) in
        let! w := (match ov with
                   | Some x => with_buffer m w (fun w => scope_stashed w (fun w => write_ty m ft x w))
                   | None => Ok w
                   end) in
        fields fs' vals' w
    | (FDef d, ft) :: fs', Some x :: vals' =>
        let present := negb (val_eqb d x) in
        let! w := write_bit_field_entry m w true present in
        let! w := (if present then with_buffer m w (fun w => scope_stashed w (fun w => write_ty m ft x w)) else Ok w) in
        fields fs' vals' w
    | _, _ => Panic P_OTHER
    end.

Lemma write_ty_seq_eq m fs so fc ea vals w :
  write_ty m (TSeq fs so fc ea) (VSeq vals) w =
  let! w := write_bit_field_entry m w false true in
  with_buffer m w (fun w =>
    let bit_pos := w_n w in
    let w := match ea with Some _ => w_append w [false] | None => w end in
    let write_pos := w_n w in
    let w := w_append w (repeat false (N.to_nat so)) in
    match ea with
    | Some e =>
        let! nx := usub m fc (e + 1) in
        scope_pushed m w (ExtSeq bit_pos (Some (write_pos, write_pos + so)) (e + 1) nx) (wfields m fs vals)
    | None => scope_pushed m w (OptBitField write_pos (write_pos + so)) (wfields m fs vals)
    end).
Proof. reflexivity. Qed.

Lemma bind_assoc {A B C} (r : res A) (f : A -> res B) (g : B -> res C) :
  bind (bind r f) g = bind r (fun a => bind (f a) g).
Proof. destruct r; reflexivity. Qed.

Lemma wfields_cons m f fs ov vals w :
  wfields m (f :: fs) (ov :: vals) w = let! w := wfield m f ov w in wfields m fs vals w.
Proof.
  destruct f as [[| |d] ft]; cbn [wfields wfield].
  - destruct ov; reflexivity.
  - rewrite bind_assoc. reflexivity.
  - destruct ov; [|reflexivity]. cbv zeta. rewrite bind_assoc. reflexivity.
Qed.
Lemma wfields_nil_vals m f fs w : wfields m (f :: fs) [] w = Panic P_OTHER.
Proof. destruct f as [[| |d] ft]; reflexivity. Qed.

Lemma wfields_app m a : forall b vals w,
  wfields m (a ++ b) vals w = let! w1 := wfields m a vals w in wfields m b (skipn (length a) vals) w1.
Proof.
  induction a as [|f a IH]; intros b vals w; [reflexivity|].
  destruct vals as [|ov vals]; cbn [app length skipn].
  - rewrite !wfields_nil_vals. reflexivity.
  - rewrite !wfields_cons, bind_assoc. destruct (wfield m f ov w); cbn [bind]; try reflexivity. apply IH.
Qed.

Definition enc_field (m : mode) (f : fkind * ty) (ov : option val) : res fenc :=
  match f, ov with
  | (FReq, ft), Some x => let! b := enc m ft x in Ok (true, b)
  | (FOpt, ft), None => Ok (false, [])
  | (FOpt, ft), Some x => let! b := enc m ft x in Ok (true, b)
  | (FDef d, ft), Some x => if val_eqb d x then Ok (false, []) else let! b := enc m ft x in Ok (true, b)
  | _, _ => Panic P_OTHER
  end.
Definition enc_fields (m : mode) :=
  fix go (fs : list (fkind * ty)) (vals : list (option val)) : res (list fenc) :=
    match fs, vals with
    | [], _ => Ok []
    | (FReq, ft) :: fs', Some x :: vals' =>
        let! b := enc m ft x in let! r := go fs' vals' in Ok ((true, b) :: r)
    | (FOpt, ft) :: fs', None :: vals' =>
        let! r := go fs' vals' in Ok ((false, []) :: r)
    | (FOpt, ft) :: fs', Some x :: vals' =>
        let! b := enc m ft x in let! r := go fs' vals' in Ok ((true, b) :: r)
    | (FDef d, ft) :: fs', Some x :: vals' =>
        if val_eqb d x then let! r := go fs' vals' in Ok ((false, []) :: r)
        else let! b := enc m ft x in let! r := go fs' vals' in Ok ((true, b) :: r)
    | _, _ => Panic P_OTHER
    end.

Lemma enc_seq_eq m fs so fc ea vals :
  enc m (TSeq fs so fc ea) (VSeq vals) = let! fes := enc_fields m fs vals in seq_assemble m fs fes ea.
Proof. reflexivity. Qed.

Lemma enc_fields_cons m f fs ov vals :
  enc_fields m (f :: fs) (ov :: vals) =
  let! fe := enc_field m f ov in let! r := enc_fields m fs vals in Ok (fe :: r).
Proof.
  destruct f as [[| |d] ft], ov as [x|]; cbn [enc_fields enc_field]; try reflexivity.
  - destruct (enc m ft x); reflexivity.
  - destruct (enc m ft x); reflexivity.
  - destruct (val_eqb d x); [reflexivity|]. destruct (enc m ft x); reflexivity.
Qed.
Lemma enc_fields_nil_vals m f fs : enc_fields m (f :: fs) [] = Panic P_OTHER.
Proof. destruct f as [[| |d] ft]; reflexivity. Qed.

Lemma enc_fields_app m a : forall b vals,
  enc_fields m (a ++ b) vals =
  let! x := enc_fields m a vals in let! y := enc_fields m b (skipn (length a) vals) in Ok (x ++ y).
Proof.
  induction a as [|f a IH]; intros b vals.
  - cbn [app length skipn enc_fields bind]. destruct (enc_fields m b vals); reflexivity.
  - destruct vals as [|ov vals]; cbn [app length skipn].
    + rewrite !enc_fields_nil_vals. reflexivity.
    + rewrite !enc_fields_cons, IH. destruct (enc_field m f ov); cbn [bind]; try reflexivity.
      destruct (enc_fields m a vals); cbn [bind]; try reflexivity.
      destruct (enc_fields m b (skipn (length a) vals)); reflexivity.
Qed.

Lemma enc_fields_length m : forall fs vals fes, enc_fields m fs vals = Ok fes -> length fes = length fs.
Proof.
  induction fs as [|f fs IH]; intros vals fes H.
  - cbn in H. injection H as <-. reflexivity.
  - destruct vals as [|ov vals]; [rewrite enc_fields_nil_vals in H; discriminate H|].
    rewrite enc_fields_cons in H. destruct (enc_field m f ov); cbn [bind] in H; try discriminate H.
    destruct (enc_fields m fs vals) eqn:E; cbn [bind] in H; try discriminate H. injection H as <-.
    cbn [length]. f_equal. eapply IH. exact E.
Qed.

(* scope entries keep the sink consistent and the scope present *)
Lemma set_nth_length {A} (l : list A) : forall i x, length (set_nth l i x) = length l.
Proof. induction l as [|a l IH]; intros [|i] x; cbn [set_nth length]; auto. Qed.

Lemma w_patch_inv w pos bit w1 : wst_wf w -> w_patch w pos bit = Ok w1 ->
  wst_wf w1 /\ w_scope w1 = w_scope w.
Proof.
  unfold w_patch. intros Hw H. destruct (pos <? w_n w); [|discriminate H]. injection H as <-.
  unfold wst_wf in *. cbn [w_n w_rbits w_scope]. rewrite set_nth_length. auto.
Qed.

Lemma write_into_field_inv m w sc o p w1 : wst_wf w -> w_scope w = Some sc ->
  write_into_field m w sc o p = Ok w1 -> wst_wf w1 /\ exists sc1, w_scope w1 = Some sc1.
Proof.
  intros Hw Hsc H. destruct sc as [a b|a b|bp opt calls nx|]; cbn [write_into_field] in H.
  - destruct o.
    + destruct (w_patch w a p) as [w'| |] eqn:E; cbn [bind] in H; try discriminate H. injection H as <-.
      destruct (w_patch_inv _ _ _ _ Hw E). split; [auto|eexists; reflexivity].
    + injection H as <-. split; [auto|eexists; exact Hsc].
  - destruct (w_patch w a p) as [w'| |] eqn:E; cbn [bind] in H; try discriminate H. injection H as <-.
    destruct (w_patch_inv _ _ _ _ Hw E). split; [auto|eexists; reflexivity].
  - destruct (calls =? 0).
    + destruct (w_patch w bp p) as [w'| |] eqn:E; cbn [bind] in H; try discriminate H.
      destruct (w_patch_inv _ _ _ _ Hw E) as [Hw' _]. destruct p.
      * destruct (usub m nx 1); cbn [bind] in H; try discriminate H.
        destruct (w_normally_small m _); cbn [w_put bind] in H; try discriminate H. injection H as <-.
        split; [|eexists; reflexivity]. apply w_set_scope_wf, w_append_wf, w_append_wf, Hw'.
      * injection H as <-. split; [auto|eexists; reflexivity].
    + destruct opt as [[a b]|].
      * destruct o.
        -- destruct (w_patch w a p) as [w'| |] eqn:E; cbn [bind] in H; try discriminate H. injection H as <-.
           destruct (w_patch_inv _ _ _ _ Hw E). split; [auto|eexists; reflexivity].
        -- injection H as <-. split; [auto|eexists; reflexivity].
      * injection H as <-. split; [auto|eexists; reflexivity].
  - destruct p; [discriminate H|]. injection H as <-. split; [auto|eexists; exact Hsc].
Qed.

Lemma write_ty_shape m t v w : shape t v = false ->
  write_ty m t v w = Panic P_OTHER /\ enc m t v = Panic P_OTHER.
Proof. destruct t as [| | | c | | | | | |], v; try discriminate; try destruct c; split; reflexivity. Qed.

Lemma w_restore w1 b : w_set_scope (w_append (w_set_scope w1 None) b) (w_scope w1) = w_append w1 b.
Proof. destruct w1; reflexivity. Qed.

(* the content of a present component, after its bit-field entry left the writer in [w1] *)
Definition wcontent (m : mode) (wrapped : bool) (w1 : wst) (b : bits) : res wst :=
  if wopen w1 && wrapped then w_put w1 (wrap_open m b) else Ok (w_append w1 b).

Lemma content_direct m ft x w1 : Wprop m ft -> wst_wf w1 ->
  match enc m ft x with
  | Ok b => (let! w2 := write_ty m ft x (w_set_scope w1 None) in Ok (w_set_scope w2 (w_scope w1))) = Ok (w_append w1 b)
  | _ => is_ok (let! w2 := write_ty m ft x (w_set_scope w1 None) in Ok (w_set_scope w2 (w_scope w1))) = false
  end.
Proof.
  intros IH Hw. pose proof (IH x (w_set_scope w1 None) Hw eq_refl) as H. unfold wsim in H.
  destruct (enc m ft x) as [b| |].
  - rewrite H. cbn [bind]. rewrite w_restore. reflexivity.
  - apply not_ok_bind. exact H.
  - apply not_ok_bind. exact H.
Qed.

Lemma content_wrapped m ft x w1 : Wprop m ft ->
  match enc m ft x with
  | Ok b => (let! sub := write_ty m ft x w_empty in w_put w1 (wrap_open m (w_bits sub))) = w_put w1 (wrap_open m b)
  | _ => is_ok (let! sub := write_ty m ft x w_empty in w_put w1 (wrap_open m (w_bits sub))) = false
  end.
Proof.
  intros IH. pose proof (IH x w_empty w_empty_wf eq_refl) as H. unfold wsim in H.
  destruct (enc m ft x) as [b| |].
  - rewrite H. cbn [bind]. rewrite w_bits_empty_append. reflexivity.
  - apply not_ok_bind. exact H.
  - apply not_ok_bind. exact H.
Qed.

Lemma stashed_content m ft x w1 :
  with_buffer m w1 (fun w => scope_stashed w (fun w => write_ty m ft x w)) =
  if wopen w1 then let! sub := write_ty m ft x w_empty in w_put w1 (wrap_open m (w_bits sub))
  else let! w2 := write_ty m ft x (w_set_scope w1 None) in Ok (w_set_scope w2 (w_scope w1)).
Proof.
  rewrite (with_buffer_factor m w1 _ (scope_nat_stashed _)).
  rewrite !with_buffer_none by reflexivity. rewrite !scope_stashed_none by reflexivity.
  destruct (wopen w1).
  - destruct (write_ty m ft x w_empty) as [sub| |]; reflexivity.
  - destruct (write_ty m ft x (w_set_scope w1 None)) as [w2| |]; reflexivity.
Qed.

Lemma wfield_spec m k ft ov w sc : Wprop m ft -> wst_wf w -> w_scope w = Some sc ->
  match enc_field m (k, ft) ov with
  | Ok (p, b) =>
      wfield m (k, ft) ov w =
      let! w1 := write_into_field m w sc (is_optk k) p in
      if p then wcontent m (wraps k ft) w1 b else Ok w1
  | _ => is_ok (wfield m (k, ft) ov w) = false
  end.
Proof.
  intros IH Hw Hsc.
  assert (Hentry : forall o p, write_bit_field_entry m w o p = write_into_field m w sc o p).
  { intros o p. unfold write_bit_field_entry. rewrite Hsc. reflexivity. }
  assert (Hstash : forall x o,
    match enc m ft x with
    | Ok b => (let! w1 := write_into_field m w sc o true in
               with_buffer m w1 (fun w => scope_stashed w (fun w => write_ty m ft x w)))
              = let! w1 := write_into_field m w sc o true in wcontent m true w1 b
    | _ => is_ok (let! w1 := write_into_field m w sc o true in
               with_buffer m w1 (fun w => scope_stashed w (fun w => write_ty m ft x w))) = false
    end).
  { intros x o. destruct (write_into_field m w sc o true) as [w1| |] eqn:E1; cbn [bind];
      try (destruct (enc m ft x); reflexivity).
    destruct (write_into_field_inv m w sc o true w1 Hw Hsc E1) as [Hw1 _].
    rewrite stashed_content. unfold wcontent. rewrite andb_true_r.
    pose proof (content_direct m ft x w1 IH Hw1) as Hd. pose proof (content_wrapped m ft x w1 IH) as Hwr.
    destruct (enc m ft x) as [b| |]; destruct (wopen w1); assumption. }
  destruct k as [| |d]; destruct ov as [x|]; cbn [enc_field wfield is_optk wraps]; try reflexivity.
  - (* mandatory *)
    destruct (shape ft x) eqn:Esh.
    2:{ destruct (write_ty_shape m ft x w Esh) as [-> ->]. reflexivity. }
    rewrite (write_ty_factor m ft x w Esh), Hentry.
    destruct (write_into_field m w sc false true) as [w1| |] eqn:E1; cbn [bind].
    2,3: destruct (enc m ft x); cbn [bind]; rewrite ?E1; reflexivity.
    destruct (write_into_field_inv m w sc false true w1 Hw Hsc E1) as [Hw1 _].
    unfold wcontent.
    pose proof (content_direct m ft x w1 IH Hw1) as Hd. pose proof (content_wrapped m ft x w1 IH) as Hwr.
    destruct (enc m ft x) as [b| |]; cbn [bind]; rewrite ?E1; cbn [bind];
      destruct (wopen w1 && negb (is_choice ft)); assumption.
  - (* OPTIONAL present *)
    rewrite Hentry. cbn [is_some]. specialize (Hstash x true).
    destruct (enc m ft x) as [b| |]; cbn [bind]; exact Hstash.
  - (* OPTIONAL absent *)
    rewrite Hentry. cbn [is_some]. destruct (write_into_field m w sc true false); reflexivity.
  - (* DEFAULT *)
    cbv zeta. rewrite Hentry. destruct (val_eqb d x); cbn [negb].
    + destruct (write_into_field m w sc true false); reflexivity.
    + specialize (Hstash x true). destruct (enc m ft x) as [b| |]; cbn [bind]; exact Hstash.
Qed.



Lemma wfield_ok_inv m k ft ov w sc w' : Wprop m ft -> wst_wf w -> w_scope w = Some sc ->
  wfield m (k, ft) ov w = Ok w' -> wst_wf w' /\ exists sc', w_scope w' = Some sc'.
Proof.
  intros IH Hw Hsc H. pose proof (wfield_spec m k ft ov w sc IH Hw Hsc) as S.
  destruct (enc_field m (k, ft) ov) as [[p b]| |]; try (rewrite H in S; discriminate S).
  rewrite S in H. destruct (write_into_field m w sc (is_optk k) p) as [w1| |] eqn:E1; cbn [bind] in H; try discriminate H.
  destruct (write_into_field_inv m w sc _ _ w1 Hw Hsc E1) as [Hw1 [sc1 Hsc1]].
  destruct p; [|injection H as <-; split; [auto|eexists; eauto]].
  unfold wcontent in H. destruct (wopen w1 && wraps k ft).
  - destruct (wrap_open m b); cbn [w_put bind] in H; try discriminate H. injection H as <-.
    split; [apply w_append_wf; auto|eexists; exact Hsc1].
  - injection H as <-. split; [apply w_append_wf; auto|eexists; exact Hsc1].
Qed.

Lemma wfields_fail m : forall fs vals w sc, Forall (fun f => Wprop m (snd f)) fs ->
  wst_wf w -> w_scope w = Some sc -> is_ok (enc_fields m fs vals) = false ->
  is_ok (wfields m fs vals w) = false.
Proof.
  induction fs as [|[k ft] fs IHl]; intros vals w sc F Hw Hsc H; [discriminate H|].
  destruct vals as [|ov vals]; [rewrite wfields_nil_vals; reflexivity|].
  apply Forall_cons_iff in F. destruct F as [Hf F]. cbn [snd] in Hf.
  rewrite enc_fields_cons in H. rewrite wfields_cons.
  pose proof (wfield_spec m k ft ov w sc Hf Hw Hsc) as S.
  destruct (enc_field m (k, ft) ov) as [[p b]| |]; cbn [bind] in H; try (apply not_ok_bind; exact S).
  destruct (wfield m (k, ft) ov w) as [w'| |] eqn:E; cbn [bind]; try reflexivity.
  destruct (wfield_ok_inv m k ft ov w sc w' Hf Hw Hsc E) as [Hw' [sc' Hsc']].
  apply (IHl vals w' sc' F Hw' Hsc').
  destruct (enc_fields m fs vals); [discriminate H|reflexivity|reflexivity].
Qed.

Lemma enc_field_absent m f ov b : enc_field m f ov = Ok (false, b) -> b = [].
Proof.
  destruct f as [[| |d] ft], ov as [x|]; cbn [enc_field]; intros H; try discriminate H.
  - destruct (enc m ft x); discriminate H.
  - destruct (enc m ft x); discriminate H.
  - injection H as <-. reflexivity.
  - destruct (val_eqb d x); [injection H as <-; reflexivity|]. destruct (enc m ft x); discriminate H.
Qed.

(** ** the states of the field walk, relative to the sink [w0] before the SEQUENCE *)
Definition wstate (w0 : wst) (X : bits) (sc : scope) : wst := w_set_scope (w_append w0 X) (Some sc).

Lemma wstate_wf w0 X sc : wst_wf w0 -> wst_wf (wstate w0 X sc).
Proof. intros H. apply w_set_scope_wf, w_append_wf, H. Qed.
Lemma wstate_append w0 X sc b : w_append (wstate w0 X sc) b = wstate w0 (X ++ b) sc.
Proof. unfold wstate. rewrite <- w_set_scope_append, w_append_app. reflexivity. Qed.
Lemma wstate_patch w0 A old B sc bit : wst_wf w0 ->
  w_patch (wstate w0 (A ++ old :: B) sc) (w_n w0 + bl A) bit = Ok (wstate w0 (A ++ bit :: B) sc).
Proof. intros H. apply w_patch_spec. exact H. Qed.

Definition xinfo := option (N * N * N).
Definition root_scope (x : xinfo) (a b : N) : scope :=
  match x with None => OptBitField a b | Some (bp, c, nx) => ExtSeq bp (Some (a, b)) c nx end.
Definition xsub (x : xinfo) (n : nat) : xinfo :=
  match x with None => None | Some (bp, c, nx) => Some (bp, c - N.of_nat n, nx) end.
Definition xge (x : xinfo) (n : nat) : Prop :=
  match x with None => True | Some (_, c, _) => N.of_nat n <= c end.

Definition rstate (w0 : wst) (Pre : bits) (k : nat) (P : bits) (x : xinfo) : wst :=
  wstate w0 (Pre ++ repeat false k ++ P)
    (root_scope x (w_n w0 + bl Pre) (w_n w0 + bl Pre + N.of_nat k)).
Definition rscope (w0 : wst) (Pre : bits) (k : nat) (x : xinfo) : scope :=
  root_scope x (w_n w0 + bl Pre) (w_n w0 + bl Pre + N.of_nat k).

Lemma entry_root m w0 Pre k P x (o p : bool) : wst_wf w0 -> (o = true -> (1 <= k)%nat) -> xge x 1 ->
  write_into_field m (rstate w0 Pre k P x) (rscope w0 Pre k x) o p =
  Ok (if o then rstate w0 (Pre ++ [p]) (k - 1) P (xsub x 1) else rstate w0 Pre k P (xsub x 1)).
Proof.
  intros Hw Hk Hx. unfold rstate, rscope.
  assert (Hpatch : o = true ->
    w_patch (wstate w0 (Pre ++ repeat false k ++ P) (root_scope x (w_n w0 + bl Pre) (w_n w0 + bl Pre + N.of_nat k)))
            (w_n w0 + bl Pre) p
    = Ok (wstate w0 ((Pre ++ [p]) ++ repeat false (k - 1) ++ P) (root_scope x (w_n w0 + bl Pre) (w_n w0 + bl Pre + N.of_nat k)))).
  { intros Ho. specialize (Hk Ho). destruct k as [|k]; [lia|]. cbn [repeat app].
    rewrite wstate_patch by exact Hw. rewrite <- app_assoc. cbn [app]. replace (S k - 1)%nat with k by lia. reflexivity. }
  assert (Hbl : bl (Pre ++ [p]) = bl Pre + 1) by (rewrite bl_app; reflexivity).
  destruct x as [[[bp c] nx]|]; cbn [root_scope xsub xge write_into_field] in *.
  - destruct (N.eqb_spec c 0) as [E|E]; [lia|]. change (N.of_nat 1) with 1.
    destruct o.
    + rewrite Hpatch by reflexivity. cbn [bind]. specialize (Hk eq_refl).
      f_equal. unfold wstate. cbn [w_set_scope w_append w_rbits w_n w_scope]. rewrite Hbl.
      rewrite w_set_scope_set.
      replace (w_n w0 + (bl Pre + 1)) with (w_n w0 + bl Pre + 1) by lia.
      replace (w_n w0 + bl Pre + 1 + N.of_nat (k - 1)) with (w_n w0 + bl Pre + N.of_nat k) by lia.
      reflexivity.
    + reflexivity.
  - destruct o.
    + rewrite Hpatch by reflexivity. cbn [bind]. specialize (Hk eq_refl).
      f_equal. unfold wstate. cbn [w_set_scope w_append w_rbits w_n w_scope]. rewrite Hbl.
      rewrite w_set_scope_set.
      replace (w_n w0 + (bl Pre + 1)) with (w_n w0 + bl Pre + 1) by lia.
      replace (w_n w0 + bl Pre + 1 + N.of_nat (k - 1)) with (w_n w0 + bl Pre + N.of_nat k) by lia.
      reflexivity.
    + reflexivity.
Qed.

Lemma rstate_append w0 Pre k P x b : w_append (rstate w0 Pre k P x) b = rstate w0 Pre k (P ++ b) x.
Proof. unfold rstate. rewrite wstate_append, <- !app_assoc. reflexivity. Qed.
Lemma rstate_wopen w0 Pre k P x : wopen (rstate w0 Pre k P x) = false.
Proof. destruct x as [[[bp c] nx]|]; reflexivity. Qed.
Lemma rstate_scope w0 Pre k P x : w_scope (rstate w0 Pre k P x) = Some (rscope w0 Pre k x).
Proof. reflexivity. Qed.
Lemma rstate_wf w0 Pre k P x : wst_wf w0 -> wst_wf (rstate w0 Pre k P x).
Proof. apply wstate_wf. Qed.

Lemma xsub_xsub x a b : xsub (xsub x a) b = xsub x (a + b).
Proof. destruct x as [[[bp c] nx]|]; cbn [xsub]; [|reflexivity]. do 3 f_equal. lia. Qed.

Lemma root_walk m w0 : wst_wf w0 -> forall rfs vals fes Pre k P x,
  Forall (fun f => Wprop m (snd f)) rfs -> enc_fields m rfs vals = Ok fes ->
  (nopt rfs <= k)%nat -> xge x (length rfs) ->
  wfields m rfs vals (rstate w0 Pre k P x) =
  Ok (rstate w0 (Pre ++ flags_of rfs fes) (k - nopt rfs) (P ++ payload_of fes) (xsub x (length rfs))).
Proof.
  intros Hw. induction rfs as [|[kd ft] rfs IHl]; intros vals fes Pre k P x F He Hk Hx.
  - cbn in He. injection He as <-. cbn [wfields flags_of payload_of concat map nopt filter length].
    rewrite !app_nil_r, Nat.sub_0_r. destruct x as [[[bp c] nx]|]; cbn [xsub]; rewrite ?N.sub_0_r; reflexivity.
  - destruct vals as [|ov vals]; [rewrite enc_fields_nil_vals in He; discriminate He|].
    apply Forall_cons_iff in F. destruct F as [Hf F]. cbn [snd] in Hf.
    rewrite enc_fields_cons in He. rewrite wfields_cons.
    pose proof (wfield_spec m kd ft ov (rstate w0 Pre k P x) _ Hf (rstate_wf _ _ _ _ _ Hw) (rstate_scope _ _ _ _ _)) as S.
    destruct (enc_field m (kd, ft) ov) as [[p b]| |] eqn:Ef; cbn [bind] in He; try discriminate He.
    destruct (enc_fields m rfs vals) as [fes'| |] eqn:Er; cbn [bind] in He; try discriminate He. injection He as <-.
    unfold nopt in Hk. cbn [filter fst] in Hk. cbn [length] in Hx.
    assert (Hx1 : xge x 1) by (destruct x as [[[bp c] nx]|]; cbn [xge] in *; lia).
    rewrite S, entry_root; [|exact Hw|intros Ho; rewrite Ho in Hk; cbn [length] in Hk; lia|exact Hx1].
    cbn [bind].
    assert (Hb : p = false -> b = []) by (intros ->; eapply enc_field_absent; exact Ef).
    assert (Estep : (if p then wcontent m (wraps kd ft)
                       (if is_optk kd then rstate w0 (Pre ++ [p]) (k - 1) P (xsub x 1) else rstate w0 Pre k P (xsub x 1)) b
                     else Ok (if is_optk kd then rstate w0 (Pre ++ [p]) (k - 1) P (xsub x 1) else rstate w0 Pre k P (xsub x 1)))
                    = Ok (rstate w0 (Pre ++ (if is_optk kd then [p] else [])) (k - (if is_optk kd then 1 else 0)) (P ++ b) (xsub x 1))).
    { destruct p.
      - unfold wcontent. destruct (is_optk kd); rewrite rstate_wopen; cbn [andb]; rewrite rstate_append, ?app_nil_r, ?Nat.sub_0_r; reflexivity.
      - rewrite (Hb eq_refl), !app_nil_r. destruct (is_optk kd); rewrite ?app_nil_r, ?Nat.sub_0_r; reflexivity. }
    rewrite Estep. cbn [bind].
    rewrite (IHl vals fes' _ _ _ _ F Er).
    + cbn [flags_of payload_of map concat snd length]. unfold nopt. cbn [filter fst].
      rewrite xsub_xsub, <- !app_assoc. f_equal. f_equal.
      destruct (is_optk kd); cbn [length]; lia.
    + unfold nopt. destruct (is_optk kd); cbn [length] in Hk; lia.
    + destruct x as [[[bp c] nx]|]; cbn [xge xsub] in *; lia.
Qed.

(** additions *)
Definition astate (w0 : wst) (Pre : bits) (k : nat) (P : bits) : wst :=
  wstate w0 (Pre ++ repeat true k ++ P) (AllBitField (w_n w0 + bl Pre) (w_n w0 + bl Pre + N.of_nat k)).
Definition ascope (w0 : wst) (Pre : bits) (k : nat) : scope :=
  AllBitField (w_n w0 + bl Pre) (w_n w0 + bl Pre + N.of_nat k).

Lemma entry_all m w0 Pre k P (o p : bool) : wst_wf w0 -> (1 <= k)%nat ->
  write_into_field m (astate w0 Pre k P) (ascope w0 Pre k) o p = Ok (astate w0 (Pre ++ [p]) (k - 1) P).
Proof.
  intros Hw Hk. unfold astate, ascope. cbn [write_into_field].
  destruct k as [|k]; [lia|]. cbn [repeat app]. rewrite wstate_patch by exact Hw. cbn [bind].
  f_equal. unfold wstate. rewrite w_set_scope_set, <- app_assoc. cbn [app]. replace (S k - 1)%nat with k by lia.
  rewrite bl_app. change (bl [p]) with 1.
  replace (w_n w0 + (bl Pre + 1)) with (w_n w0 + bl Pre + 1) by lia.
  replace (w_n w0 + bl Pre + 1 + N.of_nat k) with (w_n w0 + bl Pre + N.of_nat (S k)) by lia. reflexivity.
Qed.
Lemma astate_append w0 Pre k P b : w_append (astate w0 Pre k P) b = astate w0 Pre k (P ++ b).
Proof. unfold astate. rewrite wstate_append, <- !app_assoc. reflexivity. Qed.

Lemma all_walk m w0 : wst_wf w0 -> forall afs vals fes Pre k P,
  Forall (fun f => Wprop m (snd f)) afs -> enc_fields m afs vals = Ok fes -> (length afs <= k)%nat ->
  wfields m afs vals (astate w0 Pre k P) =
  let! ap := add_payloads m afs fes in
  Ok (astate w0 (Pre ++ map fst fes) (k - length afs) (P ++ ap)).
Proof.
  intros Hw. induction afs as [|[kd ft] afs IHl]; intros vals fes Pre k P F He Hk.
  - cbn in He. injection He as <-. cbn [wfields add_payloads bind map length]. rewrite !app_nil_r, Nat.sub_0_r. reflexivity.
  - destruct vals as [|ov vals]; [rewrite enc_fields_nil_vals in He; discriminate He|].
    apply Forall_cons_iff in F. destruct F as [Hf F]. cbn [snd] in Hf.
    rewrite enc_fields_cons in He. rewrite wfields_cons.
    pose proof (wfield_spec m kd ft ov (astate w0 Pre k P) (ascope w0 Pre k) Hf (wstate_wf _ _ _ Hw) eq_refl) as S.
    destruct (enc_field m (kd, ft) ov) as [[p b]| |] eqn:Ef; cbn [bind] in He; try discriminate He.
    destruct (enc_fields m afs vals) as [fes'| |] eqn:Er; cbn [bind] in He; try discriminate He. injection He as <-.
    cbn [length] in Hk. rewrite S, entry_all by (auto; lia). cbn [bind add_payloads].
    assert (Hb : p = false -> b = []) by (intros ->; eapply enc_field_absent; exact Ef).
    assert (Estep : (if p then wcontent m (wraps kd ft) (astate w0 (Pre ++ [p]) (k - 1) P) b
                     else Ok (astate w0 (Pre ++ [p]) (k - 1) P))
                    = let! y := (if p && wraps kd ft then wrap_open m b else Ok b) in
                      Ok (astate w0 (Pre ++ [p]) (k - 1) (P ++ y))).
    { destruct p; cbn [andb].
      - unfold wcontent. change (wopen (astate w0 (Pre ++ [true]) (k - 1) P)) with true. cbn [andb].
        destruct (wraps kd ft).
        + destruct (wrap_open m b); cbn [w_put bind]; try reflexivity. rewrite astate_append. reflexivity.
        + cbn [bind]. rewrite astate_append. reflexivity.
      - cbn [bind]. rewrite (Hb eq_refl), app_nil_r. reflexivity. }
    rewrite Estep. destruct (if p && wraps kd ft then wrap_open m b else Ok b) as [y| |]; cbn [bind]; try reflexivity.
    rewrite (IHl vals fes' _ _ _ F Er) by lia.
    destruct (add_payloads m afs fes') as [r| |]; cbn [bind]; try reflexivity.
    cbn [map fst length]. rewrite <- !app_assoc. cbn [app]. do 2 f_equal. lia.
Qed.

Lemma empty_walk m w0 X : forall afs vals fes,
  Forall (fun f => Wprop m (snd f)) afs -> wst_wf w0 -> enc_fields m afs vals = Ok fes ->
  wfields m afs vals (wstate w0 X ExtSeqEmpty) =
  if existsb fst fes then Err E_EXT_INCONSISTENT else Ok (wstate w0 X ExtSeqEmpty).
Proof.
  induction afs as [|[kd ft] afs IHl]; intros vals fes F Hw He.
  - cbn in He. injection He as <-. reflexivity.
  - destruct vals as [|ov vals]; [rewrite enc_fields_nil_vals in He; discriminate He|].
    apply Forall_cons_iff in F. destruct F as [Hf F]. cbn [snd] in Hf.
    rewrite enc_fields_cons in He. rewrite wfields_cons.
    pose proof (wfield_spec m kd ft ov (wstate w0 X ExtSeqEmpty) ExtSeqEmpty Hf (wstate_wf _ _ _ Hw) eq_refl) as S.
    destruct (enc_field m (kd, ft) ov) as [[p b]| |] eqn:Ef; cbn [bind] in He; try discriminate He.
    destruct (enc_fields m afs vals) as [fes'| |] eqn:Er; cbn [bind] in He; try discriminate He. injection He as <-.
    rewrite S. cbn [write_into_field existsb fst]. destruct p; cbn [bind orb]; [reflexivity|].
    apply IHl; assumption.
Qed.

Lemma entry_trans m w0 R opt nx (o p : bool) : wst_wf w0 -> 1 <= nx ->
  write_into_field m (wstate w0 (false :: R) (ExtSeq (w_n w0) opt 0 nx)) (ExtSeq (w_n w0) opt 0 nx) o p =
  if p then
    let! ns := w_normally_small m (nx - 1) in
    Ok (astate w0 (true :: R ++ ns ++ [true]) (N.to_nat nx - 1) [])
  else Ok (wstate w0 (false :: R) ExtSeqEmpty).
Proof.
  intros Hw Hnx. cbn [write_into_field]. change (0 =? 0) with true. cbv iota.
  pose proof (wstate_patch w0 [] false R (ExtSeq (w_n w0) opt 0 nx) p Hw) as Hp.
  cbn [app] in Hp. rewrite bl_nil, N.add_0_r in Hp. rewrite Hp. cbn [bind].
  destruct p; [|reflexivity].
  rewrite usub_ok by exact Hnx. cbn [bind].
  destruct (w_normally_small m (nx - 1)) as [ns| |]; cbn [w_put bind]; try reflexivity.
  f_equal. rewrite !wstate_append. unfold astate, wstate. cbn [w_set_scope w_append w_n w_rbits w_scope].
  assert (Er : repeat true (N.to_nat nx) = [true] ++ repeat true (N.to_nat nx - 1)).
  { replace (N.to_nat nx) with (S (N.to_nat nx - 1)) at 1 by lia. reflexivity. }
  rewrite Er. rewrite app_nil_r.
  assert (Ebits : (true :: R) ++ ns ++ [true] ++ repeat true (N.to_nat nx - 1)
                  = (true :: R ++ ns ++ [true]) ++ repeat true (N.to_nat nx - 1)).
  { cbn [app]. rewrite <- !app_assoc. reflexivity. }
  rewrite <- app_assoc, Ebits. rewrite w_set_scope_set. f_equal. f_equal. unfold bl.
  f_equal.
  - cbn [length app]. repeat (rewrite app_length; cbn [length]). lia.
  - cbn [length app]. repeat (rewrite ?app_length, ?repeat_length; cbn [length]). lia.
Qed.



(* the descriptor constants of a SEQUENCE, as derived by the compiler *)
Definition seq_consts_ok (fs : list (fkind * ty)) (so fc : N) (ea : option N) : Prop :=
  fc = N.of_nat (length fs) /\ fc < SIZE_LIMIT /\
  match ea with Some e => e < fc | None => True end /\
  so = N.of_nat (nopt (firstn (root_len fs ea) fs)).

Lemma flags_of_length : forall fs fes, length fes = length fs -> length (flags_of fs fes) = nopt fs.
Proof.
  induction fs as [|[k ft] fs IH]; intros [|[p b] fes] H; try discriminate H; [reflexivity|].
  cbn [flags_of]. unfold nopt. cbn [filter fst]. rewrite app_length, IH by (cbn [length] in H; lia).
  unfold nopt. destruct (is_optk k); cbn [length]; lia.
Qed.

Lemma init_none w so : w_scope w = None ->
  w_set_scope (w_append w (repeat false so)) (Some (OptBitField (w_n w) (w_n w + N.of_nat so)))
  = rstate w [] so [] None.
Proof.
  intros _. unfold rstate, wstate. cbn [root_scope app]. rewrite app_nil_r, bl_nil, N.add_0_r. reflexivity.
Qed.
Lemma init_ext w so e nx :
  w_set_scope (w_append (w_append w [false]) (repeat false so))
    (Some (ExtSeq (w_n w) (Some (w_n (w_append w [false]), w_n (w_append w [false]) + N.of_nat so)) e nx))
  = rstate w [false] so [] (Some (w_n w, e, nx)).
Proof.
  unfold rstate, wstate. cbn [root_scope]. rewrite w_append_app, app_nil_r. reflexivity.
Qed.

Lemma set_none_wstate w X sc : w_scope w = None -> w_set_scope (wstate w X sc) None = w_append w X.
Proof. intros H. unfold wstate. rewrite w_set_scope_set. apply set_none_append. exact H. Qed.

Lemma scope_pushed_eq m w sc f : w_scope w = None ->
  scope_pushed m w sc f =
  let! w' := f (w_set_scope w (Some sc)) in
  if debug_asserts m && negb (match w_scope w' with Some s => scope_exhausted s | None => false end)
  then Panic P_ASSERT else Ok (w_set_scope w' None).
Proof. intros H. unfold scope_pushed. rewrite H. reflexivity. Qed.

Lemma pushed_tail m w X sc : w_scope w = None -> scope_exhausted sc = true ->
  (if debug_asserts m && negb (match w_scope (wstate w X sc) with Some s => scope_exhausted s | None => false end)
   then Panic P_ASSERT else Ok (w_set_scope (wstate w X sc) None)) = Ok (w_append w X).
Proof.
  intros Hs He. unfold wstate at 1. cbn [w_scope w_set_scope]. rewrite He. cbn [negb]. rewrite andb_false_r.
  rewrite set_none_wstate by exact Hs. reflexivity.
Qed.
Lemma exh_all a : scope_exhausted (AllBitField a (a + N.of_nat 0)) = true.
Proof. cbn [scope_exhausted]. change (N.of_nat 0) with 0. rewrite N.add_0_r. apply N.eqb_refl. Qed.
Lemma exh_root x a : scope_exhausted (root_scope x a (a + N.of_nat 0)) = true.
Proof.
  change (N.of_nat 0) with 0. rewrite N.add_0_r.
  destruct x as [[[bp c] nx]|]; cbn [root_scope scope_exhausted]; apply N.eqb_refl.
Qed.

Lemma firstn_skipn_len {A} (l : list A) n : (n <= length l)%nat -> length (firstn n l) = n.
Proof. intros H. rewrite firstn_length. lia. Qed.

Lemma seq_write_exact m fs so fc ea vals fes w :
  Forall (fun f => Wprop m (snd f)) fs -> seq_consts_ok fs so fc ea ->
  wst_wf w -> w_scope w = None -> enc_fields m fs vals = Ok fes ->
  write_ty m (TSeq fs so fc ea) (VSeq vals) w = w_put w (seq_assemble m fs fes ea).
Proof.
  intros F (Hfc & Hlim & Hea & Hso) Hw Hs He.
  pose proof (enc_fields_length m fs vals fes He) as Hlen.
  rewrite write_ty_seq_eq, entry_none by exact Hs. cbn [bind]. rewrite with_buffer_none by exact Hs. cbv zeta.
  destruct ea as [e|]; cbn [root_len] in Hso.
  - (* extensible *)
    rewrite usub_ok by lia. cbn [bind].
    rewrite scope_pushed_eq by exact Hs.
    set (kr := S (N.to_nat e)) in *.
    assert (Hkr : (kr <= length fs)%nat) by (unfold kr; lia).
    rewrite Hso, w_set_scope_append, w_set_scope_append. rewrite <- w_set_scope_append, <- w_set_scope_append.
    replace (w_n (w_append w [false]) + N.of_nat (nopt (firstn kr fs)))
      with (w_n (w_append w [false]) + N.of_nat (N.to_nat (N.of_nat (nopt (firstn kr fs))))) by lia.
    rewrite Nat2N.id.
    replace (e + 1) with (N.of_nat kr) by (unfold kr; lia).
    rewrite init_ext.
    rewrite <- (firstn_skipn kr fs) at 1. rewrite wfields_app.
    rewrite <- (firstn_skipn kr fs) in He. rewrite enc_fields_app in He.
    rewrite firstn_skipn_len in * by exact Hkr.
    destruct (enc_fields m (firstn kr fs) vals) as [rfe| |] eqn:Er; cbn [bind] in He; try discriminate He.
    destruct (enc_fields m (skipn kr fs) (skipn kr vals)) as [afe| |] eqn:Ea; cbn [bind] in He; try discriminate He.
    injection He as <-.
    pose proof (enc_fields_length _ _ _ _ Er) as Hlr. rewrite firstn_skipn_len in Hlr by exact Hkr.
    pose proof (enc_fields_length _ _ _ _ Ea) as Hla.
    assert (Hla' : length afe = (length fs - kr)%nat) by (rewrite Hla, skipn_length; reflexivity).
    assert (F1 : Forall (fun f => Wprop m (snd f)) (firstn kr fs)) by (apply Forall_firstn; exact F).
    assert (F2 : Forall (fun f => Wprop m (snd f)) (skipn kr fs)) by (apply Forall_skipn; exact F).
    rewrite (root_walk m w Hw _ vals rfe _ _ _ _ F1 Er);
      [|lia|cbn [xge]; rewrite firstn_skipn_len by exact Hkr; lia].
    cbn [bind]. rewrite firstn_skipn_len by exact Hkr. rewrite Nat.sub_diag. cbn [xsub]. rewrite N.sub_diag.
    unfold seq_assemble. fold kr.
    rewrite firstn_app, skipn_app, Hlr, Nat.sub_diag, (@firstn_all2 _ kr rfe), (@skipn_all2 _ kr rfe) by lia.
    cbn [firstn skipn app]. rewrite app_nil_r.
    set (nx := fc - N.of_nat kr) in *.
    assert (Hnx : nx = N.of_nat (length afe)) by (unfold nx; lia).
    destruct (skipn kr fs) as [|[k1 ft1] afs] eqn:Eafs.
    + (* no addition in the type *)
      destruct afe; [|discriminate Hla]. cbn [wfields bind ext_part app].
      unfold rstate. rewrite pushed_tail by (exact Hs || apply exh_root).
      cbn [repeat app w_put bind]. rewrite !app_nil_r. reflexivity.
    + destruct (skipn kr vals) as [|ov1 avals] eqn:Eav; [rewrite enc_fields_nil_vals in Ea; discriminate Ea|].
      rewrite enc_fields_cons in Ea.
      apply Forall_cons_iff in F2. destruct F2 as [Hf1 F2]. cbn [snd] in Hf1.
      destruct (enc_field m (k1, ft1) ov1) as [[p1 b1]| |] eqn:Ef1; cbn [bind] in Ea; try discriminate Ea.
      destruct (enc_fields m afs avals) as [afe'| |] eqn:Ea'; cbn [bind] in Ea; try discriminate Ea.
      injection Ea as <-. cbn [length] in Hla, Hnx.
      rewrite wfields_cons.
      match goal with |- context [wfield m (k1, ft1) ov1 ?st] =>
        pose proof (wfield_spec m k1 ft1 ov1 st _ Hf1 (wstate_wf _ _ _ Hw) eq_refl) as S end.
      rewrite Ef1 in S. rewrite S. clear S.
      unfold rstate, rscope. cbn [root_scope app repeat].
      rewrite (entry_trans m w (flags_of (firstn kr fs) rfe ++ payload_of rfe) _ nx (is_optk k1) p1 Hw ltac:(lia)).
      cbn [ext_part length fst].
      replace (N.of_nat (S (length afe')) - 1) with (nx - 1) by lia.
      destruct p1.
      * destruct (w_normally_small m (nx - 1)) as [ns| |]; cbn [bind]; try reflexivity.
        cbn [add_payloads andb].
        unfold wcontent. change (wopen (astate w _ _ _)) with true. cbn [andb].
        assert (Estep : (if wraps k1 ft1
                         then w_put (astate w (true :: (flags_of (firstn kr fs) rfe ++ payload_of rfe) ++ ns ++ [true]) (N.to_nat nx - 1) []) (wrap_open m b1)
                         else Ok (w_append (astate w (true :: (flags_of (firstn kr fs) rfe ++ payload_of rfe) ++ ns ++ [true]) (N.to_nat nx - 1) []) b1))
                        = let! y := (if wraps k1 ft1 then wrap_open m b1 else Ok b1) in
                          Ok (astate w (true :: (flags_of (firstn kr fs) rfe ++ payload_of rfe) ++ ns ++ [true]) (N.to_nat nx - 1) y)).
        { destruct (wraps k1 ft1).
          - destruct (wrap_open m b1); cbn [w_put bind]; try reflexivity. rewrite astate_append. reflexivity.
          - cbn [bind]. rewrite astate_append. reflexivity. }
        rewrite Estep. clear Estep.
        destruct (if wraps k1 ft1 then wrap_open m b1 else Ok b1) as [y| |]; cbn [bind]; try reflexivity.
        rewrite (all_walk m w Hw afs avals afe' _ _ _ F2 Ea') by lia.
        destruct (add_payloads m afs afe') as [ap| |]; cbn [bind]; try reflexivity.
        replace (N.to_nat nx - 1 - length afs)%nat with 0%nat by lia.
        unfold astate. rewrite pushed_tail by (exact Hs || apply exh_all).
        cbn [repeat app w_put bind map fst].
        do 3 f_equal. rewrite <- !app_assoc. cbn [app]. reflexivity.
      * cbn [bind].
        rewrite (empty_walk m w _ afs avals afe' F2 Hw Ea').
        destruct (existsb fst afe'); cbn [bind]; [reflexivity|].
        rewrite pushed_tail by (exact Hs || reflexivity).
        cbn [w_put bind app]. rewrite !app_nil_r. reflexivity.
  - (* not extensible *)
    rewrite scope_pushed_eq by exact Hs. rewrite firstn_all in Hso.
    rewrite Hso, Nat2N.id, init_none by exact Hs.
    rewrite (root_walk m w Hw fs vals fes _ _ _ _ F He) by (cbn [xge]; auto).
    cbn [bind xsub]. rewrite Nat.sub_diag.
    unfold rstate. rewrite pushed_tail by (exact Hs || apply exh_root).
    cbn [repeat app seq_assemble w_put bind]. reflexivity.
Qed.



Lemma W_seq m fs so fc ea :
  Forall (fun f => Wprop m (snd f)) fs -> seq_consts_ok fs so fc ea -> Wprop m (TSeq fs so fc ea).
Proof.
  intros F Hc v w Hw Hs. destruct v; try reflexivity. rewrite enc_seq_eq.
  destruct (enc_fields m fs fields) as [fes| |] eqn:E; cbn [bind].
  - rewrite (seq_write_exact m fs so fc ea fields fes w F Hc Hw Hs E). apply wsim_put.
  - cbn [wsim]. rewrite write_ty_seq_eq, entry_none by exact Hs. cbn [bind]. rewrite with_buffer_none by exact Hs.
    cbv zeta. destruct Hc as (Hfc & Hlim & Hea & Hso).
    destruct ea as [e0|]; [rewrite usub_ok by lia; cbn [bind]|]; rewrite scope_pushed_eq by exact Hs;
      apply not_ok_bind; eapply (wfields_fail m fs fields _ _ F); try reflexivity;
      try (rewrite E; reflexivity); apply w_set_scope_wf; repeat apply w_append_wf; exact Hw.
  - cbn [wsim]. rewrite write_ty_seq_eq, entry_none by exact Hs. cbn [bind]. rewrite with_buffer_none by exact Hs.
    cbv zeta. destruct Hc as (Hfc & Hlim & Hea & Hso).
    destruct ea as [e0|]; [rewrite usub_ok by lia; cbn [bind]|]; rewrite scope_pushed_eq by exact Hs;
      apply not_ok_bind; eapply (wfields_fail m fs fields _ _ F); try reflexivity;
      try (rewrite E; reflexivity); apply w_set_scope_wf; repeat apply w_append_wf; exact Hw.
Qed.

Definition all_wf_fields :=
  fix all (fs : list (fkind * ty)) : Prop :=
    match fs with
    | [] => True
    | (k, ft) :: fs' => wf_ty ft /\ match k with FDef d => wf_val ft d | _ => True end /\ all fs'
    end.
Lemma all_wf_fields_Forall fs : all_wf_fields fs -> Forall (fun f => wf_ty (snd f)) fs.
Proof.
  induction fs as [|[k ft] fs IH]; intros H; [constructor|]. cbn [all_wf_fields] in H. destruct H as (H1 & _ & H3).
  constructor; [exact H1|apply IH; exact H3].
Qed.
Lemma all_wf_ty_Forall alts : all_wf_ty alts -> Forall wf_ty alts.
Proof.
  induction alts as [|a alts IH]; intros H; [constructor|]. cbn [all_wf_ty] in H. destruct H as (H1 & H2).
  constructor; [exact H1|apply IH; exact H2].
Qed.
Lemma wf_ty_seq fs so fc ea : wf_ty (TSeq fs so fc ea) <-> seq_consts_ok fs so fc ea /\ all_wf_fields fs.
Proof. unfold seq_consts_ok. cbn [wf_ty]. fold all_wf_fields. tauto. Qed.

(** the writer produces exactly the reference encoding, and fails exactly when it does *)
Theorem write_enc m t : wf_ty t -> Wprop m t.
Proof.
  induction t as [| |k lo hi ext|c lo hi ext|lo hi ext|lo hi ext|e lo hi ext IH|fs so fc ea IH|alts std ext IH|vc std ext]
    using ty_ind'; intros Hty.
  1-6,10: intros v w Hw Hs;
    match goal with |- wsim (write_ty _ ?t _ _) _ _ => pose proof (write_flat_eq m t v w Hs) as E end;
    cbv beta iota in E; rewrite E; apply wsim_put.
  - apply W_list. apply IH. cbn [wf_ty] in Hty. tauto.
  - apply wf_ty_seq in Hty. destruct Hty as [Hc Hf]. apply W_seq; [|exact Hc].
    apply all_wf_fields_Forall in Hf. rewrite Forall_forall in *. intros f Hin. apply IH; [exact Hin|apply Hf; exact Hin].
  - apply W_choice. cbn [wf_ty] in Hty. destruct Hty as (_ & _ & _ & _ & Ha). apply all_wf_ty_Forall in Ha.
    rewrite Forall_forall in *. intros a Hin. apply IH; [exact Hin|apply Ha; exact Hin].
Qed.



(** * SEQUENCE, reader side *)
Definition rfield (m : mode) (f : fkind * ty) (r : rst) : res (option val * rst) :=
  match f with
  | (FReq, ft) => let! (x, r) := read_ty m ft r in Ok (Some x, r)
  | (FOpt, ft) =>
      let! (ob, r) := read_bit_field_entry m r true in
      match ob with
      | None => Panic P_UNWRAP
      | Some true =>
          let! (x, r) := rwith_buffer m r (fun r => rscope_stashed r (fun r => read_ty m ft r)) in Ok (Some x, r)
      | Some false => Ok (None, r)
      end
  | (FDef d, ft) =>
      let! (ob, r) := read_bit_field_entry m r true in
      match ob with
      | None => Panic P_UNWRAP
      | Some true =>
          let! (x, r) := rwith_buffer m r (fun r => rscope_stashed r (fun r => read_ty m ft r)) in Ok (Some x, r)
      | Some false => Ok (Some d, r)
      end
  end.
Fixpoint rwalk (m : mode) (fs : list (fkind * ty)) (r : rst) (acc : list (option val)) : res (list (option val) * rst) :=
  match fs with
  | [] => Ok (acc, r)
  | f :: fs' => let! (ov, r) := rfield m f r in rwalk m fs' r (ov :: acc)
  end.
Definition rfields (m : mode) :=
  fix fields (fs : list (fkind * ty)) (r : rst) (acc : list (option val)) : res (val * rst) :=
    match fs with
    | [] => Ok (VSeq (frev acc), r)
    | (FReq, ft) :: fs' =>
        let! (x, r) := read_ty m ft r in fields fs' r (Some x :: acc)
    | (FOpt, ft) :: fs' =>
        let! (ob, r) := read_bit_field_entry m r true in
        match ob with
        | None => Panic P_UNWRAP
        | Some true =>
            let! (x, r) := rwith_buffer m r (fun r => rscope_stashed r (fun r => read_ty m ft r)) in
            fields fs' r (Some x :: acc)
        | Some false => fields fs' r (None :: acc)
        end
    | (FDef d, ft) :: fs' =>
        let! (ob, r) := read_bit_field_entry m r true in
        match ob with
        | None => Panic P_UNWRAP
        | Some true =>
            let! (x, r) := rwith_buffer m r (fun r => rscope_stashed r (fun r => read_ty m ft r)) in
            fields fs' r (Some x :: acc)
        | Some false => fields fs' r (Some d :: acc)
        end
    end.

Lemma rfields_rwalk m : forall fs r acc,
  rfields m fs r acc = let! (acc', r') := rwalk m fs r acc in Ok (VSeq (frev acc'), r').
Proof.
  induction fs as [|[[| |d] ft] fs IH]; intros r acc; cbn [rfields rwalk rfield]; [reflexivity| | |].
  - destruct (read_ty m ft r) as [[x r1]| |]; cbn [bind]; try reflexivity. apply IH.
  - destruct (read_bit_field_entry m r true) as [[[[|]|] r1]| |]; cbn [bind]; try reflexivity.
    + destruct (rwith_buffer m r1 _) as [[x r2]| |]; cbn [bind]; try reflexivity. apply IH.
    + apply IH.
  - destruct (read_bit_field_entry m r true) as [[[[|]|] r1]| |]; cbn [bind]; try reflexivity.
    + destruct (rwith_buffer m r1 _) as [[x r2]| |]; cbn [bind]; try reflexivity. apply IH.
    + apply IH.
Qed.

Lemma rwalk_app m a : forall b r acc,
  rwalk m (a ++ b) r acc = let! (acc', r') := rwalk m a r acc in rwalk m b r' acc'.
Proof.
  induction a as [|f a IH]; intros b r acc; cbn [app rwalk]; [reflexivity|].
  destruct (rfield m f r) as [[ov r1]| |]; cbn [bind]; try reflexivity. apply IH.
Qed.

Lemma read_ty_seq_eq m fs so fc ea r :
  read_ty m (TSeq fs so fc ea) r =
  let! (_, r) := read_bit_field_entry_st m r false in
  rwith_buffer m r (fun r =>
    let bit_pos := s_pos (r_src r) in
    let! (ext, r) := (match ea with Some _ => r_get r r_bit | None => Ok (false, r) end) in
    let! rem := src_remaining m (r_src r) in
    if rem <? so then Err E_END_OF_STREAM else
    let start := s_pos (r_src r) in
    let! stop := uadd m start so in
    let r := r_set_src r (src_set_pos (r_src r) stop) in
    match ea, ext with
    | Some e, true =>
        let! nx := usub m fc (e + 1) in
        rscope_pushed m r (ExtSeq bit_pos (Some (start, stop)) (e + 1) nx)
          (fun r => let! (v, r) := rfields m fs r [] in
                    let! r := skip_unknown_extension_additions m r in Ok (v, r))
    | _, _ => rscope_pushed m r (OptBitField start stop) (fun r => rfields m fs r [])
    end).
Proof. reflexivity. Qed.

(** absolute positions *)
Lemma bit_at_spec s0 A b B tail s' : rsrc s0 (A ++ b :: B) tail -> same_buf s0 s' ->
  r_bit_at s' (s_pos s0 + bl A) = Ok b.
Proof.
  intros [(R & L & T) (E & H64)] (Ea & Et & El). unfold r_bit_at, src_set_pos, r_bit.
  rewrite bl_app, bl_cons in L. cbn [s_pos s_len s_rest].
  rewrite <- El, <- Ea. rewrite N.min_l by lia.
  destruct (N.ltb_spec (s_pos s0 + bl A) (s_len s0)); [|lia].
  replace (N.to_nat (s_pos s0 + bl A)) with (N.to_nat (s_pos s0) + length A)%nat by (unfold bl; lia).
  rewrite <- skipn_skipn', <- E, R, <- app_assoc, (skipn_app_exact A) by reflexivity. reflexivity.
Qed.

Definition bits_at (s0 : src) (a : N) (F : bits) : Prop :=
  forall s' i, same_buf s0 s' -> (i < length F)%nat -> r_bit_at s' (a + N.of_nat i) = Ok (nth i F false).

Lemma bits_at_intro s0 A F B tail : rsrc s0 (A ++ F ++ B) tail -> bits_at s0 (s_pos s0 + bl A) F.
Proof.
  intros Hs s' i Hb Hi.
  destruct (nth_split F false Hi) as (F1 & F2 & EF & L1).
  assert (EQ : A ++ (F1 ++ nth i F false :: F2) ++ B = (A ++ F1) ++ nth i F false :: (F2 ++ B))
    by (rewrite <- !app_assoc; reflexivity).
  rewrite EF, EQ in Hs.
  replace (s_pos s0 + bl A + N.of_nat i) with (s_pos s0 + bl (A ++ F1)) by (rewrite bl_app; unfold bl; lia).
  eapply bit_at_spec; eauto.
Qed.
Lemma bits_at_cons s0 a f F : bits_at s0 a (f :: F) ->
  (forall s', same_buf s0 s' -> r_bit_at s' a = Ok f) /\ bits_at s0 (a + 1) F.
Proof.
  intros H. split.
  - intros s' Hb. specialize (H s' 0%nat Hb ltac:(cbn; lia)). rewrite N.add_0_r in H. exact H.
  - intros s' i Hb Hi. specialize (H s' (S i) Hb ltac:(cbn [length]; lia)).
    replace (a + 1 + N.of_nat i) with (a + N.of_nat (S i)) by lia. exact H.
Qed.
Lemma bits_at_app s0 a F1 F2 : bits_at s0 a (F1 ++ F2) -> bits_at s0 a F1 /\ bits_at s0 (a + bl F1) F2.
Proof.
  intros H. split.
  - intros s' i Hb Hi. rewrite (H s' i Hb) by (rewrite app_length; lia). rewrite app_nth1 by exact Hi. reflexivity.
  - intros s' i Hb Hi. specialize (H s' (length F1 + i)%nat Hb ltac:(rewrite app_length; lia)).
    rewrite app_nth2_plus in H. replace (a + bl F1 + N.of_nat i) with (a + N.of_nat (length F1 + i)) by (unfold bl; lia).
    exact H.
Qed.

Lemma bit_at_ok r p b : r_bit_at (r_src r) p = Ok b -> bit_at r p = Ok (inl b).
Proof. unfold bit_at. intros ->. reflexivity. Qed.

(** one component *)
Definition fld_ok (m : mode) (opn : bool) (k : fkind) (ft : ty) (ov : option val) : Prop :=
  match ov with
  | Some x => wf_val ft x /\
              (encoded k x -> ~ Known_C01 m ft x /\
                 (opn = true -> wraps k ft = true -> ~ Known_C01_open_type_16k m ft x))
  | None => k = FOpt
  end.

Definition mk_r (s : src) (sc : scope) : rst := {| r_src := s; r_scope := Some sc |}.

Lemma stash_erase1 {A} (g : rst -> res (A * rst)) R sc : r_scope R = None ->
  (let! (x, r2) := rscope_stashed R g in Ok (x, r_set_scope r2 sc)) =
  (let! (x, r2) := g R in Ok (x, r_set_scope r2 sc)).
Proof.
  destruct R as [s0 sc0]. cbn [r_scope]. intros ->. unfold rscope_stashed. cbn [r_scope r_set_scope r_src].
  destruct (g _) as [[a r']| |]; reflexivity.
Qed.
Lemma stash_erase2 {A} m (g : rst -> res (A * rst)) R len sc : r_scope R = None ->
  (let! (x, r3) := read_whole_sub_slice m R len (fun r => rscope_stashed r g) in Ok (x, r_set_scope r3 sc)) =
  (let! (x, r3) := read_whole_sub_slice m R len g in Ok (x, r_set_scope r3 sc)).
Proof.
  destruct R as [s0 sc0]. cbn [r_scope]. intros ->. unfold read_whole_sub_slice, rscope_stashed.
  cbn [r_scope r_set_scope r_src].
  destruct (umul m len BYTE_LEN) as [lb| |]; cbn [bind]; try reflexivity.
  destruct (uadd m (s_pos s0) lb) as [wp| |]; cbn [bind]; try reflexivity.
  destruct (g _) as [[y r']| |]; reflexivity.
Qed.

Lemma stashed_read m ft r1 :
  rwith_buffer m r1 (fun r => rscope_stashed r (fun r => read_ty m ft r)) =
  if ropen r1 then
    let! (len, r2) := r_get r1 (r_length_determinant m None None) in
    let! (y, r3) := read_whole_sub_slice m (r_set_scope r2 None) len (read_ty m ft) in
    Ok (y, r_set_scope r3 (r_scope r1))
  else let! (y, r2) := read_ty m ft (r_set_scope r1 None) in Ok (y, r_set_scope r2 (r_scope r1)).
Proof.
  rewrite (rwith_buffer_factor m _ _ (rscope_nat_stashed _)). destruct (ropen r1).
  - destruct (r_get r1 _) as [[len r2]| |]; cbn [bind]; try reflexivity.
    apply (stash_erase2 m (fun r => read_ty m ft r)). reflexivity.
  - apply (stash_erase1 (fun r => read_ty m ft r)). reflexivity.
Qed.

(* the decoded option value of a component equals the written one *)
Lemma rfield_spec m k ft ov p b s sc ob s1 sc1 opn :
  Rprop m ft -> wf_ty ft -> enc_field m (k, ft) ov = Ok (p, b) -> fld_ok m opn k ft ov ->
  (match k with FDef d => wf_val ft d | _ => True end) ->
  read_from_field m (mk_r s sc) sc (is_optk k) = Ok (inl ob, mk_r s1 sc1) ->
  (is_optk k = true -> ob = Some p) ->
  opn = encode_as_open_type_field sc1 ->
  forall bits tl,
  (if p then (if opn && wraps k ft then wrap_open m b = Ok bits else bits = b) else bits = []) ->
  rsrc s1 bits tl ->
  rfield m (k, ft) (mk_r s sc) = Ok (ov, mk_r (src_adv s1 (bl bits) tl) sc1).
Proof.
  intros IH Hty Hef Hok Hd Hent Hob Hopn bits tl Hbits Hs.
  assert (Hst : read_bit_field_entry_st m (mk_r s sc) (is_optk k) = Ok (inl ob, mk_r s1 sc1)) by exact Hent.
  (* reading a present value after the entry *)
  assert (Hcontent : forall x wr, enc m ft x = Ok b -> wf_val ft x -> ~ Known_C01 m ft x ->
            (opn = true -> wr = true -> ~ Known_C01_open_type_16k m ft x) ->
            (if opn && wr then wrap_open m b = Ok bits else bits = b) ->
            (if ropen (mk_r s1 sc1) && wr then
               let! (len, r2) := r_get (mk_r s1 sc1) (r_length_determinant m None None) in
               let! (y, r3) := read_whole_sub_slice m (r_set_scope r2 None) len (read_ty m ft) in
               Ok (y, r_set_scope r3 (r_scope (mk_r s1 sc1)))
             else let! (y, r2) := read_ty m ft (r_set_scope (mk_r s1 sc1) None) in
                  Ok (y, r_set_scope r2 (r_scope (mk_r s1 sc1))))
            = Ok (x, mk_r (src_adv s1 (bl bits) tl) sc1)).
  { intros x wr He Hv Hk Hbig Hb. unfold ropen. cbn [r_scope mk_r]. rewrite <- Hopn.
    destruct (opn && wr) eqn:Eo.
    - apply andb_true_iff in Eo. destruct Eo as [-> ->].
      assert (Hsm : (bl b + 7) / 8 < 16384).
      { destruct (N.lt_ge_cases ((bl b + 7) / 8) 16384) as [L|L]; [exact L|]. exfalso.
        apply (Hbig eq_refl eq_refl). exists b. split; assumption. }
      pose proof (open_read m b bits s1 tl (read_ty m ft) x Hb Hsm Hs
                    (fun s' tl' Hs' => IH Hty x b He Hv Hk s' tl' Hs')) as Ho.
      unfold r_get, mk_r, r_of_src in *. cbn [r_src] in *.
      destruct (r_length_determinant m None None s1) as [[len s2]| |]; cbn [bind] in *; try discriminate Ho.
      change (r_set_scope (r_set_src {| r_src := s1; r_scope := Some sc1 |} s2) None) with {| r_src := s2; r_scope := None |}.
      change (r_set_src {| r_src := s1; r_scope := None |} s2) with {| r_src := s2; r_scope := None |} in Ho.
      rewrite Ho. reflexivity.
    - subst bits. change (r_set_scope (mk_r s1 sc1) None) with (r_of_src s1).
      rewrite (IH Hty x b He Hv Hk s1 tl Hs). reflexivity. }
  destruct k as [| |d]; cbn [is_optk] in *.
  - (* mandatory *)
    destruct ov as [x|]; cbn [enc_field] in Hef; [|discriminate Hef].
    destruct (enc m ft x) as [b'| |] eqn:He; cbn [bind] in Hef; try discriminate Hef. injection Hef as <- <-.
    cbn [fld_ok] in Hok. destruct Hok as [Hv Hk]. destruct (Hk I) as [Hk1 Hk2].
    cbn [rfield]. rewrite (read_ty_factor m ft _ _ _ Hst).
    rewrite (Hcontent x (negb (is_choice ft)) He Hv Hk1 Hk2 Hbits). reflexivity.
  - (* OPTIONAL *)
    specialize (Hob eq_refl). subst ob. cbn [rfield]. unfold read_bit_field_entry. rewrite Hst. cbn [bind].
    destruct ov as [x|]; cbn [enc_field] in Hef.
    + destruct (enc m ft x) as [b'| |] eqn:He; cbn [bind] in Hef; try discriminate Hef. injection Hef as <- <-.
      cbn [fld_ok] in Hok. destruct Hok as [Hv Hk]. destruct (Hk I) as [Hk1 Hk2].
      rewrite stashed_read.
      pose proof (Hcontent x true He Hv Hk1 Hk2 Hbits) as Hc. rewrite andb_true_r in Hc.
      rewrite Hc. reflexivity.
    + injection Hef as <- <-. subst bits. rewrite bl_nil, (src_adv_nil _ _ (proj1 Hs)). reflexivity.
  - (* DEFAULT *)
    specialize (Hob eq_refl). subst ob. cbn [rfield]. unfold read_bit_field_entry. rewrite Hst. cbn [bind].
    destruct ov as [x|]; cbn [enc_field] in Hef; [|discriminate Hef].
    cbn [fld_ok] in Hok. destruct Hok as [Hv Hk]. cbn [encoded] in Hk.
    destruct (val_eqb d x) eqn:Ed.
    + injection Hef as <- <-. subst bits. apply val_eqb_eq in Ed. subst x.
      rewrite bl_nil, (src_adv_nil _ _ (proj1 Hs)). reflexivity.
    + destruct (enc m ft x) as [b'| |] eqn:He; cbn [bind] in Hef; try discriminate Hef. injection Hef as <- <-.
      destruct (Hk eq_refl) as [Hk1 Hk2].
      rewrite stashed_read.
      pose proof (Hcontent x true He Hv Hk1 Hk2 Hbits) as Hc. rewrite andb_true_r in Hc.
      rewrite Hc. reflexivity.
Qed.



Fixpoint flds_ok (m : mode) (opn : bool) (fs : list (fkind * ty)) (vals : list (option val)) : Prop :=
  match fs, vals with
  | [], [] => True
  | (k, ft) :: fs', ov :: vals' =>
      (Rprop m ft /\ wf_ty ft /\ match k with FDef d => wf_val ft d | _ => True end /\ fld_ok m opn k ft ov)
      /\ flds_ok m opn fs' vals'
  | _, _ => False
  end.

Lemma entry_root_r m s' x a b (o : bool) p :
  (o = true -> r_bit_at s' a = Ok p /\ a < b) -> xge x 1 ->
  exists ob, read_from_field m (mk_r s' (root_scope x a b)) (root_scope x a b) o
     = Ok (inl ob, mk_r s' (root_scope (xsub x 1) (if o then a + 1 else a) b)) /\ (o = true -> ob = Some p).
Proof.
  intros Ho Hx. destruct x as [[[bp c] nx]|]; cbn [root_scope read_from_field read_from_field_simple xsub xge] in *.
  - destruct (N.eqb_spec c 0); [lia|]. change (N.of_nat 1) with 1. destruct o.
    + destruct (Ho eq_refl) as [Hb _]. unfold bit_at. cbn [r_src mk_r]. rewrite Hb. cbn [bind].
      eexists. split; reflexivity.
    + eexists. split; [reflexivity|discriminate].
  - destruct o.
    + destruct (Ho eq_refl) as [Hb Hlt]. destruct (N.leb_spec b a); [lia|].
      unfold bit_at. cbn [r_src mk_r]. rewrite Hb. cbn [bind]. eexists. split; reflexivity.
    + destruct (b <=? a); eexists; (split; [reflexivity|discriminate]).
Qed.

Lemma entry_all_r m s' a b (o : bool) p : a < b -> r_bit_at s' a = Ok p ->
  read_from_field m (mk_r s' (AllBitField a b)) (AllBitField a b) o
  = Ok (inl (Some p), mk_r s' (AllBitField (a + 1) b)).
Proof.
  intros Hlt Hb. cbn [read_from_field read_from_field_simple]. destruct (N.ltb_spec a b); [|lia].
  unfold bit_at. cbn [r_src mk_r]. rewrite Hb. reflexivity.
Qed.

Lemma entry_tail_r m s' a b (o : bool) : b <= a ->
  read_from_field m (mk_r s' (OptBitField a b)) (OptBitField a b) o
  = Ok (inl (Some false), mk_r s' (OptBitField a b)).
Proof. intros H. cbn [read_from_field read_from_field_simple]. destruct (N.leb_spec b a); [reflexivity|lia]. Qed.

Lemma same_buf_sym a b : same_buf a b -> same_buf b a.
Proof. unfold same_buf. intuition congruence. Qed.

Lemma root_walk_r m s0 : forall rfs vals fes a b x s' tl acc,
  flds_ok m false rfs vals -> enc_fields m rfs vals = Ok fes ->
  bits_at s0 a (flags_of rfs fes) -> a + N.of_nat (nopt rfs) <= b -> xge x (length rfs) ->
  same_buf s0 s' -> rsrc s' (payload_of fes) tl ->
  rwalk m rfs (mk_r s' (root_scope x a b)) acc =
  Ok (rev vals ++ acc,
      mk_r (src_adv s' (bl (payload_of fes)) tl) (root_scope (xsub x (length rfs)) (a + N.of_nat (nopt rfs)) b)).
Proof.
  induction rfs as [|[k ft] rfs IHl]; intros vals fes a b x s' tl acc Hok He Hbits Hab Hx Hsb Hs.
  - destruct vals; [|contradiction Hok]. cbn in He. injection He as <-.
    cbn [rwalk rev app payload_of map concat length nopt filter]. rewrite bl_nil, (src_adv_nil _ _ (proj1 Hs)).
    change (N.of_nat 0) with 0. rewrite N.add_0_r.
    destruct x as [[[bp c] nx]|]; cbn [xsub]; rewrite ?N.sub_0_r; reflexivity.
  - destruct vals as [|ov vals]; [contradiction Hok|]. cbn [flds_ok] in Hok. destruct Hok as [(HR & Hty & Hd & Hf) Hok].
    rewrite enc_fields_cons in He.
    destruct (enc_field m (k, ft) ov) as [[p b0]| |] eqn:Ef; cbn [bind] in He; try discriminate He.
    destruct (enc_fields m rfs vals) as [fes'| |] eqn:Er; cbn [bind] in He; try discriminate He. injection He as <-.
    cbn [flags_of] in Hbits. apply bits_at_app in Hbits. destruct Hbits as [Hb1 Hb2].
    unfold nopt in Hab. cbn [filter fst] in Hab. cbn [length] in Hx.
    assert (Hx1 : xge x 1) by (destruct x as [[[bp c] nx]|]; cbn [xge] in *; lia).
    destruct (entry_root_r m s' x a b (is_optk k) p) as (ob & Hent & Hob); [|exact Hx1|].
    { intros Ho. rewrite Ho in *. cbn [length] in Hab. split; [|lia].
      apply bits_at_cons in Hb1. apply (proj1 Hb1). exact Hsb. }
    cbn [payload_of map concat snd] in Hs. fold (payload_of fes') in Hs.
    apply rsrc_split in Hs. destruct Hs as [Hs1 Hs2].
    assert (Hb0 : p = false -> b0 = []) by (intros ->; eapply enc_field_absent; exact Ef).
    cbn [rwalk].
    rewrite (rfield_spec m k ft ov p b0 s' _ ob s' _ false HR Hty Ef Hf Hd Hent Hob
               ltac:(destruct x as [[[? ?] ?]|]; reflexivity) b0 _
               ltac:(destruct p; [reflexivity|auto]) Hs1).
    cbn [bind].
    rewrite (IHl vals fes' _ b (xsub x 1) _ tl (ov :: acc) Hok Er).
    + cbn [rev length payload_of map concat snd]. fold (payload_of fes'). rewrite <- app_assoc. cbn [app].
      rewrite src_adv_adv, bl_app, xsub_xsub. unfold nopt. cbn [filter fst].
      destruct (is_optk k); cbn [length app bl]; do 4 f_equal; lia.
    + destruct (is_optk k); cbn [app bl length] in Hb2; [|rewrite N.add_0_r in Hb2; exact Hb2].
      change (bl [p]) with 1 in Hb2. exact Hb2.
    + unfold nopt. destruct (is_optk k); cbn [length] in Hab; lia.
    + destruct x as [[[bp c] nx]|]; cbn [xge xsub] in *; lia.
    + eapply same_buf_trans; [exact Hsb|apply same_buf_adv].
    + exact Hs2.
Qed.

Lemma all_walk_r m s0 : forall afs vals fes ap a b s' tl acc,
  flds_ok m true afs vals -> enc_fields m afs vals = Ok fes -> add_payloads m afs fes = Ok ap ->
  bits_at s0 a (map fst fes) -> a + N.of_nat (length afs) <= b ->
  same_buf s0 s' -> rsrc s' ap tl ->
  rwalk m afs (mk_r s' (AllBitField a b)) acc =
  Ok (rev vals ++ acc, mk_r (src_adv s' (bl ap) tl) (AllBitField (a + N.of_nat (length afs)) b)).
Proof.
  induction afs as [|[k ft] afs IHl]; intros vals fes ap a b s' tl acc Hok He Hap Hbits Hab Hsb Hs.
  - destruct vals; [|contradiction Hok]. cbn in He. injection He as <-. cbn in Hap. injection Hap as <-.
    cbn [rwalk rev app length]. rewrite bl_nil, (src_adv_nil _ _ (proj1 Hs)).
    change (N.of_nat 0) with 0. rewrite N.add_0_r. reflexivity.
  - destruct vals as [|ov vals]; [contradiction Hok|]. cbn [flds_ok] in Hok. destruct Hok as [(HR & Hty & Hd & Hf) Hok].
    rewrite enc_fields_cons in He.
    destruct (enc_field m (k, ft) ov) as [[p b0]| |] eqn:Ef; cbn [bind] in He; try discriminate He.
    destruct (enc_fields m afs vals) as [fes'| |] eqn:Er; cbn [bind] in He; try discriminate He. injection He as <-.
    cbn [add_payloads] in Hap.
    destruct (if p && wraps k ft then wrap_open m b0 else Ok b0) as [y| |] eqn:Ey; cbn [bind] in Hap; try discriminate Hap.
    destruct (add_payloads m afs fes') as [ap'| |] eqn:Eap; cbn [bind] in Hap; try discriminate Hap. injection Hap as <-.
    cbn [map fst] in Hbits. apply bits_at_cons in Hbits. destruct Hbits as [Hb1 Hb2].
    cbn [length] in Hab.
    apply rsrc_split in Hs. destruct Hs as [Hs1 Hs2].
    assert (Hb0 : p = false -> b0 = []) by (intros ->; eapply enc_field_absent; exact Ef).
    cbn [rwalk].
    rewrite (rfield_spec m k ft ov p b0 s' _ (Some p) s' _ true HR Hty Ef Hf Hd
               (entry_all_r m s' a b (is_optk k) p ltac:(lia) (Hb1 s' Hsb)) ltac:(reflexivity) eq_refl y _
               ltac:(destruct p; cbn [andb] in *; [destruct (wraps k ft); [exact Ey|congruence]|rewrite (Hb0 eq_refl) in Ey; congruence]) Hs1).
    cbn [bind].
    rewrite (IHl vals fes' ap' _ b _ tl (ov :: acc) Hok Er Eap Hb2 ltac:(lia)
               ltac:(eapply same_buf_trans; [exact Hsb|apply same_buf_adv]) Hs2).
    cbn [rev length]. rewrite <- app_assoc. cbn [app]. rewrite src_adv_adv, bl_app.
    replace (a + 1 + N.of_nat (length afs)) with (a + N.of_nat (S (length afs))) by lia. reflexivity.
Qed.

Lemma tail_walk_r m : forall afs vals fes a b s' tl acc,
  flds_ok m false afs vals -> enc_fields m afs vals = Ok fes -> existsb fst fes = false -> b <= a ->
  rsrc s' [] tl ->
  rwalk m afs (mk_r s' (OptBitField a b)) acc = Ok (rev vals ++ acc, mk_r s' (OptBitField a b)).
Proof.
  induction afs as [|[k ft] afs IHl]; intros vals fes a b s' tl acc Hok He Hex Hab Hs.
  - destruct vals; [|contradiction Hok]. reflexivity.
  - destruct vals as [|ov vals]; [contradiction Hok|]. cbn [flds_ok] in Hok. destruct Hok as [(HR & Hty & Hd & Hf) Hok].
    rewrite enc_fields_cons in He.
    destruct (enc_field m (k, ft) ov) as [[p b0]| |] eqn:Ef; cbn [bind] in He; try discriminate He.
    destruct (enc_fields m afs vals) as [fes'| |] eqn:Er; cbn [bind] in He; try discriminate He. injection He as <-.
    cbn [existsb fst] in Hex. apply orb_false_iff in Hex. destruct Hex as [-> Hex].
    cbn [rwalk].
    rewrite (rfield_spec m k ft ov false b0 s' _ (Some false) s' _ false HR Hty Ef Hf Hd
               (entry_tail_r m s' a b (is_optk k) Hab) ltac:(reflexivity) eq_refl [] tl eq_refl Hs).
    cbn [bind]. rewrite bl_nil, (src_adv_nil _ _ (proj1 Hs)).
    rewrite (IHl vals fes' a b s' tl (ov :: acc) Hok Er Hex Hab Hs).
    cbn [rev]. rewrite <- app_assoc. reflexivity.
Qed.

Lemma rsrc_adv_nil s X tl : rsrc s X tl -> rsrc (src_adv s (bl X) tl) [] tl.
Proof.
  intros H. rewrite <- (app_nil_r X) in H. apply rsrc_split in H. destruct H as [_ H].
  exact H.
Qed.



Lemma entry_trans_r m s' bp opt nx (o : bool) ns fl ap tl :
  r_bit_at s' bp = Ok true -> 1 <= nx -> nx < SIZE_LIMIT ->
  w_normally_small m (nx - 1) = Ok ns -> rsrc s' (ns ++ (true :: fl) ++ ap) tl -> bl fl + 1 = nx ->
  read_from_field m (mk_r s' (ExtSeq bp opt 0 nx)) (ExtSeq bp opt 0 nx) o =
  Ok (inl (Some true),
      mk_r (src_adv s' (bl (ns ++ true :: fl)) (ap ++ tl))
           (AllBitField (s_pos s' + bl ns + 1) (s_pos s' + bl ns + nx))).
Proof.
  intros Hbit H1 Hlim Hns Hs Hfl.
  assert (Hv : nx - 1 < two64) by (unfold SIZE_LIMIT in Hlim; unfold two64; lia).
  rewrite normally_small_write in Hns by exact Hv. injection Hns as <-.
  cbn [read_from_field]. change (0 =? 0) with true. cbv iota.
  unfold bit_at at 1. cbn [r_src mk_r]. rewrite Hbit. cbn [bind].
  pose proof Hs as Hs0. apply rsrc_split in Hs. destruct Hs as [Hs1 Hs2].
  rewrite (normally_small_read m (nx - 1) s' _ Hv (proj1 Hs1)).
  cbn [bind r_src r_set_src mk_r].
  replace (N.min (nx - 1 + 1) (two64 - 1)) with nx by (unfold two64, SIZE_LIMIT in *; lia).
  set (ns := x_normally_small (nx - 1)) in *.
  match goal with |- context [src_set_pos ?S1 _] => set (s1 := S1) end.
  change (s_pos s1) with (s_pos s' + bl ns).
  assert (Hrs : rsrc s' (ns ++ true :: fl) (ap ++ tl)).
  { destruct Hs0 as [(R & L & T) O]. split; [|exact O].
    split; [rewrite R; rewrite <- !app_assoc; cbn [app]; rewrite <- ?app_assoc; reflexivity|].
    rewrite !bl_app in *. rewrite !bl_cons in *. split; lia. }
  assert (Hstop : N.min (s_pos s' + bl ns + nx) (two64 - 1) = s_pos s' + bl (ns ++ true :: fl)).
  { destruct Hrs as [(_ & L & _) (_ & H64)]. rewrite bl_app, bl_cons in *. lia. }
  rewrite Hstop.
  rewrite (src_set_pos_end s' s1 (ns ++ true :: fl) (ap ++ tl) Hrs) by apply same_buf_adv.
  cbn [read_from_field_simple].
  destruct (N.ltb_spec (s_pos s' + bl ns) (s_pos s' + bl (ns ++ true :: fl))) as [L|L];
    [|rewrite bl_app, bl_cons in L; lia].
  unfold bit_at. cbn [r_src r_set_scope r_set_src].
  rewrite (bit_at_spec s' ns true fl (ap ++ tl) _ Hrs (same_buf_adv _ _ _)). cbn [bind].
  replace (s_pos s' + bl (ns ++ true :: fl)) with (s_pos s' + bl ns + nx) by (rewrite bl_app, bl_cons; lia).
  reflexivity.
Qed.

(** from the recursive predicates of Spec.v to per-component facts *)
Definition all_wf_vals :=
  fix all (fs : list (fkind * ty)) (vals : list (option val)) : Prop :=
    match fs, vals with
    | [], [] => True
    | (k, ft) :: fs', ov :: vals' =>
        match ov with Some x => wf_val ft x | None => k = FOpt end /\ all fs' vals'
    | _, _ => False
    end.
Definition any_known_f (m : mode) (ea : option N) :=
  fix any (fs : list (fkind * ty)) (vals : list (option val)) (i : nat) : Prop :=
    match fs, vals with
    | (k, ft) :: fs', ov :: vals' =>
        match ov with
        | Some x => encoded k x /\
                    (Known_C01 m ft x \/
                     (is_addition ea i /\ wraps k ft = true /\ Known_C01_open_type_16k m ft x))
        | None => False
        end \/ any fs' vals' (S i)
    | _, _ => False
    end.

Lemma all_wf_vals_length : forall fs vals, all_wf_vals fs vals -> length vals = length fs.
Proof.
  induction fs as [|[k ft] fs IH]; intros [|ov vals] H; try contradiction H; [reflexivity|].
  cbn [all_wf_vals] in H. cbn [length]. f_equal. apply IH, H.
Qed.

Lemma flds_ok_intro m ea : forall fs vals i,
  Forall (fun f => Rprop m (snd f)) fs -> all_wf_fields fs -> all_wf_vals fs vals ->
  ~ any_known_f m ea fs vals i ->
  flds_ok m false fs vals /\ (is_addition ea i -> flds_ok m true fs vals).
Proof.
  induction fs as [|[k ft] fs IH]; intros [|ov vals] i F Hty Hv Hk; try contradiction Hv.
  - split; [exact I|intros _; exact I].
  - apply Forall_cons_iff in F. destruct F as [HR F]. cbn [snd] in HR.
    cbn [all_wf_fields] in Hty. destruct Hty as (Ht & Hd & Hty).
    cbn [all_wf_vals] in Hv. destruct Hv as [Hv1 Hv].
    cbn [any_known_f] in Hk.
    destruct (IH vals (S i) F Hty Hv ltac:(tauto)) as [I1 I2].
    assert (Hadd : is_addition ea i -> is_addition ea (S i)) by (destruct ea; cbn [is_addition]; [lia|tauto]).
    cbn [flds_ok]. split.
    + split; [|exact I1]. repeat split; try assumption.
      unfold fld_ok. destruct ov as [x|]; [|exact Hv1]. split; [exact Hv1|].
      intros He. split; [tauto|intros C; discriminate C].
    + intros Ha. split; [|apply I2, Hadd, Ha]. repeat split; try assumption.
      unfold fld_ok. destruct ov as [x|]; [|exact Hv1]. split; [exact Hv1|].
      intros He. split; [tauto|]. intros _ Hw C. apply Hk. left. tauto.
Qed.

Lemma flds_ok_app m o : forall a b vals, flds_ok m o (a ++ b) vals ->
  flds_ok m o a (firstn (length a) vals) /\ flds_ok m o b (skipn (length a) vals).
Proof.
  induction a as [|[k ft] a IH]; intros b vals H; cbn [app length firstn skipn] in *.
  - split; [exact I|exact H].
  - destruct vals as [|ov vals]; [contradiction H|]. cbn [flds_ok] in H. destruct H as [H1 H2].
    destruct (IH b vals H2) as [I1 I2]. cbn [firstn skipn flds_ok]. tauto.
Qed.

Lemma any_known_skip m ea : forall n fs vals i,
  ~ any_known_f m ea fs vals i -> ~ any_known_f m ea (skipn n fs) (skipn n vals) (i + n).
Proof.
  induction n as [|n IH]; intros fs vals i H.
  - rewrite Nat.add_0_r. exact H.
  - destruct fs as [|[k ft] fs]; [cbn; tauto|]. destruct vals as [|ov vals].
    + cbn [skipn]. destruct (skipn n fs) as [|[? ?] ?]; cbn; tauto.
    + cbn [skipn]. replace (i + S n)%nat with (S i + n)%nat by lia. apply IH.
      cbn [any_known_f] in H. tauto.
Qed.
Lemma all_wf_fields_skipn n : forall fs, all_wf_fields fs -> all_wf_fields (skipn n fs).
Proof.
  induction n as [|n IH]; intros fs H; [exact H|]. destruct fs as [|[k ft] fs]; [exact H|].
  cbn [skipn]. apply IH. cbn [all_wf_fields] in H. tauto.
Qed.
Lemma all_wf_vals_skipn n : forall fs vals, all_wf_vals fs vals -> all_wf_vals (skipn n fs) (skipn n vals).
Proof.
  induction n as [|n IH]; intros fs vals H; [exact H|]. destruct fs as [|[k ft] fs]; destruct vals as [|ov vals];
    try contradiction H; [exact I|].
  cbn [skipn]. apply IH. cbn [all_wf_vals] in H. tauto.
Qed.



Lemma frev_rev {A} (l : list A) : frev (rev l ++ []) = l.
Proof. unfold frev. rewrite rev_append_rev, !app_nil_r, rev_involutive. reflexivity. Qed.

(* the preamble: remaining-length check, then the cursor jumps over the presence bits *)
Lemma seq_header m s1 flags rest tail so :
  rsrc s1 (flags ++ rest) tail -> so = bl flags ->
  src_remaining m s1 = Ok (s_len s1 - s_pos s1) /\ (s_len s1 - s_pos s1 <? so) = false /\
  uadd m (s_pos s1) so = Ok (s_pos s1 + so) /\
  src_set_pos s1 (s_pos s1 + so) = src_adv s1 (bl flags) (rest ++ tail).
Proof.
  intros Hs ->. pose proof Hs as [(R & L & T) (E & H64)]. rewrite bl_app in L.
  unfold src_remaining. rewrite usub_ok by lia. split; [reflexivity|].
  split; [apply N.ltb_ge; lia|]. rewrite uadd_ok by lia. split; [reflexivity|].
  apply rsrc_split in Hs. destruct Hs as [Hs1 _].
  apply (src_set_pos_end s1 s1 flags (rest ++ tail) Hs1 (same_buf_refl _)).
Qed.

Lemma seq_assemble_some m fs fes e kr : kr = S (N.to_nat e) ->
  seq_assemble m fs fes (Some e) =
  let! (eb, xp) := ext_part m (skipn kr fs) (skipn kr fes) in
  Ok (eb :: flags_of (firstn kr fs) (firstn kr fes) ++ payload_of (firstn kr fes) ++ xp).
Proof. intros ->. reflexivity. Qed.

Lemma enc_fields_firstn m : forall l vals fes, enc_fields m l vals = Ok fes ->
  enc_fields m l (firstn (length l) vals) = Ok fes.
Proof.
  induction l as [|[k ft] l IH]; intros vals fes H; [cbn in *; exact H|].
  destruct vals as [|ov vals]; [rewrite enc_fields_nil_vals in H; discriminate H|].
  cbn [length firstn]. rewrite enc_fields_cons in *.
  destruct (enc_field m (k, ft) ov); cbn [bind] in *; try discriminate H.
  destruct (enc_fields m l vals) as [r| |] eqn:E2; cbn [bind] in *; try discriminate H.
  rewrite (IH vals r E2). exact H.
Qed.

Lemma rpushed_eq {A} m s sc (f : rst -> res (A * rst)) :
  rscope_pushed m (r_of_src s) sc f =
  let! (a, r') := f (mk_r s sc) in
  if debug_asserts m && negb (match r_scope r' with Some s => scope_exhausted s | None => false end)
  then Panic P_ASSERT else Ok (a, r_set_scope r' None).
Proof. reflexivity. Qed.

Lemma R_seq m fs so fc ea : Forall (fun f => Rprop m (snd f)) fs -> Rprop m (TSeq fs so fc ea).
Proof.
  intros F Hty v bs He Hv Hk s tail Hs. destruct v as [| | | | | | |vals| |]; try discriminate He; try contradiction Hv.
  apply wf_ty_seq in Hty. destruct Hty as [(Hfc & Hlim & Hea & Hso) Htf].
  rewrite enc_seq_eq in He. destruct (enc_fields m fs vals) as [fes| |] eqn:Ef; cbn [bind] in He; try discriminate He.
  change (all_wf_vals fs vals) in Hv. change (~ any_known_f m ea fs vals 0) in Hk.
  pose proof (all_wf_vals_length _ _ Hv) as Hlv.
  pose proof (enc_fields_length _ _ _ _ Ef) as Hlf.
  destruct (flds_ok_intro m ea fs vals 0 F Htf Hv Hk) as [Hok0 _].
  rewrite read_ty_seq_eq, rentry_none by reflexivity. cbn [bind]. rewrite rwith_buffer_none by reflexivity. cbv zeta.
  destruct ea as [e|]; cbn [root_len] in Hso.
  - (* extensible *)
    remember (S (N.to_nat e)) as kr eqn:Ekr.
    rewrite (seq_assemble_some m fs fes e kr Ekr) in He.
    assert (Hkr : (kr <= length fs)%nat) by lia.
    destruct (ext_part m (skipn kr fs) (skipn kr fes)) as [[eb xp]| |] eqn:Ex; cbn [bind] in He; try discriminate He.
    injection He as <-.
    (* split the component lists *)
    pose proof Ef as Ef'. rewrite <- (firstn_skipn kr fs) in Ef'. rewrite enc_fields_app in Ef'.
    rewrite firstn_skipn_len in Ef' by exact Hkr.
    destruct (enc_fields m (firstn kr fs) vals) as [rfe| |] eqn:Er; cbn [bind] in Ef'; try discriminate Ef'.
    destruct (enc_fields m (skipn kr fs) (skipn kr vals)) as [afe| |] eqn:Ea; cbn [bind] in Ef'; try discriminate Ef'.
    injection Ef' as <-.
    pose proof (enc_fields_length _ _ _ _ Er) as Hlr. rewrite firstn_skipn_len in Hlr by exact Hkr.
    rewrite skipn_app, Hlr, Nat.sub_diag, (@skipn_all2 _ kr rfe) in Ex by lia.
    rewrite firstn_app, Hlr, Nat.sub_diag, (@firstn_all2 _ kr rfe) in Hs |- * by lia.
    cbn [firstn skipn app] in Ex, Hs |- *. rewrite app_nil_r in Hs |- *.
    pose proof Hok0 as Hok. rewrite <- (firstn_skipn kr fs) in Hok. apply flds_ok_app in Hok.
    rewrite firstn_skipn_len in Hok by exact Hkr. destruct Hok as [Hokr Hoka].
    assert (Er' : enc_fields m (firstn kr fs) (firstn kr vals) = Ok rfe).
    { pose proof (enc_fields_firstn m _ _ _ Er) as Q. rewrite firstn_skipn_len in Q by exact Hkr. exact Q. }
    assert (Hflags : bl (flags_of (firstn kr fs) rfe) = so).
    { unfold bl. rewrite flags_of_length by (rewrite firstn_skipn_len by exact Hkr; exact Hlr). lia. }
    cbn [app] in Hs. pose proof Hs as Hs0.
    change (eb :: flags_of (firstn kr fs) rfe ++ payload_of rfe ++ xp)
      with ([eb] ++ flags_of (firstn kr fs) rfe ++ payload_of rfe ++ xp) in Hs.
    apply rsrc_split in Hs. destruct Hs as [Hs1 Hs2].
    rewrite r_get_of_src, (r_bit_ok _ _ _ (proj1 Hs1)). cbn [bind r_src r_of_src r_set_src r_scope].
    change (bl [eb]) with 1 in *.
    set (s1 := src_adv s 1 ((flags_of (firstn kr fs) rfe ++ payload_of rfe ++ xp) ++ tail)) in *.
    destruct (seq_header m s1 (flags_of (firstn kr fs) rfe) (payload_of rfe ++ xp) tail so Hs2 (eq_sym Hflags)) as (Q1 & Q2 & Q3 & Q4).
    rewrite Q1. cbn [bind]. rewrite Q2, Q3. cbn [bind]. rewrite Q4. clear Q1 Q2 Q3 Q4.
    apply rsrc_split in Hs2. destruct Hs2 as [Hs2 Hs3]. fold s1 in Hs3.
    set (s2 := src_adv s1 (bl (flags_of (firstn kr fs) rfe)) ((payload_of rfe ++ xp) ++ tail)) in *.
    assert (Hbits : bits_at s (s_pos s1) (flags_of (firstn kr fs) rfe)).
    { change (s_pos s1) with (s_pos s + bl [eb]).
      apply (bits_at_intro s [eb] _ (payload_of rfe ++ xp) tail). exact Hs0. }
    assert (Hsb2 : same_buf s s2) by (eapply same_buf_trans; apply same_buf_adv).
    assert (Hnopt : N.of_nat (nopt (firstn kr fs)) = so) by lia.
    apply rsrc_split in Hs3. destruct Hs3 as [Hs3 Hs4].
    change (r_of_src s2) with (r_of_src s2).
    destruct eb.
    + (* additions present *)
      assert (Hfc' : e + 1 = N.of_nat kr) by lia.
      (* shape of the extension part *)
      unfold ext_part in Ex. destruct afe as [|[p1 b1] rest]; [discriminate Ex|].
      destruct p1; [|destruct (existsb fst rest); discriminate Ex].
      match type of Ex with context [w_normally_small m ?a] =>
        destruct (w_normally_small m a) as [ns| |] eqn:Ens; cbn [bind] in Ex; try discriminate Ex end.
      match type of Ex with context [add_payloads m ?a ?b] =>
        destruct (add_payloads m a b) as [ap| |] eqn:Eap; cbn [bind] in Ex; try discriminate Ex end.
      injection Ex as <-.
      pose proof (enc_fields_length _ _ _ _ Ea) as Hla.
      destruct (skipn kr fs) as [|[k1 ft1] afs] eqn:Eafs; [discriminate Hla|].
      destruct (skipn kr vals) as [|ov1 avals] eqn:Eav; [rewrite enc_fields_nil_vals in Ea; discriminate Ea|].
      assert (Hlen_fs : length fs = (kr + S (length afs))%nat).
      { rewrite <- (firstn_skipn kr fs) at 1. rewrite app_length, firstn_skipn_len, Eafs by exact Hkr. reflexivity. }
      cbn [length] in Hla, Ens.
      set (nx := fc - (e + 1)) in *.
      assert (Hnx : nx = N.of_nat (S (length rest))) by (unfold nx; lia).
      assert (Hnxl : nx < SIZE_LIMIT) by (unfold nx; lia).
      assert (Hnxu : usub m fc (e + 1) = Ok nx) by (apply usub_ok; lia).
      clearbody nx.
      replace (N.of_nat (S (length rest)) - 1) with (nx - 1) in Ens by lia.
      (* per-component facts for the additions, as open types *)
      assert (Hoka1 : flds_ok m true ((k1, ft1) :: afs) (ov1 :: avals)).
      { rewrite <- Eafs, <- Eav.
        apply (flds_ok_intro m (Some e) (skipn kr fs) (skipn kr vals) (0 + kr)).
        - apply Forall_skipn. exact F.
        - apply all_wf_fields_skipn. exact Htf.
        - apply all_wf_vals_skipn. exact Hv.
        - apply any_known_skip. exact Hk.
        - cbn [is_addition]. lia. }
      cbn [flds_ok] in Hoka1. destruct Hoka1 as [(HR1 & Hty1 & Hd1 & Hf1) Hoka'].
      rewrite enc_fields_cons in Ea.
      destruct (enc_field m (k1, ft1) ov1) as [[p1 b1']| |] eqn:Ef1; cbn [bind] in Ea; try discriminate Ea.
      destruct (enc_fields m afs avals) as [afe'| |] eqn:Ea'; cbn [bind] in Ea; try discriminate Ea.
      injection Ea as -> -> ->.
      cbn [add_payloads andb] in Eap.
      destruct (if wraps k1 ft1 then wrap_open m b1 else Ok b1) as [y1| |] eqn:Ey1; cbn [bind] in Eap; try discriminate Eap.
      destruct (add_payloads m afs rest) as [ap'| |] eqn:Eap'; cbn [bind] in Eap; try discriminate Eap.
      injection Eap as <-.
      (* root components under the ExtSeq scope *)
      rewrite Hnxu. cbn [bind].
      rewrite rpushed_eq, rfields_rwalk.
      rewrite <- (firstn_skipn kr fs) at 1. rewrite rwalk_app, Eafs.
      change (ExtSeq (s_pos s) (Some (s_pos s1, s_pos s1 + so)) (e + 1) nx)
        with (root_scope (Some (s_pos s, e + 1, nx)) (s_pos s1) (s_pos s1 + so)).
      assert (Hab : s_pos s1 + N.of_nat (nopt (firstn kr fs)) <= s_pos s1 + so) by lia.
      assert (Hxg : xge (Some (s_pos s, e + 1, nx)) (length (firstn kr fs))).
      { cbn [xge]. rewrite firstn_skipn_len by exact Hkr. lia. }
      rewrite (root_walk_r m s (firstn kr fs) (firstn kr vals) rfe (s_pos s1) (s_pos s1 + so) _ s2 _ [] Hokr Er' Hbits
                 Hab Hxg Hsb2 Hs3).
      cbn [bind xsub root_scope]. rewrite Hnopt, firstn_skipn_len by exact Hkr.
      replace (e + 1 - N.of_nat kr) with 0 by lia.
      cbn [map fst] in Hs4 |- *.
      set (s3 := src_adv s2 (bl (payload_of rfe)) ((ns ++ true :: map fst rest ++ y1 ++ ap') ++ tail)) in *.
      assert (Hsb3 : same_buf s s3) by (eapply same_buf_trans; [exact Hsb2|apply same_buf_adv]).
      (* first addition: the scope turns into the presence bits of the additions *)
      assert (Hbit0 : r_bit_at s3 (s_pos s) = Ok true).
      { pose proof (bit_at_spec s [] true _ tail s3 Hs0 Hsb3) as Q. rewrite bl_nil, N.add_0_r in Q. exact Q. }
      assert (Hfl : bl (map fst rest) + 1 = nx).
      { unfold bl. rewrite map_length. unfold fenc in *. lia. }
      pose proof (entry_trans_r m s3 (s_pos s) (Some (s_pos s1 + so, s_pos s1 + so)) nx (is_optk k1) ns
                    (map fst rest) (y1 ++ ap') tail Hbit0 ltac:(lia) Hnxl Ens Hs4 Hfl) as Hent.
      set (s4 := src_adv s3 (bl (ns ++ true :: map fst rest)) ((y1 ++ ap') ++ tail)) in *.
      assert (Hs5 : rsrc s4 (y1 ++ ap') tail).
      { assert (EQ : ns ++ true :: map fst rest ++ y1 ++ ap' = (ns ++ true :: map fst rest) ++ (y1 ++ ap'))
          by (rewrite <- app_assoc; reflexivity).
        assert (Q2 : rsrc s3 ((ns ++ true :: map fst rest) ++ (y1 ++ ap')) tail) by (rewrite <- EQ; exact Hs4).
        apply rsrc_split in Q2. exact (proj2 Q2). }
      apply rsrc_split in Hs5. destruct Hs5 as [Hs5 Hs6].
      cbn [rwalk].
      rewrite (rfield_spec m k1 ft1 ov1 true b1 s3 _ (Some true) s4 _ true HR1 Hty1 Ef1 Hf1 Hd1 Hent
                 ltac:(reflexivity) eq_refl y1 _ ltac:(cbn [andb]; destruct (wraps k1 ft1); congruence) Hs5).
      cbn [bind].
      (* the other additions *)
      set (a1 := s_pos s3 + bl ns + 1) in *.
      assert (Hbits2 : bits_at s a1 (map fst rest)).
      { pose proof (bits_at_intro s ([true] ++ flags_of (firstn kr fs) rfe ++ payload_of rfe ++ ns ++ [true])
                      (map fst rest) (y1 ++ ap') tail) as Q.
        replace (s_pos s + bl ([true] ++ flags_of (firstn kr fs) rfe ++ payload_of rfe ++ ns ++ [true])) with a1 in Q.
        - apply Q. replace (([true] ++ flags_of (firstn kr fs) rfe ++ payload_of rfe ++ ns ++ [true]) ++ map fst rest ++ y1 ++ ap')
            with (true :: flags_of (firstn kr fs) rfe ++ payload_of rfe ++ ns ++ true :: map fst rest ++ y1 ++ ap'); [exact Hs0|].
          cbn [app]. rewrite <- !app_assoc. cbn [app]. reflexivity.
        - unfold a1, s3, s2, s1. cbn [s_pos src_adv]. rewrite !bl_app. change (bl [true]) with 1. lia. }
      assert (Hab2 : a1 + N.of_nat (length afs) <= s_pos s3 + bl ns + nx).
      { unfold a1. pose proof (enc_fields_length _ _ _ _ Ea'). lia. }
      rewrite (all_walk_r m s afs avals rest ap' a1 (s_pos s3 + bl ns + nx) _ tail _ Hoka' Ea' Eap' Hbits2 Hab2
                 ltac:(eapply same_buf_trans; [exact Hsb3|eapply same_buf_trans; apply same_buf_adv]) Hs6).
      cbn [bind].
      replace (a1 + N.of_nat (length afs)) with (s_pos s3 + bl ns + nx)
        by (unfold a1; pose proof (enc_fields_length _ _ _ _ Ea'); lia).
      unfold skip_unknown_extension_additions. cbn [r_scope mk_r skip_unknown_loop]. rewrite N.leb_refl.
      cbn [bind r_scope r_set_scope scope_exhausted]. rewrite N.eqb_refl. cbn [negb]. rewrite andb_false_r.
      rewrite (app_nil_r (rev (firstn kr vals))).
      replace (rev avals ++ ov1 :: rev (firstn kr vals)) with (rev (firstn kr vals ++ ov1 :: avals))
        by (rewrite rev_app_distr; cbn [rev]; rewrite <- app_assoc; reflexivity).
      rewrite <- Eav, firstn_skipn. unfold frev. rewrite rev_append_rev, app_nil_r, rev_involutive.
      unfold r_set_scope, mk_r, r_of_src. cbn [r_src]. do 3 f_equal.
      unfold s3, s2, s1. rewrite !src_adv_adv. f_equal.
      rewrite !bl_cons, !bl_app, !bl_cons, !bl_app. lia.
    + (* no addition present *)
      rewrite rpushed_eq, rfields_rwalk.
      rewrite <- (firstn_skipn kr fs) at 1. rewrite rwalk_app.
      change (OptBitField (s_pos s1) (s_pos s1 + so)) with (root_scope None (s_pos s1) (s_pos s1 + so)).
      assert (Hab : s_pos s1 + N.of_nat (nopt (firstn kr fs)) <= s_pos s1 + so) by lia.
      rewrite (root_walk_r m s (firstn kr fs) (firstn kr vals) rfe (s_pos s1) (s_pos s1 + so) None s2 _ [] Hokr Er' Hbits
                 Hab I Hsb2 Hs3).
      cbn [bind xsub root_scope]. rewrite Hnopt.
      assert (Hxp : xp = [] /\ existsb fst afe = false).
      { unfold ext_part in Ex. destruct afe as [|[p1 b1] rest]; [injection Ex as <-; split; reflexivity|].
        destruct p1.
        - destruct (w_normally_small m _); cbn [bind] in Ex; try discriminate Ex.
          destruct (add_payloads m _ _); cbn [bind] in Ex; discriminate Ex.
        - destruct (existsb fst rest) eqn:Ee; [discriminate Ex|]. injection Ex as <-. split; [reflexivity|exact Ee]. }
      destruct Hxp as [-> Hex].
      rewrite (tail_walk_r m (skipn kr fs) (skipn kr vals) afe (s_pos s1 + so) (s_pos s1 + so) _ tail _ Hoka Ea Hex (N.le_refl _) (rsrc_adv_nil _ _ _ Hs3)).
      cbn [bind r_scope mk_r scope_exhausted]. rewrite N.eqb_refl. cbn [negb]. rewrite andb_false_r.
      rewrite (app_nil_r (rev (firstn kr vals))), <- rev_app_distr, firstn_skipn.
      unfold frev. rewrite rev_append_rev, app_nil_r, rev_involutive.
      unfold r_set_scope, mk_r, r_of_src. cbn [r_src]. do 3 f_equal.
      unfold s2, s1. rewrite !src_adv_adv. rewrite !app_nil_r. f_equal.
      rewrite bl_cons, bl_app. lia.
  - (* not extensible *)
    cbn [seq_assemble] in He. injection He as <-. rewrite firstn_all in Hso. cbn [bind r_src r_of_src].
    assert (Hflags : bl (flags_of fs fes) = so) by (unfold bl; rewrite flags_of_length by exact Hlf; lia).
    destruct (seq_header m s (flags_of fs fes) (payload_of fes) tail so Hs (eq_sym Hflags)) as (Q1 & Q2 & Q3 & Q4).
    rewrite Q1. cbn [bind]. rewrite Q2, Q3. cbn [bind]. unfold r_set_src. cbn [r_src r_scope r_of_src]. rewrite Q4. clear Q1 Q2 Q3 Q4.
    pose proof Hs as Hs0. apply rsrc_split in Hs. destruct Hs as [Hs1 Hs2].
    set (s2 := src_adv s (bl (flags_of fs fes)) (payload_of fes ++ tail)) in *.
    assert (Hbits : bits_at s (s_pos s) (flags_of fs fes)).
    { pose proof (bits_at_intro s [] (flags_of fs fes) (payload_of fes) tail Hs0) as Q.
      rewrite bl_nil, N.add_0_r in Q. exact Q. }
    change {| r_src := s2; r_scope := None |} with (r_of_src s2).
    rewrite rpushed_eq, rfields_rwalk.
    change (OptBitField (s_pos s) (s_pos s + so)) with (root_scope None (s_pos s) (s_pos s + so)).
    assert (Hab : s_pos s + N.of_nat (nopt fs) <= s_pos s + so) by lia.
    rewrite (root_walk_r m s fs vals fes (s_pos s) (s_pos s + so) None s2 tail [] Hok0 Ef Hbits Hab I
               (same_buf_adv _ _ _) Hs2).
    cbn [bind xsub root_scope r_scope mk_r scope_exhausted].
    replace (s_pos s + N.of_nat (nopt fs)) with (s_pos s + so) by lia.
    rewrite N.eqb_refl. cbn [negb]. rewrite andb_false_r, frev_rev.
    unfold r_set_scope, mk_r, r_of_src. cbn [r_src]. do 3 f_equal.
    unfold s2. rewrite src_adv_adv, bl_app. reflexivity.
Qed.



(** * the reader inverts the reference encoder, for every type *)
Theorem read_enc m t : Rprop m t.
Proof.
  induction t as [| |k lo hi ext|c lo hi ext|lo hi ext|lo hi ext|e lo hi ext IH|fs so fc ea IH|alts std ext IH|vc std ext]
    using ty_ind'.
  1-6,10: match goal with |- Rprop _ ?t => exact (R_flat m t) end.
  - apply R_list, IH.
  - apply R_seq, IH.
  - apply R_choice, IH.
Qed.

(** * C01 *)
Theorem C01_roundtrip_full m t v w w' :
  wf_ty t -> wf_val t v -> ~ Known_C01 m t v -> wst_wf w -> w_scope w = None ->
  write_ty m t v w = Ok w' ->
  exists bs, enc m t v = Ok bs /\ w' = w_append w bs /\
    w_bits w' = w_bits w ++ bs /\ w_scope w' = None /\ wst_wf w' /\
    forall s tail, rsrc s bs tail ->
      read_ty m t (r_of_src s) = Ok (v, r_of_src (src_adv s (bl bs) tail)).
Proof.
  intros Hty Hv Hk Hw Hs H. pose proof (write_enc m t Hty v w Hw Hs) as S. unfold wsim in S.
  destruct (enc m t v) as [bs| |] eqn:E; try (rewrite H in S; discriminate S).
  rewrite S in H. injection H as <-. exists bs. split; [reflexivity|]. split; [reflexivity|].
  split; [apply w_bits_append|]. split; [exact Hs|]. split; [apply w_append_wf; exact Hw|].
  intros s tail Hsrc. apply (read_enc m t Hty v bs E Hv Hk s tail Hsrc).
Qed.

(* several values back to back *)
Fixpoint write_all (m : mode) (l : list (ty * val)) (w : wst) : res wst :=
  match l with
  | [] => Ok w
  | (t, v) :: r => let! w := write_ty m t v w in write_all m r w
  end.
Fixpoint read_all (m : mode) (ts : list ty) (r : rst) : res (list val * rst) :=
  match ts with
  | [] => Ok ([], r)
  | t :: ts' => let! (v, r) := read_ty m t r in let! (vs, r) := read_all m ts' r in Ok (v :: vs, r)
  end.
Definition item_ok (m : mode) (p : ty * val) : Prop :=
  wf_ty (fst p) /\ wf_val (fst p) (snd p) /\ ~ Known_C01 m (fst p) (snd p).

Lemma sequence_gen m : forall l w w', Forall (item_ok m) l -> wst_wf w -> w_scope w = None ->
  write_all m l w = Ok w' ->
  exists bs, w' = w_append w bs /\
    forall s tail, rsrc s bs tail ->
      read_all m (map fst l) (r_of_src s) = Ok (map snd l, r_of_src (src_adv s (bl bs) tail)).
Proof.
  induction l as [|[t v] l IH]; intros w w' F Hw Hs H.
  - cbn in H. injection H as <-. exists []. split; [symmetry; apply w_append_nil|].
    intros s tail Hsrc. cbn [map read_all]. rewrite bl_nil, (src_adv_nil _ _ (proj1 Hsrc)). reflexivity.
  - apply Forall_cons_iff in F. destruct F as [(Hty & Hv & Hk) F]. cbn [fst snd] in *.
    cbn [write_all] in H. destruct (write_ty m t v w) as [w1| |] eqn:E1; cbn [bind] in H; try discriminate H.
    destruct (C01_roundtrip_full m t v w w1 Hty Hv Hk Hw Hs E1) as (b1 & _ & -> & _ & Hs1 & Hw1 & Hr1).
    destruct (IH _ w' F Hw1 Hs1 H) as (b2 & -> & Hr2).
    exists (b1 ++ b2). split; [apply w_append_app|].
    intros s tail Hsrc. apply rsrc_split in Hsrc. destruct Hsrc as [H1 H2].
    cbn [map read_all fst snd]. rewrite (Hr1 _ _ H1). cbn [bind]. rewrite (Hr2 _ _ H2). cbn [bind].
    rewrite src_adv_adv, bl_app. reflexivity.
Qed.

Theorem C01_sequence_full m l w' :
  Forall (item_ok m) l -> write_all m l w_empty = Ok w' -> bl (w_bits w') < two64 ->
  exists r, read_all m (map fst l) (r_of_src (src_of_bits (w_bits w') (bl (w_bits w')))) = Ok (map snd l, r)
            /\ src_remaining m (r_src r) = Ok 0.
Proof.
  intros F H Hlen. destruct (sequence_gen m l w_empty w' F w_empty_wf eq_refl H) as (bs & -> & Hr).
  rewrite w_bits_empty_append in *.
  assert (Hsrc : rsrc (src_of_bits bs (bl bs)) bs []).
  { unfold rsrc, at_src, src_ok, src_of_bits. cbn [s_rest s_pos s_len s_total s_all].
    rewrite app_nil_r. unfold bl. cbn [skipn N.to_nat]. repeat split; try lia. exact Hlen. }
  eexists. split; [apply (Hr _ _ Hsrc)|].
  unfold src_remaining, src_adv, src_of_bits. cbn [r_src r_of_src s_len s_pos]. rewrite usub_ok by lia.
  f_equal. lia.
Qed.

(** * C03: the preamble of SEQUENCE / SET *)
Definition presence (k : fkind) (ov : option val) : bool :=
  match k, ov with
  | FReq, _ => true
  | FOpt, o => is_some o
  | FDef d, Some x => negb (val_eqb d x)
  | FDef _, None => false
  end.
Fixpoint presences (fs : list (fkind * ty)) (vals : list (option val)) : list bool :=
  match fs, vals with
  | (k, _) :: fs', ov :: vals' => presence k ov :: presences fs' vals'
  | _, _ => []
  end.

Lemma enc_fields_presence m : forall fs vals fes, enc_fields m fs vals = Ok fes ->
  map fst fes = presences fs vals /\
  Forall (fun fe => fst fe = false -> snd fe = []) fes.
Proof.
  induction fs as [|[k ft] fs IH]; intros vals fes H.
  - cbn in H. injection H as <-. split; [reflexivity|constructor].
  - destruct vals as [|ov vals]; [rewrite enc_fields_nil_vals in H; discriminate H|].
    rewrite enc_fields_cons in H.
    destruct (enc_field m (k, ft) ov) as [[p b]| |] eqn:Ef; cbn [bind] in H; try discriminate H.
    destruct (enc_fields m fs vals) as [fes'| |] eqn:Er; cbn [bind] in H; try discriminate H. injection H as <-.
    destruct (IH vals fes' Er) as [I1 I2]. cbn [map fst presences]. split.
    + f_equal; [|exact I1].
      destruct k as [| |d], ov as [x|]; cbn [enc_field presence is_some] in *; try discriminate Ef.
      * destruct (enc m ft x); cbn [bind] in Ef; try discriminate Ef. injection Ef as <- _. reflexivity.
      * destruct (enc m ft x); cbn [bind] in Ef; try discriminate Ef. injection Ef as <- _. reflexivity.
      * injection Ef as <- _. reflexivity.
      * destruct (val_eqb d x); [injection Ef as <- _; reflexivity|].
        destruct (enc m ft x); cbn [bind] in Ef; try discriminate Ef. injection Ef as <- _. reflexivity.
    + constructor; [|exact I2]. cbn [fst snd]. intros ->. eapply enc_field_absent. exact Ef.
Qed.

(* the bits written for a SEQUENCE are exactly the assembled reference bits: extension bit (if
   any), one presence bit per OPTIONAL/DEFAULT root component in order, root components, then
   the extension part *)
Theorem seq_preamble m fs so fc ea vals w w' :
  wf_ty (TSeq fs so fc ea) -> wst_wf w -> w_scope w = None ->
  write_ty m (TSeq fs so fc ea) (VSeq vals) w = Ok w' ->
  exists fes bs, enc_fields m fs vals = Ok fes /\ map fst fes = presences fs vals /\
    seq_assemble m fs fes ea = Ok bs /\ w_bits w' = w_bits w ++ bs /\
    N.of_nat (length (flags_of (firstn (root_len fs ea) fs) (firstn (root_len fs ea) fes))) = so.
Proof.
  intros Hty Hw Hs H. pose proof (write_enc m _ Hty (VSeq vals) w Hw Hs) as S. unfold wsim in S.
  rewrite enc_seq_eq in S. destruct (enc_fields m fs vals) as [fes| |] eqn:Ef; cbn [bind] in S;
    try (rewrite H in S; discriminate S).
  destruct (seq_assemble m fs fes ea) as [bs| |] eqn:Ea; try (rewrite H in S; discriminate S).
  rewrite S in H. injection H as <-. exists fes, bs.
  split; [reflexivity|]. split; [apply (enc_fields_presence m fs vals fes Ef)|]. split; [exact Ea|].
  split; [apply w_bits_append|].
  apply wf_ty_seq in Hty. destruct Hty as [(Hfc & _ & Hea & Hso) _].
  pose proof (enc_fields_length m fs vals fes Ef) as Hl.
  rewrite flags_of_length; [symmetry; exact Hso|].
  rewrite !firstn_length. lia.
Qed.

Lemma ext_part_bit m afs afe eb xp : ext_part m afs afe = Ok (eb, xp) ->
  eb = existsb fst afe /\ (eb = false -> xp = []).
Proof.
  unfold ext_part. destruct afe as [|[p1 b1] rest]; [intros H; injection H as <- <-; split; reflexivity|].
  destruct p1.
  - destruct (w_normally_small m _); cbn [bind]; try discriminate.
    destruct (add_payloads m afs _); cbn [bind]; try discriminate.
    intros H. injection H as <- <-. split; [reflexivity|discriminate].
  - cbn [existsb fst orb]. destruct (existsb fst rest); [discriminate|].
    intros H. injection H as <- <-. split; reflexivity.
Qed.

Lemma ext_part_refusal m afs afe e : ext_part m afs afe = Err e ->
  Forall (fun fe => bl (snd fe) < two63) afe -> N.of_nat (length afe) < two64 ->
  e = E_EXT_INCONSISTENT /\ exists b rest, afe = (false, b) :: rest /\ existsb fst rest = true.
Proof.
  unfold ext_part. destruct afe as [|[p1 b1] rest]; [discriminate|]. intros H Hb Hl.
  destruct p1.
  - exfalso. rewrite normally_small_write in H by (cbn [length] in *; lia). cbn [bind] in H.
    assert (Hap : forall fs fes, Forall (fun fe => bl (snd fe) < two63) fes -> exists ap, add_payloads m fs fes = Ok ap).
    { clear. induction fs as [|[k ft] fs IH]; intros [|[p b] fes] F; try (eexists; reflexivity).
      apply Forall_cons_iff in F. destruct F as [Hb F]. cbn [snd] in Hb. cbn [add_payloads].
      destruct (IH fes F) as [r ->].
      destruct (p && wraps k ft); [rewrite wrap_open_x by exact Hb|]; cbn [bind]; eexists; reflexivity. }
    destruct (Hap afs _ Hb) as [ap Eap]. rewrite Eap in H. discriminate H.
  - destruct (existsb fst rest) eqn:Ee; [|discriminate H]. injection H as <-.
    split; [reflexivity|]. exists b1, rest. split; [reflexivity|exact Ee].
Qed.



(** * pinned forms *)
Theorem C01_roundtrip_thm : forall m t v w w',
  wf_ty t -> wf_val t v -> ~ Known_C01 m t v -> wst_wf w -> w_scope w = None ->
  write_ty m t v w = Ok w' ->
  exists bs, w_bits w' = w_bits w ++ bs /\ w_scope w' = None /\ wst_wf w' /\
    forall s tail, rsrc s bs tail ->
      read_ty m t (r_of_src s) = Ok (v, r_of_src (src_adv s (bl bs) tail)).
Proof.
  intros m t v w w' Hty Hv Hk Hw Hs H.
  destruct (C01_roundtrip_full m t v w w' Hty Hv Hk Hw Hs H) as (bs & _ & _ & A & B & C & D).
  exists bs. auto.
Qed.

Theorem seq_refusal_complete m fs so fc e vals fes w b rest :
  wf_ty (TSeq fs so fc (Some e)) -> wst_wf w -> w_scope w = None ->
  enc_fields m fs vals = Ok fes ->
  skipn (S (N.to_nat e)) fes = (false, b) :: rest -> existsb fst rest = true ->
  write_ty m (TSeq fs so fc (Some e)) (VSeq vals) w = Err E_EXT_INCONSISTENT.
Proof.
  intros Hty Hw Hs Ef Hsk Hex. apply wf_ty_seq in Hty. destruct Hty as [Hc Hf].
  assert (F : Forall (fun f => Wprop m (snd f)) fs).
  { apply all_wf_fields_Forall in Hf. rewrite Forall_forall in *. intros f Hin. apply write_enc, Hf, Hin. }
  rewrite (seq_write_exact m fs so fc (Some e) vals fes w F Hc Hw Hs Ef).
  unfold seq_assemble. cbv zeta. rewrite Hsk. unfold ext_part. rewrite Hex. reflexivity.
Qed.

Theorem seq_write_reference m fs so fc ea vals fes w :
  wf_ty (TSeq fs so fc ea) -> wst_wf w -> w_scope w = None ->
  enc_fields m fs vals = Ok fes ->
  write_ty m (TSeq fs so fc ea) (VSeq vals) w = w_put w (seq_assemble m fs fes ea).
Proof.
  intros Hty Hw Hs Ef. apply wf_ty_seq in Hty. destruct Hty as [Hc Hf].
  apply seq_write_exact; try assumption.
  apply all_wf_fields_Forall in Hf. rewrite Forall_forall in *. intros f Hin. apply write_enc, Hf, Hin.
Qed.

Theorem seq_component_failure m fs so fc ea vals w :
  wf_ty (TSeq fs so fc ea) -> wst_wf w -> w_scope w = None ->
  is_ok (enc_fields m fs vals) = false ->
  is_ok (write_ty m (TSeq fs so fc ea) (VSeq vals) w) = false.
Proof.
  intros Hty Hw Hs H. pose proof (write_enc m _ Hty (VSeq vals) w Hw Hs) as S. unfold wsim in S.
  rewrite enc_seq_eq in S. destruct (enc_fields m fs vals); [discriminate H|exact S|exact S].
Qed.

Lemma omitted_components m ft d x :
  enc_field m (FOpt, ft) None = Ok (false, []) /\
  (val_eqb d x = true -> enc_field m (FDef d, ft) (Some x) = Ok (false, []) /\ x = d).
Proof.
  split; [reflexivity|]. intros H. cbn [enc_field]. rewrite H. split; [reflexivity|].
  symmetry. apply val_eqb_eq. exact H.
Qed.

(** * witnesses of the excluded classes *)
Definition rt_fails (m : mode) (t : ty) (v : val) : bool :=
  match write_ty m t v w_empty with
  | Ok w' =>
      let bs := w_bits w' in
      match read_ty m t (r_of_src (src_of_bits bs (bl bs))) with
      | Ok (v', r) => negb (val_eqb v v' && (s_pos (r_src r) =? bl bs))
      | _ => true
      end
  | _ => false
  end.

Lemma refuted_count_16k :
  exists m t v, wf_ty t /\ wf_val t v /\ Known_C01 m t v /\ rt_fails m t v = true.
Proof.
  exists dev_mode, (TListOf TNull None None false), (VList (repeat VNull 16385)).
  split; [cbn; auto|]. split.
  - cbn [wf_val]. split; [vm_compute; reflexivity|].
    generalize 16385%nat. induction n; cbn [repeat]; auto.
  - split; [|vm_compute; reflexivity].
    cbn [Known_C01]. left. right. split; [vm_compute; discriminate|]. right. split; reflexivity.
Qed.

Lemma refuted_bitstring_16k :
  exists m t v, wf_ty t /\ Known_C01 m t v /\ rt_fails m t v = true.
Proof.
  exists dev_mode, (TBitStr None None false), (VBits (repeat 255 2048) 16384).
  split; [exact I|]. split; [|vm_compute; reflexivity].
  cbn [Known_C01]. right. split; [vm_compute; discriminate|].
  intros (u & C & _). discriminate C.
Qed.

(* an extension addition whose open type holds 16K octets: the writer fragments, the reader does not *)
Definition big_ext_ty : ty := TSeq [(FReq, TBool); (FOpt, TOctets None None false)] 0 2 (Some 0).
Definition big_ext_val : val := VSeq [Some (VBool true); Some (VOctets (repeat 7 16384))].

Lemma refuted_open_type_16k :
  exists m t v, wf_ty t /\ is_ok (write_ty m t v w_empty) = true /\ rt_fails m t v = true.
Proof.
  exists dev_mode, big_ext_ty, big_ext_val.
  split; [vm_compute; repeat split; discriminate|]. split; vm_compute; reflexivity.
Qed.

(* F10-1: SIZE(2..MAX): a value of 3 octets is a value of the type and is refused *)
Lemma refuted_size_F10_1 :
  exists m t v, wf_ty t /\ wf_val t v /\ Known_C01 m t v /\ is_ok (write_ty m t v w_empty) = false.
Proof.
  exists dev_mode, (TOctets (Some 2) None false), (VOctets [1; 2; 3]).
  split; [exact I|]. split; [|split; [|vm_compute; reflexivity]].
  - cbn [wf_val]. split; [repeat constructor|vm_compute; reflexivity].
  - cbn [Known_C01]. split; [cbn; discriminate|]. vm_compute. split; discriminate.
Qed.

(** * non-vacuity *)
Definition ex_inner : ty :=
  TSeq [(FReq, TInt U8 (Some 0%Z) (Some 255%Z) false); (FOpt, TBool)] 1 2 None.
Definition ex_ty : ty :=
  TSeq [ (FReq, TInt I16 (Some (-5)%Z) (Some 1000%Z) true);
         (FOpt, TBool);
         (FDef (VInt 7), TInt U8 (Some 0%Z) (Some 255%Z) false);
         (FReq, TChoice [TBool; TNull; TEnum 3 2 true] 2 true);
         (FReq, TListOf (TInt U8 (Some 0%Z) (Some 255%Z) false) (Some 1) (Some 4) false);
         (* extension additions *)
         (FOpt, ex_inner);
         (FDef (VBool false), TBool);
         (FOpt, TEnum 4 4 false) ]
       2 8 (Some 4).
Definition ex_val : val :=
  VSeq [ Some (VInt 2000); None; Some (VInt 7); Some (VChoice 2 (VEnum 2));
         Some (VList [VInt 1; VInt 2; VInt 3]);
         Some (VSeq [Some (VInt 9); Some (VBool true)]); Some (VBool true); None ].

Lemma nonvacuous_c01 :
  wf_ty ex_ty /\ wf_val ex_ty ex_val /\
  (exists w', write_ty dev_mode ex_ty ex_val w_empty = Ok w' /\
     let bs := w_bits w' in
     enc dev_mode ex_ty ex_val = Ok bs /\
     read_ty dev_mode ex_ty (r_of_src (src_of_bits (bs ++ [true; false]) (bl bs + 2)))
     = Ok (ex_val, r_of_src (src_adv (src_of_bits (bs ++ [true; false]) (bl bs + 2)) (bl bs) [true; false]))).
Proof.
  split; [|split].
  - vm_compute. repeat split; try discriminate; try reflexivity.
  - vm_compute. repeat split; try discriminate; try reflexivity.
  - eexists. split; [vm_compute; reflexivity|]. vm_compute. split; reflexivity.
Qed.

(* the preamble of a SEQUENCE { a, b OPTIONAL, c DEFAULT 7, ..., d OPTIONAL, e OPTIONAL }:
   absent b, c equal to its default, first addition present, second absent *)
Definition ex3_ty : ty :=
  TSeq [ (FReq, TBool); (FOpt, TBool); (FDef (VInt 7), TInt U8 (Some 0%Z) (Some 255%Z) false);
         (FOpt, TBool); (FOpt, TBool) ] 2 5 (Some 2).
Definition ex3_val : val := VSeq [Some (VBool true); None; Some (VInt 7); Some (VBool true); None].
Definition ex3_bad : val := VSeq [Some (VBool true); None; Some (VInt 7); None; Some (VBool true)].

Lemma nonvacuous_c03 :
  wf_ty ex3_ty /\
  (exists w', write_ty dev_mode ex3_ty ex3_val w_empty = Ok w' /\
     (* ext bit, presence bits 0 0, a = 1, count 2 as normally small 1, presence 1 0, open type 01 80 *)
     w_bits w' = [true; false; false; true] ++ [false; false; false; false; false; false; true] ++ [true; false]
                 ++ bits_of_bytes [1; 128]) /\
  write_ty dev_mode ex3_ty ex3_bad w_empty = Err E_EXT_INCONSISTENT /\
  (exists w', write_ty release_mode ex3_ty ex3_val w_empty = Ok w' /\
     read_ty release_mode ex3_ty (r_of_src (src_of_bits (w_bits w') (bl (w_bits w'))))
     = Ok (ex3_val, r_of_src (src_adv (src_of_bits (w_bits w') (bl (w_bits w'))) (bl (w_bits w')) []))).
Proof.
  split; [vm_compute; repeat split; try discriminate; try reflexivity|].
  split; [eexists; split; [vm_compute; reflexivity|vm_compute; reflexivity]|].
  split; [vm_compute; reflexivity|].
  eexists; split; [vm_compute; reflexivity|]. vm_compute. reflexivity.
Qed.
