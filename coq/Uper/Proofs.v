(* Uper/Proofs.v -- stub, to be filled *)
