(* L2 proofs: the UPER writer/reader model (Uper/Writer.v, Uper/Reader.v) against the scope-free
   reference encoder of Uper/Spec.v; round trip (C01) and SEQUENCE preamble facts (C03). *)
From A1 Require Export Uper.Spec.
From A1 Require Import Bits.Proofs.
From A1 Require Import Per.Proofs.
Require Import ZifyBool ZifyNat ZifyN.
Local Open Scope N_scope.



(** * induction principles for the nested types *)
Section TyInd.
  Variable P : ty -> Prop.
  Hypothesis HBool : P TBool.
  Hypothesis HNull : P TNull.
  Hypothesis HInt : forall k lo hi e, P (TInt k lo hi e).
  Hypothesis HStr : forall c lo hi e, P (TStr c lo hi e).
  Hypothesis HOct : forall lo hi e, P (TOctets lo hi e).
  Hypothesis HBit : forall lo hi e, P (TBitStr lo hi e).
  Hypothesis HList : forall e lo hi x, P e -> P (TListOf e lo hi x).
  Hypothesis HSeq : forall fs so fc ea, Forall (fun f => P (snd f)) fs -> P (TSeq fs so fc ea).
  Hypothesis HChoice : forall alts std ext, Forall P alts -> P (TChoice alts std ext).
  Hypothesis HEnum : forall vc std ext, P (TEnum vc std ext).
  Fixpoint ty_ind' (t : ty) : P t :=
    match t with
    | TBool => HBool
    | TNull => HNull
    | TInt k lo hi e => HInt k lo hi e
    | TStr c lo hi e => HStr c lo hi e
    | TOctets lo hi e => HOct lo hi e
    | TBitStr lo hi e => HBit lo hi e
    | TListOf e lo hi x => HList e lo hi x (ty_ind' e)
    | TSeq fs so fc ea =>
        HSeq fs so fc ea
          ((fix go (fs : list (fkind * ty)) : Forall (fun f => P (snd f)) fs :=
              match fs with
              | [] => Forall_nil _
              | f :: r => Forall_cons f (match f as f0 return P (snd f0) with (k, ft) => ty_ind' ft end) (go r)
              end) fs)
    | TChoice alts std ext =>
        HChoice alts std ext
          ((fix go (l : list ty) : Forall P l :=
              match l with
              | [] => Forall_nil _
              | a :: r => Forall_cons a (ty_ind' a) (go r)
              end) alts)
    | TEnum vc std ext => HEnum vc std ext
    end.
End TyInd.

Definition optP (P : val -> Prop) (o : option val) : Prop := match o with Some x => P x | None => True end.
Section ValInd.
  Variable P : val -> Prop.
  Hypothesis H1 : forall b, P (VBool b).
  Hypothesis H2 : P VNull.
  Hypothesis H3 : forall z, P (VInt z).
  Hypothesis H4 : forall c, P (VStr c).
  Hypothesis H5 : forall c, P (VOctets c).
  Hypothesis H6 : forall c n, P (VBits c n).
  Hypothesis H7 : forall vs, Forall P vs -> P (VList vs).
  Hypothesis H8 : forall fs, Forall (optP P) fs -> P (VSeq fs).
  Hypothesis H9 : forall i v, P v -> P (VChoice i v).
  Hypothesis H10 : forall i, P (VEnum i).
  Fixpoint val_ind' (v : val) : P v :=
    match v with
    | VBool b => H1 b
    | VNull => H2
    | VInt z => H3 z
    | VStr c => H4 c
    | VOctets c => H5 c
    | VBits c n => H6 c n
    | VList vs => H7 vs ((fix go (l : list val) : Forall P l :=
                            match l with [] => Forall_nil _ | a :: r => Forall_cons a (val_ind' a) (go r) end) vs)
    | VSeq fs => H8 fs ((fix go (l : list (option val)) : Forall (optP P) l :=
                            match l with
                            | [] => Forall_nil _
                            | o :: r => @Forall_cons _ (optP P) o r
                                          (match o as o0 return optP P o0 with
                                           | Some x => val_ind' x | None => I end) (go r)
                            end) fs)
    | VChoice i x => H9 i x (val_ind' x)
    | VEnum i => H10 i
    end.
End ValInd.

Lemma list_eqb_N_eq a : forall b, list_eqb N.eqb a b = true -> a = b.
Proof.
  induction a as [|x a IH]; intros [|y b] H; cbn [list_eqb] in H; try discriminate; [reflexivity|].
  apply andb_true_iff in H. destruct H as [H1 H2]. apply N.eqb_eq in H1. f_equal; auto.
Qed.

Lemma val_eqb_eq a : forall b, val_eqb a b = true -> a = b.
Proof.
  induction a as [x| |x|x|x|x n|xs IH|xs IH|i x IH|i] using val_ind'; intros [y| |y|y|y|y k|ys|ys|j y|j] H;
    cbn [val_eqb] in H; try discriminate H.
  - apply Bool.eqb_prop in H. congruence.
  - reflexivity.
  - apply Z.eqb_eq in H. congruence.
  - apply list_eqb_N_eq in H. congruence.
  - apply list_eqb_N_eq in H. congruence.
  - apply andb_true_iff in H. destruct H as [H1 H2]. apply list_eqb_N_eq in H1. apply N.eqb_eq in H2. congruence.
  - f_equal. revert ys H. induction IH as [|x xs Hx _ IHl]; intros [|y ys] H; try discriminate H; [reflexivity|].
    apply andb_true_iff in H. destruct H as [H1 H2]. f_equal; [apply Hx; exact H1|apply IHl; exact H2].
  - f_equal. revert ys H. induction IH as [|x xs Hx _ IHl]; intros [|y ys] H; try discriminate H; [reflexivity|].
    apply andb_true_iff in H. destruct H as [H1 H2]. f_equal; [|apply IHl; exact H2].
    destruct x as [x|], y as [y|]; try discriminate H1; [|reflexivity]. f_equal. apply Hx. exact H1.
  - apply andb_true_iff in H. destruct H as [H1 H2]. apply N.eqb_eq in H1. apply IH in H2. congruence.
  - apply N.eqb_eq in H. congruence.
Qed.



(** * writer state basics *)
Definition wst_wf (w : wst) : Prop := w_n w = N.of_nat (length (w_rbits w)).

Lemma rev_append_app {A} (a b r : list A) : rev_append (a ++ b) r = rev_append b (rev_append a r).
Proof. revert r. induction a as [|x a IH]; intros r; cbn [app rev_append]; auto. Qed.

Lemma w_append_app w a b : w_append (w_append w a) b = w_append w (a ++ b).
Proof.
  unfold w_append. cbn [w_rbits w_n w_scope]. rewrite rev_append_app, app_length. f_equal. lia.
Qed.
Lemma w_append_nil w : w_append w [] = w.
Proof. destruct w. unfold w_append. cbn. f_equal. lia. Qed.
Lemma w_bits_append w b : w_bits (w_append w b) = w_bits w ++ b.
Proof.
  unfold w_bits, w_append, frev. cbn [w_rbits]. rewrite !rev_append_rev, !app_nil_r, rev_app_distr, rev_involutive.
  reflexivity.
Qed.
Lemma w_append_wf w b : wst_wf w -> wst_wf (w_append w b).
Proof. unfold wst_wf, w_append. cbn [w_n w_rbits]. rewrite rev_append_rev, app_length, rev_length. lia. Qed.
Lemma w_append_scope w b : w_scope (w_append w b) = w_scope w.
Proof. reflexivity. Qed.
Lemma w_append_n w b : w_n (w_append w b) = w_n w + bl b.
Proof. reflexivity. Qed.
Lemma w_set_scope_wf w sc : wst_wf w -> wst_wf (w_set_scope w sc).
Proof. auto. Qed.
Lemma w_empty_wf : wst_wf w_empty. Proof. reflexivity. Qed.
Lemma w_set_scope_append w sc b : w_set_scope (w_append w b) sc = w_append (w_set_scope w sc) b.
Proof. reflexivity. Qed.
Lemma w_set_scope_set w a b : w_set_scope (w_set_scope w a) b = w_set_scope w b.
Proof. reflexivity. Qed.
Lemma w_set_scope_id w : w_set_scope w (w_scope w) = w.
Proof. destruct w; reflexivity. Qed.
Lemma w_bits_empty_append b : w_bits (w_append w_empty b) = b.
Proof. rewrite w_bits_append. reflexivity. Qed.

Lemma set_nth_app {A} (X : list A) a Y b : set_nth (X ++ a :: Y) (length X) b = X ++ b :: Y.
Proof. induction X as [|x X IH]; cbn [app length set_nth]; [reflexivity|]. rewrite IH. reflexivity. Qed.

(* back-patching one bit of what was appended after [w0] *)
Lemma w_patch_spec w0 sc A old B bit : wst_wf w0 ->
  w_patch (w_set_scope (w_append w0 (A ++ old :: B)) sc) (w_n w0 + bl A) bit
  = Ok (w_set_scope (w_append w0 (A ++ bit :: B)) sc).
Proof.
  intros Hw. unfold w_patch, w_set_scope, w_append. cbn [w_rbits w_n w_scope].
  rewrite !app_length. cbn [length]. unfold bl.
  destruct (N.ltb_spec (w_n w0 + N.of_nat (length A)) (w_n w0 + N.of_nat (length A + S (length B)))); [|lia].
  f_equal. f_equal.
  rewrite !rev_append_rev, !rev_app_distr. cbn [rev]. rewrite <- !app_assoc. cbn [app].
  replace (N.to_nat (w_n w0 + N.of_nat (length A + S (length B)) - 1 - (w_n w0 + N.of_nat (length A))))
    with (length (rev B)) by (rewrite rev_length; lia).
  apply set_nth_app.
Qed.

(** the comparison of a writer run with a reference encoding: success with exactly these bits
    appended, or failure on both sides *)
Definition wsim (r : res wst) (w : wst) (e : res bits) : Prop :=
  match e with Ok b => r = Ok (w_append w b) | _ => is_ok r = false end.

Lemma w_put_ok w r b : r = Ok b -> w_put w r = Ok (w_append w b).
Proof. intros ->. reflexivity. Qed.

Lemma wsim_put w e : wsim (w_put w e) w e.
Proof. destruct e; reflexivity. Qed.

(** * scope factoring: every write_* method first runs the bit-field entry of the enclosing
    scope, then writes its content either directly (restoring the scope) or, inside an
    extension-addition scope, into a fresh buffer that is appended as an open type *)
Definition wopen (w : wst) : bool :=
  match w_scope w with Some s => encode_as_open_type_field s | None => false end.

Definition shape (t : ty) (v : val) : bool :=
  match t, v with
  | TBool, VBool _ | TNull, VNull | TInt _ _ _ _, VInt _ | TStr _ _ _ _, VStr _
  | TOctets _ _ _, VOctets _ | TBitStr _ _ _, VBits _ _ | TListOf _ _ _ _, VList _
  | TSeq _ _ _ _, VSeq _ | TChoice _ _ _, VChoice _ _ | TEnum _ _ _, VEnum _ => true
  | _, _ => false
  end.

Lemma entry_none m w p : w_scope w = None -> write_bit_field_entry m w false p = Ok w.
Proof. unfold write_bit_field_entry. intros ->. reflexivity. Qed.

Lemma with_buffer_none m w f : w_scope w = None -> with_buffer m w f = f w.
Proof. unfold with_buffer. intros ->. reflexivity. Qed.

Definition scope_nat (f : wst -> res wst) : Prop :=
  forall w, f w = let! w2 := f (w_set_scope w None) in Ok (w_set_scope w2 (w_scope w)).

Lemma with_buffer_factor m w1 f : scope_nat f ->
  with_buffer m w1 f =
  if wopen w1 then
    let! sub := with_buffer m w_empty f in w_put w1 (wrap_open m (w_bits sub))
  else
    let! w2 := with_buffer m (w_set_scope w1 None) f in Ok (w_set_scope w2 (w_scope w1)).
Proof.
  intros Hf. unfold with_buffer at 2 3. cbn [w_scope w_empty w_set_scope].
  unfold with_buffer, wopen. destruct (w_scope w1) as [sc|] eqn:E.
  - destruct (encode_as_open_type_field sc); [reflexivity|]. rewrite (Hf w1), E. reflexivity.
  - rewrite (Hf w1), E. reflexivity.
Qed.

Lemma scope_nat_put r : scope_nat (fun w => w_put w r).
Proof. intros w. destruct r, w; reflexivity. Qed.
Lemma scope_nat_stashed g : scope_nat (fun w => scope_stashed w g).
Proof.
  intros w. unfold scope_stashed. cbn [w_scope w_set_scope].
  change (w_set_scope (w_set_scope w None) None) with (w_set_scope w None).
  destruct (g (w_set_scope w None)); reflexivity.
Qed.
Lemma scope_nat_pushed m (pre : wst -> wst) (sc : wst -> scope) g :
  (forall w s, pre (w_set_scope w s) = w_set_scope (pre w) s) ->
  (forall w s, sc (w_set_scope w s) = sc w) ->
  scope_nat (fun w => scope_pushed m (pre w) (sc w) g).
Proof.
  intros Hp Hs w. unfold scope_pushed. rewrite Hp, Hs. cbn [w_scope w_set_scope].
  assert (E : w_scope (pre w) = w_scope w).
  { rewrite <- (w_set_scope_id w) at 1. rewrite Hp. reflexivity. }
  rewrite E.
  change (w_set_scope (w_set_scope (pre w) None) (Some (sc w))) with (w_set_scope (pre w) (Some (sc w))).
  destruct (g (w_set_scope (pre w) (Some (sc w)))) as [w'| |]; cbn [bind]; try reflexivity.
  destruct (debug_asserts m && _); cbn [bind]; reflexivity.
Qed.

Lemma wel_eq m w ext lo hi up len :
  write_ext_bit_and_length m w ext lo hi up len = w_put w (len_hdr m ext lo hi up len).
Proof.
  unfold write_ext_bit_and_length, len_hdr.
  destruct ((len <? opt_or lo 0) || (opt_or hi up <? len)), ext; cbn [negb];
    try reflexivity;
    match goal with |- context [w_length_determinant ?a ?b ?c ?d] => destruct (w_length_determinant a b c d) as [[b0 fs0]| |] end;
    cbn [bind w_put app]; rewrite ?w_append_app; reflexivity.
Qed.

Lemma write_ty_factor m t v w : shape t v = true ->
  write_ty m t v w =
  let! w1 := write_bit_field_entry m w false true in
  if wopen w1 && negb (is_choice t) then
    let! sub := write_ty m t v w_empty in
    w_put w1 (wrap_open m (w_bits sub))
  else
    let! w2 := write_ty m t v (w_set_scope w1 None) in Ok (w_set_scope w2 (w_scope w1)).
Proof.
  intros Hs.
  destruct t as [| |k lo hi ext|c lo hi ext|lo hi ext|lo hi ext|e lo hi ext|fs so fc ea|alts std ext|vc std ext], v;
    try discriminate Hs; clear Hs; try destruct c.
  all: cbn [write_ty is_choice negb andb].
  all: destruct (write_bit_field_entry m w false true) as [w1| |]; cbn [bind]; try reflexivity.
  all: rewrite ?andb_true_r, ?andb_false_r.
  all: rewrite !entry_none by reflexivity; cbn [bind].
  all: try (apply with_buffer_factor; first [apply scope_nat_put | apply scope_nat_stashed | idtac]).
  - intros [rb n sc]; reflexivity.
  - intros [rb n sc]; reflexivity.
  - intros [rb n sc]. destruct ext; cbn [w_set_scope w_scope];
      match goal with |- context [if ?c then _ else _] => destruct c end;
      match goal with |- context [w_put _ ?r] => destruct r end; reflexivity.
  - match goal with |- context [if ?c then _ else _] => destruct c end; [intros w0; reflexivity|apply scope_nat_put].
  - destruct (find_invalid _ _); [intros w0; reflexivity|]. intros w0. rewrite !wel_eq.
    destruct (len_hdr _ _ _ _ _ _), w0; reflexivity.
  - destruct (find_invalid _ _); [intros w0; reflexivity|]. intros w0. rewrite !wel_eq.
    destruct (len_hdr _ _ _ _ _ _), w0; reflexivity.
  - destruct (find_invalid _ _); [intros w0; reflexivity|]. intros w0. rewrite !wel_eq.
    destruct (len_hdr _ _ _ _ _ _), w0; reflexivity.
  - destruct (find_invalid _ _); [intros w0; reflexivity|]. intros w0. rewrite !wel_eq.
    destruct (len_hdr _ _ _ _ _ _), w0; reflexivity.
  - destruct ea as [e|].
    + destruct (usub m fc (e + 1)) as [nx| |]; cbn [bind]; try (intros w0; reflexivity).
      apply (scope_nat_pushed m (fun w0 => w_append (w_append w0 [false]) (repeat false (N.to_nat so)))
               (fun w0 => ExtSeq (w_n w0) (Some (w_n (w_append w0 [false]), w_n (w_append w0 [false]) + so)) (e + 1) nx));
        intros; reflexivity.
    + apply (scope_nat_pushed m (fun w0 => w_append w0 (repeat false (N.to_nat so)))
               (fun w0 => OptBitField (w_n w0) (w_n w0 + so))); intros; reflexivity.
  - apply (scope_nat_stashed _ w1).
Qed.



(** * reader: scope factoring *)
Definition ropen (r : rst) : bool :=
  match r_scope r with Some s => encode_as_open_type_field s | None => false end.

Definition rscope_nat {A} (f : rst -> res (A * rst)) : Prop :=
  forall r, f r = let! (x, r2) := f (r_set_scope r None) in Ok (x, r_set_scope r2 (r_scope r)).

Lemma r_set_scope_id r : r_set_scope r (r_scope r) = r.
Proof. destruct r; reflexivity. Qed.

Lemma rwith_buffer_factor {A} m r1 (f : rst -> res (A * rst)) : rscope_nat f ->
  rwith_buffer m r1 f =
  if ropen r1 then
    let! (len, r2) := r_get r1 (r_length_determinant m None None) in
    let! (x, r3) := read_whole_sub_slice m (r_set_scope r2 None) len f in
    Ok (x, r_set_scope r3 (r_scope r1))
  else
    let! (x, r2) := f (r_set_scope r1 None) in Ok (x, r_set_scope r2 (r_scope r1)).
Proof.
  intros Hf. unfold rwith_buffer, ropen. destruct (r_scope r1) as [sc|] eqn:E.
  - destruct (encode_as_open_type_field sc).
    + unfold r_get. destruct (r_length_determinant m None None (r_src r1)) as [[len s]| |]; cbn [bind]; try reflexivity.
      unfold read_whole_sub_slice. cbn [r_src r_set_src r_set_scope].
      destruct (umul m len BYTE_LEN) as [lb| |]; cbn [bind]; try reflexivity.
      destruct (uadd m (s_pos s) lb) as [wp| |]; cbn [bind]; try reflexivity.
      rewrite (Hf (r_set_src r1 s)). cbn [r_set_scope r_set_src r_src r_scope]. rewrite E.
      destruct (f _) as [[x r3]| |]; reflexivity.
    + rewrite (Hf r1), E. reflexivity.
  - rewrite (Hf r1), E. reflexivity.
Qed.

Lemma rscope_nat_get {A B} (g : src -> res (A * src)) (k : A -> B) :
  rscope_nat (fun r => let! (a, r) := r_get r g in Ok (k a, r)).
Proof.
  intros r. unfold r_get. cbn [r_src r_set_scope]. destruct (g (r_src r)) as [[a s]| |]; reflexivity.
Qed.
Lemma rscope_nat_get' {A} (g : src -> res (A * src)) : rscope_nat (fun r => r_get r g).
Proof.
  intros r. unfold r_get. cbn [r_src r_set_scope]. destruct (g (r_src r)) as [[a s]| |]; reflexivity.
Qed.
Lemma rscope_nat_stashed {A} (g : rst -> res (A * rst)) : rscope_nat (fun r => rscope_stashed r g).
Proof.
  intros r. unfold rscope_stashed. cbn [r_scope r_set_scope r_src].
  change (r_set_scope (r_set_scope r None) None) with (r_set_scope r None).
  destruct (g (r_set_scope r None)) as [[a r']| |]; reflexivity.
Qed.

Lemma rentry_none m r : r_scope r = None -> read_bit_field_entry_st m r false = Ok (f_ok None, r).
Proof. unfold read_bit_field_entry_st. intros ->. reflexivity. Qed.
Lemma rentry_none' m r : r_scope r = None -> read_bit_field_entry m r false = Ok (None, r).
Proof. unfold read_bit_field_entry. intros H. rewrite rentry_none by exact H. reflexivity. Qed.

Lemma rwith_buffer_none {A} m r (f : rst -> res (A * rst)) : r_scope r = None -> rwith_buffer m r f = f r.
Proof. unfold rwith_buffer. intros ->. reflexivity. Qed.

Lemma read_factor_gen m t f :
  rscope_nat f ->
  (forall r' ob' r1', read_bit_field_entry_st m r' false = Ok (inl ob', r1') ->
     read_ty m t r' = rwith_buffer m r1' f) ->
  forall r ob r1, read_bit_field_entry_st m r false = Ok (inl ob, r1) ->
  read_ty m t r =
  if ropen r1 then
    let! (len, r2) := r_get r1 (r_length_determinant m None None) in
    let! (x, r3) := read_whole_sub_slice m (r_set_scope r2 None) len (read_ty m t) in
    Ok (x, r_set_scope r3 (r_scope r1))
  else
    let! (x, r2) := read_ty m t (r_set_scope r1 None) in Ok (x, r_set_scope r2 (r_scope r1)).
Proof.
  intros Hf Hrt r ob r1 He.
  assert (Hn : forall r', r_scope r' = None -> read_ty m t r' = f r').
  { intros r' Hr'. rewrite (Hrt r' None r') by (apply rentry_none; exact Hr').
    apply rwith_buffer_none. exact Hr'. }
  rewrite (Hrt _ _ _ He), (rwith_buffer_factor m r1 f Hf).
  destruct (ropen r1).
  - destruct (r_get r1 _) as [[len r2]| |]; cbn [bind]; try reflexivity.
    unfold read_whole_sub_slice. rewrite (Hn (r_set_scope r2 None)) by reflexivity. reflexivity.
  - rewrite (Hn (r_set_scope r1 None)) by reflexivity. reflexivity.
Qed.

Lemma rsn_bind {A B} (g : rst -> res (A * rst)) (k : A -> rst -> res (B * rst)) :
  rscope_nat g -> (forall a, rscope_nat (k a)) ->
  rscope_nat (fun r => let! (a, r') := g r in k a r').
Proof.
  intros Hg Hk r. rewrite (Hg r). destruct (g (r_set_scope r None)) as [[a r2]| |]; cbn [bind]; try reflexivity.
  rewrite (Hk a (r_set_scope r2 (r_scope r))), (Hk a r2). cbn [r_set_scope r_scope r_src].
  change (r_set_scope (r_set_scope r2 (r_scope r)) None) with (r_set_scope r2 None).
  destruct (k a (r_set_scope r2 None)) as [[x r3]| |]; reflexivity.
Qed.
Lemma rsn_bind0 {A B} (c : res A) (k : A -> rst -> res (B * rst)) :
  (forall a, rscope_nat (k a)) -> rscope_nat (fun r => let! a := c in k a r).
Proof. intros Hk r. destruct c as [a| |]; cbn [bind]; try reflexivity. apply Hk. Qed.
Lemma rsn_ret {A} (a : A) : rscope_nat (fun r => Ok (a, r)).
Proof. intros [s sc]; reflexivity. Qed.
Lemma rsn_err {A} e : rscope_nat (fun r => @Err (A * rst) e).
Proof. intros r; reflexivity. Qed.
Lemma rsn_panic {A} e : rscope_nat (fun r => @Panic (A * rst) e).
Proof. intros r; reflexivity. Qed.
Lemma rsn_if {A} (c : bool) (f g : rst -> res (A * rst)) :
  rscope_nat f -> rscope_nat g -> rscope_nat (fun r => if c then f r else g r).
Proof. destruct c; auto. Qed.
Lemma rsn_len_ext m ext lo hi : rscope_nat (fun r => read_len_ext m r ext lo hi).
Proof.
  unfold read_len_ext. destruct ext; [|apply rscope_nat_get'].
  apply rsn_bind; [apply rscope_nat_get'|]. intros [|]; apply rscope_nat_get'.
Qed.
Lemma rsn_read_chars n w : forall acc, rscope_nat (fun r => read_chars n w r acc).
Proof.
  induction n as [|n IH]; intros acc; cbn [read_chars]; [apply rsn_ret|].
  apply rsn_bind; [apply rscope_nat_get'|]. intros a. apply IH.
Qed.
Lemma rsn_pushed {A} m (pre : rst -> rst) (sc : rst -> scope) (g : rst -> res (A * rst)) :
  (forall r s, pre (r_set_scope r s) = r_set_scope (pre r) s) ->
  (forall r s, sc (r_set_scope r s) = sc r) ->
  rscope_nat (fun r => rscope_pushed m (pre r) (sc r) g).
Proof.
  intros Hp Hs r. unfold rscope_pushed. rewrite Hp, Hs. cbn [r_scope r_set_scope r_src].
  assert (E : r_scope (pre r) = r_scope r).
  { rewrite <- (r_set_scope_id r) at 1. rewrite Hp. reflexivity. }
  rewrite E.
  change (r_set_scope (r_set_scope (pre r) None) (Some (sc r))) with (r_set_scope (pre r) (Some (sc r))).
  destruct (g (r_set_scope (pre r) (Some (sc r)))) as [[a r']| |]; cbn [bind]; try reflexivity.
  destruct (debug_asserts m && _); cbn [bind]; reflexivity.
Qed.

Ltac rsn :=
  repeat first
    [ apply rscope_nat_get' | apply rsn_ret | apply rsn_err | apply rsn_panic | apply rsn_len_ext
    | apply rsn_read_chars | apply rscope_nat_stashed
    | apply rsn_if
    | apply rsn_bind0; intros ?
    | apply rsn_bind; [|intros ?] ].

Lemma rsn_pushed_at {A} m s sc0 scp (g : rst -> res (A * rst)) :
  rscope_pushed m {| r_src := s; r_scope := sc0 |} scp g =
  let! (x, r2) := rscope_pushed m {| r_src := s; r_scope := None |} scp g in Ok (x, r_set_scope r2 sc0).
Proof.
  unfold rscope_pushed. cbn [r_scope r_set_scope r_src].
  destruct (g _) as [[a r']| |]; cbn [bind]; try reflexivity.
  destruct (debug_asserts m && _); reflexivity.
Qed.

Lemma read_ty_factor m t r ob r1 :
  read_bit_field_entry_st m r false = Ok (inl ob, r1) ->
  read_ty m t r =
  if ropen r1 && negb (is_choice t) then
    let! (len, r2) := r_get r1 (r_length_determinant m None None) in
    let! (x, r3) := read_whole_sub_slice m (r_set_scope r2 None) len (read_ty m t) in
    Ok (x, r_set_scope r3 (r_scope r1))
  else
    let! (x, r2) := read_ty m t (r_set_scope r1 None) in Ok (x, r_set_scope r2 (r_scope r1)).
Proof.
  destruct t as [| |k lo hi ext|c lo hi ext|lo hi ext|lo hi ext|e lo hi ext|fs so fc ea|alts std ext|vc std ext];
    try destruct c.
  all: cbn [is_choice negb]; rewrite ?andb_true_r, ?andb_false_r; revert r ob r1.
  all: try (eapply read_factor_gen;
            [|intros r' ob' r1' He'; cbn [read_ty]; unfold read_bit_field_entry; rewrite He'; cbn [bind]; reflexivity]).
  all: try solve [rsn].
  - apply (rsn_bind (fun r => r_get r (r_bitstring m lo hi ext))
             (fun a r0 => let '(bs, bl, buflen) := a in
                Ok (VBits (bytes_of_bits bs ++ repeat 0 (N.to_nat buflen - length (bytes_of_bits bs))) bl, r0))); [rsn|].
    intros [[bs bl] bf]. rsn.
  - intros [s sc]. cbn [r_set_scope r_src r_scope].
    destruct ea as [e|]; unfold r_get; cbn [r_src r_set_src r_set_scope bind].
    + destruct (r_bit s) as [[b s']| |]; cbn [bind r_src r_set_src r_set_scope r_scope]; try reflexivity.
      destruct (src_remaining m s') as [rem| |]; cbn [bind]; try reflexivity.
      destruct (rem <? so); try reflexivity.
      destruct (uadd m (s_pos s') so) as [stop| |]; cbn [bind]; try reflexivity.
      destruct b.
      * destruct (usub m fc (e + 1)) as [nx| |]; cbn [bind]; try reflexivity. apply rsn_pushed_at.
      * apply rsn_pushed_at.
    + destruct (src_remaining m s) as [rem| |]; cbn [bind]; try reflexivity.
      destruct (rem <? so); try reflexivity.
      destruct (uadd m (s_pos s) so) as [stop| |]; cbn [bind]; try reflexivity.
      apply rsn_pushed_at.
  - intros r ob r1 He. cbn [read_ty]. unfold read_bit_field_entry. rewrite He, rentry_none by reflexivity.
    cbn [bind]. apply (rscope_nat_stashed _ r1).
  - eapply (read_factor_gen m _ (fun r => let! (index, r) := r_get r (r_enumeration_index m std ext) in
                                            if index <? vc then Ok (VEnum index, r) else Err E_INVALID_CHOICE)).
    + apply rsn_bind; [rsn|]. intros a. rsn.
    + intros r' ob' r1' He'. cbn [read_ty]. unfold read_bit_field_entry. rewrite He'. cbn [bind].
      unfold rwith_buffer. destruct (match r_scope r1' with Some s => encode_as_open_type_field s | None => false end).
      * destruct (r_get r1' (r_length_determinant m None None)) as [[len r2]| |]; cbn [bind]; try reflexivity.
        unfold read_whole_sub_slice.
        destruct (umul m len BYTE_LEN) as [lb| |]; cbn [bind]; try reflexivity.
        destruct (uadd m (s_pos (r_src r2)) lb) as [wp| |]; cbn [bind]; try reflexivity.
        destruct (r_get r2 (r_enumeration_index m std ext)) as [[i r3]| |]; cbn [bind]; try reflexivity.
        destruct (i <? vc); reflexivity.
      * reflexivity.
Qed.



(** * the writer against [enc]: flat types, SEQUENCE OF, CHOICE *)
Definition welems (m : mode) (e : ty) :=
  fix elems (vs : list val) (w : wst) : res wst :=
    match vs with
    | [] => Ok w
    | x :: vs' => let! w := write_ty m e x w in elems vs' w
    end.
Definition enc_elems (m : mode) (e : ty) :=
  fix elems (vs : list val) : res bits :=
    match vs with
    | [] => Ok []
    | x :: r => let! a := enc m e x in let! b := elems r in Ok (a ++ b)
    end.
Definition wpick (m : mode) (x : val) (w : wst) :=
  fix pick (alts : list ty) (i : nat) : res wst :=
    match alts, i with
    | a :: _, O => write_ty m a x w
    | _ :: r, S i' => pick r i'
    | [], _ => Panic P_OTHER
    end.
Definition enc_pick (m : mode) (x : val) :=
  fix pick (alts : list ty) (i : nat) : res bits :=
    match alts, i with
    | a :: _, O => enc m a x
    | _ :: r, S i' => pick r i'
    | [], _ => Panic P_OTHER
    end.

Definition Wprop (m : mode) (t : ty) : Prop :=
  forall v w, wst_wf w -> w_scope w = None -> wsim (write_ty m t v w) w (enc m t v).

Lemma scope_stashed_none w f : w_scope w = None ->
  scope_stashed w f = let! w' := f w in Ok (w_set_scope w' None).
Proof. destruct w as [rb n sc]. cbn [w_scope]. intros ->. reflexivity. Qed.

Lemma set_none_append w b : w_scope w = None -> w_set_scope (w_append w b) None = w_append w b.
Proof. destruct w as [rb n sc]. cbn [w_scope]. intros ->. reflexivity. Qed.

Lemma not_ok_bind {A B} (r : res A) (f : A -> res B) : is_ok r = false -> is_ok (bind r f) = false.
Proof. destruct r; cbn; congruence. Qed.

Lemma write_flat_eq m t v w : w_scope w = None ->
  match t with TListOf _ _ _ _ | TSeq _ _ _ _ | TChoice _ _ _ => True
  | _ => write_ty m t v w = w_put w (enc m t v) end.
Proof.
  intros Hs.
  destruct t as [| |k lo hi ext|c lo hi ext|lo hi ext|lo hi ext|e lo hi ext|fs so fc ea|alts std ext|vc std ext];
    try exact I; try destruct c; destruct v; try reflexivity;
    cbn [write_ty enc]; rewrite entry_none by exact Hs; cbn [bind]; rewrite with_buffer_none by exact Hs;
    try reflexivity.
  - cbn [w_put bind]. rewrite w_append_nil. reflexivity.
  - unfold int_enc. destruct ext;
      match goal with |- context [if ?c then _ else _] => destruct c end;
      match goal with |- context [w_put _ ?r] => destruct r end; cbn [w_put bind app]; rewrite ?w_append_app; reflexivity.
  - destruct (negb ext && _); reflexivity.
  - destruct (find_invalid _ _); [reflexivity|]. rewrite wel_eq.
    destruct (len_hdr _ _ _ _ _ _); cbn [w_put bind]; rewrite ?w_append_app; reflexivity.
  - destruct (find_invalid _ _); [reflexivity|]. rewrite wel_eq.
    destruct (len_hdr _ _ _ _ _ _); cbn [w_put bind]; rewrite ?w_append_app; reflexivity.
  - destruct (find_invalid _ _); [reflexivity|]. rewrite wel_eq.
    destruct (len_hdr _ _ _ _ _ _); cbn [w_put bind]; rewrite ?w_append_app; reflexivity.
  - destruct (find_invalid _ _); [reflexivity|]. rewrite wel_eq.
    destruct (len_hdr _ _ _ _ _ _); cbn [w_put bind]; rewrite ?w_append_app; reflexivity.
Qed.

Lemma welems_sim m e : Wprop m e ->
  forall vs w, wst_wf w -> w_scope w = None -> wsim (welems m e vs w) w (enc_elems m e vs).
Proof.
  intros IH. induction vs as [|x vs IHl]; intros w Hw Hs; cbn [welems enc_elems].
  - cbn [wsim]. rewrite w_append_nil. reflexivity.
  - pose proof (IH x w Hw Hs) as Hx. unfold wsim in Hx.
    destruct (enc m e x) as [a| |]; cbn [bind]; try (apply not_ok_bind; exact Hx).
    rewrite Hx. cbn [bind].
    pose proof (IHl (w_append w a) (w_append_wf _ _ Hw) Hs) as Hr. unfold wsim in Hr.
    destruct (enc_elems m e vs) as [b| |]; cbn [bind wsim]; try exact Hr.
    rewrite Hr, w_append_app. reflexivity.
Qed.

Lemma W_list m e lo hi ext : Wprop m e -> Wprop m (TListOf e lo hi ext).
Proof.
  intros IH v w Hw Hs. destruct v; try reflexivity.
  cbn [write_ty enc]. rewrite entry_none by exact Hs. cbn [bind]. rewrite with_buffer_none by exact Hs.
  rewrite scope_stashed_none by exact Hs. rewrite wel_eq.
  change (fix elems (vs0 : list val) : res bits := match vs0 with [] => Ok [] | x :: r => let! a := enc m e x in let! b := elems r in Ok (a ++ b) end) with (enc_elems m e).
  change (fix elems (vs0 : list val) (w5 : wst) {struct vs0} : res wst := match vs0 with [] => Ok w5 | x :: vs' => let! w6 := write_ty m e x w5 in elems vs' w6 end) with (welems m e).
  destruct (len_hdr m ext lo hi I64_MAX (N.of_nat (length vs))) as [h| |]; cbn [w_put bind wsim]; try reflexivity.
  rewrite scope_stashed_none by exact Hs.
  pose proof (welems_sim m e IH vs (w_append w h) (w_append_wf _ _ Hw) Hs) as Hr. unfold wsim in Hr.
  destruct (enc_elems m e vs) as [b| |]; cbn [bind].
  - rewrite Hr. cbn [bind]. rewrite w_append_app, !set_none_append by exact Hs. reflexivity.
  - destruct (welems m e vs (w_append w h)); try discriminate Hr; reflexivity.
  - destruct (welems m e vs (w_append w h)); try discriminate Hr; reflexivity.
Qed.

Lemma wpick_sim m x : forall alts, Forall (Wprop m) alts ->
  forall i w, wst_wf w -> w_scope w = None -> wsim (wpick m x w alts i) w (enc_pick m x alts i).
Proof.
  induction alts as [|a alts IHl]; intros F i w Hw Hs; cbn [wpick enc_pick]; [reflexivity|].
  apply Forall_cons_iff in F. destruct F as [Ha F]. destruct i as [|i]; [apply Ha; assumption|].
  apply IHl; assumption.
Qed.

Lemma W_choice m alts std ext : Forall (Wprop m) alts -> Wprop m (TChoice alts std ext).
Proof.
  intros F v w Hw Hs. destruct v; try reflexivity.
  cbn [write_ty enc]. rewrite entry_none by exact Hs. cbn [bind].
  rewrite scope_stashed_none by exact Hs.
  change (fix pick (alts0 : list ty) (i : nat) {struct alts0} : res bits :=
            match alts0 with [] => Panic P_OTHER | a :: r => match i with 0%nat => enc m a v | S i' => pick r i' end end)
    with (enc_pick m v).
  destruct (w_enumeration_index m std ext index) as [ib| |]; cbn [w_put bind wsim]; try reflexivity.
  destruct (std <=? index).
  - change (fix pick (alts0 : list ty) (i : nat) {struct alts0} : res wst :=
            match alts0 with [] => Panic P_OTHER | a :: r => match i with 0%nat => write_ty m a v w_empty | S i' => pick r i' end end)
      with (wpick m v w_empty).
    pose proof (wpick_sim m v alts F (N.to_nat index) w_empty w_empty_wf eq_refl) as Hr. unfold wsim in Hr.
    destruct (enc_pick m v alts (N.to_nat index)) as [cb| |]; cbn [bind].
    + rewrite Hr. cbn [bind]. rewrite w_bits_empty_append. fold (wrap_open m cb).
      destruct (wrap_open m cb) as [wb| |]; cbn [w_put bind]; try reflexivity.
      rewrite w_append_app, set_none_append by exact Hs. reflexivity.
    + destruct (wpick m v w_empty alts (N.to_nat index)); try discriminate Hr; reflexivity.
    + destruct (wpick m v w_empty alts (N.to_nat index)); try discriminate Hr; reflexivity.
  - change (fix pick (alts0 : list ty) (i : nat) {struct alts0} : res wst :=
            match alts0 with [] => Panic P_OTHER | a :: r => match i with 0%nat => write_ty m a v (w_append w ib) | S i' => pick r i' end end)
      with (wpick m v (w_append w ib)).
    pose proof (wpick_sim m v alts F (N.to_nat index) (w_append w ib) (w_append_wf _ _ Hw) Hs) as Hr. unfold wsim in Hr.
    destruct (enc_pick m v alts (N.to_nat index)) as [cb| |]; cbn [bind].
    + rewrite Hr. cbn [bind]. rewrite w_append_app, set_none_append by exact Hs. reflexivity.
    + destruct (wpick _ _ _ _ _); try discriminate Hr; reflexivity.
    + destruct (wpick _ _ _ _ _); try discriminate Hr; reflexivity.
Qed.



(** * octet padding: bytes_of_bits / bits_of_bytes *)
Definition pad8 (n : nat) : nat := ((8 - n mod 8) mod 8)%nat.

Lemma byte_bits_of_bits8 b0 b1 b2 b3 b4 b5 b6 b7 :
  byte_bits (byte_of_bits [b0; b1; b2; b3; b4; b5; b6; b7]) = [b0; b1; b2; b3; b4; b5; b6; b7]
  /\ byte_of_bits [b0; b1; b2; b3; b4; b5; b6; b7] < 256.
Proof. destruct b0, b1, b2, b3, b4, b5, b6, b7; vm_compute; split; reflexivity. Qed.

Lemma byte_of_bits_pad l : (length l <= 8)%nat ->
  byte_of_bits l = byte_of_bits (l ++ repeat false (8 - length l)).
Proof.
  intros H. unfold byte_of_bits.
  assert (E : forall i, nth i (l ++ repeat false (8 - length l)) false = nth i l false).
  { intros i. destruct (Nat.lt_ge_cases i (length l)) as [L|L].
    - apply app_nth1. exact L.
    - rewrite app_nth2 by exact L. rewrite (nth_overflow l) by exact L.
      destruct (Nat.lt_ge_cases (i - length l) (8 - length l)) as [L2|L2].
      + apply nth_repeat.
      + apply nth_overflow. rewrite repeat_length. exact L2. }
  rewrite !E. reflexivity.
Qed.

Lemma list8 {A} (l : list A) : length l = 8%nat ->
  exists a b c d e f g h, l = [a; b; c; d; e; f; g; h].
Proof.
  destruct l as [|a [|b [|c [|d [|e [|f [|g [|h [|i l]]]]]]]]]; cbn [length]; intros H; try discriminate H.
  repeat eexists.
Qed.

Lemma bytes_of_bits_fuel_spec : forall fuel l, (length l < fuel)%nat ->
  bits_of_bytes (bytes_of_bits_fuel fuel l) = l ++ repeat false (pad8 (length l))
  /\ Forall (fun b => b < 256) (bytes_of_bits_fuel fuel l).
Proof.
  induction fuel as [|fuel IH]; intros l Hl; [lia|].
  cbn [bytes_of_bits_fuel]. destruct l as [|b0 l0] eqn:El; [split; [reflexivity|constructor]|].
  assert (Hne : (1 <= length l)%nat) by (rewrite El; cbn [length]; lia).
  rewrite <- El in *. clear El b0 l0.
  destruct (Nat.lt_ge_cases (length l) 8) as [Hs|Hs].
  - (* last, partial octet *)
    assert (Hsk : skipn 8 l = []) by (apply skipn_all2; lia).
    assert (Hfi : firstn 8 l = l) by (apply firstn_all2; lia).
    rewrite Hsk, Hfi.
    assert (Hn : bytes_of_bits_fuel fuel [] = []) by (destruct fuel; reflexivity).
    rewrite Hn. rewrite byte_of_bits_pad by lia.
    destruct (list8 (l ++ repeat false (8 - length l))) as (a & b & c & d & e & f & g & h & E).
    { rewrite app_length, repeat_length. lia. }
    rewrite E. destruct (byte_bits_of_bits8 a b c d e f g h) as [E1 E2].
    split.
    + rewrite bits_cons, E1. cbn [bits_of_bytes flat_map]. rewrite app_nil_r, <- E.
      f_equal. f_equal. unfold pad8.
      clear - Hs Hne. revert Hs Hne. generalize (length l). intros n Hs Hne.
      destruct n as [|[|[|[|[|[|[|[|k]]]]]]]]; try reflexivity; lia.
    + constructor; [exact E2|constructor].
  - destruct (IH (skipn 8 l)) as [I1 I2]; [rewrite skipn_length; lia|].
    destruct (list8 (firstn 8 l)) as (a & b & c & d & e & f & g & h & E); [rewrite firstn_length; lia|].
    rewrite E. destruct (byte_bits_of_bits8 a b c d e f g h) as [E1 E2].
    split.
    + rewrite bits_cons, E1, I1, <- E. rewrite app_assoc, firstn_skipn. f_equal. f_equal.
      rewrite skipn_length. unfold pad8.
      replace (length l) with (length l - 8 + 1 * 8)%nat at 2 by lia.
      rewrite Nat.mod_add by lia. reflexivity.
    + constructor; assumption.
Qed.

Lemma bits_of_bytes_of_bits l :
  bits_of_bytes (bytes_of_bits l) = l ++ repeat false (pad8 (length l)).
Proof. apply bytes_of_bits_fuel_spec. lia. Qed.
Lemma bytes_of_bits_bytes l : Forall (fun b => b < 256) (bytes_of_bits l).
Proof. apply bytes_of_bits_fuel_spec. lia. Qed.

Lemma bytes_of_bits_unique l bytes k : Forall (fun b => b < 256) bytes ->
  bits_of_bytes bytes = l ++ repeat false k -> (k < 8)%nat ->
  bytes_of_bits l = bytes.
Proof.
  intros Fb E Hk. apply bits_inj; [apply bytes_of_bits_bytes|exact Fb|].
  rewrite bits_of_bytes_of_bits, E. f_equal. f_equal.
  pose proof (f_equal (@length bool) E) as EL. rewrite bits_length, app_length, repeat_length in EL.
  unfold pad8.
  assert (length l = (8 * length bytes - k))%nat by lia.
  destruct (Nat.eq_dec k 0) as [->|Hk0].
  - replace (length l) with (0 + length bytes * 8)%nat by lia. rewrite Nat.mod_add by lia. reflexivity.
  - assert (1 <= length bytes)%nat by lia.
    replace (length l) with ((8 - k) + (length bytes - 1) * 8)%nat by lia.
    rewrite Nat.mod_add by lia. rewrite (Nat.mod_small (8 - k)) by lia.
    rewrite Nat.mod_small by lia. lia.
Qed.

Lemma bytes_of_bits_of_bytes bytes : Forall (fun b => b < 256) bytes ->
  bytes_of_bits (bits_of_bytes bytes) = bytes.
Proof.
  intros F. apply (bytes_of_bits_unique _ _ 0%nat F); [|lia]. cbn [repeat]. rewrite app_nil_r. reflexivity.
Qed.

Lemma bytes_of_bits_len l : blen (bytes_of_bits l) = (bl l + 7) / 8.
Proof.
  pose proof (f_equal (@length bool) (bits_of_bytes_of_bits l)) as E.
  rewrite bits_length, app_length, repeat_length in E. unfold blen, bl, pad8 in *.
  generalize dependent (length (bytes_of_bits l)). intros L E.
  pose proof (Nat.div_mod (length l) 8 ltac:(lia)) as D.
  pose proof (Nat.mod_upper_bound (length l) 8 ltac:(lia)) as U.
  destruct (Nat.eq_dec (length l mod 8) 0) as [Z|NZ].
  - rewrite Z in *. change ((8 - 0) mod 8)%nat with 0%nat in E.
    apply N.div_unique with (r := 7); lia.
  - rewrite (Nat.mod_small (8 - length l mod 8)) in E by lia.
    apply N.div_unique with (r := N.of_nat (length l mod 8) - 1); lia.
Qed.

(** * integers: from_i64 after to_i64 *)
Lemma from_to_i64 k z : ik_fitsb k z = true -> from_i64 k (to_i64 z) = z.
Proof.
  intros H. unfold to_i64, i64_of_u64, u64_of_i64.
  assert (E64 : Z.of_N two64 = 18446744073709551616%Z) by reflexivity.
  assert (E63 : two63 = 9223372036854775808) by reflexivity.
  rewrite E64.
  assert (Hq : exists q, (if N.ltb (Z.to_N (z mod 18446744073709551616)) two63
                          then Z.of_N (Z.to_N (z mod 18446744073709551616))
                          else Z.of_N (Z.to_N (z mod 18446744073709551616)) - 18446744073709551616)%Z
                         = (z + q * 18446744073709551616)%Z).
  { pose proof (Z.mod_pos_bound z 18446744073709551616 ltac:(lia)) as B.
    pose proof (Z.div_mod z 18446744073709551616 ltac:(lia)) as D.
    destruct (N.ltb_spec (Z.to_N (z mod 18446744073709551616)) two63).
    - exists (- (z / 18446744073709551616))%Z. lia.
    - exists (- (z / 18446744073709551616) - 1)%Z. lia. }
  destruct Hq as [q ->].
  unfold from_i64, ik_fitsb in *.
  destruct k; cbn [ik_signed ik_bits] in *;
    match goal with |- context [(2 ^ Z.of_N ?b)%Z] =>
      let v := eval vm_compute in (2 ^ Z.of_N b)%Z in change (2 ^ Z.of_N b)%Z with v in * end;
    match goal with |- context [((?zz + ?qq * 18446744073709551616) mod ?M)%Z] =>
      replace ((zz + qq * 18446744073709551616) mod M)%Z with (zz mod M)%Z
        by (replace (qq * 18446744073709551616)%Z with ((qq * (18446744073709551616 / M)) * M)%Z
              by (cbn; lia); rewrite Z.mod_add by lia; reflexivity) end.
  all: try (rewrite Z.mod_small by lia; reflexivity).
  all: cbn in H.
  all: match goal with |- context [(?zz mod ?M)%Z] =>
         pose proof (Z.mod_pos_bound zz M ltac:(lia)) as B; pose proof (Z.div_mod zz M ltac:(lia)) as D end.
  all: match goal with |- context [(?M / 2)%Z] => let v := eval vm_compute in (M / 2)%Z in change (M / 2)%Z with v end.
  all: match goal with |- (if ?c then _ else _) = _ => destruct c eqn:C end; lia.
Qed.



Ltac dlia := Z.to_euclidean_division_equations; lia.

(** * UTF-8 *)
Lemma utf8_char_decode fuel c rest : scalar c ->
  utf8_decode_fuel (S fuel) (utf8_char c ++ rest) = option_map (cons c) (utf8_decode_fuel fuel rest).
Proof.
  intros Hc. unfold scalar in Hc. unfold utf8_char.
  destruct (N.ltb_spec c 128) as [H1|H1].
  { cbn [app utf8_decode_fuel]. destruct (N.ltb_spec c 128); [reflexivity|lia]. }
  destruct (N.ltb_spec c 2048) as [H2|H2].
  { cbn [app utf8_decode_fuel].
    assert (A1 : 192 + c / 64 <? 128 = false) by (apply N.ltb_ge; zify; dlia).
    assert (A2 : (194 <=? 192 + c / 64) && (192 + c / 64 <? 224) = true).
    { apply andb_true_iff. split; [apply N.leb_le|apply N.ltb_lt]; zify; dlia. }
    assert (A3 : is_cont (128 + c mod 64) = true).
    { unfold is_cont. apply andb_true_iff. split; [apply N.leb_le|apply N.ltb_lt]; zify; dlia. }
    rewrite A1, A2, A3. do 2 f_equal. zify; dlia. }
  destruct (N.ltb_spec c 65536) as [H3|H3].
  { cbn [app utf8_decode_fuel].
    assert (A1 : 224 + c / 4096 <? 128 = false) by (apply N.ltb_ge; zify; dlia).
    assert (A2 : (194 <=? 224 + c / 4096) && (224 + c / 4096 <? 224) = false).
    { apply andb_false_iff. right. apply N.ltb_ge. lia. }
    assert (A2' : (224 <=? 224 + c / 4096) && (224 + c / 4096 <? 240) = true).
    { apply andb_true_iff. split; [apply N.leb_le|apply N.ltb_lt]; zify; dlia. }
    assert (A3 : is_cont (128 + (c / 64) mod 64) = true).
    { unfold is_cont. apply andb_true_iff. split; [apply N.leb_le|apply N.ltb_lt]; zify; dlia. }
    assert (A4 : is_cont (128 + c mod 64) = true).
    { unfold is_cont. apply andb_true_iff. split; [apply N.leb_le|apply N.ltb_lt]; zify; dlia. }
    assert (E : (224 + c / 4096 - 224) * 4096 + (128 + (c / 64) mod 64 - 128) * 64 + (128 + c mod 64 - 128) = c)
      by (zify; dlia).
    rewrite A1, A2, A2', A3, A4, E. cbn [andb].
    destruct (N.leb_spec 2048 c); [|lia]. cbn [andb].
    assert (A5 : (55296 <=? c) && (c <? 57344) = false).
    { apply andb_false_iff. destruct Hc as [Hc|Hc]; [left; apply N.leb_gt; lia|right; apply N.ltb_ge; lia]. }
    rewrite A5. reflexivity. }
  cbn [app utf8_decode_fuel].
  assert (Hc' : c < 1114112) by lia.
  assert (A1 : 240 + c / 262144 <? 128 = false) by (apply N.ltb_ge; zify; dlia).
  assert (A2 : (194 <=? 240 + c / 262144) && (240 + c / 262144 <? 224) = false).
  { apply andb_false_iff. right. apply N.ltb_ge. lia. }
  assert (A2' : (224 <=? 240 + c / 262144) && (240 + c / 262144 <? 240) = false).
  { apply andb_false_iff. right. apply N.ltb_ge. lia. }
  assert (A2'' : (240 <=? 240 + c / 262144) && (240 + c / 262144 <? 245) = true).
  { apply andb_true_iff. split; [apply N.leb_le|apply N.ltb_lt]; zify; dlia. }
  assert (A3 : is_cont (128 + (c / 4096) mod 64) = true).
  { unfold is_cont. apply andb_true_iff. split; [apply N.leb_le|apply N.ltb_lt]; zify; dlia. }
  assert (A4 : is_cont (128 + (c / 64) mod 64) = true).
  { unfold is_cont. apply andb_true_iff. split; [apply N.leb_le|apply N.ltb_lt]; zify; dlia. }
  assert (A5 : is_cont (128 + c mod 64) = true).
  { unfold is_cont. apply andb_true_iff. split; [apply N.leb_le|apply N.ltb_lt]; zify; dlia. }
  assert (E : (240 + c / 262144 - 240) * 262144 + (128 + (c / 4096) mod 64 - 128) * 4096
              + (128 + (c / 64) mod 64 - 128) * 64 + (128 + c mod 64 - 128) = c) by (zify; dlia).
  rewrite A1, A2, A2', A2'', A3, A4, A5, E. cbn [andb].
  destruct (N.leb_spec 65536 c); [|lia]. destruct (N.ltb_spec c 1114112); [|lia]. reflexivity.
Qed.

Lemma utf8_roundtrip_fuel : forall cs fuel, (length cs < fuel)%nat -> Forall scalar cs ->
  utf8_decode_fuel fuel (utf8_encode cs) = Some cs.
Proof.
  induction cs as [|c cs IH]; intros fuel Hf F.
  - destruct fuel; [lia|reflexivity].
  - destruct fuel as [|fuel]; [lia|]. apply Forall_cons_iff in F. destruct F as [Hc F].
    unfold utf8_encode. cbn [flat_map]. rewrite utf8_char_decode by exact Hc.
    fold (utf8_encode cs). rewrite IH by (cbn [length] in Hf; try lia; exact F). reflexivity.
Qed.

Lemma utf8_char_len c : (1 <= length (utf8_char c))%nat.
Proof. unfold utf8_char. destruct (c <? 128), (c <? 2048), (c <? 65536); cbn [length]; lia. Qed.
Lemma utf8_encode_len cs : (length cs <= length (utf8_encode cs))%nat.
Proof.
  induction cs as [|c cs IH]; [cbn; lia|]. unfold utf8_encode. cbn [flat_map length].
  rewrite app_length. fold (utf8_encode cs). pose proof (utf8_char_len c). lia.
Qed.

Lemma utf8_roundtrip cs : Forall scalar cs -> utf8_decode (utf8_encode cs) = Some cs.
Proof.
  intros F. unfold utf8_decode. apply utf8_roundtrip_fuel; [|exact F].
  pose proof (utf8_encode_len cs). lia.
Qed.

Lemma utf8_char_bytes c : scalar c -> Forall (fun b => b < 256) (utf8_char c).
Proof.
  intros Hc. unfold scalar in Hc. unfold utf8_char.
  destruct (N.ltb_spec c 128); [repeat constructor; lia|].
  destruct (N.ltb_spec c 2048); [repeat constructor; zify; dlia|].
  destruct (N.ltb_spec c 65536); repeat constructor; zify; dlia.
Qed.
Lemma utf8_encode_bytes cs : Forall scalar cs -> Forall (fun b => b < 256) (utf8_encode cs).
Proof.
  induction 1 as [|c cs Hc _ IH]; [constructor|]. unfold utf8_encode. cbn [flat_map].
  apply Forall_app. split; [apply utf8_char_bytes; exact Hc|exact IH].
Qed.

Lemma utf8_ascii cs : Forall (fun c => c < 128) cs -> utf8_encode cs = cs.
Proof.
  induction 1 as [|c cs Hc _ IH]; [reflexivity|]. unfold utf8_encode. cbn [flat_map]. fold (utf8_encode cs).
  rewrite IH. unfold utf8_char. destruct (N.ltb_spec c 128); [reflexivity|lia].
Qed.
Lemma from_utf8_ascii cs : Forall (fun c => c < 128) cs -> from_utf8 cs = Ok (VStr cs).
Proof.
  intros F. unfold from_utf8. rewrite <- (utf8_ascii cs F) at 1. rewrite utf8_roundtrip; [reflexivity|].
  eapply Forall_impl; [|exact F]. intros c Hc. left. cbv beta in Hc. lia.
Qed.

(** * restricted character strings *)
Definition cwidth (c : cset) : N := match c with Numeric => 4 | _ => 7 end.
Definition cdecode (c : cset) (x : N) : N :=
  match c with Numeric => if x =? 0 then 32 else 32 + 15 + x | _ => x end.

Lemma find_invalid_false c cs : find_invalid c cs = false -> Forall (fun ch => cs_valid c ch = true) cs.
Proof.
  induction cs as [|ch cs IH]; cbn [find_invalid]; intros H; [constructor|].
  apply orb_false_iff in H. destruct H as [H1 H2]. constructor; [|apply IH; exact H2].
  destruct (cs_valid c ch); [reflexivity|discriminate H1].
Qed.

Lemma cs_valid_ascii c ch : c <> Utf8 -> cs_valid c ch = true -> ch < 128.
Proof.
  intros Hc H. destruct c; try congruence; cbn [cs_valid] in H; lia.
Qed.

Lemma byte_bits_bov b : byte_bits b = bits_of_val 8 b.
Proof. reflexivity. Qed.

Lemma char_bits_spec c ch : c <> Utf8 -> cs_valid c ch = true ->
  bl (char_bits c ch) = cwidth c /\ cdecode c (val_of_bits (char_bits c ch)) = ch.
Proof.
  intros Hc Hv. pose proof (cs_valid_ascii c ch Hc Hv) as Ha.
  assert (Em : ch mod 256 = ch) by (apply N.mod_small; lia).
  destruct c; try congruence; unfold char_bits; rewrite Em; cbn [cwidth cdecode].
  1,3,4: rewrite byte_bits_bov; change 8%nat with (1 + 7)%nat; rewrite bov_skipn;
         split; [unfold bl; rewrite bov_length; reflexivity|apply vob_bov_small; cbn; lia].
  cbn [cs_valid] in Hv.
  rewrite byte_bits_bov. change 8%nat with (4 + 4)%nat. rewrite bov_skipn.
  split; [unfold bl; rewrite bov_length; reflexivity|].
  destruct (N.eqb_spec (ch - 32) 0) as [E|E].
  - assert (ch = 32) by lia. subst ch. reflexivity.
  - assert (E2 : (ch - 32 - 15) mod 256 = ch - 47) by (rewrite N.mod_small; lia).
    rewrite E2. rewrite vob_bov_small by (cbn; lia).
    destruct (N.eqb_spec (ch - 47) 0); lia.
Qed.
