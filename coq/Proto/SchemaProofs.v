(* Proto/SchemaProofs.v -- stub, to be filled *)
