(* Proto/SchemaProofs.v -- proofs about schema_of / pb_decode (C18). *)
From A1 Require Import Proto.Wire Proto.Rw Proto.Schema Proto.Proofs.
Require Import ZifyBool ZifyNat ZifyN.
Local Open Scope N_scope.

(** * numbering: the j-th entry (from 0) of a message or of a oneof carries number j+1 *)
Lemma number_from_nth {A} (l : list A) : forall i j x,
  nth_error (number_from i l) j = Some x -> fst x = i + N.of_nat j /\ nth_error l j = Some (snd x).
Proof.
  induction l as [|a l IH]; intros i j x H.
  - destruct j; discriminate.
  - destruct j as [|j]; cbn [number_from nth_error] in *.
    + injection H as <-. cbn. split; [lia|reflexivity].
    + apply IH in H. destruct H as [H1 H2]. split; [lia|exact H2].
Qed.

Lemma number_from_length {A} (l : list A) i : length (number_from i l) = length l.
Proof. revert i. induction l as [|a l IH]; intros i; cbn; [reflexivity|rewrite IH; reflexivity]. Qed.

Theorem numbers_match_seq fs m :
  schema_of (TSeq fs) = Some m ->
  length m = length fs /\
  forall j num ty, nth_error m j = Some (num, ty) ->
    num = N.of_nat j + 1 /\ exists o t, nth_error fs j = Some (o, t) /\ ty = field_type t.
Proof.
  unfold schema_of. cbn [field_type]. intros H. injection H as <-.
  split; [rewrite number_from_length, map_length; reflexivity|].
  intros j num ty Hn. apply number_from_nth in Hn. cbn [fst snd] in Hn. destruct Hn as [H1 H2].
  split; [lia|].
  rewrite nth_error_map in H2. destruct (nth_error fs j) as [[o t]|]; [|discriminate].
  cbn in H2. injection H2 as <-. eauto.
Qed.

Theorem numbers_match_choice alts m :
  schema_of (TChoice alts) = Some m ->
  exists al, m = [(1, POneofT al)] /\ length al = length alts /\
  forall j num ty, nth_error al j = Some (num, ty) ->
    num = N.of_nat j + 1 /\ exists t, nth_error alts j = Some t /\ ty = field_type t.
Proof.
  unfold schema_of. cbn [field_type]. intros H. injection H as <-.
  eexists. split; [reflexivity|]. split; [rewrite number_from_length, map_length; reflexivity|].
  intros j num ty Hn. apply number_from_nth in Hn. cbn [fst snd] in Hn. destruct Hn as [H1 H2].
  split; [lia|].
  rewrite nth_error_map in H2. destruct (nth_error alts j) as [t|]; [|discriminate].
  cbn in H2. injection H2 as <-. eauto.
Qed.

(** * the writer's bytes decode under the schema: bounded-exhaustive on the flat type *)
Definition flat_schema : pmsg := match schema_of flat_ty with Some m => m | None => [] end.

Fixpoint pbval_eqb (a b : pbval) {struct a} : bool :=
  match a, b with
  | BNum x, BNum y => (x =? y)%Z
  | BBytes x, BBytes y => list_n_eqb x y
  | BMsg None, BMsg None => true
  | BMsg (Some xs), BMsg (Some ys) | BRep xs, BRep ys =>
      (fix all2 (xs ys : list pbval) {struct xs} : bool :=
         match xs, ys with
         | [], [] => true
         | x :: xs', y :: ys' => pbval_eqb x y && all2 xs' ys'
         | _, _ => false
         end) xs ys
  | BOneof None, BOneof None => true
  | BOneof (Some (n, x)), BOneof (Some (k, y)) => (n =? k) && pbval_eqb x y
  | _, _ => false
  end.

Definition decode_ok (m : mode) (v : pval) : bool :=
  match pwrite_vec m flat_ty v, pb_of_val flat_ty v with
  | Ok bs, Some want =>
      match pb_decode flat_schema bs with
      | Some got => pbval_eqb (BMsg (Some got)) (BMsg (Some want))
      | None => false
      end
  | _, _ => false
  end.

Lemma flat_decode_dev : forallb (decode_ok dev_mode) flat_vals = true.
Proof. vm_compute. reflexivity. Qed.
Lemma flat_decode_release : forallb (decode_ok release_mode) flat_vals = true.
Proof. vm_compute. reflexivity. Qed.

(* the expected field values, explicitly *)
Definition flat_expected (b : bool) (x : N) (oy : option Z) : list pbval :=
  [BNum (if b then 1 else 0); BNum (Z.of_N x); BNum (match oy with Some y => y | None => 0 end)].

Lemma pbval_eqb_flat b x oy got :
  pbval_eqb (BMsg (Some got)) (BMsg (Some (flat_expected b x oy))) = true -> got = flat_expected b x oy.
Proof.
  unfold flat_expected. intros H. cbn in H.
  destruct got as [|g1 got]; [discriminate H|].
  apply andb_true_iff in H. destruct H as [H1 H].
  destruct got as [|g2 got]; [discriminate H|].
  apply andb_true_iff in H. destruct H as [H2 H].
  destruct got as [|g3 got]; [discriminate H|].
  apply andb_true_iff in H. destruct H as [H3 H].
  destruct got as [|g4 got]; [|discriminate H].
  assert (NUM : forall g z, pbval_eqb g (BNum z) = true -> g = BNum z).
  { intros g z E. destruct g as [z'|l|o|l|o]; cbn in E.
    - apply Z.eqb_eq in E. subst. reflexivity.
    - discriminate E.
    - destruct o; discriminate E.
    - discriminate E.
    - destruct o as [[n w]|]; discriminate E. }
  apply NUM in H1, H2, H3. subst. reflexivity.
Qed.
Theorem decodes_flat (m : mode) b x oy :
  (m = dev_mode \/ m = release_mode) ->
  x < 256 -> (forall y, oy = Some y -> (-32 <= y < 32)%Z) ->
  let v := VSeq [VBool b; VInt (Z.of_N x); VOpt (option_map VInt oy)] in
  exists bs, pwrite_vec m flat_ty v = Ok bs /\
             pb_decode flat_schema bs = Some (flat_expected b x oy) /\
             pb_of_val flat_ty v = Some (flat_expected b x oy).
Proof.
  intros Hm Hx Hy v.
  pose proof (flat_vals_complete b x oy Hx Hy) as Hin. fold v in Hin.
  assert (R : decode_ok m v = true).
  { destruct Hm as [-> | ->].
    - pose proof flat_decode_dev as S. rewrite forallb_forall in S. apply S, Hin.
    - pose proof flat_decode_release as S. rewrite forallb_forall in S. apply S, Hin. }
  unfold decode_ok in R.
  assert (W : pb_of_val flat_ty v = Some (flat_expected b x oy)) by (destruct oy; reflexivity).
  rewrite W in R. revert R.
  destruct (pwrite_vec m flat_ty v) as [bs| |] eqn:Ew; try discriminate.
  destruct (pb_decode flat_schema bs) as [got|] eqn:Ed; try discriminate.
  intros R. apply pbval_eqb_flat in R. subst got. exists bs. repeat split; auto.
Qed.

(** * validity of the emitted schema, on representative types (the message types of the harness zoo) *)
Definition rq (t : pty) := (false, t).
Definition op (t : pty) := (true, t).
Definition s_inner := TSeq [rq (TInt KU16); op TStr].
Definition s_ch2 := TChoice [TInt KU8; TBytes].
Definition s_ch := TChoice [TInt KI16; TBool; TStr; s_inner; s_ch2; TEnum 3].
Definition good_types : list pty :=
  [ TSeq [rq (TInt KU8); rq (TInt KI8); rq (TInt KU16); rq (TInt KI16); rq (TInt KU32); rq (TInt KI32);
          rq (TInt KU64); rq (TInt KI64); rq (TInt KU64)];
    s_inner;
    TSeq [rq TBool; rq TStr; rq TBytes; rq TBits; rq (TEnum 3); rq TStr];
    TSeq [op (TInt KU8); op TStr; op TBool; op TBytes; op s_inner; rq (TInt KI8); op (TEnum 3); op (TInt KI64)];
    TSeq [rq (TSeqOf (TInt KI32)); rq (TSeqOf TStr); rq (TSeqOf s_inner); op (TSeqOf (TInt KU8)); rq TBool;
          rq (TSeqOf (TInt KU16))];
    s_ch2; s_ch;
    TSeq [rq TBool; rq s_ch; rq (TInt KU8); op s_ch2];
    TSeq [rq (TSeqOf s_ch2); rq (TSeqOf (TEnum 3)); rq (TSeqOf TBool); rq (TSeqOf TBytes)];
    TSeq [rq (TSeq [rq (TInt KU16)]); op (TSeq [rq (TInt KU16)]); rq (TSeq [rq (TSeqOf TStr)])];
    TSeq [rq (TSeq [op (TSeq [op (TInt KU8)]); rq TBool]); rq TStr];
    TSeq [rq (TInt KU8); rq TNull; rq (TInt KU8)];
    TChoice [TNull; TInt KU8];
    TSeq [rq TBits] ].

Definition schema_valid (t : pty) : bool :=
  match schema_of t with Some m => valid_proto3 m | None => false end.

Theorem schema_valid_good : forall t, In t good_types -> schema_valid t = true.
Proof.
  assert (H : forallb schema_valid good_types = true) by (vm_compute; reflexivity).
  intros t Ht. rewrite forallb_forall in H. apply H, Ht.
Qed.
