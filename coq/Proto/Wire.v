(* Proto/Wire.v -- executable model of the protobuf primitive layer of asn1rs
   (src/protocol/protobuf/mod.rs: ProtoWrite / ProtoRead over io::Write / io::Read,
   Format, and BitVec::{to,from}_vec_with_trailing_bit_len of src/descriptor/bitstring.rs).

   Bytes are [N] below 256, u64 values are [N] below 2^64, i32/i64 values are [Z].
   Readers work on a byte list (the `&[u8]` that implements io::Read) and return the
   value and the unread rest.  Every partial Rust operation is explicit. *)
From A1 Require Export Base.Word.
Require Import ZifyBool ZifyNat ZifyN.
Local Open Scope N_scope.

(** * Error kinds (variants of protobuf::Error, payloads dropped) *)
Definition E_IO : N := 1.                (* Error::Io (read_exact past the end, WriteZero) *)
Definition E_UTF8 : N := 2.              (* InvalidUtf8Received *)
Definition E_MISSING : N := 3.           (* MissingRequiredField *)
Definition E_INVALID_TAG : N := 4.       (* InvalidTagReceived *)
Definition E_INVALID_FORMAT : N := 5.    (* InvalidFormat *)
Definition E_INVALID_VARIANT : N := 6.   (* InvalidVariant *)
Definition E_UNEXPECTED_FORMAT : N := 7. (* UnexpectedFormat *)
Definition E_UNEXPECTED_TAG : N := 8.    (* UnexpectedTag *)

Definition two32 : N := 4294967296.
Definition two31 : N := 2147483648.
Definition usize_max : N := two64 - 1.

(** * Format (wire type) *)
Inductive format := VarInt | Fixed64 | LengthDelimited | Fixed32.
Definition format_code (f : format) : N :=
  match f with VarInt => 0 | Fixed64 => 1 | LengthDelimited => 2 | Fixed32 => 5 end.
(* Format::from *)
Definition format_from (id : N) : res format :=
  match id with
  | 0 => Ok VarInt | 1 => Ok Fixed64 | 2 => Ok LengthDelimited | 5 => Ok Fixed32
  | _ => Err E_INVALID_FORMAT
  end.
Definition format_eqb (a b : format) : bool := format_code a =? format_code b.

(** * Varints *)
(* write_varint: while value > 0x7F { write (value as u8 & 0x7F) | 0x80; value >>= 7 } write value as u8.
   A u64 needs at most 10 rounds; the fuel is never exhausted for v < 2^64
   (consequence of [write_varint_fuel_enough] in Proofs.v). *)
Fixpoint write_varint_fuel (fuel : nat) (v : N) : list N :=
  match fuel with
  | O => []
  | S f => if 127 <? v then (v mod 128 + 128) :: write_varint_fuel f (v / 128) else [v]
  end.
Definition write_varint (v : N) : list N := write_varint_fuel 10 v.

(* read_varint: value = 0; shift = 0; while shift < 64 { b = read_u8()?; value |= u64::from(b & 0x7F) << shift;
   shift += 7; if b & 0x80 == 0 { break } } Ok(value).
   `<<` on u64 with shift < 64 never panics; bits shifted beyond bit 63 are lost (shift = 63).
   After ten continuation bytes the loop condition ends the loop without an error.
   The fuel (11 > number of admissible shifts) is never exhausted. *)
Fixpoint read_varint_loop (fuel : nat) (value shift : N) (bs : list N) : res (N * list N) :=
  match fuel with
  | O => Panic P_OTHER
  | S f =>
      if shift <? 64 then
        match bs with
        | [] => Err E_IO
        | b :: rest =>
            let value' := N.lor value ((N.land b 127 * 2 ^ shift) mod two64) in
            if N.land b 128 =? 0 then Ok (value', rest)
            else read_varint_loop f value' (shift + 7) rest
        end
      else Ok (value, bs)
  end.
Definition read_varint (bs : list N) : res (N * list N) := read_varint_loop 11 0 0 bs.

(** * Integer casts *)
Definition u32_of_u64 (n : N) : N := n mod two32.                        (* `as u32` *)
Definition i32_wrap (z : Z) : Z := ((z + Z.of_N two31) mod Z.of_N two32 - Z.of_N two31)%Z. (* `as i32` *)
Definition i64_wrap (z : Z) : Z := i64_of_u64 (u64_of_i64 z).            (* `as i64` *)
Definition is_i32 (z : Z) : Prop := (- Z.of_N two31 <= z < Z.of_N two31)%Z.

(** * Zig-zag *)
(* write_sint32: ((value << 1) ^ (value >> 31)) as u64 -- i32 arithmetic, then sign-extending cast *)
Definition zz32 (v : Z) : N :=
  u64_of_i64 (Z.lxor (i32_wrap (v * 2)) (if (v <? 0)%Z then (-1) else 0)%Z).
(* write_sint64: ((value << 1) ^ (value >> 63)) as u64 *)
Definition zz64 (v : Z) : N :=
  u64_of_i64 (Z.lxor (i64_wrap (v * 2)) (if (v <? 0)%Z then (-1) else 0)%Z).
(* read_sint32: value = varint as u32; ((value >> 1) as i32) ^ (-((value & 1) as i32)) *)
Definition unzz32 (n : N) : Z :=
  let value := u32_of_u64 n in
  Z.lxor (i32_wrap (Z.of_N (value / 2))) (- Z.of_N (N.land value 1))%Z.
(* read_sint64: ((value >> 1) as i64) ^ (-((value & 1) as i64)) *)
Definition unzz64 (n : N) : Z :=
  Z.lxor (i64_wrap (Z.of_N (n / 2))) (- Z.of_N (N.land n 1))%Z.

(** * Tags *)
(* write_tag: write_varint(u64::from(field << 3 | format as u32)); u32 `<<` drops the high bits silently *)
Definition tag_word (field : N) (f : format) : N := N.lor ((field * 8) mod two32) (format_code f).
Definition write_tag (field : N) (f : format) : list N := write_varint (tag_word field f).
(* read_tag: tag = varint as u32; format = Format::from(tag & 7)?; field = tag >> 3 *)
Definition read_tag (bs : list N) : res (N * format * list N) :=
  let! (v, rest) := read_varint bs in
  let tag := u32_of_u64 v in
  let! f := format_from (N.land tag 7) in
  Ok (tag / 8, f, rest).

(** * Scalars on top of varints *)
Definition write_bool (b : bool) : list N := write_varint (if b then 1 else 0).
Definition read_bool (bs : list N) : res (bool * list N) :=
  let! (v, rest) := read_varint bs in Ok (negb (v =? 0), rest).
Definition write_uint32 (v : N) : list N := write_varint v.
Definition read_uint32 (bs : list N) : res (N * list N) :=
  let! (v, rest) := read_varint bs in Ok (u32_of_u64 v, rest).
Definition write_uint64 (v : N) : list N := write_varint v.
Definition read_uint64 := read_varint.
Definition write_sint32 (v : Z) : list N := write_varint (zz32 v).
Definition read_sint32 (bs : list N) : res (Z * list N) :=
  let! (v, rest) := read_varint bs in Ok (unzz32 v, rest).
Definition write_sint64 (v : Z) : list N := write_varint (zz64 v).
Definition read_sint64 (bs : list N) : res (Z * list N) :=
  let! (v, rest) := read_varint bs in Ok (unzz64 v, rest).
Definition write_enum_variant (v : N) : list N := write_varint v.   (* u64::from(u32) *)
Definition read_enum_variant := read_uint32.

(** * Fixed32 (little endian; not used by the Reader/Writer layer, kept for the primitive tie) *)
Definition le_bytes (k : nat) (v : N) : list N := rev (be_bytes k v).
Definition of_le (l : list N) : N := of_be (rev l).
Definition write_sfixed32 (v : Z) : list N := le_bytes 4 (Z.to_N (v mod Z.of_N two32)).
Definition read_exact (k : nat) (bs : list N) : res (list N * list N) :=
  if (length bs <? k)%nat then Err E_IO else Ok (firstn k bs, skipn k bs).
Definition read_sfixed32 (bs : list N) : res (Z * list N) :=
  let! (b, rest) := read_exact 4 bs in Ok (i32_wrap (Z.of_N (of_le b)), rest).

(** * Length-delimited *)
(* write_bytes: varint(len) ++ bytes *)
Definition write_bytes (bs : list N) : list N := write_varint (N.of_nat (length bs)) ++ bs.
(* read_bytes: read_to_end -- NO length prefix is consumed here (the Reader layer slices first) *)
Definition read_bytes (bs : list N) : res (list N * list N) := Ok (bs, []).

(** UTF-8 validity as decided by String::from_utf8 (core::str::run_utf8_validation):
    shortest form only, no surrogates, at most U+10FFFF. *)
Definition in_range (lo hi b : N) : bool := (lo <=? b) && (b <=? hi).
Fixpoint utf8_valid_fuel (fuel : nat) (bs : list N) : bool :=
  match fuel with
  | O => false
  | S f =>
      match bs with
      | [] => true
      | b0 :: r0 =>
          if b0 <? 128 then utf8_valid_fuel f r0
          else if in_range 194 223 b0 then
            match r0 with
            | b1 :: r1 => in_range 128 191 b1 && utf8_valid_fuel f r1
            | _ => false end
          else if in_range 224 239 b0 then
            match r0 with
            | b1 :: b2 :: r2 =>
                (if b0 =? 224 then in_range 160 191 b1
                 else if b0 =? 237 then in_range 128 159 b1
                 else in_range 128 191 b1)
                && in_range 128 191 b2 && utf8_valid_fuel f r2
            | _ => false end
          else if in_range 240 244 b0 then
            match r0 with
            | b1 :: b2 :: b3 :: r3 =>
                (if b0 =? 240 then in_range 144 191 b1
                 else if b0 =? 244 then in_range 128 143 b1
                 else in_range 128 191 b1)
                && in_range 128 191 b2 && in_range 128 191 b3 && utf8_valid_fuel f r3
            | _ => false end
          else false
      end
  end.
Definition utf8_valid (bs : list N) : bool := utf8_valid_fuel (S (length bs)) bs.

Definition write_string (s : list N) : list N := write_bytes s.
Definition read_string (bs : list N) : res (list N * list N) :=
  if utf8_valid bs then Ok (bs, []) else Err E_UTF8.

(** * BitVec with trailing bit length *)
(* to_vec_with_trailing_bit_len / the body of write_bit_string:
     value[..(bit_len as usize + 7) / 8].to_vec() ++ bit_len.to_be_bytes()
   `bit_len as usize + 7` overflows for bit_len > 2^64 - 8 (dev: panic, release: wraps);
   the slice panics when fewer bytes than needed are present. *)
Definition bitvec_payload (m : mode) (bytes : list N) (bit_len : N) : res (list N) :=
  let! sum := (if usize_max <? bit_len + 7
               then (if overflow_checks m then Panic P_ARITH else Ok ((bit_len + 7) mod two64))
               else Ok (bit_len + 7)) in
  if N.of_nat (length bytes) <? sum / 8 then Panic P_SLICE_RANGE
  else Ok (firstn (N.to_nat (sum / 8)) bytes ++ be_bytes 8 bit_len).

(* from_vec_with_trailing_bit_len: bytes_position = bytes.len() - 8  (usize subtraction: panics in dev
   when fewer than 8 bytes are there; wraps in release and then `&bytes[bytes_position..]` panics) *)
Definition bitvec_from_trailing (m : mode) (bytes : list N) : res (list N * N) :=
  let len := length bytes in
  if (len <? 8)%nat then
    (if overflow_checks m then Panic P_ARITH else Panic P_SLICE_RANGE)
  else Ok (firstn (len - 8) bytes, of_be (skipn (len - 8) bytes)).

(* ProtoRead::read_bit_vec *)
Definition read_bit_vec (m : mode) (bs : list N) : res ((list N * N) * list N) :=
  let! (b, rest) := read_bytes bs in
  let! bv := bitvec_from_trailing m b in
  Ok (bv, rest).

(* BitVec::from_bytes (used by callers to build a value; normalises) *)
Definition bitvec_from_bytes (bytes : list N) (bit_len : N) : list N * N :=
  let have := N.of_nat (length bytes) * 8 in
  if have <? bit_len then
    (bytes ++ repeat 0 (N.to_nat ((bit_len + 7) / 8) - length bytes), bit_len)
  else if have =? bit_len then (bytes, bit_len)
  else
    let mask := 255 / 2 ^ (bit_len mod 8) in
    let idx := N.to_nat (bit_len / 8) in
    (firstn idx bytes ++
      match skipn idx bytes with
      | b :: r => N.land b (255 - mask) :: r
      | [] => []
      end, bit_len).
