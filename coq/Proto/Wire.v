(* Proto/Wire.v -- stub, to be filled *)
