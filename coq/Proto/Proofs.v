(* Proto/Proofs.v -- proofs about the protobuf primitive layer and the Writer/Reader model (C17). *)
From A1 Require Import Proto.Wire Proto.Rw.
Require Import ZifyBool ZifyNat ZifyN.
Local Open Scope N_scope.

(** * finite sweeps *)
Definition nrange (k : nat) : list N := map N.of_nat (seq 0 k).
Lemma nrange_in k n : n < N.of_nat k -> In n (nrange k).
Proof.
  intros H. unfold nrange. apply in_map_iff. exists (N.to_nat n). split; [lia|].
  apply in_seq. lia.
Qed.
Lemma sweep (P : N -> bool) k :
  forallb P (nrange k) = true -> forall n, n < N.of_nat k -> P n = true.
Proof. intros H n Hn. rewrite forallb_forall in H. apply H, nrange_in, Hn. Qed.

Lemma byte_bits_sweep :
  forallb (fun b => (N.land b 127 =? b mod 128) && (Bool.eqb (N.land b 128 =? 0) (b <? 128))) (nrange 256) = true.
Proof. vm_compute. reflexivity. Qed.

Lemma byte_bits b : b < 256 -> N.land b 127 = b mod 128 /\ (N.land b 128 =? 0) = (b <? 128).
Proof.
  intros Hb. pose proof (sweep _ 256 byte_bits_sweep b Hb) as E. cbv beta in E.
  apply andb_true_iff in E. destruct E as [E1 E2].
  apply N.eqb_eq in E1. apply Bool.eqb_prop in E2. auto.
Qed.

(** * bit-disjoint or = addition *)
Lemma land_low_high a x k : a < 2 ^ k -> N.land a (x * 2 ^ k) = 0.
Proof.
  intros Ha. apply N.bits_inj_0. intros i. rewrite N.land_spec.
  destruct (N.lt_ge_cases i k) as [Hi|Hi].
  - rewrite N.mul_pow2_bits_low by exact Hi. apply andb_false_r.
  - destruct (N.eq_dec a 0) as [->|Hne]; [rewrite N.bits_0; reflexivity|].
    rewrite (N.bits_above_log2 a i); [reflexivity|].
    apply N.log2_lt_pow2 in Ha; [lia|lia].
Qed.

Lemma lor_low_high a x k : a < 2 ^ k -> N.lor a (x * 2 ^ k) = a + x * 2 ^ k.
Proof.
  intros Ha. pose proof (land_low_high a x k Ha) as L.
  rewrite <- N.lxor_lor by exact L. symmetry. apply N.add_nocarry_lxor. exact L.
Qed.

(** * varint *)
Lemma pow7_split n : 2 ^ (7 * n + 7) = 128 * 2 ^ (7 * n).
Proof. rewrite N.pow_add_r. change (2 ^ 7) with 128. lia. Qed.

Lemma rvl_step f value shift b rest :
  shift < 64 ->
  read_varint_loop (S f) value shift (b :: rest) =
  (let value' := N.lor value ((N.land b 127 * 2 ^ shift) mod two64) in
   if N.land b 128 =? 0 then Ok (value', rest) else read_varint_loop f value' (shift + 7) rest).
Proof. intros H. cbn [read_varint_loop]. apply N.ltb_lt in H. rewrite H. reflexivity. Qed.

(* n rounds already done: shift = 7n, the value so far is below 2^(7n), what remains is below 2^(64-7n) *)
Lemma varint_rounds : forall (m : nat) (n : N) (v value : N) (tail : list N),
  N.of_nat m + n = 10 -> (0 < m)%nat ->
  v < 2 ^ (64 - 7 * n) -> value < 2 ^ (7 * n) ->
  read_varint_loop (S m) value (7 * n) (write_varint_fuel m v ++ tail) = Ok (value + v * 2 ^ (7 * n), tail).
Proof.
  induction m as [|m IH]; intros n v value tail Hmn Hm Hv Hval; [lia|].
  assert (Hn : n <= 9) by lia.
  assert (Hsh : 7 * n < 64) by lia.
  cbn [write_varint_fuel].
  assert (P7 : 2 ^ (7 * n) <> 0) by (apply N.pow_nonzero; lia).
  destruct (127 <? v) eqn:Hbig.
  - (* continuation byte *)
    apply N.ltb_lt in Hbig.
    assert (Hm' : (0 < m)%nat).
    { destruct m; [|lia]. (* m = 0 means n = 9: v < 2, contradiction *)
      assert (n = 9) by lia. subst n. change (2 ^ (64 - 7 * 9)) with 2 in Hv. lia. }
    rewrite <- app_comm_cons. rewrite rvl_step by exact Hsh. cbv zeta.
    set (b := v mod 128 + 128).
    assert (Hb : b < 256) by (unfold b; pose proof (N.mod_lt v 128); lia).
    destruct (byte_bits b Hb) as [B1 B2].
    assert (Hbm : b mod 128 = v mod 128).
    { unfold b. rewrite N.add_mod by lia. rewrite N.mod_same by lia. rewrite N.add_0_r.
      rewrite N.mod_mod by lia. apply N.mod_mod. lia. }
    rewrite B1, B2, Hbm.
    assert ((b <? 128) = false) as -> by (apply N.ltb_ge; unfold b; lia).
    assert (Hlow : v mod 128 * 2 ^ (7 * n) < two64).
    { assert (v mod 128 < 128) by (apply N.mod_lt; lia).
      assert (2 ^ (7 * n) <= 2 ^ 57) by (apply N.pow_le_mono_r; lia).
      change two64 with (128 * 2 ^ 57). nia. }
    rewrite (N.mod_small _ _ Hlow).
    rewrite lor_low_high by exact Hval.
    replace (7 * n + 7) with (7 * (n + 1)) by lia.
    rewrite IH; try lia.
    + f_equal. f_equal.
      replace (7 * (n + 1)) with (7 * n + 7) by lia. rewrite pow7_split.
      pose proof (N.div_mod v 128). lia.
    + (* v / 128 bound *)
      assert (2 ^ (64 - 7 * n) = 128 * 2 ^ (64 - 7 * (n + 1))) as E.
      { replace (64 - 7 * n) with (7 + (64 - 7 * (n + 1))) by lia. rewrite N.pow_add_r. reflexivity. }
      rewrite E in Hv. apply N.div_lt_upper_bound; lia.
    + replace (7 * (n + 1)) with (7 * n + 7) by lia. rewrite pow7_split.
      assert (v mod 128 < 128) by (apply N.mod_lt; lia). nia.
  - (* final byte *)
    apply N.ltb_ge in Hbig.
    cbn [app]. rewrite rvl_step by exact Hsh. cbv zeta.
    assert (Hb : v < 256) by lia.
    destruct (byte_bits v Hb) as [B1 B2]. rewrite B1, B2.
    assert ((v <? 128) = true) as -> by (apply N.ltb_lt; lia).
    rewrite (N.mod_small v 128) by lia.
    assert (Hlow : v * 2 ^ (7 * n) < two64).
    { assert (2 ^ (64 - 7 * n) * 2 ^ (7 * n) = two64) as E.
      { rewrite <- N.pow_add_r. replace (64 - 7 * n + 7 * n) with 64 by lia. reflexivity. }
      rewrite <- E. apply N.mul_lt_mono_pos_r; lia. }
    rewrite (N.mod_small _ _ Hlow). rewrite lor_low_high by exact Hval. reflexivity.
Qed.

Theorem varint_roundtrip v tail :
  v < two64 -> read_varint (write_varint v ++ tail) = Ok (v, tail).
Proof.
  intros Hv. unfold read_varint, write_varint.
  pose proof (varint_rounds 10 0 v 0 tail) as H.
  change (7 * 0) with 0 in H. rewrite H; try lia; try reflexivity.
  - rewrite N.pow_0_r. f_equal. f_equal. lia.
  - exact Hv.
Qed.

(* the writer never runs out of fuel: the last round always emits a final byte *)
Lemma write_varint_nonempty v : write_varint v <> [].
Proof. unfold write_varint. cbn [write_varint_fuel]. destruct (127 <? v); discriminate. Qed.

(** * zig-zag *)
Ltac Zify.zify_post_hook ::= Z.div_mod_to_equations.

Lemma lxor_m1 x : Z.lxor x (-1) = (- x - 1)%Z.
Proof. rewrite Z.lxor_m1_r. unfold Z.lnot. lia. Qed.

Lemma land1_mod2 n : N.land n 1 = n mod 2.
Proof. change 1 with (N.ones 1). rewrite N.land_ones. reflexivity. Qed.

Lemma zz32_low z : is_i32 z ->
  u32_of_u64 (zz32 z) = Z.to_N (if (z <? 0)%Z then - 2 * z - 1 else 2 * z)%Z.
Proof.
  unfold is_i32, u32_of_u64, zz32, i32_wrap, u64_of_i64.
  change (Z.of_N two31) with 2147483648%Z. change (Z.of_N two32) with 4294967296%Z.
  change (Z.of_N two64) with 18446744073709551616%Z. change two32 with 4294967296.
  intros H. destruct (z <? 0)%Z eqn:Hs.
  - rewrite lxor_m1. lia.
  - rewrite Z.lxor_0_r. lia.
Qed.

Theorem zigzag32_roundtrip z : is_i32 z -> unzz32 (zz32 z) = z.
Proof.
  intros H. unfold unzz32. cbv zeta. rewrite (zz32_low z H). rewrite land1_mod2.
  unfold is_i32, i32_wrap in *.
  change (Z.of_N two31) with 2147483648%Z in *. change (Z.of_N two32) with 4294967296%Z.
  destruct (z <? 0)%Z eqn:Hs.
  - replace (- Z.of_N (Z.to_N (-2 * z - 1) mod 2))%Z with (-1)%Z by lia.
    rewrite lxor_m1. lia.
  - replace (- Z.of_N (Z.to_N (2 * z) mod 2))%Z with 0%Z by lia.
    rewrite Z.lxor_0_r. lia.
Qed.

Lemma i64_wrap_eq z : i64_wrap z = ((z + 9223372036854775808) mod 18446744073709551616 - 9223372036854775808)%Z.
Proof.
  unfold i64_wrap, i64_of_u64, u64_of_i64.
  change (Z.of_N two64) with 18446744073709551616%Z.
  destruct (N.ltb_spec (Z.to_N (z mod 18446744073709551616)) two63) as [L|L]; unfold two63 in L; lia.
Qed.

Lemma zz64_val z : is_i64 z ->
  zz64 z = Z.to_N (if (z <? 0)%Z then - 2 * z - 1 else 2 * z)%Z.
Proof.
  unfold is_i64, zz64. rewrite i64_wrap_eq. unfold u64_of_i64.
  change (Z.of_N two63) with 9223372036854775808%Z.
  change (Z.of_N two64) with 18446744073709551616%Z.
  intros H. destruct (z <? 0)%Z eqn:Hs.
  - rewrite lxor_m1. lia.
  - rewrite Z.lxor_0_r. lia.
Qed.

Lemma zz64_lt z : zz64 z < two64.
Proof. unfold zz64. apply u64_of_i64_lt. Qed.
Lemma zz32_lt z : zz32 z < two64.
Proof. unfold zz32. apply u64_of_i64_lt. Qed.

Theorem zigzag64_roundtrip z : is_i64 z -> unzz64 (zz64 z) = z.
Proof.
  intros H. unfold unzz64. rewrite (zz64_val z H). rewrite land1_mod2. rewrite i64_wrap_eq.
  unfold is_i64 in H. change (Z.of_N two63) with 9223372036854775808%Z in H.
  destruct (z <? 0)%Z eqn:Hs.
  - replace (- Z.of_N (Z.to_N (-2 * z - 1) mod 2))%Z with (-1)%Z by lia.
    rewrite lxor_m1. lia.
  - replace (- Z.of_N (Z.to_N (2 * z) mod 2))%Z with 0%Z by lia.
    rewrite Z.lxor_0_r. lia.
Qed.

(** * tags *)
Lemma lor_fmt_sweep :
  forallb (fun c => (N.land c 7 =? c) ) [0; 1; 2; 5] = true.
Proof. reflexivity. Qed.

Lemma tag_word_spec field f :
  field < 2 ^ 29 -> tag_word field f = field * 8 + format_code f /\ tag_word field f < two32.
Proof.
  intros Hf. unfold tag_word.
  assert (field * 8 < two32) by (change two32 with (2 ^ 29 * 8); lia).
  rewrite N.mod_small by assumption.
  assert (format_code f < 2 ^ 3) by (destruct f; cbn; lia).
  rewrite N.lor_comm. change 8 with (2 ^ 3).
  rewrite lor_low_high by assumption. change (2 ^ 3) with 8.
  change two32 with 4294967296 in *. change (2 ^ 29) with 536870912 in Hf.
  split; [lia|]. lia.
Qed.

Theorem tag_roundtrip field f tail :
  field < 2 ^ 29 -> read_tag (write_tag field f ++ tail) = Ok (field, f, tail).
Proof.
  intros Hf. destruct (tag_word_spec field f Hf) as [E L].
  unfold read_tag, write_tag.
  rewrite varint_roundtrip by (change two64 with (two32 * two32); change two32 with 4294967296 in *; lia).
  cbn [bind]. unfold u32_of_u64. rewrite (N.mod_small _ _ L). rewrite E.
  change 7 with (N.ones 3). rewrite N.land_ones. change (2 ^ 3) with 8.
  assert (format_code f < 8) by (destruct f; cbn; lia).
  replace ((field * 8 + format_code f) mod 8) with (format_code f)
    by lia.
  replace ((field * 8 + format_code f) / 8) with field
    by lia.
  destruct f; reflexivity.
Qed.

(** * numbers: every integer kind survives number_bytes / number_read *)
Lemma in_kind_range k z : in_kind k z = true ->
  let '(lo, hi) := kind_range k in (lo <= z <= hi)%Z.
Proof. unfold in_kind. destruct (kind_range k) as [lo hi]. lia. Qed.

Lemma read_varint_self v : v < two64 -> read_varint (write_varint v) = Ok (v, []).
Proof. intros H. rewrite <- (app_nil_r (write_varint v)). apply varint_roundtrip, H. Qed.

Lemma kind_sel_values :
  kind_sel KU8 = PUInt32 /\ kind_sel KU16 = PUInt32 /\ kind_sel KU32 = PUInt32 /\ kind_sel KU64 = PUInt64 /\
  kind_sel KI8 = PSInt32 /\ kind_sel KI16 = PSInt32 /\ kind_sel KI32 = PSInt32 /\ kind_sel KI64 = PSInt64.
Proof. repeat split; reflexivity. Qed.

Lemma number_u32 k z :
  kind_sel k = PUInt32 -> (0 <= z < 4294967296)%Z -> from_i64 k z = z ->
  number_read k (number_bytes k z) = Ok z.
Proof.
  intros Hk Hz Hf. unfold number_read, number_bytes, to_i64. rewrite Hk. rewrite i64_wrap_eq.
  unfold write_uint32, read_uint32. change (Z.of_N two32) with 4294967296%Z.
  rewrite read_varint_self by (change two64 with 18446744073709551616; lia).
  cbn [bind]. unfold u32_of_u64. change two32 with 4294967296.
  replace (Z.of_N (Z.to_N (((z + 9223372036854775808) mod 18446744073709551616 - 9223372036854775808) mod 4294967296)
                   mod 4294967296)) with z by lia.
  rewrite Hf. reflexivity.
Qed.

Lemma number_s32 k z :
  kind_sel k = PSInt32 -> (-2147483648 <= z < 2147483648)%Z -> from_i64 k z = z ->
  number_read k (number_bytes k z) = Ok z.
Proof.
  intros Hk Hz Hf. unfold number_read, number_bytes, to_i64. rewrite Hk. rewrite i64_wrap_eq.
  unfold write_sint32, read_sint32.
  rewrite read_varint_self by apply zz32_lt.
  cbn [bind].
  assert (E : i32_wrap ((z + 9223372036854775808) mod 18446744073709551616 - 9223372036854775808) = z).
  { unfold i32_wrap. change (Z.of_N two31) with 2147483648%Z. change (Z.of_N two32) with 4294967296%Z. lia. }
  rewrite E.
  rewrite zigzag32_roundtrip by (unfold is_i32; change (Z.of_N two31) with 2147483648%Z; lia).
  rewrite Hf. reflexivity.
Qed.

(* `value as T` of a value that is in T *)
Lemma from_i64_id k z : in_kind k z = true -> from_i64 k z = z.
Proof.
  intros H. apply in_kind_range in H.
  destruct k as [| | | | | | | |[|] mn mx]; cbn [kind_range] in H; cbv [i64_min i64_max] in H;
    change (Z.of_N two63) with 9223372036854775808%Z in H; unfold from_i64, wrap_signed; lia.
Qed.

Lemma number_u64 k z :
  kind_sel k = PUInt64 -> from_i64 k (i64_wrap z) = z -> number_read k (number_bytes k z) = Ok z.
Proof.
  intros Hk Hf. unfold number_read, number_bytes, to_i64. rewrite Hk.
  unfold write_uint64, read_uint64. rewrite read_varint_self by apply u64_of_i64_lt. cbn [bind].
  rewrite u64_i64_roundtrip; [rewrite Hf; reflexivity|].
  rewrite i64_wrap_eq. unfold is_i64. change (Z.of_N two63) with 9223372036854775808%Z. lia.
Qed.

Lemma number_s64 k z :
  kind_sel k = PSInt64 -> from_i64 k (i64_wrap z) = z -> number_read k (number_bytes k z) = Ok z.
Proof.
  intros Hk Hf. unfold number_read, number_bytes, to_i64. rewrite Hk.
  unfold write_sint64, read_sint64. rewrite read_varint_self by apply zz64_lt. cbn [bind].
  rewrite zigzag64_roundtrip; [rewrite Hf; reflexivity|].
  rewrite i64_wrap_eq. unfold is_i64. change (Z.of_N two63) with 9223372036854775808%Z. lia.
Qed.

(* the cast to i64 and back is the identity on every value of the Rust type *)
Lemma from_to_i64 k z : in_kind k z = true -> from_i64 k (i64_wrap z) = z.
Proof.
  intros H. apply in_kind_range in H. rewrite i64_wrap_eq.
  destruct k as [| | | | | | | |[|] mn mx]; cbn [kind_range] in H; cbv [i64_min i64_max] in H;
    change (Z.of_N two63) with 9223372036854775808%Z in H; unfold from_i64, wrap_signed; lia.
Qed.

Definition base_kind (k : pikind) : bool := match k with KExt _ _ _ => false | _ => true end.

(* the value survives the cast of the wire format chosen by write_number: the Rust type is never wider than the format
   (the fixed-width kinds by their ranges; an extensible INTEGER always gets a 64-bit format since /repo 4788e65) *)
Definition num_fits (k : pikind) (z : Z) : bool :=
  match kind_sel k with
  | PUInt32 => ((0 <=? z) && (z <? 4294967296))%Z
  | PSInt32 => ((-2147483648 <=? z) && (z <? 2147483648))%Z
  | _ => true
  end.

Lemma ext_sel64 sg mn mx : kind_sel (KExt sg mn mx) = PUInt64 \/ kind_sel (KExt sg mn mx) = PSInt64.
Proof.
  unfold kind_sel, num_sel. cbn [kind_ext kind_min negb andb]. destruct (0 <=? unwrap_or mn 0)%Z; [left|right]; reflexivity.
Qed.

Lemma all_fits k z : in_kind k z = true -> num_fits k z = true.
Proof.
  intros H. destruct (base_kind k) eqn:Hb.
  - apply in_kind_range in H.
    destruct kind_sel_values as (S1 & S2 & S3 & S4 & S5 & S6 & S7 & S8).
    unfold num_fits.
    destruct k; try discriminate Hb; cbn [kind_range] in H; cbv [i64_min i64_max] in H;
      change (Z.of_N two63) with 9223372036854775808%Z in H;
      rewrite ?S1, ?S2, ?S3, ?S4, ?S5, ?S6, ?S7, ?S8; try reflexivity; lia.
  - destruct k as [| | | | | | | |sg mn mx]; try discriminate Hb. unfold num_fits.
    destruct (ext_sel64 sg mn mx) as [E|E]; rewrite E; reflexivity.
Qed.

(* every integer kind, every value of its Rust type *)
Theorem number_roundtrip k z : in_kind k z = true -> number_read k (number_bytes k z) = Ok z.
Proof.
  intros Hin. pose proof (all_fits k z Hin) as Hfit.
  pose proof (from_i64_id k z Hin) as Hid. pose proof (from_to_i64 k z Hin) as Hft.
  unfold num_fits in Hfit. destruct (kind_sel k) eqn:Hk.
  - apply number_u32; [exact Hk|lia|exact Hid].
  - apply number_u64; assumption.
  - apply number_s32; [exact Hk|lia|exact Hid].
  - apply number_s64; assumption.
Qed.

(** * Message level: a one-component message holding an integer (what a tuple struct
      `T ::= INTEGER (..)` and a one-field SEQUENCE generate), every kind, every value *)
Lemma write_varint_fuel_len f v : (length (write_varint_fuel f v) <= f)%nat.
Proof.
  revert v. induction f as [|f IH]; intros v; cbn [write_varint_fuel]; [simpl; lia|].
  destruct (127 <? v); cbn [length]; [specialize (IH (v / 128)); lia|lia].
Qed.
Lemma write_varint_len v : (1 <= length (write_varint v) <= 10)%nat.
Proof.
  pose proof (write_varint_fuel_len 10 v). unfold write_varint in *. split; [|assumption].
  cbn [write_varint_fuel]. destruct (127 <? v); cbn [length]; lia.
Qed.

Lemma number_bytes_varint k z : exists x, x < two64 /\ number_bytes k z = write_varint x.
Proof.
  unfold number_bytes. destruct (kind_sel k).
  - eexists; split; [|reflexivity]. change (Z.of_N two32) with 4294967296%Z. change two64 with 18446744073709551616. lia.
  - eexists; split; [|reflexivity]. apply u64_of_i64_lt.
  - eexists; split; [|reflexivity]. apply zz32_lt.
  - eexists; split; [|reflexivity]. apply zz64_lt.
Qed.

Lemma slice_all src : slice src (0, nlen src) = Ok src.
Proof.
  unfold slice, nlen. rewrite N.ltb_irrefl.
  assert ((N.of_nat (length src) <? 0) = false) as -> by (apply N.ltb_ge; lia).
  cbn [N.to_nat skipn]. rewrite N.sub_0_r, Nat2N.id, firstn_all. reflexivity.
Qed.

Lemma slice_suffix a b : slice (a ++ b) (nlen a, nlen (a ++ b)) = Ok b.
Proof.
  unfold slice, nlen. rewrite app_length.
  assert ((N.of_nat (length a + length b) <? N.of_nat (length a)) = false) as -> by (apply N.ltb_ge; lia).
  rewrite N.ltb_irrefl.
  rewrite Nat2N.id. rewrite skipn_app, skipn_all, Nat.sub_diag. cbn [app skipn].
  replace (N.to_nat (N.of_nat (length a + length b) - N.of_nat (length a))) with (length b) by lia.
  rewrite firstn_all. reflexivity.
Qed.

Theorem roundtrip_int_message m k z :
  in_kind k z = true ->
  let t := TSeq [(false, TInt k)] in
  let v := VSeq [VInt z] in
  exists bs, pwrite_vec m t v = Ok bs /\ pread m t bs = Ok v /\ peq t v v = true.
Proof.
  intros Hin t v.
  destruct (number_bytes_varint k z) as (x & Hx & Ex).
  set (hd := write_tag 1 VarInt).
  exists (hd ++ number_bytes k z).
  assert (Hw : pwrite_vec m t v = Ok (hd ++ number_bytes k z)) by reflexivity.
  split; [exact Hw|]. split.
  2:{ cbn. unfold in_kind in Hin. rewrite Z.eqb_refl. reflexivity. }
  set (nb := number_bytes k z) in *.
  set (src := hd ++ nb).
  assert (Hhd : length hd = 1%nat) by reflexivity.
  assert (Hnb : (1 <= length nb <= 10)%nat) by (rewrite Ex; apply write_varint_len).
  assert (Hlen : nlen src = 1 + nlen nb) by (unfold src, nlen; rewrite app_length, Hhd; lia).
  unfold pread. cbn [rd t].
  cbn [next_tag_range unwrap_or].
  (* index_enclosed *)
  unfold index_enclosed. cbn [fst snd].
  assert (Hfuel : exists f, (length src + 2)%nat = S (S f)) by (exists (length src); lia).
  destruct Hfuel as [f Ef]. rewrite Ef.
  cbn [ie_loop].
  assert ((0 <? nlen src) = true) as -> by (apply N.ltb_lt; lia).
  rewrite slice_all. cbn [bind].
  unfold src at 1. unfold hd at 1. rewrite tag_roundtrip by (cbn; lia). cbn [bind].
  assert (Hnb' : 1 <= nlen nb <= 10) by (unfold nlen; lia).
  assert (Hrv : read_varint nb = Ok (x, [])) by (rewrite Ex; apply read_varint_self, Hx).
  unfold content_off_len. rewrite Hrv. cbn [bind].
  change (@nlen []) with 0.
  unfold checked_end.
  replace (0 + (nlen src - nlen nb) + 0) with 1 by lia.
  replace (1 + (nlen nb - 0)) with (nlen src) by lia.
  assert ((usize_max <? nlen src) = false) as -> by (apply N.ltb_ge; unfold usize_max, two64; lia).
  rewrite N.ltb_irrefl.
  cbn [bind]. rewrite N.ltb_irrefl. cbn [bind app].
  (* the field *)
  assert (Hsl : slice src (1, nlen src) = Ok nb).
  { assert (E1 : (1, nlen src) = (nlen hd, nlen (hd ++ nb))) by (unfold nlen; rewrite Hhd; reflexivity).
    unfold src at 1. rewrite E1. apply slice_suffix. }
  unfold next_reader. cbn [next_tag_range take_tag]. rewrite N.eqb_refl. cbn [andb].
  change (format_eqb VarInt VarInt) with true. cbv iota beta. cbn [unwrap_or]. rewrite Hsl. cbn [bind].
  assert (Hnn : is_nil nb = false) by (destruct nb; [cbn [length] in Hnb; lia|reflexivity]).
  rewrite Hnn. unfold nb. rewrite number_roundtrip by assumption. reflexivity.
Qed.

(** * Message level, bounded-exhaustive: the flat type
      SEQUENCE { b BOOLEAN, x INTEGER (0..255), y INTEGER (-128..127) OPTIONAL }
      with every b, every x and y absent or in -32..31 (2 x 256 x 65 values; the sweep is kept this small so
      that the file builds in about a minute; all values of every integer kind are covered symbolically by
      [number_roundtrip] and [roundtrip_int_message]) *)
Definition flat_ty : pty := TSeq [(false, TBool); (false, TInt KU8); (true, TInt KI8)].
Definition flat_vals : list pval :=
  flat_map (fun b => flat_map (fun x => map (fun oy => VSeq [VBool b; VInt (Z.of_N x); VOpt oy])
     (None :: map (fun y => Some (VInt (Z.of_N y - 32))) (nrange 64))) (nrange 256)) [false; true].

Definition roundtrip_ok (m : mode) (t : pty) (v : pval) : bool :=
  match pwrite_vec m t v with
  | Ok bs => match pread m t bs with Ok v' => peq t v v' && pval_eqb v v' | _ => false end
  | _ => false
  end.

Lemma flat_sweep_dev : forallb (roundtrip_ok dev_mode flat_ty) flat_vals = true.
Proof. vm_compute. reflexivity. Qed.
Lemma flat_sweep_release : forallb (roundtrip_ok release_mode flat_ty) flat_vals = true.
Proof. vm_compute. reflexivity. Qed.

Lemma flat_vals_complete b x oy :
  x < 256 -> (forall y, oy = Some y -> (-32 <= y < 32)%Z) ->
  In (VSeq [VBool b; VInt (Z.of_N x); VOpt (option_map VInt oy)]) flat_vals.
Proof.
  intros Hx Hy. unfold flat_vals.
  apply in_flat_map. exists b. split; [destruct b; simpl; tauto|].
  apply in_flat_map. exists x. split; [apply nrange_in; lia|].
  apply in_map_iff. exists (option_map VInt oy). split; [reflexivity|].
  destruct oy as [y|]; [|left; reflexivity]. right. cbn [option_map].
  apply in_map_iff. exists (Z.to_N (y + 32)). specialize (Hy y eq_refl). split.
  - f_equal. f_equal. lia.
  - apply nrange_in. lia.
Qed.

Theorem roundtrip_flat (m : mode) b x oy :
  (m = dev_mode \/ m = release_mode) ->
  x < 256 -> (forall y, oy = Some y -> (-32 <= y < 32)%Z) ->
  let v := VSeq [VBool b; VInt (Z.of_N x); VOpt (option_map VInt oy)] in
  exists bs v', pwrite_vec m flat_ty v = Ok bs /\ pread m flat_ty bs = Ok v' /\ peq flat_ty v v' = true.
Proof.
  intros Hm Hx Hy v.
  pose proof (flat_vals_complete b x oy Hx Hy) as Hin. fold v in Hin.
  assert (R : roundtrip_ok m flat_ty v = true).
  { destruct Hm as [-> | ->].
    - pose proof flat_sweep_dev as S. rewrite forallb_forall in S. apply S, Hin.
    - pose proof flat_sweep_release as S. rewrite forallb_forall in S. apply S, Hin. }
  unfold roundtrip_ok in R. revert R.
  destruct (pwrite_vec m flat_ty v) as [bs| |] eqn:Ew; try discriminate.
  destruct (pread m flat_ty bs) as [v'| |] eqn:Er; try discriminate.
  intros R. apply andb_true_iff in R. destruct R as [R _].
  exists bs, v'. repeat split; auto.
Qed.

(** * Back ends, bounded-exhaustive on the flat type: a slice of exactly the needed size (or larger)
      receives the bytes of the growable back end, a slice one byte short yields Err(Io) *)
Definition backends_ok (m : mode) (t : pty) (v : pval) : bool :=
  match pwrite_vec m t v with
  | Ok bs =>
      let n := N.of_nat (length bs) in
      match pwrite_slice m n t v, pwrite_slice m (n + 3) t v, pwrite_slice m (n - 1) t v with
      | Ok b1, Ok b2, Err e => list_n_eqb b1 bs && list_n_eqb b2 bs && (e =? E_IO) && (0 <? n)
      | _, _, _ => false
      end
  | _ => false
  end.
Lemma flat_backends_dev : forallb (backends_ok dev_mode flat_ty) flat_vals = true.
Proof. vm_compute. reflexivity. Qed.
Lemma flat_backends_release : forallb (backends_ok release_mode flat_ty) flat_vals = true.
Proof. vm_compute. reflexivity. Qed.

Lemma list_n_eqb_eq a b : list_n_eqb a b = true -> a = b.
Proof.
  revert b. induction a as [|x a IH]; destruct b as [|y b]; cbn; try congruence.
  intros H. apply andb_true_iff in H. destruct H as [H1 H2]. apply N.eqb_eq in H1. f_equal; auto.
Qed.

Theorem backends_agree_flat (m : mode) b x oy :
  (m = dev_mode \/ m = release_mode) ->
  x < 256 -> (forall y, oy = Some y -> (-32 <= y < 32)%Z) ->
  let v := VSeq [VBool b; VInt (Z.of_N x); VOpt (option_map VInt oy)] in
  exists bs, pwrite_vec m flat_ty v = Ok bs /\
    pwrite_slice m (N.of_nat (length bs)) flat_ty v = Ok bs /\
    pwrite_slice m (N.of_nat (length bs) + 3) flat_ty v = Ok bs /\
    pwrite_slice m (N.of_nat (length bs) - 1) flat_ty v = Err E_IO.
Proof.
  intros Hm Hx Hy v.
  pose proof (flat_vals_complete b x oy Hx Hy) as Hin. fold v in Hin.
  assert (R : backends_ok m flat_ty v = true).
  { destruct Hm as [-> | ->].
    - pose proof flat_backends_dev as S. rewrite forallb_forall in S. apply S, Hin.
    - pose proof flat_backends_release as S. rewrite forallb_forall in S. apply S, Hin. }
  unfold backends_ok in R. revert R.
  destruct (pwrite_vec m flat_ty v) as [bs| |] eqn:Ew; try discriminate.
  cbv zeta.
  destruct (pwrite_slice m (N.of_nat (length bs)) flat_ty v) as [b1| |] eqn:E1; try discriminate.
  destruct (pwrite_slice m (N.of_nat (length bs) + 3) flat_ty v) as [b2| |] eqn:E2; try discriminate.
  destruct (pwrite_slice m (N.of_nat (length bs) - 1) flat_ty v) as [|e|] eqn:E3; try discriminate.
  intros R.
  repeat (apply andb_true_iff in R; destruct R as [R ?]).
  apply list_n_eqb_eq in R. apply list_n_eqb_eq in H1. apply N.eqb_eq in H0. subst.
  exists bs. repeat split; auto.
Qed.
