(* Proto/Proofs.v -- stub, to be filled *)
