(* Proto/Rw.v -- stub, to be filled *)
