(* Proto/Rw.v -- model of the protobuf Writer/Reader of asn1rs (src/rw/proto_write.rs,
   src/rw/proto_read.rs) as driven by the generated descriptor code (src/descriptor/*.rs,
   asn1rs-model/src/generate/walker.rs), and of ProtobufEq (src/protocol/protobuf/peq.rs).

   A generated type is described by a [pty]; SEQUENCE, SET (fields in the order the generated
   write_seq/read_seq visits them) and the one-field wrapper of a tuple struct are all [TSeq].
   DEFAULT components behave as required ones (write_default/read_default just delegate). *)
From A1 Require Export Proto.Wire.
Require Import ZifyBool ZifyNat ZifyN.
Local Open Scope N_scope.

Definition E_ILLTYPED : N := 99.   (* value does not inhabit the type: not a Rust behaviour, excluded by wf_val *)

(** * Types and values *)
(* the Rust integer type of a component.  An INTEGER whose constraint carries an extension marker
   ("INTEGER (-5..5, ...)") is mapped to u64 (root bounds both >= 0) or i64 (rust.rs
   asn_extensible_integer_to_rust) while its numbers::Constraint keeps the ROOT bounds as MIN / MAX and has
   EXTENSIBLE = true (walker.rs): [KExt signed MIN MAX]. *)
Inductive pikind := KU8 | KI8 | KU16 | KI16 | KU32 | KI32 | KU64 | KI64
                  | KExt (signed : bool) (mn mx : option Z).

Inductive pty :=
| TBool | TInt (k : pikind) | TStr | TBytes | TBits | TNull
| TEnum (n : N)
| TSeq (fs : list (bool * pty))      (* (optional?, type) *)
| TSeqOf (t : pty)
| TChoice (alts : list pty).

Inductive pval :=
| VBool (b : bool) | VInt (z : Z) | VStr (s : list N) | VBytes (l : list N)
| VBits (bytes : list N) (bit_len : N) | VNull
| VEnum (i : N)
| VSeq (vs : list pval)              (* an optional component is a [VOpt] *)
| VOpt (o : option pval)
| VList (vs : list pval)
| VChoice (i : N) (v : pval).

(** * numbers::Constraint of the generated code: MIN / MAX as Option<i64> *)
Definition i64_min : Z := (- Z.of_N two63)%Z.
Definition i64_max : Z := (Z.of_N two63 - 1)%Z.
Definition kind_min (k : pikind) : option Z :=
  match k with
  | KU8 | KU16 | KU32 => Some 0%Z | KU64 => None
  | KI8 => Some (-128)%Z | KI16 => Some (-32768)%Z | KI32 => Some (-2147483648)%Z
  | KI64 => Some i64_min
  | KExt _ mn _ => mn
  end.
Definition kind_max (k : pikind) : option Z :=
  match k with
  | KU8 => Some 255%Z | KU16 => Some 65535%Z | KU32 => Some 4294967295%Z | KU64 => None
  | KI8 => Some 127%Z | KI16 => Some 32767%Z | KI32 => Some 2147483647%Z
  | KI64 => Some i64_max
  | KExt _ _ mx => mx
  end.
Definition unwrap_or {A} (o : option A) (d : A) : A := match o with Some a => a | None => d end.

Inductive pnum := PUInt32 | PUInt64 | PSInt32 | PSInt64.
(* the branch structure shared by write_number and read_number: signedness from MIN; a 32-bit format only for a
   constraint without extension marker (`!C::EXTENSIBLE && ..`, /repo 4788e65) *)
Definition num_sel (ext : bool) (mn mx : option Z) : pnum :=
  if (0 <=? unwrap_or mn 0)%Z then
    (if negb ext && (unwrap_or mx i64_max <=? 4294967295)%Z then PUInt32 else PUInt64)
  else if negb ext && ((-2147483648 <=? unwrap_or mn i64_min) && (unwrap_or mx i64_max <=? 2147483647))%Z
       then PSInt32 else PSInt64.
Definition kind_ext (k : pikind) : bool := match k with KExt _ _ _ => true | _ => false end.   (* C::EXTENSIBLE *)
Definition kind_sel (k : pikind) : pnum := num_sel (kind_ext k) (kind_min k) (kind_max k).

(* Number::to_i64 (`self as i64`) and Number::from_i64 (`value as T`) *)
Definition to_i64 (k : pikind) (z : Z) : Z := i64_wrap z.
Definition wrap_signed (bits : Z) (z : Z) : Z := ((z + 2 ^ (bits - 1)) mod 2 ^ bits - 2 ^ (bits - 1))%Z.
Definition from_i64 (k : pikind) (z : Z) : Z :=
  match k with
  | KU8 => z mod 256 | KU16 => z mod 65536 | KU32 => z mod 4294967296
  | KU64 => z mod 18446744073709551616
  | KI8 => wrap_signed 8 z | KI16 => wrap_signed 16 z | KI32 => wrap_signed 32 z
  | KI64 => z
  | KExt false _ _ => z mod 18446744073709551616
  | KExt true _ _ => z
  end%Z.
Definition kind_range (k : pikind) : Z * Z :=
  match k with
  | KU8 => (0, 255) | KU16 => (0, 65535) | KU32 => (0, 4294967295)
  | KU64 => (0, 18446744073709551615)
  | KI8 => (-128, 127) | KI16 => (-32768, 32767) | KI32 => (-2147483648, 2147483647)
  | KI64 => (i64_min, i64_max)
  | KExt false _ _ => (0, 18446744073709551615)
  | KExt true _ _ => (i64_min, i64_max)
  end%Z.
Definition in_kind (k : pikind) (z : Z) : bool :=
  let '(lo, hi) := kind_range k in ((lo <=? z) && (z <=? hi))%Z.

Definition number_bytes (k : pikind) (z : Z) : list N :=
  match kind_sel k with
  | PUInt32 => write_uint32 (Z.to_N (to_i64 k z mod Z.of_N two32))    (* to_i64() as u32 *)
  | PUInt64 => write_uint64 (u64_of_i64 (to_i64 k z))                 (* to_i64() as u64 *)
  | PSInt32 => write_sint32 (i32_wrap (to_i64 k z))                   (* to_i64() as i32 *)
  | PSInt64 => write_sint64 (to_i64 k z)
  end.
Definition number_read (k : pikind) (bs : list N) : res Z :=
  match kind_sel k with
  | PUInt32 => let! (v, _) := read_uint32 bs in Ok (from_i64 k (Z.of_N v))
  | PUInt64 => let! (v, _) := read_uint64 bs in Ok (from_i64 k (i64_of_u64 v))
  | PSInt32 => let! (v, _) := read_sint32 bs in Ok (from_i64 k v)
  | PSInt64 => let! (v, _) := read_sint64 bs in Ok (from_i64 k v)
  end.

(** * Writer *)
(* ProtobufWriter: buffer (SliceOrVec: a Vec, or a slice with `written` and a capacity),
   state.tag_counter, is_root.  state.format is write-only in the Rust code and is not modelled. *)
Record wst := { w_buf : list N; w_cap : option N; w_tc : N; w_root : bool }.
Definition set_tc (st : wst) (tc : N) : wst :=
  {| w_buf := w_buf st; w_cap := w_cap st; w_tc := tc; w_root := w_root st |}.
Definition set_root (st : wst) (r : bool) : wst :=
  {| w_buf := w_buf st; w_cap := w_cap st; w_tc := w_tc st; w_root := r |}.
Definition set_buf (st : wst) (b : list N) (c : option N) : wst :=
  {| w_buf := b; w_cap := c; w_tc := w_tc st; w_root := w_root st |}.

(* io::Write::write_all on the buffer.  On the slice back end a write that does not fit fails with
   ErrorKind::WriteZero after filling what fits; every caller propagates the error with `?`, so only the
   outcome is kept.  (write_varint writes byte by byte; the outcome is the same.) *)
Definition emit (bs : list N) (st : wst) : res wst :=
  match w_cap st with
  | None => Ok (set_buf st (w_buf st ++ bs) None)
  | Some c =>
      if N.of_nat (length (w_buf st) + length bs) <=? c
      then Ok (set_buf st (w_buf st ++ bs) (Some c))
      else Err E_IO
  end.

(* write_<primitive>: tag = tag_counter + 1; buffer.write_tagged_x(tag, ..)?; tag_counter = tag *)
Definition emit_tagged (f : format) (payload : list N) (st : wst) : res wst :=
  let tag := w_tc st + 1 in
  let! st' := emit (write_tag tag f ++ payload) st in
  Ok (set_tc st' tag).

Fixpoint wr (m : mode) (t : pty) (v : pval) (st : wst) {struct t} : res wst :=
  match t, v with
  | TBool, VBool b => emit_tagged VarInt (write_bool b) st
  | TInt k, VInt z => emit_tagged VarInt (number_bytes k z) st
  | TStr, VStr s => emit_tagged LengthDelimited (write_string s) st
  | TBytes, VBytes l => emit_tagged LengthDelimited (write_bytes l) st
  | TBits, VBits bytes n =>
      let! payload := bitvec_payload m bytes n in
      emit_tagged LengthDelimited (write_bytes payload) st
  | TNull, VNull => Ok (set_tc st (w_tc st + 1))          (* write_null: nothing written, the component keeps its field number *)
  | TEnum _, VEnum i =>
      if w_root st then emit (write_enum_variant (u32_of_u64 i)) st
      else emit_tagged VarInt (write_enum_variant (u32_of_u64 i)) st
  | TSeq fs, VSeq vs =>
      (* write_set_or_sequence *)
      let fields :=
        (fix fields (fs : list (bool * pty)) (vs : list pval) (st : wst) {struct fs} : res wst :=
           match fs, vs with
           | [], [] => Ok st
           | (false, t) :: fs', v :: vs' => let! st1 := wr m t v st in fields fs' vs' st1
           | (true, t) :: fs', VOpt (Some v) :: vs' => let! st1 := wr m t v st in fields fs' vs' st1
           | (true, _) :: fs', VOpt None :: vs' => fields fs' vs' (set_tc st (w_tc st + 1))
           | _, _ => Err E_ILLTYPED
           end) in
      if w_root st then
        (* f(self) with is_root = false and a default State; afterwards is_root = true, state restored *)
        let! st1 := fields fs vs (set_root (set_tc st 0) false) in
        Ok (set_root (set_tc st1 (w_tc st)) true)
      else
        let tag := w_tc st + 1 in
        let! inner := fields fs vs {| w_buf := []; w_cap := None; w_tc := 0; w_root := false |} in
        let content := w_buf inner in
        let! st1 := emit (write_tag tag LengthDelimited) st in
        let! st2 := emit (write_varint (N.of_nat (length content))) st1 in
        let! st3 := emit content st2 in
        Ok (set_tc st3 tag)
  | TSeqOf t', VList vs =>
      (* write_set_or_sequence_of: the State (tag counter) is reset after every element *)
      let tc0 := w_tc st in
      let! st1 :=
        (fix elems (vs : list pval) (st : wst) {struct vs} : res wst :=
           match vs with
           | [] => Ok st
           | v :: vs' => let! st1 := wr m t' v st in elems vs' (set_tc st1 tc0)
           end) vs st in
      Ok (set_tc st1 (tc0 + 1))
  | TChoice alts, VChoice i v =>
      let idx := u32_of_u64 i in
      let content (st : wst) :=
        (fix pick (alts : list pty) (j : N) {struct alts} : res wst :=
           match alts with
           | a :: r => if j =? 0 then wr m a v st else pick r (j - 1)
           | [] => Err E_ILLTYPED
           end) alts i in
      if w_root st then
        content (set_root (set_tc st idx) false)
      else
        let! inner := content {| w_buf := []; w_cap := None; w_tc := idx; w_root := false |} in
        let tag := w_tc st + 1 in
        let! st1 := emit (write_tag tag LengthDelimited) st in
        let! st2 := emit (write_bytes (w_buf inner)) st1 in
        Ok (set_tc st2 tag)
  | _, _ => Err E_ILLTYPED
  end.

Definition wst0 (cap : option N) : wst := {| w_buf := []; w_cap := cap; w_tc := 0; w_root := true |}.
(* ProtobufWriter::default().write(v) / ProtobufWriter::from(&mut [u8; cap]).write(v), then as_bytes() *)
Definition pwrite_vec (m : mode) (t : pty) (v : pval) : res (list N) :=
  let! st := wr m t v (wst0 None) in Ok (w_buf st).
Definition pwrite_slice (m : mode) (cap : N) (t : pty) (v : pval) : res (list N) :=
  let! st := wr m t v (wst0 (Some cap)) in Ok (w_buf st).
Definition pwrite := pwrite_vec.

(** * Reader *)
Definition range := (N * N)%type.
Definition tagentry := (N * format * range)%type.
Inductive rstate :=
| Root (r : range)
| Enclosed (tc : N) (tags : list tagentry).

(* &self.source[range] *)
Definition slice (src : list N) (r : range) : res (list N) :=
  let '(s, e) := r in
  if e <? s then Panic P_OTHER      (* "slice index starts at s but ends at e": class `other` in the harness *)
  else if N.of_nat (length src) <? e then Panic P_SLICE_RANGE
  else Ok (firstn (N.to_nat (e - s)) (skipn (N.to_nat s) src)).

(* content_position.checked_add(content_length).filter(|end| *end <= range.end) .ok_or(Io(UnexpectedEof)) *)
Definition checked_end (a b e : N) : res N :=
  if usize_max <? a + b then Err E_IO
  else if e <? a + b then Err E_IO
  else Ok (a + b).

Definition nlen (l : list N) : N := N.of_nat (length l).

(* read_content_offset_and_length *)
Definition content_off_len (f : format) (sl : list N) : res (N * N) :=
  match f with
  | VarInt => let! (_, r) := read_varint sl in Ok (0, nlen sl - nlen r)
  | Fixed64 => Ok (0, 8)
  | LengthDelimited => let! (l, r) := read_varint sl in Ok (nlen sl - nlen r, l)
  | Fixed32 => Ok (0, 4)
  end.

(* index_enclosed.  content_end never exceeds range.end and position strictly increases (a tag takes at
   least one byte), so the loop body runs at most |source| times; the fuel is never exhausted. *)
Fixpoint ie_loop (fuel : nat) (src : list N) (position e : N) (tags : list tagentry)
  : res (list tagentry) :=
  match fuel with
  | O => Panic P_UNBOUNDED
  | S f =>
      if position <? e then
        let! sl := slice src (position, e) in
        let! (tag, fmt, rest) := read_tag sl in
        let content_position := position + (nlen sl - nlen rest) in
        let! (off, clen) := content_off_len fmt rest in
        let content_position := content_position + off in
        let! content_end := checked_end content_position clen e in
        ie_loop f src content_end e (tags ++ [(tag, fmt, (content_position, content_end))])
      else Ok tags
  end.
Definition index_enclosed (src : list N) (r : range) : res rstate :=
  let! tags := ie_loop (length src + 2) src (fst r) (snd r) [] in
  Ok (Enclosed 1 tags).

(* tags.iter().enumerate().find_map(..) + tags.remove(index) *)
Fixpoint take_tag (next : N) (filter : option format) (tags : list tagentry) : option (range * list tagentry) :=
  match tags with
  | [] => None
  | (tag, f, r) :: rest =>
      if (tag =? next) && match filter with None => true | Some g => format_eqb g f end
      then Some (r, rest)
      else match take_tag next filter rest with
           | Some (r', rest') => Some (r', (tag, f, r) :: rest')
           | None => None
           end
  end.

(* next_tag_range_format_opt::<INCREMENT> *)
Definition next_tag_range (incr : bool) (filter : option format) (st : rstate) : option range * rstate :=
  match st with
  | Root r => (Some r, st)
  | Enclosed tc tags =>
      let tc' := if incr then tc + 1 else tc in
      match take_tag tc filter tags with
      | Some (r, tags') => (Some r, Enclosed tc' tags')
      | None => (None, Enclosed tc' tags)
      end
  end.

(* next_range_format_reader *)
Definition next_reader (src : list N) (f : format) (st : rstate) : res (list N * rstate) :=
  let '(o, st') := next_tag_range true (Some f) st in
  let! sl := slice src (unwrap_or o (0, 0)) in
  Ok (sl, st').

Definition hast_next_tag (st : rstate) : bool :=
  match st with
  | Root _ => true
  | Enclosed tc tags => existsb (fun '(tag, _, _) => tag =? tc) tags
  end.
Definition increment_tag_counter (st : rstate) : rstate :=
  match st with Root _ => st | Enclosed tc tags => Enclosed (tc + 1) tags end.

Definition is_nil {A} (l : list A) : bool := match l with [] => true | _ => false end.

Fixpoint rd (m : mode) (src : list N) (t : pty) (st : rstate) {struct t} : res (pval * rstate) :=
  match t with
  | TBool =>
      let! (sl, st') := next_reader src VarInt st in
      if is_nil sl then Ok (VBool false, st')
      else let! (b, _) := read_bool sl in Ok (VBool b, st')
  | TInt k =>
      let! (sl, st') := next_reader src VarInt st in
      if is_nil sl then Ok (VInt (from_i64 k 0), st')
      else let! z := number_read k sl in Ok (VInt z, st')
  | TStr =>
      let! (sl, st') := next_reader src LengthDelimited st in
      let! (s, _) := read_string sl in Ok (VStr s, st')
  | TBytes =>
      let! (sl, st') := next_reader src LengthDelimited st in
      let! (b, _) := read_bytes sl in Ok (VBytes b, st')
  | TBits =>
      let! (sl, st') := next_reader src LengthDelimited st in
      let! (b, _) := read_bytes sl in
      if is_nil b then Ok (VBits [] 0, st')                  (* "protobuf does not serialize empty values" *)
      else if (length b <? 8)%nat then Err E_IO               (* shorter than the length trailer *)
      else
        let! (bytes, n) := bitvec_from_trailing m b in
        Ok (VBits bytes n, st')
  | TNull => Ok (VNull, increment_tag_counter st)             (* read_null *)
  | TEnum n =>
      let '(o, st') := next_tag_range true (Some VarInt) st in
      let! index := match o with
                    | Some r => let! sl := slice src r in let! (v, _) := read_varint sl in Ok v
                    | None => Ok 0
                    end in
      if index <? n then Ok (VEnum index, st') else Err E_INVALID_VARIANT
  | TSeq fs =>
      (* read_set_or_sequence *)
      let '(o, st') := next_tag_range true (Some LengthDelimited) st in
      let! enc := index_enclosed src (unwrap_or o (0, 0)) in
      let! (vs, _) :=
        (fix fields (fs : list (bool * pty)) (st : rstate) {struct fs} : res (list pval * rstate) :=
           match fs with
           | [] => Ok ([], st)
           | (false, t) :: fs' =>
               let! (v, st1) := rd m src t st in
               let! (vs, st2) := fields fs' st1 in Ok (v :: vs, st2)
           | (true, t) :: fs' =>
               (* read_opt *)
               if hast_next_tag st then
                 let! (v, st1) := rd m src t st in
                 let! (vs, st2) := fields fs' st1 in Ok (VOpt (Some v) :: vs, st2)
               else
                 let! (vs, st2) := fields fs' (increment_tag_counter st) in Ok (VOpt None :: vs, st2)
           end) fs enc in
      Ok (VSeq vs, st')
  | TSeqOf t' =>
      (* read_set_or_sequence_of *)
      match st with
      | Root r =>
          (* next_tag_range::<false>() is Some(range) forever: each round re-reads the same element;
             an Err ends the loop, otherwise the Vec grows without bound *)
          let! _ := rd m src t' (Root r) in Panic P_UNBOUNDED
      | Enclosed tc tags =>
          let! (vs, kept) :=
            (fix loop (pending : list tagentry) {struct pending} : res (list pval * list tagentry) :=
               match pending with
               | [] => Ok ([], [])
               | (tag, f, r) :: rest =>
                   if tag =? tc then
                     let! (v, _) := rd m src t' (Root r) in
                     let! (vs, kept) := loop rest in Ok (v :: vs, kept)
                   else
                     let! (vs, kept) := loop rest in Ok (vs, (tag, f, r) :: kept)
               end) tags in
          Ok (VList vs, Enclosed (tc + 1) kept)
      end
  | TChoice alts =>
      let '(o, st') := next_tag_range true None st in
      match o with
      | None => Err E_MISSING
      | Some (s, e) =>
          let! sl := slice src (s, e) in
          let! (tag, fmt, rest) := read_tag sl in
          let! rest' := (if format_eqb fmt LengthDelimited
                         then let! (_, r2) := read_varint rest in Ok r2 else Ok rest) in
          let read := nlen sl - nlen rest' in
          let inner := Enclosed 1 [(1, fmt, (s + read, e))] in
          let idx := tag - 1 in                               (* tag.saturating_sub(1) *)
          let! ov :=
            (fix pick (alts : list pty) (j : N) {struct alts} : res (option pval) :=
               match alts with
               | a :: r => if j =? 0 then let! (v, _) := rd m src a inner in Ok (Some v) else pick r (j - 1)
               | [] => Ok None
               end) alts idx in
          match ov with
          | Some v => Ok (VChoice idx v, st')
          | None => Err E_UNEXPECTED_TAG
          end
      end
  end.

(* ProtobufReader::from(bytes).read::<T>() *)
Definition pread (m : mode) (t : pty) (src : list N) : res pval :=
  let! (v, _) := rd m src t (Root (0, nlen src)) in Ok v.

(** * ProtobufEq *)
Fixpoint default_of (t : pty) : pval :=
  match t with
  | TBool => VBool false | TInt _ => VInt 0 | TStr => VStr [] | TBytes => VBytes []
  | TBits => VBits [] 0 | TNull => VNull | TEnum _ => VEnum 0
  | TSeq fs => VSeq (map (fun '(o, t) => if (o : bool) then VOpt None else default_of t) fs)
  | TSeqOf _ => VList []
  | TChoice alts => match alts with a :: _ => VChoice 0 (default_of a) | [] => VChoice 0 VNull end
  end.

Fixpoint list_n_eqb (a b : list N) : bool :=
  match a, b with
  | [], [] => true
  | x :: a', y :: b' => (x =? y) && list_n_eqb a' b'
  | _, _ => false
  end.

(* derived PartialEq *)
Fixpoint pval_eqb (a b : pval) {struct a} : bool :=
  match a, b with
  | VBool x, VBool y => Bool.eqb x y
  | VInt x, VInt y => (x =? y)%Z
  | VStr x, VStr y => list_n_eqb x y
  | VBytes x, VBytes y => list_n_eqb x y
  | VBits x n, VBits y k => list_n_eqb x y && (n =? k)
  | VNull, VNull => true
  | VEnum x, VEnum y => x =? y
  | VSeq xs, VSeq ys | VList xs, VList ys =>
      (fix all2 (xs ys : list pval) {struct xs} : bool :=
         match xs, ys with
         | [], [] => true
         | x :: xs', y :: ys' => pval_eqb x y && all2 xs' ys'
         | _, _ => false
         end) xs ys
  | VOpt None, VOpt None => true
  | VOpt (Some x), VOpt (Some y) => pval_eqb x y
  | VChoice i x, VChoice j y => (i =? j) && pval_eqb x y
  | _, _ => false
  end.

(* ProtobufEq: field-wise for structs (as #[derive(ProtobufEq)] expands), Option<T> as in peq.rs *)
Fixpoint peq (t : pty) (a b : pval) {struct t} : bool :=
  match t, a, b with
  | TSeq fs, VSeq xs, VSeq ys =>
      (fix fields (fs : list (bool * pty)) (xs ys : list pval) {struct fs} : bool :=
         match fs, xs, ys with
         | [], [], [] => true
         | (false, t) :: fs', x :: xs', y :: ys' => peq t x y && fields fs' xs' ys'
         | (true, t) :: fs', VOpt ox :: xs', VOpt oy :: ys' =>
             match ox, oy with
             | Some x, Some y => peq t x y
             | Some x, None => pval_eqb x (default_of t)
             | None, Some y => pval_eqb (default_of t) y
             | None, None => true
             end && fields fs' xs' ys'
         | _, _, _ => false
         end) fs xs ys
  | TSeqOf t', VList xs, VList ys =>
      (fix all2 (xs ys : list pval) {struct xs} : bool :=
         match xs, ys with
         | [], [] => true
         | x :: xs', y :: ys' => peq t' y x && all2 xs' ys'
         | _, _ => false
         end) xs ys
  | TChoice alts, VChoice i x, VChoice j y =>
      (i =? j) &&
      (fix pick (alts : list pty) (k : N) {struct alts} : bool :=
         match alts with
         | a :: r => if k =? 0 then peq a x y else pick r (k - 1)
         | [] => false
         end) alts i
  | _, _, _ => pval_eqb a b
  end.

(** * Well-formedness *)
Definition byte_list (l : list N) : bool := forallb byteb l.

Fixpoint wf_ty (t : pty) : bool :=
  match t with
  | TEnum n => 0 <? n
  | TSeq fs => forallb (fun '(_, t) => wf_ty t) fs
  | TSeqOf t' => wf_ty t'
  | TChoice alts => negb (is_nil alts) && forallb wf_ty alts
  | _ => true
  end.

Fixpoint wf_val (t : pty) (v : pval) {struct t} : bool :=
  match t, v with
  | TBool, VBool _ => true
  | TInt k, VInt z => in_kind k z
  | TStr, VStr s => byte_list s && utf8_valid s
  | TBytes, VBytes l => byte_list l
  | TBits, VBits bytes n => byte_list bytes && (N.of_nat (length bytes) =? (n + 7) / 8) && (n <? two32)
  | TNull, VNull => true
  | TEnum n, VEnum i => i <? n
  | TSeq fs, VSeq vs =>
      (fix fields (fs : list (bool * pty)) (vs : list pval) {struct fs} : bool :=
         match fs, vs with
         | [], [] => true
         | (false, t) :: fs', v :: vs' => wf_val t v && fields fs' vs'
         | (true, t) :: fs', VOpt (Some v) :: vs' => wf_val t v && fields fs' vs'
         | (true, _) :: fs', VOpt None :: vs' => fields fs' vs'
         | _, _ => false
         end) fs vs
  | TSeqOf t', VList vs => forallb (wf_val t') vs
  | TChoice alts, VChoice i v =>
      (fix pick (alts : list pty) (k : N) {struct alts} : bool :=
         match alts with
         | a :: r => if k =? 0 then wf_val a v else pick r (k - 1)
         | [] => false
         end) alts i
  | _, _ => false
  end.
