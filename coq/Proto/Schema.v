(* Proto/Schema.v -- stub, to be filled *)
