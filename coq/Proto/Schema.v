(* Proto/Schema.v -- C18.
   (1) [schema_of]: the abstract content of the .proto file that asn1rs emits for a generated type
       (asn1rs-model/src/protobuf.rs: definition_to_protobuf / definition_type_to_protobuf_type;
        asn1rs-model/src/generate/protobuf.rs: append_definition / append_field / append_variant:
        message field i gets number i+1, oneof variant j gets number j+1, enum variant k gets value k).
       Definitions are inlined at their use (the file is a forest of named definitions; names do not
       matter on the wire).
   (2) [pb_decode]: a reference proto3 wire decoder under such a schema, written from the protobuf
       encoding specification and independent of Rw.v: unknown fields skipped, a field with an
       unexpected wire type treated as unknown, last-one-wins for singular fields and oneofs, embedded
       messages merged, repeated numeric fields accepted packed or unpacked.
   (3) [pb_of_val]: the field values the schema reader is expected to see for a value. *)
From A1 Require Export Proto.Rw.
Require Import ZifyBool ZifyNat ZifyN.
Local Open Scope N_scope.

(** * Abstract schema *)
Inductive pscalar := SBool | SUInt32 | SUInt64 | SSInt32 | SSInt64 | SString | SBytes.

Inductive ptype :=
| PScalar (s : pscalar)
| PEnumT (n : N)                         (* enum with values 0 .. n-1 *)
| PMsgT (fs : list (N * ptype))          (* message: (field number, type) in file order *)
| PRepeated (t : ptype)                  (* "repeated <t>" *)
| POneofT (alts : list (N * ptype)).     (* "oneof value { <t> name = number; .. }" *)
Definition pmsg := list (N * ptype).

(* definition_type_to_protobuf_type on the RustType the integer was mapped to *)
Definition scalar_of_kind (k : pikind) : pscalar :=
  match k with
  | KU8 | KU16 | KU32 => SUInt32
  | KI8 | KI16 | KI32 => SSInt32
  | KU64 => SUInt64
  | KI64 => SSInt64
  | KExt false _ _ => SUInt64        (* RustType::U64 => ProtobufType::UInt64 *)
  | KExt true _ _ => SSInt64         (* RustType::I64 => ProtobufType::SInt64 *)
  end.

Fixpoint number_from {A} (i : N) (l : list A) : list (N * A) :=
  match l with [] => [] | x :: r => (i, x) :: number_from (i + 1) r end.

(* type of a field whose ASN.1 type is t (OPTIONAL / DEFAULT are dropped: "in protobuf everything is optional") *)
Fixpoint field_type (t : pty) : ptype :=
  match t with
  | TBool => PScalar SBool
  | TInt k => PScalar (scalar_of_kind k)
  | TStr => PScalar SString
  | TBytes => PScalar SBytes
  | TBits => PScalar SBytes                (* BitsReprByBytesAndBitsLen prints as "bytes" *)
  | TNull => PScalar SBytes                (* RustType::Null => ProtobufType::Bytes *)
  | TEnum n => PEnumT n
  | TSeq fs => PMsgT (number_from 1 (map (fun '(_, t) => field_type t) fs))
  | TSeqOf t' => PRepeated (field_type t')
  | TChoice alts => PMsgT [(1, POneofT (number_from 1 (map field_type alts)))]
  end.

(* the message definition emitted for a top-level type (None for a top-level ENUMERATED: an enum is not a message) *)
Definition schema_of (t : pty) : option pmsg :=
  match field_type t with PMsgT fs => Some fs | _ => None end.

(** declared form of a zoo type: a SET with explicit context tags is visited by the generated
    read_seq/write_seq in canonical tag order (walker.rs sort_fields_canonically) but printed in the
    .proto in declaration order *)
Inductive decl :=
| DPlain (t : pty)
| DSetTop (fs : list (N * (bool * pty))).   (* (context tag, component) in declaration order *)

Fixpoint insert_by_tag (x : N * (bool * pty)) (l : list (N * (bool * pty))) :=
  match l with
  | [] => [x]
  | y :: r => if fst x <=? fst y then x :: l else y :: insert_by_tag x r
  end.
Definition sort_by_tag (l : list (N * (bool * pty))) := fold_right insert_by_tag [] l.

Definition visit_ty (d : decl) : pty :=
  match d with DPlain t => t | DSetTop fs => TSeq (map snd (sort_by_tag fs)) end.
Definition decl_ty (d : decl) : pty :=
  match d with DPlain t => t | DSetTop fs => TSeq (map snd fs) end.
Definition schema_of_decl (d : decl) : pmsg :=
  match schema_of (decl_ty d) with Some m => m | None => [] end.

Definition zoo_set : decl := DSetTop [(1, (false, TStr)); (0, (false, TInt KU8))].

(** proto3 validity of what is emitted (the part that can go wrong): `repeated` only directly on a
    field (not nested, not inside a oneof), enums non-empty, positive distinct field numbers *)
Fixpoint nodup_n (l : list N) : bool :=
  match l with [] => true | x :: r => negb (existsb (N.eqb x) r) && nodup_n r end.
Definition is_repeated (t : ptype) : bool := match t with PRepeated _ => true | _ => false end.
Definition is_oneof (t : ptype) : bool := match t with POneofT _ => true | _ => false end.

Fixpoint valid_type (t : ptype) : bool :=
  match t with
  | PScalar _ => true
  | PEnumT n => 0 <? n
  | PMsgT fs =>
      nodup_n (flat_map (fun '(n, t) => match t with POneofT alts => map fst alts | _ => [n] end) fs)
      && forallb (fun '(n, t) => (0 <? n) && valid_type t) fs
  | PRepeated t' => negb (is_repeated t') && negb (is_oneof t') && valid_type t'
  | POneofT alts =>
      negb (is_nil alts)
      && forallb (fun '(n, t) => (0 <? n) && negb (is_repeated t) && negb (is_oneof t) && valid_type t) alts
  end.
Definition valid_proto3 (m : pmsg) : bool := valid_type (PMsgT m).

(** * Reference decoder *)
Inductive wire := WVarint (v : N) | W64 (l : list N) | WLen (l : list N) | W32 (l : list N).

(* base-128 little-endian varint, at most 10 bytes, value truncated to 64 bits *)
Fixpoint spec_varint (fuel : nat) (bs : list N) : option (N * list N) :=
  match fuel, bs with
  | S f, b :: rest =>
      if b <? 128 then Some (b, rest)
      else match spec_varint f rest with
           | Some (hi, rest') => Some (((b - 128) + 128 * hi) mod 18446744073709551616, rest')
           | None => None
           end
  | _, _ => None
  end.
Definition get_varint (bs : list N) := spec_varint 10 bs.

Definition split_at (n : N) (bs : list N) : option (list N * list N) :=
  if N.of_nat (length bs) <? n then None
  else Some (firstn (N.to_nat n) bs, skipn (N.to_nat n) bs).

Fixpoint parse_records (fuel : nat) (bs : list N) : option (list (N * wire)) :=
  match fuel with
  | O => None
  | S f =>
      match bs with
      | [] => Some []
      | _ =>
          match get_varint bs with
          | None => None
          | Some (key, r0) =>
              let field := key / 8 in
              if (field =? 0) || (4294967295 <? key) then None
              else
                let cont (w : wire) (rest : list N) :=
                  match parse_records f rest with
                  | Some recs => Some ((field, w) :: recs)
                  | None => None
                  end in
                match key mod 8 with
                | 0 => match get_varint r0 with Some (v, r1) => cont (WVarint v) r1 | None => None end
                | 1 => match split_at 8 r0 with Some (p, r1) => cont (W64 p) r1 | None => None end
                | 2 => match get_varint r0 with
                       | Some (n, r1) => match split_at n r1 with Some (p, r2) => cont (WLen p) r2 | None => None end
                       | None => None end
                | 5 => match split_at 4 r0 with Some (p, r1) => cont (W32 p) r1 | None => None end
                | _ => None
                end
          end
      end
  end.
Definition records (bs : list N) := parse_records (S (length bs)) bs.

Inductive pbval :=
| BNum (z : Z)
| BBytes (l : list N)
| BMsg (o : option (list pbval))         (* one value per schema field, in schema order *)
| BRep (l : list pbval)
| BOneof (o : option (N * pbval)).       (* (field number set, its value) *)

Definition is_varint_scalar (s : pscalar) : bool :=
  match s with SString | SBytes => false | _ => true end.

Definition unzigzag (n : N) : Z := if N.even n then Z.of_N (n / 2) else (- Z.of_N ((n + 1) / 2))%Z.

(* value of a varint-coded scalar *)
Definition num_value (s : pscalar) (v : N) : Z :=
  match s with
  | SBool => if v =? 0 then 0%Z else 1%Z
  | SUInt32 => Z.of_N (v mod 4294967296)
  | SUInt64 => Z.of_N v
  | SSInt32 => unzigzag (v mod 4294967296)
  | SSInt64 => unzigzag v
  | _ => 0%Z
  end.

Definition lens (ws : list wire) : list (list N) :=
  flat_map (fun w => match w with WLen l => [l] | _ => [] end) ws.
Definition varints (ws : list wire) : list N :=
  flat_map (fun w => match w with WVarint v => [v] | _ => [] end) ws.

Definition dec_scalar (s : pscalar) (ws : list wire) : pbval :=
  if is_varint_scalar s then BNum (num_value s (last (varints ws) 0))
  else BBytes (last (lens ws) []).

(* enum values are int32 on the wire; proto3 keeps unknown values *)
Definition dec_enum (ws : list wire) : pbval := BNum (Z.of_N (last (varints ws) 0 mod 4294967296)).

Fixpoint all_varints (fuel : nat) (bs : list N) : option (list N) :=
  match fuel with
  | O => None
  | S f => match bs with
           | [] => Some []
           | _ => match get_varint bs with
                  | Some (v, r) => match all_varints f r with Some l => Some (v :: l) | None => None end
                  | None => None end
           end
  end.

(* repeated numeric: every record is either one element (varint) or a packed run (length-delimited) *)
Fixpoint dec_packed (f : N -> pbval) (ws : list wire) : option (list pbval) :=
  match ws with
  | [] => Some []
  | WVarint v :: r => match dec_packed f r with Some l => Some (f v :: l) | None => None end
  | WLen p :: r =>
      match all_varints (S (length p)) p, dec_packed f r with
      | Some vs, Some l => Some (map f vs ++ l)
      | _, _ => None
      end
  | _ :: r => dec_packed f r
  end.

Definition wire_ok (t : ptype) (w : wire) : bool :=
  match t, w with
  | PScalar s, WVarint _ => is_varint_scalar s
  | PScalar s, WLen _ => negb (is_varint_scalar s)
  | PEnumT _, WVarint _ => true
  | PMsgT _, WLen _ => true
  | _, _ => false
  end.

Definition select (num : N) (recs : list (N * wire)) : list wire :=
  flat_map (fun '(n, w) => if n =? num then [w] else []) recs.

(* [dec_field t ws]: value of a field of type t given the payloads of all its records, in order *)
Fixpoint dec_field (t : ptype) (ws : list wire) {struct t} : option pbval :=
  match t with
  | PScalar s => Some (dec_scalar s ws)
  | PEnumT _ => Some (dec_enum ws)
  | PRepeated t' =>
      match t' with
      | PScalar s =>
          if is_varint_scalar s then option_map BRep (dec_packed (fun v => BNum (num_value s v)) ws)
          else Some (BRep (map BBytes (lens ws)))
      | PEnumT _ => option_map BRep (dec_packed (fun v => BNum (Z.of_N (v mod 4294967296))) ws)
      | _ =>
          option_map BRep
            ((fix elems (ws : list wire) : option (list pbval) :=
                match ws with
                | [] => Some []
                | WLen l :: r =>
                    match dec_field t' [WLen l], elems r with
                    | Some v, Some vs => Some (v :: vs)
                    | _, _ => None
                    end
                | _ :: r => elems r
                end) ws)
      end
  | PMsgT fs =>
      match lens ws with
      | [] => Some (BMsg None)
      | ls =>
          match records (concat ls) with
          | None => None
          | Some recs =>
              option_map (fun vs => BMsg (Some vs))
                ((fix fields (fs : list (N * ptype)) {struct fs} : option (list pbval) :=
                    match fs with
                    | [] => Some []
                    | (num, ft) :: fs' =>
                        let ov :=
                          match ft with
                          | POneofT alts =>
                              (* last record that belongs to the oneof wins *)
                              (fix scan (recs : list (N * wire)) (acc : option (N * pbval)) {struct recs}
                                 : option pbval :=
                                 match recs with
                                 | [] => Some (BOneof acc)
                                 | (n, w) :: r =>
                                     match (fix find (alts : list (N * ptype)) {struct alts} : option (option pbval) :=
                                              match alts with
                                              | [] => Some None
                                              | (an, at_) :: ar =>
                                                  if (an =? n) && wire_ok at_ w
                                                  then match dec_field at_ [w] with
                                                       | Some v => Some (Some v)
                                                       | None => None
                                                       end
                                                  else find ar
                                              end) alts with
                                     | None => None
                                     | Some None => scan r acc
                                     | Some (Some v) => scan r (Some (n, v))
                                     end
                                 end) recs None
                          | _ => dec_field ft (select num recs)
                          end in
                        match ov, fields fs' with
                        | Some v, Some vs => Some (v :: vs)
                        | _, _ => None
                        end
                    end) fs)
          end
      end
  | POneofT _ => None
  end.

Definition pb_decode (m : pmsg) (bytes : list N) : option (list pbval) :=
  match dec_field (PMsgT m) [WLen bytes] with
  | Some (BMsg (Some vs)) => Some vs
  | _ => None
  end.

(** * Expected field values of a value *)
(* what a reader sees for an absent field of this type *)
Definition absent_of (t : pty) : pbval :=
  match t with
  | TBool | TInt _ | TEnum _ => BNum 0
  | TStr | TBytes | TBits | TNull => BBytes []
  | TSeq _ | TChoice _ => BMsg None
  | TSeqOf _ => BRep []
  end.

Fixpoint pb_field (t : pty) (v : pval) {struct t} : pbval :=
  match t, v with
  | TBool, VBool b => BNum (if b then 1 else 0)
  | TInt _, VInt z => BNum z
  | TStr, VStr s => BBytes s
  | TBytes, VBytes l => BBytes l
  | TBits, VBits bytes n => BBytes (firstn (N.to_nat (N.min ((n + 7) / 8) (N.of_nat (length bytes)))) bytes ++ be_bytes 8 n)
  | TNull, VNull => BBytes []
  | TEnum _, VEnum i => BNum (Z.of_N i)
  | TSeq fs, VSeq vs =>
      BMsg (Some
        ((fix fields (fs : list (bool * pty)) (vs : list pval) {struct fs} : list pbval :=
            match fs, vs with
            | (false, t) :: fs', v :: vs' => pb_field t v :: fields fs' vs'
            | (true, t) :: fs', VOpt (Some v) :: vs' => pb_field t v :: fields fs' vs'
            | (true, t) :: fs', VOpt None :: vs' => absent_of t :: fields fs' vs'
            | _, _ => []
            end) fs vs))
  | TSeqOf t', VList vs => BRep (map (pb_field t') vs)
  | TChoice alts, VChoice i v =>
      BMsg (Some [BOneof
        ((fix pick (alts : list pty) (k : N) {struct alts} : option (N * pbval) :=
            match alts with
            | a :: r => if k =? 0 then Some (i + 1, pb_field a v) else pick r (k - 1)
            | [] => None
            end) alts i)])
  | _, _ => BMsg None
  end.

Definition pb_of_val (t : pty) (v : pval) : option (list pbval) :=
  match pb_field t v with BMsg (Some vs) => Some vs | _ => None end.


(** * Dumps for the executable interface *)
Local Open Scope Z_scope.
Definition scalar_code (s : pscalar) : Z :=
  match s with SBool => 1 | SUInt32 => 2 | SUInt64 => 3 | SSInt32 => 4 | SSInt64 => 5 | SString => 6 | SBytes => 7 end.

Fixpoint dump_type (t : ptype) : list Z :=
  match t with
  | PScalar s => [1; scalar_code s]
  | PEnumT n => [2; Z.of_N n]
  | PMsgT fs => 3 :: Z.of_nat (length fs) :: flat_map (fun '(n, t) => Z.of_N n :: dump_type t) fs
  | PRepeated t' => 4 :: dump_type t'
  | POneofT alts => 5 :: Z.of_nat (length alts) :: flat_map (fun '(n, t) => Z.of_N n :: dump_type t) alts
  end.
Definition dump_msg (m : pmsg) : list Z := dump_type (PMsgT m).

Fixpoint dump_pbval (v : pbval) : list Z :=
  match v with
  | BNum z => [1; z]
  | BBytes l => 2 :: Z.of_nat (length l) :: map Z.of_N l
  | BMsg None => [3; 0]
  | BMsg (Some vs) => 3 :: 1 :: Z.of_nat (length vs) :: flat_map dump_pbval vs
  | BRep vs => 4 :: Z.of_nat (length vs) :: flat_map dump_pbval vs
  | BOneof None => [5; 0]
  | BOneof (Some (n, v)) => 5 :: 1 :: Z.of_N n :: dump_pbval v
  end.
Definition dump_pbmsg (vs : list pbval) : list Z := dump_pbval (BMsg (Some vs)).
