(* Proto/RwLemmas.v -- structural lemmas about the Writer model of Rw.v:
   named versions of the local fixpoints, the buffer frame lemma (both back ends), and the record-level
   description [recs_of] of what the writer emits. *)
From A1 Require Import Proto.Wire Proto.Rw Proto.Proofs.
Require Import ZifyBool ZifyNat ZifyN.
Local Open Scope N_scope.

(** * induction principle for the nested type universe *)
Section PtyInd.
  Variable P : pty -> Prop.
  Hypothesis HBool : P TBool.
  Hypothesis HInt : forall k, P (TInt k).
  Hypothesis HStr : P TStr.
  Hypothesis HBytes : P TBytes.
  Hypothesis HBits : P TBits.
  Hypothesis HNull : P TNull.
  Hypothesis HEnum : forall n, P (TEnum n).
  Hypothesis HSeq : forall fs, Forall (fun p => P (snd p)) fs -> P (TSeq fs).
  Hypothesis HSeqOf : forall t, P t -> P (TSeqOf t).
  Hypothesis HChoice : forall alts, Forall P alts -> P (TChoice alts).
  Fixpoint pty_ind2 (t : pty) : P t :=
    match t with
    | TBool => HBool | TInt k => HInt k | TStr => HStr | TBytes => HBytes | TBits => HBits
    | TNull => HNull | TEnum n => HEnum n
    | TSeq fs =>
        HSeq fs ((fix go (l : list (bool * pty)) : Forall (fun p => P (snd p)) l :=
                    match l with
                    | [] => Forall_nil _
                    | p :: r => Forall_cons p (pty_ind2 (snd p)) (go r)
                    end) fs)
    | TSeqOf t' => HSeqOf t' (pty_ind2 t')
    | TChoice alts =>
        HChoice alts ((fix go (l : list pty) : Forall P l :=
                         match l with
                         | [] => Forall_nil _
                         | a :: r => Forall_cons a (pty_ind2 a) (go r)
                         end) alts)
    end.
End PtyInd.

(** * named versions of the local fixpoints of [wr] *)
Definition wr_fields (m : mode) :=
  fix fields (fs : list (bool * pty)) (vs : list pval) (st : wst) {struct fs} : res wst :=
    match fs, vs with
    | [], [] => Ok st
    | (false, t) :: fs', v :: vs' => let! st1 := wr m t v st in fields fs' vs' st1
    | (true, t) :: fs', VOpt (Some v) :: vs' => let! st1 := wr m t v st in fields fs' vs' st1
    | (true, _) :: fs', VOpt None :: vs' => fields fs' vs' (set_tc st (w_tc st + 1))
    | _, _ => Err E_ILLTYPED
    end.

Definition wr_elems (m : mode) (t' : pty) (tc0 : N) :=
  fix elems (vs : list pval) (st : wst) {struct vs} : res wst :=
    match vs with
    | [] => Ok st
    | v :: vs' => let! st1 := wr m t' v st in elems vs' (set_tc st1 tc0)
    end.

Definition wr_pick (m : mode) (v : pval) (st : wst) :=
  fix pick (alts : list pty) (j : N) {struct alts} : res wst :=
    match alts with
    | a :: r => if j =? 0 then wr m a v st else pick r (j - 1)
    | [] => Err E_ILLTYPED
    end.

Definition base (tc : N) (root : bool) : wst := {| w_buf := []; w_cap := None; w_tc := tc; w_root := root |}.

Lemma wr_seq_eq m fs vs st :
  wr m (TSeq fs) (VSeq vs) st =
  if w_root st then
    let! st1 := wr_fields m fs vs (set_root (set_tc st 0) false) in
    Ok (set_root (set_tc st1 (w_tc st)) true)
  else
    let tag := w_tc st + 1 in
    let! inner := wr_fields m fs vs (base 0 false) in
    let content := w_buf inner in
    let! st1 := emit (write_tag tag LengthDelimited) st in
    let! st2 := emit (write_varint (N.of_nat (length content))) st1 in
    let! st3 := emit content st2 in
    Ok (set_tc st3 tag).
Proof. reflexivity. Qed.

Lemma wr_seqof_eq m t' vs st :
  wr m (TSeqOf t') (VList vs) st =
  let! st1 := wr_elems m t' (w_tc st) vs st in Ok (set_tc st1 (w_tc st + 1)).
Proof. reflexivity. Qed.

Lemma wr_choice_eq m alts i v st :
  wr m (TChoice alts) (VChoice i v) st =
  let idx := u32_of_u64 i in
  if w_root st then wr_pick m v (set_root (set_tc st idx) false) alts i
  else
    let! inner := wr_pick m v (base idx false) alts i in
    let tag := w_tc st + 1 in
    let! st1 := emit (write_tag tag LengthDelimited) st in
    let! st2 := emit (write_bytes (w_buf inner)) st1 in
    Ok (set_tc st2 tag).
Proof. reflexivity. Qed.

(** * the buffer frame: what a writer step does to an arbitrary buffer (growable or fixed slice) is
      determined by what it does to an empty growable buffer with the same counter and root flag *)
Definition fits (st : wst) (n : nat) : bool :=
  match w_cap st with None => true | Some c => N.of_nat (length (w_buf st) + n) <=? c end.
Definition push (st : wst) (bs : list N) (tc : N) (root : bool) : wst :=
  {| w_buf := w_buf st ++ bs; w_cap := w_cap st; w_tc := tc; w_root := root |}.
Definition lift (st : wst) (r : res wst) : res wst :=
  match r with
  | Ok s' => if fits st (length (w_buf s')) then Ok (push st (w_buf s') (w_tc s') (w_root s')) else Err E_IO
  | Err e => Err e
  | Panic p => Panic p
  end.
Definition framed (st : wst) (r : res wst) : Prop := w_cap st = None \/ is_ok r = true.

Definition liftable_at (f : wst -> res wst) (st : wst) : Prop :=
  fits st 0 = true ->
  (forall s', f (base (w_tc st) (w_root st)) = Ok s' -> w_cap s' = None) /\
  (framed st (f (base (w_tc st) (w_root st))) -> f st = lift st (f (base (w_tc st) (w_root st)))).
Definition liftable (f : wst -> res wst) : Prop := forall st, liftable_at f st.

Lemma liftable_at_ext f f' st :
  f st = f' st -> f (base (w_tc st) (w_root st)) = f' (base (w_tc st) (w_root st)) ->
  liftable_at f' st -> liftable_at f st.
Proof. unfold liftable_at. intros E1 E2 H. rewrite E1, E2. exact H. Qed.

Lemma liftable_err e : liftable (fun _ => Err e).
Proof. intros st _. split; [discriminate|reflexivity]. Qed.
Lemma liftable_panic p : liftable (fun _ => Panic p).
Proof. intros st _. split; [discriminate|reflexivity]. Qed.

Lemma fits_none st n : w_cap st = None -> fits st n = true.
Proof. unfold fits. intros ->. reflexivity. Qed.

Lemma fits_mono st a b : (a <= b)%nat -> fits st b = true -> fits st a = true.
Proof. unfold fits. destruct (w_cap st); [|reflexivity]. intros. lia. Qed.

Lemma fits_push st bs tc r n : fits (push st bs tc r) n = fits st (length bs + n).
Proof. unfold fits, push. cbn [w_cap w_buf]. destruct (w_cap st); [|reflexivity]. rewrite app_length. f_equal. lia. Qed.

Lemma push_push st a b tc1 r1 tc2 r2 : push (push st a tc1 r1) b tc2 r2 = push st (a ++ b) tc2 r2.
Proof. unfold push. cbn [w_cap w_buf]. rewrite app_assoc. reflexivity. Qed.

Lemma liftable_bind_at f g st :
  liftable_at f st -> liftable g -> liftable_at (fun s => bind (f s) g) st.
Proof.
  intros Hf Hg Hfit. specialize (Hf Hfit). destruct Hf as [Hf1 Hf2].
  destruct (f (base (w_tc st) (w_root st))) as [s1|e|p] eqn:E1; cbn [bind].
  - assert (C1 : w_cap s1 = None) by (apply Hf1; reflexivity).
    destruct (Hg s1 (fits_none _ _ C1)) as [Hg1 Hg2].
    specialize (Hg2 (or_introl C1)).
    split.
    + intros s' E. rewrite Hg2 in E. revert E.
      destruct (g (base (w_tc s1) (w_root s1))) as [s2| |] eqn:E2; cbn [lift]; try discriminate.
      rewrite (fits_none _ _ C1). intros E. injection E as <-. unfold push. cbn [w_cap]. exact C1.
    + intros Fr.
      assert (Fr1 : framed st (Ok s1)) by (destruct Fr as [Fr|Fr]; [left; exact Fr|right; reflexivity]).
      rewrite (Hf2 Fr1). cbn [lift bind].
      destruct (fits st (length (w_buf s1))) eqn:Ef1; cbn [bind].
      * set (st1 := push st (w_buf s1) (w_tc s1) (w_root s1)).
        assert (Hfit1 : fits st1 0 = true).
        { unfold st1. rewrite fits_push. rewrite Nat.add_0_r. exact Ef1. }
        destruct (Hg st1 Hfit1) as [_ Hg3]. change (w_tc st1) with (w_tc s1) in Hg3.
        change (w_root st1) with (w_root s1) in Hg3.
        rewrite Hg2 in Fr |- *.
        rewrite Hg3.
        2:{ destruct Fr as [Fr|Fr]; [left; exact Fr|right].
            destruct (g (base (w_tc s1) (w_root s1))); cbn in Fr |- *; congruence. }
        destruct (g (base (w_tc s1) (w_root s1))) as [s2|e|p]; cbn [lift]; try reflexivity.
        rewrite (fits_none _ _ C1). cbn [lift].
        unfold st1. rewrite fits_push. unfold push at 3. cbn [w_buf w_tc w_root].
        rewrite app_length. destruct (fits st (length (w_buf s1) + length (w_buf s2))); [|reflexivity].
        rewrite push_push. reflexivity.
      * (* the first part already does not fit *)
        destruct Fr as [Fr|Fr]; [rewrite (fits_none _ _ Fr) in Ef1; discriminate|].
        rewrite Hg2 in Fr |- *.
        destruct (g (base (w_tc s1) (w_root s1))) as [s2|e|p]; cbn [lift] in Fr |- *;
          rewrite ?(fits_none _ _ C1) in *; try discriminate.
        cbn [lift]. unfold push at 1. cbn [w_buf]. rewrite app_length.
        destruct (fits st (length (w_buf s1) + length (w_buf s2))) eqn:Ef2; [|reflexivity].
        apply (fits_mono st (length (w_buf s1))) in Ef2; [congruence|lia].
  - split; [discriminate|]. intros Fr. rewrite Hf2; [reflexivity|].
    destruct Fr as [Fr|Fr]; [left; exact Fr|discriminate].
  - split; [discriminate|]. intros Fr. rewrite Hf2; [reflexivity|].
    destruct Fr as [Fr|Fr]; [left; exact Fr|discriminate].
Qed.

Lemma liftable_emit bs : liftable (emit bs).
Proof.
  intros st Hfit. unfold emit, base. cbn [w_cap w_buf]. split.
  - intros s' E. injection E as <-. reflexivity.
  - intros _. cbn [lift set_buf w_buf w_tc w_root app]. unfold fits in *. unfold push, set_buf.
    destruct (w_cap st) as [c|]; [|reflexivity].
    destruct (N.of_nat (length (w_buf st) + length bs) <=? c); reflexivity.
Qed.

Lemma liftable_settc c : liftable (fun s => Ok (set_tc s c)).
Proof.
  intros st Hfit. unfold base, set_tc. cbn [w_buf w_cap w_tc w_root]. split.
  - intros s' E. injection E as <-. reflexivity.
  - intros _. cbn [lift w_buf w_tc w_root length]. rewrite Hfit. unfold push. rewrite app_nil_r. reflexivity.
Qed.

Lemma liftable_settc_root c r : liftable (fun s => Ok (set_root (set_tc s c) r)).
Proof.
  intros st Hfit. unfold base, set_tc, set_root. cbn [w_buf w_cap w_tc w_root]. split.
  - intros s' E. injection E as <-. reflexivity.
  - intros _. cbn [lift w_buf w_tc w_root length]. rewrite Hfit. unfold push. rewrite app_nil_r. reflexivity.
Qed.

Lemma liftable_emit_tagged f payload : liftable (emit_tagged f payload).
Proof.
  intros st.
  apply liftable_at_ext with
    (f' := fun s => bind (emit (write_tag (w_tc st + 1) f ++ payload) s) (fun s' => Ok (set_tc s' (w_tc st + 1))));
    [reflexivity|reflexivity|].
  apply liftable_bind_at; [apply liftable_emit|apply liftable_settc].
Qed.

(* a step whose argument state is first modified in counter and flag (to constants) *)
Lemma liftable_pre g c r st :
  liftable g -> liftable_at (fun s => g (set_root (set_tc s c) r)) st.
Proof.
  intros Hg.
  apply liftable_at_ext with (f' := fun s => bind (Ok (set_root (set_tc s c) r)) g); [reflexivity|reflexivity|].
  apply liftable_bind_at; [apply liftable_settc_root|exact Hg].
Qed.
Lemma liftable_pre_tc g c st :
  liftable g -> liftable_at (fun s => g (set_tc s c)) st.
Proof.
  intros Hg.
  apply liftable_at_ext with (f' := fun s => bind (Ok (set_tc s c)) g); [reflexivity|reflexivity|].
  apply liftable_bind_at; [apply liftable_settc|exact Hg].
Qed.

Lemma wr_fields_liftable m fs :
  Forall (fun p => forall v, liftable (wr m (snd p) v)) fs -> forall vs, liftable (wr_fields m fs vs).
Proof.
  induction 1 as [|[o t] fs' Ht _ IH]; intros vs st.
  - destruct vs; [|apply liftable_err]. intros Hfit. cbn. split.
    + intros s' E. injection E as <-. reflexivity.
    + intros _. rewrite Hfit. unfold push. rewrite app_nil_r. destruct st; reflexivity.
  - cbn [snd] in Ht.
    destruct o.
    + destruct vs as [|v vs']; [apply liftable_err|].
      destruct v as [| | | | | | | |ov| |]; try apply liftable_err.
      destruct ov as [v|].
      * apply liftable_at_ext with (f' := fun s => bind (wr m t v s) (wr_fields m fs' vs')); [reflexivity|reflexivity|].
        apply liftable_bind_at; [apply Ht|apply IH].
      * apply liftable_at_ext with (f' := fun s => wr_fields m fs' vs' (set_tc s (w_tc st + 1))); [reflexivity|reflexivity|].
        apply liftable_pre_tc, IH.
    + destruct vs as [|v vs']; [apply liftable_err|].
      apply liftable_at_ext with (f' := fun s => bind (wr m t v s) (wr_fields m fs' vs')); [reflexivity|reflexivity|].
      apply liftable_bind_at; [apply Ht|apply IH].
Qed.

Lemma wr_elems_liftable m t' tc0 :
  (forall v, liftable (wr m t' v)) -> forall vs, liftable (wr_elems m t' tc0 vs).
Proof.
  intros Ht. induction vs as [|v vs' IH]; intros st.
  - intros Hfit. cbn. split.
    + intros s' E. injection E as <-. reflexivity.
    + intros _. rewrite Hfit. unfold push. rewrite app_nil_r. destruct st; reflexivity.
  - apply liftable_at_ext with
      (f' := fun s => bind (wr m t' v s) (fun s1 => wr_elems m t' tc0 vs' (set_tc s1 tc0))); [reflexivity|reflexivity|].
    apply liftable_bind_at; [apply Ht|]. intros s1. apply liftable_pre_tc, IH.
Qed.

Lemma wr_pick_liftable m v alts :
  Forall (fun a => forall v, liftable (wr m a v)) alts -> forall j, liftable (fun s => wr_pick m v s alts j).
Proof.
  induction 1 as [|a r Ha _ IH]; intros j st.
  - apply liftable_err.
  - destruct (j =? 0) eqn:Ej.
    + apply liftable_at_ext with (f' := wr m a v); [cbn [wr_pick]; rewrite Ej; reflexivity|cbn [wr_pick]; rewrite Ej; reflexivity|apply Ha].
    + apply liftable_at_ext with (f' := fun s => wr_pick m v s r (j - 1));
        [cbn [wr_pick]; rewrite Ej; reflexivity|cbn [wr_pick]; rewrite Ej; reflexivity|apply IH].
Qed.

Theorem wr_liftable m : forall t v, liftable (wr m t v).
Proof.
  induction t as [| k | | | | | n | fs IH | t' IH | alts IH] using pty_ind2; intros v st;
    destruct v as [b|z|s|l|bytes bl| |i|vs|ov|vs|i x]; try apply (liftable_err E_ILLTYPED).
  - apply (liftable_emit_tagged VarInt).
  - apply (liftable_emit_tagged VarInt).
  - apply (liftable_emit_tagged LengthDelimited).
  - apply (liftable_emit_tagged LengthDelimited).
  - (* bits *)
    destruct (bitvec_payload m bytes bl) as [payload|e|p] eqn:Ep.
    + apply liftable_at_ext with (f' := emit_tagged LengthDelimited (write_bytes payload));
        [cbn [wr]; rewrite Ep; reflexivity|cbn [wr]; rewrite Ep; reflexivity|apply liftable_emit_tagged].
    + apply liftable_at_ext with (f' := fun _ => Err e);
        [cbn [wr]; rewrite Ep; reflexivity|cbn [wr]; rewrite Ep; reflexivity|apply liftable_err].
    + apply liftable_at_ext with (f' := fun _ => Panic p);
        [cbn [wr]; rewrite Ep; reflexivity|cbn [wr]; rewrite Ep; reflexivity|apply liftable_panic].
  - (* null *)
    apply liftable_at_ext with (f' := fun s => Ok (set_tc s (w_tc st + 1))); [reflexivity|reflexivity|apply liftable_settc].
  - (* enum *)
    destruct (w_root st) eqn:Er.
    + apply liftable_at_ext with (f' := emit (write_enum_variant (u32_of_u64 i)));
        [cbn [wr]; rewrite Er; reflexivity|cbn [wr base w_root]; rewrite Er; reflexivity|apply liftable_emit].
    + apply liftable_at_ext with (f' := emit_tagged VarInt (write_enum_variant (u32_of_u64 i)));
        [cbn [wr]; rewrite Er; reflexivity|cbn [wr base w_root]; rewrite Er; reflexivity|apply liftable_emit_tagged].
  - (* sequence *)
    assert (HF : forall vs, liftable (wr_fields m fs vs)) by (apply wr_fields_liftable, IH).
    destruct (w_root st) eqn:Er.
    + apply liftable_at_ext with
        (f' := fun s => bind (wr_fields m fs vs (set_root (set_tc s 0) false))
                          (fun s1 => Ok (set_root (set_tc s1 (w_tc st)) true)));
        [rewrite wr_seq_eq, Er; reflexivity|rewrite wr_seq_eq; cbn [base w_root]; rewrite Er; reflexivity|].
      apply (liftable_bind_at (fun s => wr_fields m fs vs (set_root (set_tc s 0) false))).
      * apply liftable_pre, HF.
      * apply liftable_settc_root.
    + destruct (wr_fields m fs vs (base 0 false)) as [inner|e|p] eqn:Ei.
      * apply liftable_at_ext with
          (f' := fun s => bind (emit (write_tag (w_tc st + 1) LengthDelimited) s) (fun s1 =>
                          bind (emit (write_varint (N.of_nat (length (w_buf inner)))) s1) (fun s2 =>
                          bind (emit (w_buf inner) s2) (fun s3 => Ok (set_tc s3 (w_tc st + 1))))));
          [rewrite wr_seq_eq, Er, Ei; reflexivity|rewrite wr_seq_eq; cbn [base w_root]; rewrite Er, Ei; reflexivity|].
        apply liftable_bind_at; [apply liftable_emit|]. intros s1.
        apply liftable_bind_at; [apply liftable_emit|]. intros s2.
        apply liftable_bind_at; [apply liftable_emit|]. apply liftable_settc.
      * apply liftable_at_ext with (f' := fun _ => Err e);
          [rewrite wr_seq_eq, Er, Ei; reflexivity|rewrite wr_seq_eq; cbn [base w_root]; rewrite Er, Ei; reflexivity|apply liftable_err].
      * apply liftable_at_ext with (f' := fun _ => Panic p);
          [rewrite wr_seq_eq, Er, Ei; reflexivity|rewrite wr_seq_eq; cbn [base w_root]; rewrite Er, Ei; reflexivity|apply liftable_panic].
  - (* sequence of *)
    apply liftable_at_ext with
      (f' := fun s => bind (wr_elems m t' (w_tc st) vs s) (fun s1 => Ok (set_tc s1 (w_tc st + 1))));
      [rewrite wr_seqof_eq; reflexivity|rewrite wr_seqof_eq; reflexivity|].
    apply liftable_bind_at; [apply wr_elems_liftable, IH|apply liftable_settc].
  - (* choice *)
    assert (HP : forall j, liftable (fun s => wr_pick m x s alts j)) by (apply wr_pick_liftable, IH).
    destruct (w_root st) eqn:Er.
    + apply liftable_at_ext with (f' := fun s => wr_pick m x (set_root (set_tc s (u32_of_u64 i)) false) alts i);
        [rewrite wr_choice_eq; cbv zeta; rewrite Er; reflexivity
        |rewrite wr_choice_eq; cbv zeta; cbn [base w_root]; rewrite Er; reflexivity|].
      apply (liftable_pre (fun s => wr_pick m x s alts i)), HP.
    + destruct (wr_pick m x (base (u32_of_u64 i) false) alts i) as [inner|e|p] eqn:Ei.
      * apply liftable_at_ext with
          (f' := fun s => bind (emit (write_tag (w_tc st + 1) LengthDelimited) s) (fun s1 =>
                          bind (emit (write_bytes (w_buf inner)) s1) (fun s2 => Ok (set_tc s2 (w_tc st + 1)))));
          [rewrite wr_choice_eq; cbv zeta; rewrite Er, Ei; reflexivity
          |rewrite wr_choice_eq; cbv zeta; cbn [base w_root]; rewrite Er, Ei; reflexivity|].
        apply liftable_bind_at; [apply liftable_emit|]. intros s1.
        apply liftable_bind_at; [apply liftable_emit|]. apply liftable_settc.
      * apply liftable_at_ext with (f' := fun _ => Err e);
          [rewrite wr_choice_eq; cbv zeta; rewrite Er, Ei; reflexivity
          |rewrite wr_choice_eq; cbv zeta; cbn [base w_root]; rewrite Er, Ei; reflexivity|apply liftable_err].
      * apply liftable_at_ext with (f' := fun _ => Panic p);
          [rewrite wr_choice_eq; cbv zeta; rewrite Er, Ei; reflexivity
          |rewrite wr_choice_eq; cbv zeta; cbn [base w_root]; rewrite Er, Ei; reflexivity|apply liftable_panic].
Qed.

(** * C17: the two back ends agree (every type, every value, both profiles) *)
Theorem backends_agree m t v bs cap :
  pwrite_vec m t v = Ok bs ->
  pwrite_slice m cap t v = if N.of_nat (length bs) <=? cap then Ok bs else Err E_IO.
Proof.
  unfold pwrite_vec, pwrite_slice. intros H.
  change (wst0 None) with (base 0 true) in H.
  destruct (wr m t v (base 0 true)) as [s'| |] eqn:E; try discriminate. cbn [bind] in H. injection H as <-.
  destruct (wr_liftable m t v (wst0 (Some cap))) as [_ L].
  { unfold fits, wst0. cbn. lia. }
  change (w_tc (wst0 (Some cap))) with 0 in L. change (w_root (wst0 (Some cap))) with true in L.
  rewrite E in L. rewrite L by (right; reflexivity).
  cbn [lift]. unfold fits, wst0. cbn [w_cap w_buf length Nat.add].
  destruct (N.of_nat (length (w_buf s')) <=? cap); reflexivity.
Qed.

(** * what the writer emits, as records *)
Definition prec := (format * list N)%type.
Definition rbody (r : prec) : list N :=
  match fst r with LengthDelimited => write_varint (nlen (snd r)) ++ snd r | _ => snd r end.
Definition rec_bytes (tag : N) (r : prec) : list N := write_tag tag (fst r) ++ rbody r.
Definition content (trs : list (N * prec)) : list N := flat_map (fun tr => rec_bytes (fst tr) (snd tr)) trs.

Definition nl {A} (l : list A) : N := N.of_nat (length l).

Fixpoint nth_alt {A} (l : list A) (j : N) : option A :=
  match l with
  | a :: r => if j =? 0 then Some a else nth_alt r (j - 1)
  | [] => None
  end.

Lemma nth_alt_in {A} (l : list A) : forall j a, nth_alt l j = Some a -> In a l /\ j < nl l.
Proof.
  induction l as [|x l IH]; intros j a H; cbn [nth_alt] in H; [discriminate|].
  destruct (j =? 0) eqn:Ej.
  - injection H as <-. split; [left; reflexivity|unfold nl; cbn [length]; lia].
  - apply IH in H. destruct H as [H1 H2]. split; [right; exact H1|unfold nl in *; cbn [length]; lia].
Qed.

Fixpoint recs_of (t : pty) (v : pval) {struct t} : list prec :=
  match t, v with
  | TBool, VBool b => [(VarInt, write_bool b)]
  | TInt k, VInt z => [(VarInt, number_bytes k z)]
  | TStr, VStr s => [(LengthDelimited, s)]
  | TBytes, VBytes l => [(LengthDelimited, l)]
  | TBits, VBits bytes n => [(LengthDelimited, bytes ++ be_bytes 8 n)]
  | TEnum _, VEnum i => [(VarInt, write_enum_variant (u32_of_u64 i))]
  | TSeq fs, VSeq vs =>
      [(LengthDelimited, content
        ((fix fields (fs : list (bool * pty)) (vs : list pval) (tag : N) {struct fs} : list (N * prec) :=
            match fs, vs with
            | (false, t) :: fs', v :: vs' => map (pair tag) (recs_of t v) ++ fields fs' vs' (tag + 1)
            | (true, t) :: fs', VOpt (Some v) :: vs' => map (pair tag) (recs_of t v) ++ fields fs' vs' (tag + 1)
            | (true, _) :: fs', VOpt None :: vs' => fields fs' vs' (tag + 1)
            | _, _ => []
            end) fs vs 1))]
  | TSeqOf t', VList vs => flat_map (recs_of t') vs
  | TChoice alts, VChoice i x =>
      [(LengthDelimited, content (map (pair (u32_of_u64 i + 1))
        ((fix pick (alts : list pty) (j : N) {struct alts} : list prec :=
            match alts with
            | a :: r => if j =? 0 then recs_of a x else pick r (j - 1)
            | [] => []
            end) alts i)))]
  | _, _ => []
  end.

Definition recs_fields :=
  fix fields (fs : list (bool * pty)) (vs : list pval) (tag : N) {struct fs} : list (N * prec) :=
    match fs, vs with
    | (false, t) :: fs', v :: vs' => map (pair tag) (recs_of t v) ++ fields fs' vs' (tag + 1)
    | (true, t) :: fs', VOpt (Some v) :: vs' => map (pair tag) (recs_of t v) ++ fields fs' vs' (tag + 1)
    | (true, _) :: fs', VOpt None :: vs' => fields fs' vs' (tag + 1)
    | _, _ => []
    end.
Definition recs_alt (alts : list pty) (i : N) (x : pval) : list prec :=
  match nth_alt alts i with Some a => recs_of a x | None => [] end.

Lemma recs_seq_eq fs vs : recs_of (TSeq fs) (VSeq vs) = [(LengthDelimited, content (recs_fields fs vs 1))].
Proof. reflexivity. Qed.
Lemma recs_choice_eq alts i x :
  recs_of (TChoice alts) (VChoice i x) = [(LengthDelimited, content (map (pair (u32_of_u64 i + 1)) (recs_alt alts i x)))].
Proof.
  cbn [recs_of]. do 4 f_equal. unfold recs_alt. generalize i. induction alts as [|a r IH]; intros j; cbn [nth_alt]; [reflexivity|].
  destruct (j =? 0); [reflexivity|apply IH].
Qed.

(** named versions of the local fixpoints of [wf_val] *)
Definition wf_fields :=
  fix fields (fs : list (bool * pty)) (vs : list pval) {struct fs} : bool :=
    match fs, vs with
    | [], [] => true
    | (false, t) :: fs', v :: vs' => wf_val t v && fields fs' vs'
    | (true, t) :: fs', VOpt (Some v) :: vs' => wf_val t v && fields fs' vs'
    | (true, _) :: fs', VOpt None :: vs' => fields fs' vs'
    | _, _ => false
    end.
Lemma wf_seq_eq fs vs : wf_val (TSeq fs) (VSeq vs) = wf_fields fs vs.
Proof. reflexivity. Qed.
Lemma wf_choice_eq alts i x :
  wf_val (TChoice alts) (VChoice i x) = match nth_alt alts i with Some a => wf_val a x | None => false end.
Proof.
  cbn [wf_val]. generalize i. induction alts as [|a r IH]; intros j; cbn [nth_alt]; [reflexivity|].
  destruct (j =? 0); [reflexivity|apply IH].
Qed.
Lemma wr_pick_eq m x st alts : forall j,
  wr_pick m x st alts j = match nth_alt alts j with Some a => wr m a x st | None => Err E_ILLTYPED end.
Proof.
  induction alts as [|a r IH]; intros j; cbn [nth_alt wr_pick]; [reflexivity|].
  destruct (j =? 0); [reflexivity|apply IH].
Qed.

Lemma content_app a b : content (a ++ b) = content a ++ content b.
Proof. unfold content. apply flat_map_app. Qed.
Lemma content_one tag r : content [(tag, r)] = rec_bytes tag r.
Proof. unfold content. cbn [flat_map fst snd]. apply app_nil_r. Qed.

Lemma bits_payload m bytes n :
  wf_val TBits (VBits bytes n) = true -> bitvec_payload m bytes n = Ok (bytes ++ be_bytes 8 n).
Proof.
  cbn [wf_val]. intros H. apply andb_true_iff in H. destruct H as [H Hn]. apply andb_true_iff in H. destruct H as [_ Hl].
  unfold bitvec_payload. unfold usize_max, two64, two32 in *.
  assert ((18446744073709551616 - 1 <? n + 7) = false) as -> by lia. cbn [bind].
  assert ((N.of_nat (length bytes) <? (n + 7) / 8) = false) as -> by lia.
  replace (N.to_nat ((n + 7) / 8)) with (length bytes) by lia. rewrite firstn_all. reflexivity.
Qed.

Definition okst (st : wst) : Prop := w_cap st = None /\ w_root st = false.

Lemma emit_tagged_ok f payload st :
  okst st -> emit_tagged f payload st = Ok (push st (write_tag (w_tc st + 1) f ++ payload) (w_tc st + 1) false).
Proof.
  intros [Hc Hr]. unfold emit_tagged, emit. rewrite Hc. cbn [bind]. unfold set_tc, set_buf, push. cbn [w_buf w_cap w_tc w_root].
  rewrite Hc, Hr. reflexivity.
Qed.

Lemma okst_push st bs tc : okst st -> okst (push st bs tc false).
Proof. intros [Hc Hr]. split; [exact Hc|reflexivity]. Qed.

Lemma okst_base tc : okst (base tc false).
Proof. split; reflexivity. Qed.

Lemma w_tc_push st bs tc r : w_tc (push st bs tc r) = tc.
Proof. reflexivity. Qed.

Lemma emit_ok bs st : w_cap st = None -> emit bs st = Ok (push st bs (w_tc st) (w_root st)).
Proof. intros H. unfold emit. rewrite H. unfold push, set_buf. rewrite H. reflexivity. Qed.
Lemma set_tc_push st bs tc r tc' : set_tc (push st bs tc r) tc' = push st bs tc' r.
Proof. reflexivity. Qed.
Lemma w_root_push st bs tc r : w_root (push st bs tc r) = r.
Proof. reflexivity. Qed.

Definition W (m : mode) (t : pty) : Prop :=
  forall v st, wf_val t v = true -> okst st ->
  wr m t v st = Ok (push st (content (map (pair (w_tc st + 1)) (recs_of t v))) (w_tc st + 1) false).

Lemma W_fields m fs : Forall (fun p => W m (snd p)) fs ->
  forall vs st, wf_fields fs vs = true -> okst st ->
  wr_fields m fs vs st = Ok (push st (content (recs_fields fs vs (w_tc st + 1))) (w_tc st + nl fs) false).
Proof.
  induction 1 as [|[o t] fs' Ht _ IH]; intros vs st Hwf Hst.
  - destruct vs; [|discriminate]. cbn. unfold push. rewrite app_nil_r, N.add_0_r.
    destruct Hst as [Hc Hr]. destruct st; cbn in *. subst. reflexivity.
  - cbn [snd] in Ht.
    assert (STEP : forall v vs', wf_val t v = true -> wf_fields fs' vs' = true ->
      bind (wr m t v st) (wr_fields m fs' vs') =
      Ok (push st (content (map (pair (w_tc st + 1)) (recs_of t v) ++ recs_fields fs' vs' (w_tc st + 1 + 1)))
            (w_tc st + nl ((o, t) :: fs')) false)).
    { intros v vs' H1 H2. rewrite (Ht v st H1 Hst). cbn [bind].
      rewrite IH by (try apply okst_push; assumption). rewrite !w_tc_push.
      rewrite push_push, content_app. unfold nl. cbn [length]. do 2 f_equal. lia. }
    destruct o.
    + destruct vs as [|v vs']; [discriminate|].
      destruct v as [| | | | | | | |ov| |]; try discriminate.
      destruct ov as [v|].
      * cbn [wf_fields] in Hwf. apply andb_true_iff in Hwf. destruct Hwf as [H1 H2].
        exact (STEP v vs' H1 H2).
      * cbn [wf_fields] in Hwf. cbn [wr_fields recs_fields].
        rewrite IH; [|exact Hwf|destruct Hst; split; assumption].
        unfold push, set_tc, nl. cbn [w_buf w_cap w_tc w_root length]. do 2 f_equal. lia.
    + destruct vs as [|v vs']; [discriminate|].
      cbn [wf_fields] in Hwf. apply andb_true_iff in Hwf. destruct Hwf as [H1 H2].
      exact (STEP v vs' H1 H2).
Qed.

Lemma W_elems m t' : W m t' -> forall vs st, forallb (wf_val t') vs = true -> okst st ->
  wr_elems m t' (w_tc st) vs st =
  Ok (push st (content (map (pair (w_tc st + 1)) (flat_map (recs_of t') vs))) (w_tc st) false).
Proof.
  intros Ht. induction vs as [|v vs' IH]; intros st Hwf Hst.
  - cbn. unfold push. rewrite app_nil_r. destruct Hst as [Hc Hr]. destruct st; cbn in *. subst. reflexivity.
  - cbn [forallb] in Hwf. apply andb_true_iff in Hwf. destruct Hwf as [H1 H2].
    cbn [wr_elems flat_map]. rewrite (Ht v st H1 Hst). cbn [bind].
    set (st1 := set_tc _ _).
    assert (Hst1 : okst st1) by (destruct Hst; split; [assumption|reflexivity]).
    change (w_tc st) with (w_tc st1) at 1.
    rewrite (IH st1 H2 Hst1). unfold st1, push, set_tc. cbn [w_buf w_cap w_tc w_root].
    rewrite map_app, content_app, app_assoc. reflexivity.
Qed.

Theorem wr_records m : forall t, W m t.
Proof.
  induction t as [| k | | | | | n | fs IH | t' IH | alts IH] using pty_ind2; intros v st Hwf Hst;
    destruct v as [b|z|s|l|bytes bl| |i|vs|ov|vs|i x]; try discriminate Hwf.
  - cbn [wr recs_of map]. rewrite content_one. apply emit_tagged_ok, Hst.
  - cbn [wr recs_of map]. rewrite content_one. apply emit_tagged_ok, Hst.
  - cbn [wr recs_of map]. rewrite content_one. apply emit_tagged_ok, Hst.
  - cbn [wr recs_of map]. rewrite content_one. apply emit_tagged_ok, Hst.
  - cbn [wr recs_of map]. rewrite (bits_payload m _ _ Hwf). cbn [bind]. rewrite content_one. apply emit_tagged_ok, Hst.
  - cbn [wr recs_of map]. unfold content, push, set_tc. cbn [flat_map]. rewrite app_nil_r.
    destruct Hst as [Hc Hr]. rewrite Hr. reflexivity.
  - cbn [wr recs_of map]. destruct Hst as [Hc Hr]. rewrite Hr. rewrite content_one. apply emit_tagged_ok. split; assumption.
  - (* sequence *)
    rewrite wr_seq_eq, recs_seq_eq. destruct Hst as [Hc Hr]. rewrite Hr. cbv zeta.
    rewrite wf_seq_eq in Hwf.
    rewrite (W_fields m fs IH vs (base 0 false) Hwf (okst_base 0)). cbn [bind].
    rewrite (emit_ok _ st Hc). cbn [bind]. rewrite emit_ok by exact Hc. cbn [bind]. rewrite emit_ok by exact Hc. cbn [bind].
    rewrite !w_tc_push, !w_root_push, set_tc_push, !push_push, Hr. cbn [map]. rewrite content_one.
    unfold rec_bytes, rbody, nlen. cbn [fst snd base w_buf app]. rewrite <- ?app_assoc. reflexivity.
  - (* sequence of *)
    rewrite wr_seqof_eq. cbn [wf_val] in Hwf.
    rewrite (W_elems m t' IH vs st Hwf Hst). cbn [bind]. reflexivity.
  - (* choice *)
    rewrite wr_choice_eq, recs_choice_eq. destruct Hst as [Hc Hr]. rewrite Hr. cbv zeta.
    rewrite wf_choice_eq in Hwf. rewrite wr_pick_eq. unfold recs_alt.
    destruct (nth_alt alts i) as [a|] eqn:Ea; [|discriminate].
    apply nth_alt_in in Ea. destruct Ea as [Ea _].
    rewrite Forall_forall in IH. rewrite (IH a Ea x (base (u32_of_u64 i) false) Hwf (okst_base _)). cbn [bind].
    rewrite (emit_ok _ st Hc). cbn [bind]. rewrite emit_ok by exact Hc. cbn [bind].
    rewrite !w_tc_push, !w_root_push, set_tc_push, !push_push, Hr. cbn [map]. rewrite content_one.
    unfold rec_bytes, rbody, write_bytes, nlen. cbn [fst snd base w_buf app]. rewrite <- ?app_assoc. reflexivity.
Qed.
