(* Proto/TotalProofs.v -- C04 for the protobuf reader model: on EVERY byte list the Reader of Rw.v neither
   panics nor runs out of fuel (the model's rendering of "loops forever"), and never holds a byte range
   that leaves the source or the enclosing window. *)
From A1 Require Import Proto.Wire Proto.Rw Proto.Proofs Proto.RwLemmas Proto.RoundtripProofs.
Require Import ZifyBool ZifyNat ZifyN.
Local Open Scope N_scope.

Definition npan {A} (r : res A) : Prop := forall p, r <> Panic p.

Lemma npan_bind {A B} (r : res A) (f : A -> res B) :
  npan r -> (forall a, r = Ok a -> npan (f a)) -> npan (bind r f).
Proof.
  intros Hr Hf p. destruct r as [a|e|q]; cbn [bind].
  - apply (Hf a eq_refl).
  - discriminate.
  - exfalso. apply (Hr q). reflexivity.
Qed.
Lemma npan_ok {A} (a : A) : npan (Ok a).
Proof. intros p; discriminate. Qed.
Lemma npan_err {A} e : npan (@Err A e).
Proof. intros p; discriminate. Qed.

(** * primitives on arbitrary bytes *)
(* the varint loop: fuel is never exhausted (shift + 7 * fuel stays at 77), at most ten bytes are consumed,
   the unread rest is a suffix of the input *)
Lemma rvl_spec : forall fuel value shift bs, (1 <= fuel)%nat -> 71 <= shift + 7 * N.of_nat fuel ->
  match read_varint_loop fuel value shift bs with
  | Ok (_, rest) => exists pre, bs = pre ++ rest /\ (length pre <= fuel)%nat /\ (shift < 64 -> (1 <= length pre)%nat)
  | Err _ => True
  | Panic _ => False
  end.
Proof.
  induction fuel as [|fuel IH]; intros value shift bs Hf Hs; [lia|].
  cbn [read_varint_loop]. destruct (shift <? 64) eqn:Hlt.
  - destruct bs as [|b rest]; [exact I|]. cbv zeta.
    destruct (N.land b 128 =? 0).
    + exists [b]. split; [reflexivity|]. cbn [length]. split; lia.
    + assert (Hf' : (1 <= fuel)%nat) by lia.
      specialize (IH (N.lor value ((N.land b 127 * 2 ^ shift) mod two64)) (shift + 7) rest Hf').
      destruct (read_varint_loop fuel _ (shift + 7) rest) as [[v r]|e|p].
      * destruct IH as (pre & -> & Hl & _); [lia|]. exists (b :: pre). split; [reflexivity|]. cbn [length]. split; lia.
      * exact I.
      * apply IH. lia.
  - exists []. split; [reflexivity|]. cbn [length]. split; lia.
Qed.

Lemma read_varint_spec bs :
  match read_varint bs with
  | Ok (_, rest) => exists pre, bs = pre ++ rest /\ (1 <= length pre <= 11)%nat
  | Err _ => True
  | Panic _ => False
  end.
Proof.
  unfold read_varint. pose proof (rvl_spec 11 0 0 bs) as H.
  destruct (read_varint_loop 11 0 0 bs) as [[v r]|e|p]; [|exact I|apply H; lia].
  destruct H as (pre & E & H1 & H2); [lia|lia|]. exists pre. split; [exact E|]. lia.
Qed.

Lemma read_varint_npan bs : npan (read_varint bs).
Proof. intros p E. pose proof (read_varint_spec bs) as H. rewrite E in H. exact H. Qed.

Lemma read_varint_len bs v rest : read_varint bs = Ok (v, rest) -> nlen rest < nlen bs.
Proof.
  intros E. pose proof (read_varint_spec bs) as H. rewrite E in H. destruct H as (pre & -> & H).
  unfold nlen. rewrite app_length. lia.
Qed.

Lemma read_tag_spec bs :
  match read_tag bs with
  | Ok (_, _, rest) => exists pre, bs = pre ++ rest /\ (1 <= length pre <= 11)%nat
  | Err _ => True
  | Panic _ => False
  end.
Proof.
  unfold read_tag. pose proof (read_varint_spec bs) as H.
  destruct (read_varint bs) as [[v r]|e|p]; cbn [bind]; [|exact I|exact H].
  destruct (format_from (N.land (u32_of_u64 v) 7)) as [f|e|p] eqn:Ef; cbn [bind]; [exact H|exact I|].
  unfold format_from in Ef. destruct (N.land (u32_of_u64 v) 7) as [|[[[]|[]|]|[[]|[]|]|]]; discriminate Ef.
Qed.

Lemma read_tag_npan bs : npan (read_tag bs).
Proof. intros p E. pose proof (read_tag_spec bs) as H. rewrite E in H. exact H. Qed.

Lemma read_tag_len bs tag f rest : read_tag bs = Ok (tag, f, rest) -> nlen rest < nlen bs.
Proof.
  intros E. pose proof (read_tag_spec bs) as H. rewrite E in H. destruct H as (pre & -> & H).
  unfold nlen. rewrite app_length. lia.
Qed.

Lemma varint_then_npan {A} bs (f : N * list N -> res A) :
  (forall x, npan (f x)) -> npan (bind (read_varint bs) f).
Proof. intros H. apply npan_bind; [apply read_varint_npan|intros a _; apply H]. Qed.

Theorem primitives_total : forall m bs,
  npan (read_varint bs) /\ npan (read_tag bs) /\ npan (read_sint32 bs) /\ npan (read_sint64 bs) /\
  npan (read_string bs) /\ npan (read_uint32 bs) /\ npan (read_bool bs) /\ npan (read_sfixed32 bs) /\
  npan (read_uint64 bs) /\ npan (read_enum_variant bs) /\ npan (read_bytes bs) /\
  ((8 <= length bs)%nat -> npan (read_bit_vec m bs)) /\
  ((length bs < 8)%nat -> exists p, read_bit_vec m bs = Panic p).
Proof.
  intros m bs.
  assert (V : forall A (f : N * list N -> res A), (forall x, npan (f x)) -> npan (bind (read_varint bs) f))
    by (intros A f; apply varint_then_npan).
  repeat split.
  - apply read_varint_npan.
  - apply read_tag_npan.
  - apply V. intros [v r]. apply npan_ok.
  - apply V. intros [v r]. apply npan_ok.
  - unfold read_string. destruct (utf8_valid bs); [apply npan_ok|apply npan_err].
  - apply V. intros [v r]. apply npan_ok.
  - apply V. intros [v r]. apply npan_ok.
  - unfold read_sfixed32, read_exact. destruct (length bs <? 4)%nat; cbn [bind]; [apply npan_err|apply npan_ok].
  - apply read_varint_npan.
  - apply V. intros [v r]. apply npan_ok.
  - apply npan_ok.
  - intros H. unfold read_bit_vec, read_bytes, bitvec_from_trailing. cbn [bind].
    assert ((length bs <? 8)%nat = false) as -> by (apply Nat.ltb_ge; lia). cbn [bind]. apply npan_ok.
  - intros H. unfold read_bit_vec, read_bytes, bitvec_from_trailing. cbn [bind].
    assert ((length bs <? 8)%nat = true) as -> by (apply Nat.ltb_lt; lia).
    destruct (overflow_checks m); cbn [bind]; eexists; reflexivity.
Qed.

Lemma number_read_npan k bs : npan (number_read k bs).
Proof.
  unfold number_read, read_uint32, read_uint64, read_sint32, read_sint64. destruct (kind_sel k).
  - apply npan_bind; [apply varint_then_npan; intros [v r]; apply npan_ok|intros [v r] _; apply npan_ok].
  - apply varint_then_npan. intros [v r]. apply npan_ok.
  - apply npan_bind; [apply varint_then_npan; intros [v r]; apply npan_ok|intros [v r] _; apply npan_ok].
  - apply npan_bind; [apply varint_then_npan; intros [v r]; apply npan_ok|intros [v r] _; apply npan_ok].
Qed.

(** * byte ranges inside the source *)
Definition rng_ok (src : list N) (r : range) : Prop := fst r <= snd r /\ snd r <= nlen src.
Definition rng_in (w r : range) : Prop := fst w <= fst r /\ fst r <= snd r /\ snd r <= snd w.
Definition ent_rng (e : tagentry) : range := snd e.
Definition st_ok (src : list N) (st : rstate) : Prop :=
  match st with
  | Root r => rng_ok src r
  | Enclosed _ tags => Forall (fun e => rng_ok src (ent_rng e)) tags
  end.
Definition is_encl (st : rstate) : bool := match st with Enclosed _ _ => true | Root _ => false end.

Lemma rng_in_ok src w r : rng_ok src w -> rng_in w r -> rng_ok src r.
Proof. unfold rng_ok, rng_in. lia. Qed.

Lemma slice_ok src s e : s <= e -> e <= nlen src -> exists sl, slice src (s, e) = Ok sl /\ nlen sl = e - s.
Proof.
  intros H1 H2. unfold slice. assert ((e <? s) = false) as -> by lia.
  assert ((N.of_nat (length src) <? e) = false) as -> by (unfold nlen in H2; lia).
  eexists. split; [reflexivity|]. unfold nlen in *. rewrite firstn_length, skipn_length. lia.
Qed.

Lemma slice_zero src : slice src (0, 0) = Ok [].
Proof. unfold slice. cbn. destruct src; reflexivity. Qed.

Lemma checked_end_spec a b e c : checked_end a b e = Ok c -> c = a + b /\ c <= e.
Proof.
  unfold checked_end. destruct (usize_max <? a + b); [discriminate|].
  destruct (e <? a + b) eqn:E; [discriminate|]. intros H. injection H as <-. lia.
Qed.
Lemma checked_end_npan a b e : npan (checked_end a b e).
Proof. unfold checked_end. intros p. destruct (usize_max <? a + b); [discriminate|]. destruct (e <? a + b); discriminate. Qed.

(* read_content_offset_and_length: offset plus what was consumed never exceeds what was there *)
Lemma content_off_len_spec f sl :
  match content_off_len f sl with
  | Ok (off, _) => off <= nlen sl
  | Err _ => True
  | Panic _ => False
  end.
Proof.
  unfold content_off_len. destruct f; try (cbn; lia).
  - pose proof (read_varint_spec sl) as H. destruct (read_varint sl) as [[v r]|e|p]; cbn [bind]; [lia|exact I|exact H].
  - pose proof (read_varint_spec sl) as H. destruct (read_varint sl) as [[v r]|e|p]; cbn [bind]; [lia|exact I|exact H].
Qed.

(** * index_enclosed: terminates within its fuel, every entry lies inside the indexed range *)
Lemma ie_loop_spec : forall fuel src lo position e tags,
  e <= nlen src -> lo <= position -> (N.to_nat (e - position) < fuel)%nat ->
  Forall (fun t => rng_in (lo, e) (ent_rng t)) tags ->
  match ie_loop fuel src position e tags with
  | Ok tags' => Forall (fun t => rng_in (lo, e) (ent_rng t)) tags'
  | Err _ => True
  | Panic _ => False
  end.
Proof.
  induction fuel as [|fuel IH]; intros src lo position e tags He Hlo Hfuel Htags; [lia|].
  cbn [ie_loop]. destruct (position <? e) eqn:Hlt; [|exact Htags].
  destruct (slice_ok src position e) as (sl & -> & Hsl); [lia|exact He|]. cbn [bind].
  pose proof (read_tag_spec sl) as Ht. pose proof (read_tag_len sl) as Htl.
  destruct (read_tag sl) as [[[tag fmt] rest]|er|p]; cbn [bind]; [|exact I|exact Ht].
  specialize (Htl tag fmt rest eq_refl).
  pose proof (content_off_len_spec fmt rest) as Hc.
  destruct (content_off_len fmt rest) as [[off clen]|er|p]; cbn [bind]; [|exact I|exact Hc].
  destruct (checked_end (position + (nlen sl - nlen rest) + off) clen e) as [ce|er|p] eqn:Ece; cbn [bind];
    [|exact I|exfalso; exact (checked_end_npan _ _ _ p Ece)].
  apply checked_end_spec in Ece. destruct Ece as [Ece Hce].
  apply IH; try assumption; try lia.
  apply Forall_app. split; [exact Htags|]. constructor; [|constructor].
  unfold rng_in, ent_rng. cbn [fst snd]. lia.
Qed.

Lemma index_enclosed_spec src r :
  rng_ok src r ->
  match index_enclosed src r with
  | Ok st => exists tags, st = Enclosed 1 tags /\ Forall (fun t => rng_in r (ent_rng t)) tags
  | Err _ => True
  | Panic _ => False
  end.
Proof.
  intros [H1 H2]. unfold index_enclosed. destruct r as [s e]. cbn [fst snd] in *.
  pose proof (ie_loop_spec (length src + 2) src s s e [] H2 (N.le_refl s)) as H.
  destruct (ie_loop (length src + 2) src s e []) as [tags|er|p]; cbn [bind].
  - eexists. split; [reflexivity|]. apply H; [unfold nlen in *; lia|constructor].
  - exact I.
  - apply H; [unfold nlen in *; lia|constructor].
Qed.

Lemma index_enclosed_ok src r :
  rng_ok src r ->
  match index_enclosed src r with
  | Ok st => st_ok src st /\ is_encl st = true
  | Err _ => True
  | Panic _ => False
  end.
Proof.
  intros Hr. pose proof (index_enclosed_spec src r Hr) as H.
  destruct (index_enclosed src r) as [st|e|p]; try exact H.
  destruct H as (tags & -> & Ht). split; [|reflexivity]. cbn [st_ok].
  eapply Forall_impl; [|exact Ht]. intros t. apply rng_in_ok, Hr.
Qed.

(** * the tag table *)
Lemma take_tag_ok src next filter : forall tags r rest,
  Forall (fun e => rng_ok src (ent_rng e)) tags -> take_tag next filter tags = Some (r, rest) ->
  rng_ok src r /\ Forall (fun e => rng_ok src (ent_rng e)) rest.
Proof.
  induction tags as [|[[tag f] rg] tags IH]; intros r rest Hf H; [discriminate|].
  cbn [take_tag] in H. inversion Hf as [|? ? H1 H2]; subst.
  destruct ((tag =? next) && match filter with Some g => format_eqb g f | None => true end).
  - injection H as <- <-. split; assumption.
  - destruct (take_tag next filter tags) as [[r' rest']|] eqn:E; [|discriminate]. injection H as <- <-.
    destruct (IH r' rest' H2 eq_refl) as [I1 I2]. split; [exact I1|constructor; assumption].
Qed.

Lemma next_tag_range_ok src incr filter st : st_ok src st ->
  let '(o, st') := next_tag_range incr filter st in
  st_ok src st' /\ is_encl st' = is_encl st /\ match o with Some r => rng_ok src r | None => True end.
Proof.
  intros H. destruct st as [r|tc tags]; cbn [next_tag_range].
  - split; [exact H|split; [reflexivity|exact H]].
  - destruct (take_tag tc filter tags) as [[r rest]|] eqn:E.
    + destruct (take_tag_ok src tc filter tags r rest H E) as [H1 H2]. split; [exact H2|split; [reflexivity|exact H1]].
    + split; [exact H|split; [reflexivity|exact I]].
Qed.

Lemma rng_zero src : rng_ok src (0, 0).
Proof. unfold rng_ok. cbn. lia. Qed.

Lemma next_reader_ok src f st : st_ok src st ->
  match next_reader src f st with
  | Ok (_, st') => st_ok src st' /\ is_encl st' = is_encl st
  | Err _ => True
  | Panic _ => False
  end.
Proof.
  intros H. unfold next_reader. pose proof (next_tag_range_ok src true (Some f) st H) as N.
  destruct (next_tag_range true (Some f) st) as [o st']. destruct N as (N1 & N2 & N3).
  assert (R : rng_ok src (unwrap_or o (0, 0))) by (destruct o; [exact N3|apply rng_zero]).
  destruct (unwrap_or o (0, 0)) as [s e]. destruct R as [R1 R2]. cbn [fst snd] in *.
  destruct (slice_ok src s e R1 R2) as (sl & -> & _). cbn [bind]. split; assumption.
Qed.

(** * the Reader *)
(* the one class in which the reader diverges (F17-3): a SEQUENCE OF whose element type is again a SEQUENCE OF,
   anywhere inside the type; the inner read_set_or_sequence_of runs in State::Root *)
Inductive Known_proto_unbounded : pty -> Prop :=
| KP_nested e : Known_proto_unbounded (TSeqOf (TSeqOf e))
| KP_in_seq fs o t : In (o, t) fs -> Known_proto_unbounded t -> Known_proto_unbounded (TSeq fs)
| KP_in_list t : Known_proto_unbounded t -> Known_proto_unbounded (TSeqOf t)
| KP_in_choice alts a : In a alts -> Known_proto_unbounded a -> Known_proto_unbounded (TChoice alts).

Definition outcome_ok (src : list N) (st : rstate) (r : res (pval * rstate)) : Prop :=
  match r with
  | Ok (_, st') => st_ok src st' /\ is_encl st' = is_encl st
  | Err _ => True
  | Panic _ => False
  end.

Definition T (m : mode) (t : pty) : Prop :=
  ~ Known_proto_unbounded t -> forall src st, st_ok src st -> (is_seqof t = true -> is_encl st = true) ->
  outcome_ok src st (rd m src t st).

Lemma read_bool_npan bs : npan (read_bool bs).
Proof. apply varint_then_npan. intros [v r]. apply npan_ok. Qed.

Lemma incr_ok src st : st_ok src st -> st_ok src (increment_tag_counter st) /\ is_encl (increment_tag_counter st) = is_encl st.
Proof. destruct st; intros H; split; try exact H; reflexivity. Qed.

Lemma T_fields m src fs :
  Forall (fun p => T m (snd p)) fs -> (forall o t, In (o, t) fs -> ~ Known_proto_unbounded t) ->
  forall st, st_ok src st -> is_encl st = true ->
  match rd_fields m src fs st with
  | Ok (_, st') => st_ok src st' /\ is_encl st' = true
  | Err _ => True
  | Panic _ => False
  end.
Proof.
  induction 1 as [|[o t] fs Ht _ IH]; intros Hk st Hst He.
  - cbn. split; assumption.
  - cbn [snd] in Ht.
    assert (Hkt : ~ Known_proto_unbounded t) by (apply (Hk o t); left; reflexivity).
    assert (Hk' : forall o t, In (o, t) fs -> ~ Known_proto_unbounded t) by (intros o' t' Hin; apply (Hk o' t'); right; exact Hin).
    assert (STEP : forall (wrap : pval -> pval),
              match (let! (v, st1) := rd m src t st in
                     let! (vs, st2) := rd_fields m src fs st1 in Ok (wrap v :: vs, st2)) with
              | Ok (_, st') => st_ok src st' /\ is_encl st' = true
              | Err _ => True
              | Panic _ => False
              end).
    { intros wrap. pose proof (Ht Hkt src st Hst (fun _ => He)) as R. unfold outcome_ok in R.
      destruct (rd m src t st) as [[v st1]|e|p]; cbn [bind]; [|exact I|exact R].
      destruct R as [R1 R2]. rewrite He in R2.
      pose proof (IH Hk' st1 R1 R2) as F.
      destruct (rd_fields m src fs st1) as [[vs st2]|e|p]; cbn [bind]; [exact F|exact I|exact F]. }
    destruct o; cbn [rd_fields].
    + destruct (hast_next_tag st).
      * apply (STEP (fun v => VOpt (Some v))).
      * destruct (incr_ok src st Hst) as [I1 I2]. rewrite He in I2.
        pose proof (IH Hk' _ I1 I2) as F.
        destruct (rd_fields m src fs (increment_tag_counter st)) as [[vs st2]|e|p]; cbn [bind]; [exact F|exact I|exact F].
    + apply (STEP (fun v => v)).
Qed.

Lemma T_loop m src t' tc : T m t' -> ~ Known_proto_unbounded t' -> is_seqof t' = false ->
  forall tags, Forall (fun e => rng_ok src (ent_rng e)) tags ->
  match rd_loop m src t' tc tags with
  | Ok (_, kept) => Forall (fun e => rng_ok src (ent_rng e)) kept
  | Err _ => True
  | Panic _ => False
  end.
Proof.
  intros Ht Hk Hs. induction 1 as [|[[tag f] r] tags Hr _ IH]; [constructor|].
  cbn [rd_loop]. unfold ent_rng in Hr. cbn [snd] in Hr.
  destruct (tag =? tc).
  - pose proof (Ht Hk src (Root r) Hr (fun E => False_ind _ (Bool.diff_false_true (eq_trans (eq_sym Hs) E)))) as R.
    unfold outcome_ok in R.
    destruct (rd m src t' (Root r)) as [[v st1]|e|p]; cbn [bind]; [|exact I|exact R].
    destruct (rd_loop m src t' tc tags) as [[vs kept]|e|p]; cbn [bind]; [exact IH|exact I|exact IH].
  - destruct (rd_loop m src t' tc tags) as [[vs kept]|e|p]; cbn [bind]; [|exact I|exact IH].
    constructor; [exact Hr|exact IH].
Qed.

Theorem reader_total m : forall t, T m t.
Proof.
  induction t as [| k | | | | | n | fs IH | t' IH | alts IH] using pty_ind2; intros Hk src st Hst Hroot; unfold outcome_ok.
  - (* bool *)
    cbn [rd]. pose proof (next_reader_ok src VarInt st Hst) as N.
    destruct (next_reader src VarInt st) as [[sl st']|e|p]; cbn [bind]; [|exact I|exact N].
    destruct (is_nil sl); [exact N|].
    destruct (read_bool sl) as [[b r]|e|p] eqn:E; cbn [bind]; [exact N|exact I|exact (read_bool_npan sl p E)].
  - (* int *)
    cbn [rd]. pose proof (next_reader_ok src VarInt st Hst) as N.
    destruct (next_reader src VarInt st) as [[sl st']|e|p]; cbn [bind]; [|exact I|exact N].
    destruct (is_nil sl); [exact N|].
    destruct (number_read k sl) as [z|e|p] eqn:E; cbn [bind]; [exact N|exact I|exact (number_read_npan k sl p E)].
  - (* string *)
    cbn [rd]. pose proof (next_reader_ok src LengthDelimited st Hst) as N.
    destruct (next_reader src LengthDelimited st) as [[sl st']|e|p]; cbn [bind]; [|exact I|exact N].
    unfold read_string. destruct (utf8_valid sl); cbn [bind]; [exact N|exact I].
  - (* bytes *)
    cbn [rd]. pose proof (next_reader_ok src LengthDelimited st Hst) as N.
    destruct (next_reader src LengthDelimited st) as [[sl st']|e|p]; cbn [bind]; [|exact I|exact N].
    unfold read_bytes. cbn [bind]. exact N.
  - (* bit string: the length check in front of from_vec_with_trailing_bit_len keeps it total *)
    cbn [rd]. pose proof (next_reader_ok src LengthDelimited st Hst) as N.
    destruct (next_reader src LengthDelimited st) as [[sl st']|e|p]; cbn [bind]; [|exact I|exact N].
    unfold read_bytes. cbn [bind]. destruct (is_nil sl); [exact N|].
    destruct (length sl <? 8)%nat eqn:E8; [exact I|]. unfold bitvec_from_trailing. rewrite E8. cbn [bind]. exact N.
  - (* null *)
    cbn [rd]. apply incr_ok, Hst.
  - (* enumerated *)
    cbn [rd]. pose proof (next_tag_range_ok src true (Some VarInt) st Hst) as N.
    destruct (next_tag_range true (Some VarInt) st) as [o st']. destruct N as (N1 & N2 & N3).
    destruct o as [[s e]|]; cbn [bind].
    + destruct N3 as [R1 R2]. cbn [fst snd] in *. destruct (slice_ok src s e R1 R2) as (sl & -> & _). cbn [bind].
      destruct (read_varint sl) as [[v r]|er|p] eqn:E; cbn [bind]; [|exact I|exact (read_varint_npan sl p E)].
      destruct (v <? n); [split; assumption|exact I].
    + destruct (0 <? n); [split; assumption|exact I].
  - (* sequence *)
    rewrite rd_seq_eq. pose proof (next_tag_range_ok src true (Some LengthDelimited) st Hst) as N.
    destruct (next_tag_range true (Some LengthDelimited) st) as [o st']. destruct N as (N1 & N2 & N3).
    assert (R : rng_ok src (unwrap_or o (0, 0))) by (destruct o; [exact N3|apply rng_zero]).
    pose proof (index_enclosed_ok src _ R) as Ix.
    destruct (index_enclosed src (unwrap_or o (0, 0))) as [enc|e|p]; cbn [bind]; [|exact I|exact Ix].
    destruct Ix as [I1 I2].
    assert (Hk' : forall o t, In (o, t) fs -> ~ Known_proto_unbounded t).
    { intros o' t' Hin K. apply Hk. apply (KP_in_seq fs o' t' Hin K). }
    pose proof (T_fields m src fs IH Hk' enc I1 I2) as F.
    destruct (rd_fields m src fs enc) as [[vs stf]|e|p]; cbn [bind]; [split; assumption|exact I|exact F].
  - (* sequence of *)
    specialize (Hroot eq_refl). destruct st as [r|tc tags]; [discriminate Hroot|].
    rewrite rd_seqof_eq.
    assert (Hs : is_seqof t' = false).
    { destruct t'; try reflexivity. exfalso. apply Hk. constructor. }
    assert (Hk' : ~ Known_proto_unbounded t') by (intros K; apply Hk, KP_in_list, K).
    pose proof (T_loop m src t' tc IH Hk' Hs tags Hst) as L.
    destruct (rd_loop m src t' tc tags) as [[vs kept]|e|p]; cbn [bind]; [split; [exact L|reflexivity]|exact I|exact L].
  - (* choice *)
    rewrite rd_choice_eq. pose proof (next_tag_range_ok src true None st Hst) as N.
    destruct (next_tag_range true None st) as [o st']. destruct N as (N1 & N2 & N3).
    destruct o as [[s e]|]; [|exact I].
    destruct N3 as [R1 R2]. cbn [fst snd] in *. destruct (slice_ok src s e R1 R2) as (sl & -> & Hsl). cbn [bind].
    pose proof (read_tag_spec sl) as Ht. pose proof (read_tag_len sl) as Htl.
    destruct (read_tag sl) as [[[tag fmt] rest]|er|p]; cbn [bind]; [|exact I|exact Ht].
    specialize (Htl tag fmt rest eq_refl).
    assert (REST : match (if format_eqb fmt LengthDelimited
                          then let! (_, r2) := read_varint rest in Ok r2 else Ok rest) with
                   | Ok rest' => nlen rest' <= nlen rest | Err _ => True | Panic _ => False end).
    { destruct (format_eqb fmt LengthDelimited); [|cbn; lia].
      pose proof (read_varint_spec rest) as Hv. pose proof (read_varint_len rest) as Hvl.
      destruct (read_varint rest) as [[v r2]|er|p]; cbn [bind]; [|exact I|exact Hv].
      specialize (Hvl v r2 eq_refl). lia. }
    destruct (if format_eqb fmt LengthDelimited then let! (_, r2) := read_varint rest in Ok r2 else Ok rest)
      as [rest'|er|p]; cbn [bind]; [|exact I|exact REST].
    cbv zeta. destruct (nth_alt alts (tag - 1)) as [a|] eqn:Ea; cbn [bind]; [|exact I].
    destruct (nth_alt_in alts (tag - 1) a Ea) as [Hin _].
    rewrite Forall_forall in IH.
    assert (Hka : ~ Known_proto_unbounded a) by (intros K; apply Hk; apply (KP_in_choice alts a Hin K)).
    set (inner := Enclosed 1 [(1, fmt, (s + (nlen sl - nlen rest'), e))]).
    assert (Hin_ok : st_ok src inner).
    { cbn [inner st_ok]. constructor; [|constructor]. unfold rng_ok, ent_rng. cbn [fst snd]. lia. }
    pose proof (IH a Hin Hka src inner Hin_ok (fun _ => eq_refl)) as R. unfold outcome_ok in R.
    destruct (rd m src a inner) as [[v st1]|er|p]; cbn [bind]; [split; assumption|exact I|exact R].
Qed.

(** * top level *)
Theorem pread_total m t bs :
  is_seqof t = false -> ~ Known_proto_unbounded t -> forall p, pread m t bs <> Panic p.
Proof.
  intros Hs Hk p. unfold pread.
  assert (Hst : st_ok bs (Root (0, nlen bs))) by (cbn; unfold rng_ok; cbn [fst snd]; lia).
  pose proof (reader_total m t Hk bs (Root (0, nlen bs)) Hst
                (fun E => False_ind _ (Bool.diff_false_true (eq_trans (eq_sym Hs) E)))) as R.
  unfold outcome_ok in R. destruct (rd m bs t (Root (0, nlen bs))) as [[v st']|e|q]; cbn [bind]; [discriminate|discriminate|exact (False_ind _ R)].
Qed.

(* every byte range the reader holds lies inside the source, and what index_enclosed tabulates lies inside
   the window it was asked to index *)
Theorem reader_ranges_ok m t src st v st' :
  ~ Known_proto_unbounded t -> st_ok src st -> (is_seqof t = true -> is_encl st = true) ->
  rd m src t st = Ok (v, st') -> st_ok src st'.
Proof.
  intros Hk Hst Hr E. pose proof (reader_total m t Hk src st Hst Hr) as R. unfold outcome_ok in R.
  rewrite E in R. apply R.
Qed.

Theorem index_enclosed_window src r tc tags :
  rng_ok src r -> index_enclosed src r = Ok (Enclosed tc tags) ->
  Forall (fun t => rng_in r (ent_rng t)) tags.
Proof.
  intros Hr E. pose proof (index_enclosed_spec src r Hr) as H. rewrite E in H.
  destruct H as (tags' & E' & H). injection E' as _ <-. exact H.
Qed.

Lemma slice_inv src s e sl : slice src (s, e) = Ok sl ->
  s <= e /\ e <= nlen src /\ sl = firstn (N.to_nat (e - s)) (skipn (N.to_nat s) src).
Proof.
  unfold slice. destruct (e <? s) eqn:E1; [discriminate|].
  destruct (N.of_nat (length src) <? e) eqn:E2; [discriminate|]. intros H. injection H as <-.
  unfold nlen. repeat split; lia.
Qed.

(* the class, decidably *)
Fixpoint no_nested_list (t : pty) : bool :=
  match t with
  | TSeq fs => forallb (fun p => no_nested_list (snd p)) fs
  | TSeqOf t' => negb (is_seqof t') && no_nested_list t'
  | TChoice alts => forallb no_nested_list alts
  | _ => true
  end.

Lemma known_unbounded_not t : Known_proto_unbounded t -> no_nested_list t = false.
Proof.
  induction 1 as [e|fs o t Hin _ IH|t _ IH|alts a Hin _ IH]; cbn [no_nested_list].
  - reflexivity.
  - apply (forallb_false_in _ fs (o, t) Hin). exact IH.
  - rewrite IH. apply andb_false_r.
  - apply (forallb_false_in _ alts a Hin). exact IH.
Qed.
