(* Proto/DecodeProofs.v -- C18: the bytes the Writer emits decode, under the emitted schema and with the
   reference proto3 decoder of Schema.v, to the field values of the value (unbounded, by induction on the
   type universe). *)
From A1 Require Import Proto.Wire Proto.Rw Proto.Schema Proto.Proofs Proto.RwLemmas Proto.RoundtripProofs.
Require Import ZifyBool ZifyNat ZifyN.
Local Open Scope N_scope.

(** * the reference varint decoder on the writer's varints *)
Lemma spec_varint_write : forall f v tail, (0 < f)%nat -> v < 128 ^ N.of_nat f -> v < two64 ->
  spec_varint f (write_varint_fuel f v ++ tail) = Some (v, tail).
Proof.
  induction f as [|f IH]; intros v tail Hf Hv Hv64; [lia|].
  cbn [write_varint_fuel]. destruct (127 <? v) eqn:Hbig.
  - cbn [app spec_varint].
    assert (Hm : v mod 128 < 128) by (apply N.mod_lt; lia).
    assert ((v mod 128 + 128 <? 128) = false) as -> by lia.
    replace (N.of_nat (S f)) with (N.succ (N.of_nat f)) in Hv by lia. rewrite N.pow_succ_r' in Hv.
    assert (Hf' : (0 < f)%nat).
    { destruct f; [|lia]. cbn in Hv. lia. }
    rewrite IH; [| exact Hf' | apply N.div_lt_upper_bound; lia | apply N.div_lt_upper_bound; unfold two64 in *; lia].
    f_equal. f_equal. pose proof (N.div_mod v 128). unfold two64 in *.
    replace (v mod 128 + 128 - 128 + 128 * (v / 128)) with v by lia. apply N.mod_small. lia.
  - cbn [app spec_varint]. assert ((v <? 128) = true) as -> by lia. reflexivity.
Qed.

Lemma get_varint_write v tail : v < two64 -> get_varint (write_varint v ++ tail) = Some (v, tail).
Proof.
  intros H. unfold get_varint, write_varint. apply spec_varint_write; [lia| |exact H].
  unfold two64 in H. change (128 ^ N.of_nat 10) with 1180591620717411303424. lia.
Qed.

Lemma get_tag tag f rest : tag < 2 ^ 29 ->
  get_varint (write_tag tag f ++ rest) = Some (tag * 8 + format_code f, rest).
Proof.
  intros H. destruct (tag_word_spec tag f H) as [E L]. unfold write_tag.
  rewrite get_varint_write by (unfold two32, two64 in *; lia). rewrite E. reflexivity.
Qed.

(** * records as the reference parser sees them *)
Definition wire_of (r : prec) : wire :=
  match fst r with
  | LengthDelimited => WLen (snd r)
  | _ => WVarint (match get_varint (snd r) with Some (x, _) => x | None => 0 end)
  end.
Definition wrecs (trs : list (N * prec)) : list (N * wire) := map (fun tr => (fst tr, wire_of (snd tr))) trs.

Lemma wire_of_varint x : x < two64 -> wire_of (VarInt, write_varint x) = WVarint x.
Proof.
  intros H. unfold wire_of. cbn [fst snd]. rewrite <- (app_nil_r (write_varint x)).
  rewrite get_varint_write by exact H. reflexivity.
Qed.

Definition small (r : prec) : Prop := nlen (snd r) < two64.

Lemma payload_le_content tr trs : In tr trs -> nlen (snd (snd tr)) <= nlen (content trs).
Proof.
  induction trs as [|[tag r] trs IH]; intros Hin; [contradiction|].
  rewrite content_cons, nlen_app. destruct Hin as [<-|Hin].
  - cbn [snd]. destruct r as [f p]. unfold rec_bytes, rbody. cbn [fst snd]. rewrite nlen_app. destruct f; rewrite ?nlen_app; lia.
  - specialize (IH Hin). lia.
Qed.

Lemma small_of_content trs : nlen (content trs) < two64 -> Forall (fun tr => small (snd tr)) trs.
Proof.
  intros H. apply Forall_forall. intros tr Hin. pose proof (payload_le_content tr trs Hin). cbv beta. unfold small, prec in *. lia.
Qed.

Lemma split_at_app p rest : split_at (nlen p) (p ++ rest) = Some (p, rest).
Proof.
  unfold split_at. assert ((N.of_nat (length (p ++ rest)) <? nlen p) = false) as ->.
  { unfold nlen. rewrite app_length. lia. }
  unfold nlen. rewrite Nat2N.id. rewrite firstn_app, Nat.sub_diag, firstn_all, skipn_app, skipn_all, Nat.sub_diag.
  cbn [firstn skipn app]. rewrite app_nil_r. reflexivity.
Qed.

Lemma parse_records_content : forall trs fuel,
  Forall (fun tr => (1 <= fst tr < 2 ^ 29) /\ rec_wf (snd tr) /\ small (snd tr)) trs ->
  (length trs < fuel)%nat ->
  parse_records fuel (content trs) = Some (wrecs trs).
Proof.
  induction trs as [|[tag [f p]] trs IH]; intros fuel Hwf Hfuel.
  - destruct fuel; [lia|]. reflexivity.
  - destruct fuel as [|fuel]; [cbn [length] in Hfuel; lia|].
    inversion Hwf as [|? ? (Htag & Hr & Hs) Hwf']; subst x l. cbn [fst snd] in Htag, Hr, Hs.
    specialize (IH fuel Hwf').
    rewrite content_cons. unfold rec_bytes. cbn [fst]. rewrite <- app_assoc.
    destruct (write_tag tag f) as [|b l] eqn:Ewt.
    { pose proof (write_tag_len tag f) as H. rewrite Ewt in H. cbn in H. lia. }
    cbn [app parse_records]. change (b :: l ++ rbody (f, p) ++ content trs) with ((b :: l) ++ rbody (f, p) ++ content trs).
    rewrite <- Ewt. rewrite get_tag by lia.
    assert (Hc : format_code f < 8) by (destruct f; cbn; lia).
    replace ((tag * 8 + format_code f) / 8) with tag by lia.
    assert ((tag =? 0) = false) as -> by lia.
    assert ((4294967295 <? tag * 8 + format_code f) = false) as -> by (change (2 ^ 29) with 536870912 in *; lia).
    cbn [orb]. replace ((tag * 8 + format_code f) mod 8) with (format_code f) by lia.
    unfold rec_wf in Hr. cbn [fst snd] in Hr. unfold small in Hs. cbn [snd] in Hs.
    destruct f; try contradiction.
    + destruct Hr as (x & Hx & ->). unfold rbody. cbn [fst snd format_code].
      rewrite get_varint_write by exact Hx. rewrite IH by (cbn [length] in Hfuel; lia).
      cbn [wrecs map fst snd]. rewrite wire_of_varint by exact Hx. reflexivity.
    + unfold rbody. cbn [fst snd format_code]. rewrite <- app_assoc.
      rewrite get_varint_write by exact Hs. rewrite split_at_app. rewrite IH by (cbn [length] in Hfuel; lia).
      reflexivity.
Qed.

Lemma records_content trs :
  Forall (fun tr => (1 <= fst tr < 2 ^ 29) /\ rec_wf (snd tr) /\ small (snd tr)) trs ->
  records (content trs) = Some (wrecs trs).
Proof.
  intros H. unfold records. apply parse_records_content; [exact H|].
  pose proof (content_len trs). unfold nlen in *. lia.
Qed.

(** * named versions of the local fixpoints of [dec_field] and [pb_field] *)
Definition dec_elems (t' : ptype) :=
  fix elems (ws : list wire) : option (list pbval) :=
    match ws with
    | [] => Some []
    | WLen l :: r =>
        match dec_field t' [WLen l], elems r with
        | Some v, Some vs => Some (v :: vs)
        | _, _ => None
        end
    | _ :: r => elems r
    end.
Definition dec_find (n : N) (w : wire) :=
  fix find (alts : list (N * ptype)) {struct alts} : option (option pbval) :=
    match alts with
    | [] => Some None
    | (an, at_) :: ar =>
        if (an =? n) && wire_ok at_ w
        then match dec_field at_ [w] with
             | Some v => Some (Some v)
             | None => None
             end
        else find ar
    end.
Definition dec_scan (alts : list (N * ptype)) :=
  fix scan (recs : list (N * wire)) (acc : option (N * pbval)) {struct recs} : option pbval :=
    match recs with
    | [] => Some (BOneof acc)
    | (n, w) :: r =>
        match dec_find n w alts with
        | None => None
        | Some None => scan r acc
        | Some (Some v) => scan r (Some (n, v))
        end
    end.
Definition dec_fields (recs : list (N * wire)) :=
  fix fields (fs : list (N * ptype)) {struct fs} : option (list pbval) :=
    match fs with
    | [] => Some []
    | (num, ft) :: fs' =>
        let ov :=
          match ft with
          | POneofT alts => dec_scan alts recs None
          | _ => dec_field ft (select num recs)
          end in
        match ov, fields fs' with
        | Some v, Some vs => Some (v :: vs)
        | _, _ => None
        end
    end.

Lemma dec_msg_eq fs ws :
  dec_field (PMsgT fs) ws =
  match lens ws with
  | [] => Some (BMsg None)
  | a :: l =>
      match records (concat (a :: l)) with
      | None => None
      | Some recs => option_map (fun vs => BMsg (Some vs)) (dec_fields recs fs)
      end
  end.
Proof. reflexivity. Qed.

Lemma dec_rep_msg_eq fs ws :
  dec_field (PRepeated (PMsgT fs)) ws = option_map BRep (dec_elems (PMsgT fs) ws).
Proof. reflexivity. Qed.

Definition not_oneof (t : ptype) : Prop := match t with POneofT _ => False | _ => True end.
Lemma dec_fields_cons recs num ft fs' : not_oneof ft ->
  dec_fields recs ((num, ft) :: fs') =
  match dec_field ft (select num recs), dec_fields recs fs' with
  | Some v, Some vs => Some (v :: vs)
  | _, _ => None
  end.
Proof. destruct ft; intros H; try contradiction; reflexivity. Qed.

Lemma field_type_not_oneof t : not_oneof (field_type t).
Proof. destruct t; exact I. Qed.

Definition pb_fields :=
  fix fields (fs : list (bool * pty)) (vs : list pval) {struct fs} : list pbval :=
    match fs, vs with
    | (false, t) :: fs', v :: vs' => pb_field t v :: fields fs' vs'
    | (true, t) :: fs', VOpt (Some v) :: vs' => pb_field t v :: fields fs' vs'
    | (true, t) :: fs', VOpt None :: vs' => absent_of t :: fields fs' vs'
    | _, _ => []
    end.
Lemma pb_seq_eq fs vs : pb_field (TSeq fs) (VSeq vs) = BMsg (Some (pb_fields fs vs)).
Proof. reflexivity. Qed.
Lemma pb_choice_eq alts i x :
  pb_field (TChoice alts) (VChoice i x) =
  BMsg (Some [BOneof (match nth_alt alts i with Some a => Some (i + 1, pb_field a x) | None => None end)]).
Proof.
  cbn [pb_field]. do 4 f_equal. set (c := i + 1). clearbody c. generalize i. induction alts as [|a r IH]; intros j; cbn [nth_alt]; [reflexivity|].
  destruct (j =? 0); [reflexivity|apply IH].
Qed.

(** * selection of the records of one field *)
Lemma select_app num a b : select num (a ++ b) = select num a ++ select num b.
Proof. unfold select. apply flat_map_app. Qed.

Lemma select_none num trs : Forall (fun tr => fst tr <> num) trs -> select num (wrecs trs) = [].
Proof.
  induction 1 as [|tr trs H _ IH]; [reflexivity|].
  cbn [wrecs map select flat_map]. assert ((fst tr =? num) = false) as -> by lia. exact IH.
Qed.

Lemma select_same num rs : select num (wrecs (map (pair num) rs)) = map wire_of rs.
Proof.
  induction rs as [|r rs IH]; [reflexivity|].
  cbn [wrecs map select flat_map fst snd]. rewrite N.eqb_refl. cbn [app]. f_equal. exact IH.
Qed.

Lemma wrecs_app a b : wrecs (a ++ b) = wrecs a ++ wrecs b.
Proof. unfold wrecs. apply map_app. Qed.

(** * scalars *)
Lemma unzigzag_spec z : (- 2147483648 <= z < 2147483648)%Z ->
  unzigzag (Z.to_N (if (z <? 0)%Z then - 2 * z - 1 else 2 * z)%Z) = z.
Proof.
  intros H. unfold unzigzag.
  destruct (z <? 0)%Z eqn:Hs.
  - destruct (N.even (Z.to_N (-2 * z - 1))) eqn:Ev.
    + apply N.even_spec in Ev. destruct Ev as [k Ek]. lia.
    + assert (Od : N.odd (Z.to_N (-2 * z - 1)) = true) by (rewrite <- N.negb_even, Ev; reflexivity).
      apply N.odd_spec in Od. destruct Od as [k Ek]. lia.
  - destruct (N.even (Z.to_N (2 * z))) eqn:Ev.
    + apply N.even_spec in Ev. destruct Ev as [k Ek]. lia.
    + assert (Od : N.odd (Z.to_N (2 * z)) = true) by (rewrite <- N.negb_even, Ev; reflexivity).
      apply N.odd_spec in Od. destruct Od as [k Ek]. lia.
Qed.

Lemma unzigzag_spec64 z : (- 9223372036854775808 <= z < 9223372036854775808)%Z ->
  unzigzag (Z.to_N (if (z <? 0)%Z then - 2 * z - 1 else 2 * z)%Z) = z.
Proof.
  intros H. unfold unzigzag.
  destruct (z <? 0)%Z eqn:Hs.
  - destruct (N.even (Z.to_N (-2 * z - 1))) eqn:Ev.
    + apply N.even_spec in Ev. destruct Ev as [k Ek]. lia.
    + assert (Od : N.odd (Z.to_N (-2 * z - 1)) = true) by (rewrite <- N.negb_even, Ev; reflexivity).
      apply N.odd_spec in Od. destruct Od as [k Ek]. lia.
  - destruct (N.even (Z.to_N (2 * z))) eqn:Ev.
    + apply N.even_spec in Ev. destruct Ev as [k Ek]. lia.
    + assert (Od : N.odd (Z.to_N (2 * z)) = true) by (rewrite <- N.negb_even, Ev; reflexivity).
      apply N.odd_spec in Od. destruct Od as [k Ek]. lia.
Qed.

(* the varint the writer emits for an integer decodes, under the scalar type of the schema, to the integer *)
Lemma int_wire k z : in_kind k z = true -> wf_kind k = true ->
  exists x, x < two64 /\ number_bytes k z = write_varint x /\ num_value (scalar_of_kind k) x = z.
Proof.
  intros H Hwk. apply in_kind_range in H.
  destruct kind_sel_values as (S1 & S2 & S3 & S4 & S5 & S6 & S7 & S8).
  assert (U32 : forall k, kind_sel k = PUInt32 -> scalar_of_kind k = SUInt32 -> (0 <= z < 4294967296)%Z ->
            exists x, x < two64 /\ number_bytes k z = write_varint x /\ num_value (scalar_of_kind k) x = z).
  { intros k0 Hk Hs Hz. unfold number_bytes, to_i64. rewrite Hk, Hs. rewrite i64_wrap_eq.
    eexists. split; [|split; [reflexivity|]].
    - change (Z.of_N two32) with 4294967296%Z. unfold two64. lia.
    - unfold num_value. change (Z.of_N two32) with 4294967296%Z. lia. }
  assert (S32 : forall k, kind_sel k = PSInt32 -> scalar_of_kind k = SSInt32 -> (-2147483648 <= z < 2147483648)%Z ->
            exists x, x < two64 /\ number_bytes k z = write_varint x /\ num_value (scalar_of_kind k) x = z).
  { intros k0 Hk Hs Hz. unfold number_bytes, to_i64. rewrite Hk, Hs. rewrite i64_wrap_eq.
    assert (E : i32_wrap ((z + 9223372036854775808) mod 18446744073709551616 - 9223372036854775808) = z).
    { unfold i32_wrap. change (Z.of_N two31) with 2147483648%Z. change (Z.of_N two32) with 4294967296%Z. lia. }
    rewrite E. exists (zz32 z). split; [apply zz32_lt|split; [reflexivity|]].
    unfold num_value. pose proof (zz32_low z) as L. unfold u32_of_u64, two32 in L. rewrite L.
    - apply unzigzag_spec, Hz.
    - unfold is_i32. change (Z.of_N two31) with 2147483648%Z. lia. }
  destruct k as [| | | | | | | |sg mn mx]; cbn [kind_range] in H; cbv [i64_min i64_max] in H;
    change (Z.of_N two63) with 9223372036854775808%Z in H.
  - apply U32; [exact S1|reflexivity|lia].
  - apply S32; [exact S5|reflexivity|lia].
  - apply U32; [exact S2|reflexivity|lia].
  - apply S32; [exact S6|reflexivity|lia].
  - apply U32; [exact S3|reflexivity|lia].
  - apply S32; [exact S7|reflexivity|lia].
  - unfold number_bytes, to_i64. rewrite S4. rewrite i64_wrap_eq. eexists. split; [apply u64_of_i64_lt|split; [reflexivity|]].
    cbn [scalar_of_kind num_value]. unfold u64_of_i64. change (Z.of_N two64) with 18446744073709551616%Z. lia.
  - unfold number_bytes, to_i64. rewrite S8. rewrite i64_wrap_eq.
    replace ((z + 9223372036854775808) mod 18446744073709551616 - 9223372036854775808)%Z with z by lia.
    exists (zz64 z). split; [apply zz64_lt|split; [reflexivity|]].
    cbn [scalar_of_kind num_value]. rewrite zz64_val by (unfold is_i64; change (Z.of_N two63) with 9223372036854775808%Z; lia).
    apply unzigzag_spec64. lia.
  - (* extensible: 64-bit Rust type, 64-bit format of the same signedness (4788e65), 64-bit proto type *)
    unfold number_bytes, to_i64. rewrite i64_wrap_eq.
    destruct sg; cbn [kind_range wf_kind] in H, Hwk; cbv [i64_min i64_max] in H;
      change (Z.of_N two63) with 9223372036854775808%Z in H.
    + assert (Hs : kind_sel (KExt true mn mx) = PSInt64).
      { unfold kind_sel, num_sel. cbn [kind_ext kind_min kind_max negb andb].
        assert ((0 <=? unwrap_or mn 0)%Z = false) as -> by lia. reflexivity. }
      rewrite Hs.
      replace ((z + 9223372036854775808) mod 18446744073709551616 - 9223372036854775808)%Z with z by lia.
      exists (zz64 z). split; [apply zz64_lt|split; [reflexivity|]].
      cbn [scalar_of_kind num_value]. rewrite zz64_val by (unfold is_i64; change (Z.of_N two63) with 9223372036854775808%Z; lia).
      apply unzigzag_spec64. lia.
    + assert (Hs : kind_sel (KExt false mn mx) = PUInt64).
      { unfold kind_sel, num_sel. cbn [kind_ext kind_min kind_max negb andb]. rewrite Hwk. reflexivity. }
      rewrite Hs. eexists. split; [apply u64_of_i64_lt|split; [reflexivity|]].
      cbn [scalar_of_kind num_value]. unfold u64_of_i64. change (Z.of_N two64) with 18446744073709551616%Z. lia.
Qed.

(** * per-type decoding *)
Definition DF (t : pty) : Prop :=
  forall v, good t = true -> wf_val t v = true -> Forall small (recs_of t v) ->
  dec_field (field_type t) (map wire_of (recs_of t v)) = Some (pb_field t v).

Lemma dec_absent t : dec_field (field_type t) [] = Some (absent_of t).
Proof.
  destruct t as [|k| | | | |n|fs|t'|alts]; try reflexivity.
  - destruct k as [| | | | | | | |[|] ? ?]; reflexivity.
  - destruct t' as [|k| | | | |n|fs|t''|alts]; try reflexivity. destruct k as [| | | | | | | |[|] ? ?]; reflexivity.
Qed.

Lemma DF_bool : DF TBool.
Proof.
  intros v _ Hwf _. destruct v as [b| | | | | | | | | |]; try discriminate Hwf.
  cbn [recs_of map field_type]. unfold write_bool. rewrite wire_of_varint by (destruct b; reflexivity).
  destruct b; reflexivity.
Qed.

Lemma DF_int k : DF (TInt k).
Proof.
  intros v Hg Hwf _. destruct v as [|z| | | | | | | | |]; try discriminate Hwf. cbn [wf_val good] in Hwf, Hg.
  destruct (int_wire k z Hwf Hg) as (x & Hx & Ex & Ev).
  cbn [recs_of map field_type]. rewrite Ex, wire_of_varint by exact Hx.
  cbn [dec_field pb_field]. unfold dec_scalar.
  assert (is_varint_scalar (scalar_of_kind k) = true) as -> by (destruct k as [| | | | | | | |[|] ? ?]; reflexivity).
  cbn [varints flat_map app last]. rewrite Ev. reflexivity.
Qed.

Lemma DF_bits : DF TBits.
Proof.
  intros v _ Hwf _. destruct v as [| | | |bytes n| | | | | |]; try discriminate Hwf.
  change (recs_of TBits (VBits bytes n)) with [(LengthDelimited, bytes ++ be_bytes 8 n)].
  cbn [wf_val] in Hwf. apply andb_true_iff in Hwf. destruct Hwf as [Hwf Hn]. apply andb_true_iff in Hwf. destruct Hwf as [_ Hl].
  cbn [map field_type pb_field]. unfold wire_of. cbn [fst snd]. cbn [dec_field]. unfold dec_scalar. cbn [is_varint_scalar lens flat_map app last].
  replace (N.to_nat (N.min ((n + 7) / 8) (N.of_nat (length bytes)))) with (length bytes) by lia.
  rewrite firstn_all. reflexivity.
Qed.

Lemma DF_enum n : DF (TEnum n).
Proof.
  intros v Hg Hwf _. destruct v as [| | | | | |i| | | |]; try discriminate Hwf. cbn [good wf_val] in Hg, Hwf.
  assert (Hi : u32_of_u64 i = i) by (unfold u32_of_u64, two32 in *; apply N.mod_small; lia).
  cbn [recs_of map field_type]. unfold write_enum_variant. rewrite Hi, wire_of_varint by (unfold two32, two64 in *; lia).
  cbn [dec_field pb_field]. unfold dec_enum. cbn [varints flat_map app last].
  rewrite N.mod_small by (unfold two32 in *; lia). reflexivity.
Qed.

(* a record of a single-record type has the wire type its schema type expects *)
Lemma wire_ok_single t v r : single t = true -> wf_val t v = true -> recs_of t v = [r] ->
  wire_ok (field_type t) (wire_of r) = true.
Proof.
  intros Hs Hwf Hr.
  destruct t as [|k| | | | |n|fs|t'|alts]; try discriminate Hs;
    destruct v as [b|z|s|l|bytes bl| |i|vs|ov|vs|i x]; try discriminate Hwf.
  - cbn [recs_of] in Hr. injection Hr as <-. reflexivity.
  - cbn [recs_of] in Hr. injection Hr as <-. unfold wire_of. cbn [fst field_type wire_ok]. destruct k as [| | | | | | | |[|] ? ?]; reflexivity.
  - cbn [recs_of] in Hr. injection Hr as <-. reflexivity.
  - cbn [recs_of] in Hr. injection Hr as <-. reflexivity.
  - change (recs_of TBits (VBits bytes bl)) with [(LengthDelimited, bytes ++ be_bytes 8 bl)] in Hr.
    assert (r = (LengthDelimited, bytes ++ be_bytes 8 bl)) as -> by congruence. reflexivity.
  - cbn [recs_of] in Hr. injection Hr as <-. reflexivity.
  - rewrite recs_seq_eq in Hr. injection Hr as <-. reflexivity.
  - rewrite recs_choice_eq in Hr. injection Hr as <-. reflexivity.
Qed.

Fixpoint dec_each (ft : ptype) (ws : list wire) : option (list pbval) :=
  match ws with
  | [] => Some []
  | w :: r =>
      match dec_field ft [w], dec_each ft r with
      | Some v, Some vs => Some (v :: vs)
      | _, _ => None
      end
  end.

Definition elem_type (ft : ptype) : Prop :=
  match ft with PScalar _ | PEnumT _ | PMsgT _ => True | _ => False end.

Lemma rep_each ft ws : elem_type ft -> Forall (fun w => wire_ok ft w = true) ws ->
  dec_field (PRepeated ft) ws = option_map BRep (dec_each ft ws).
Proof.
  intros Hft Hws. destruct ft as [s|n|fs| |]; try contradiction.
  - cbn [dec_field]. destruct (is_varint_scalar s) eqn:Hv.
    + f_equal. induction Hws as [|w ws Hw _ IH]; [reflexivity|].
      destruct w; cbn [wire_ok] in Hw; rewrite ?Hv in Hw; try discriminate Hw.
      cbn [dec_packed dec_each dec_field]. rewrite IH. unfold dec_scalar. rewrite Hv. reflexivity.
    + cbn [option_map].
      assert (E : dec_each (PScalar s) ws = Some (map BBytes (lens ws))); [|rewrite E; reflexivity].
      induction Hws as [|w ws Hw _ IH]; [reflexivity|].
      destruct w; cbn [wire_ok] in Hw; rewrite ?Hv in Hw; try discriminate Hw.
      cbn [dec_each dec_field]. rewrite IH. unfold dec_scalar. rewrite Hv. reflexivity.
  - cbn [dec_field]. f_equal. induction Hws as [|w ws Hw _ IH]; [reflexivity|].
    destruct w; cbn [wire_ok] in Hw; try discriminate Hw.
    cbn [dec_packed dec_each dec_field]. rewrite IH. reflexivity.
  - rewrite dec_rep_msg_eq. f_equal. induction Hws as [|w ws Hw _ IH]; [reflexivity|].
    destruct w; cbn [wire_ok] in Hw; try discriminate Hw.
    cbn [dec_elems dec_each]. rewrite IH. reflexivity.
Qed.

Lemma elem_type_single t : single t = true -> elem_type (field_type t).
Proof. destruct t; try discriminate; intros _; exact I. Qed.

Lemma DF_seqof t' : DF t' -> DF (TSeqOf t').
Proof.
  intros HD v Hg Hwf Hsm. destruct v as [| | | | | | | | |vs|]; try discriminate Hwf.
  cbn [good] in Hg. apply andb_true_iff in Hg. destruct Hg as [Hs Hg]. cbn [wf_val recs_of] in Hwf, Hsm.
  cbn [field_type pb_field recs_of].
  assert (E : Forall (fun w => wire_ok (field_type t') w = true) (map wire_of (flat_map (recs_of t') vs)) /\
              dec_each (field_type t') (map wire_of (flat_map (recs_of t') vs)) = Some (map (pb_field t') vs)).
  { induction vs as [|x vs IH]; [split; [constructor|reflexivity]|].
    cbn [forallb] in Hwf. apply andb_true_iff in Hwf. destruct Hwf as [H1 H2].
    cbn [flat_map] in Hsm |- *. apply Forall_app in Hsm. destruct Hsm as [Hs1 Hs2].
    destruct (IH H2 Hs2) as [I1 I2].
    destruct (single_shape t' x Hs H1) as (r & Er & _).
    pose proof (HD x Hg H1 Hs1) as D. rewrite Er in D |- *. cbn [app map] in D |- *. split.
    - constructor; [apply (wire_ok_single t' x r Hs H1 Er)|exact I1].
    - cbn [dec_each]. rewrite D, I2. reflexivity. }
  destruct E as [E1 E2]. rewrite rep_each by (try apply elem_type_single; assumption). rewrite E2. reflexivity.
Qed.

Lemma DFields fs : Forall (fun p => DF (snd p)) fs ->
  forall vs tag before, good_fields fs = true -> wf_fields fs vs = true ->
  Forall (fun tr : N * prec => fst tr < tag) before ->
  Forall (fun tr : N * prec => small (snd tr)) (recs_fields fs vs tag) ->
  dec_fields (wrecs (before ++ recs_fields fs vs tag)) (number_from tag (map (fun '(_, t) => field_type t) fs))
  = Some (pb_fields fs vs).
Proof.
  induction 1 as [|[o t] fs Ht _ IH]; intros vs tag before Hg Hwf Hb Hsm.
  - destruct vs; reflexivity.
  - cbn [snd] in Ht. cbn [good_fields forallb snd] in Hg. apply andb_true_iff in Hg. destruct Hg as [Hg1 Hg2].
    cbn [map number_from]. rewrite dec_fields_cons by apply field_type_not_oneof.
    assert (SELB : select tag (wrecs before) = []).
    { apply select_none. eapply Forall_impl; [|exact Hb]. intros tr. cbv beta. lia. }
    assert (SELL : forall vs', wf_fields fs vs' = true -> select tag (wrecs (recs_fields fs vs' (tag + 1))) = []).
    { intros vs' H. apply select_none. eapply Forall_impl; [|apply (recs_fields_wf fs vs' (tag + 1) Hg2 H)].
      intros tr [[H1 _] _]. lia. }
    assert (PRESENT : forall v vs', wf_val t v = true -> wf_fields fs vs' = true ->
              Forall (fun tr : N * prec => small (snd tr)) (map (pair tag) (recs_of t v) ++ recs_fields fs vs' (tag + 1)) ->
              match dec_field (field_type t) (select tag (wrecs (before ++ map (pair tag) (recs_of t v) ++ recs_fields fs vs' (tag + 1)))),
                    dec_fields (wrecs (before ++ map (pair tag) (recs_of t v) ++ recs_fields fs vs' (tag + 1)))
                      (number_from (tag + 1) (map (fun '(_, t) => field_type t) fs))
              with Some v0, Some vs0 => Some (v0 :: vs0) | _, _ => None end
              = Some (pb_field t v :: pb_fields fs vs')).
    { intros v vs' H1 H2 Hs. apply Forall_app in Hs. destruct Hs as [Hs1 Hs2].
      rewrite !wrecs_app, !select_app, SELB, (SELL vs' H2), select_same, app_nil_r. cbn [app].
      rewrite Ht; [|exact Hg1|exact H1|].
      2:{ apply Forall_forall. intros r Hin. rewrite Forall_forall in Hs1. apply (Hs1 (tag, r)). apply in_map, Hin. }
      rewrite <- !wrecs_app. rewrite app_assoc. rewrite IH; [reflexivity|exact Hg2|exact H2| |exact Hs2].
      apply Forall_app. split.
      - eapply Forall_impl; [|exact Hb]. intros tr. cbv beta. lia.
      - apply Forall_forall. intros tr Hin. apply in_map_iff in Hin. destruct Hin as (r & <- & _). cbn [fst]. lia. }
    destruct o.
    + destruct vs as [|v vs']; [discriminate|].
      destruct v as [| | | | | | | |ov| |]; try discriminate.
      destruct ov as [v|]; cbn [wf_fields recs_fields pb_fields] in Hwf, Hsm |- *.
      * apply andb_true_iff in Hwf. destruct Hwf as [H1 H2]. apply PRESENT; assumption.
      * rewrite !wrecs_app, !select_app, SELB, (SELL vs' Hwf). cbn [app]. rewrite dec_absent.
        rewrite <- !wrecs_app. rewrite IH; [reflexivity|exact Hg2|exact Hwf| |exact Hsm].
        eapply Forall_impl; [|exact Hb]. intros tr. cbv beta. lia.
    + destruct vs as [|v vs']; [discriminate|]. cbn [wf_fields recs_fields pb_fields] in Hwf, Hsm |- *.
      apply andb_true_iff in Hwf. destruct Hwf as [H1 H2]. apply PRESENT; assumption.
Qed.

Lemma DF_seq fs : Forall (fun p => DF (snd p)) fs -> DF (TSeq fs).
Proof.
  intros HF v Hg Hwf Hsm. destruct v as [| | | | | | |vs| | |]; try discriminate Hwf.
  rewrite recs_seq_eq in Hsm |- *. rewrite wf_seq_eq in Hwf.
  cbn [good] in Hg. apply andb_true_iff in Hg. destruct Hg as [Hn Hg].
  inversion Hsm as [|? ? Hs _]; subst. unfold small in Hs. cbn [snd] in Hs.
  cbn [map field_type]. unfold wire_of. cbn [fst snd]. rewrite dec_msg_eq. cbn [lens flat_map app concat].
  rewrite app_nil_r.
  pose proof (recs_fields_wf fs vs 1 Hg Hwf) as W. pose proof (small_of_content _ Hs) as Sm.
  rewrite records_content.
  2:{ apply Forall_forall. intros tr Hin. rewrite Forall_forall in W, Sm. specialize (W tr Hin). specialize (Sm tr Hin).
      destruct W as [[W1 W2] W3]. unfold max_fields in Hn. change (2 ^ 29) with 536870912 in *.
      split; [lia|]. split; assumption. }
  rewrite pb_seq_eq.
  pose proof (DFields fs HF vs 1 [] Hg Hwf (Forall_nil _) Sm) as D. cbn [app] in D. rewrite D. reflexivity.
Qed.

Lemma find_numbered w : forall alts k j a v,
  nth_alt alts j = Some a -> wire_ok (field_type a) w = true -> dec_field (field_type a) [w] = Some v ->
  dec_find (k + j) w (number_from k (map field_type alts)) = Some (Some v).
Proof.
  induction alts as [|a0 r IH]; intros k j a v Hn Hw Hd; [discriminate|].
  cbn [nth_alt] in Hn. cbn [map number_from dec_find].
  destruct (j =? 0) eqn:Ej.
  - injection Hn as ->. assert ((k =? k + j) = true) as -> by lia. rewrite Hw, Hd. reflexivity.
  - assert ((k =? k + j) = false) as -> by lia. cbn [andb].
    replace (k + j) with (k + 1 + (j - 1)) by lia. apply (IH (k + 1) (j - 1) a v Hn Hw Hd).
Qed.

Lemma DF_choice alts : Forall DF alts -> DF (TChoice alts).
Proof.
  intros HF v Hg Hwf Hsm. destruct v as [| | | | | | | | | |i x]; try discriminate Hwf.
  rewrite recs_choice_eq in Hsm |- *. rewrite wf_choice_eq in Hwf. unfold recs_alt in *.
  cbn [good] in Hg. apply andb_true_iff in Hg. destruct Hg as [Hg Hga]. apply andb_true_iff in Hg. destruct Hg as [_ Hn].
  destruct (nth_alt alts i) as [a|] eqn:Ea; [|discriminate].
  destruct (nth_alt_in alts i a Ea) as [Hin Hi].
  rewrite forallb_forall in Hga. specialize (Hga a Hin). apply andb_true_iff in Hga. destruct Hga as [Hsa Hgda].
  rewrite Forall_forall in HF. specialize (HF a Hin).
  destruct (single_shape a x Hsa Hwf) as (ra & Era & Hrw).
  assert (Hi' : i + 1 < 2 ^ 29) by (unfold max_fields in Hn; change (2 ^ 29) with 536870912 in *; lia).
  assert (Hu : u32_of_u64 i = i) by (unfold u32_of_u64, two32; apply N.mod_small; change (2 ^ 29) with 536870912 in *; lia).
  rewrite Era, Hu in Hsm |- *. cbn [map] in Hsm |- *.
  inversion Hsm as [|? ? Hs _]; subst. change (nlen (content [(i + 1, ra)]) < two64) in Hs.
  pose proof (small_of_content _ Hs) as Sm. inversion Sm as [|? ? Sra _]; subst. cbn [snd] in Sra.
  cbn [field_type]. unfold wire_of at 1. cbn [fst snd]. rewrite dec_msg_eq. cbn [lens flat_map app concat].
  rewrite app_nil_r. rewrite records_content.
  2:{ constructor; [|constructor]. cbn [fst snd]. split; [lia|]. split; assumption. }
  cbn [wrecs map fst snd]. rewrite pb_choice_eq, Ea.
  pose proof (HF x Hgda Hwf) as D. rewrite Era in D. cbn [map] in D.
  specialize (D (Forall_cons _ Sra (Forall_nil _))).
  cbn [dec_fields dec_scan].
  replace (i + 1) with (1 + i) at 1 by lia.
  rewrite (find_numbered (wire_of ra) alts 1 i a (pb_field a x) Ea (wire_ok_single a x ra Hsa Hwf Era) D).
  cbn [option_map]. replace (1 + i) with (i + 1) by lia. reflexivity.
Qed.

Theorem decoder_inverts : forall t, DF t.
Proof.
  induction t as [| k | | | | | n | fs IH | t' IH | alts IH] using pty_ind2.
  - apply DF_bool.
  - apply DF_int.
  - intros v _ Hwf _. destruct v; try discriminate Hwf. reflexivity.
  - intros v _ Hwf _. destruct v; try discriminate Hwf. reflexivity.
  - apply DF_bits.
  - intros v _ Hwf _. destruct v; try discriminate Hwf. reflexivity.
  - apply DF_enum.
  - apply DF_seq, IH.
  - apply DF_seqof, IH.
  - apply DF_choice, IH.
Qed.

(** * top level *)
Theorem decodes_good m t v msg :
  top_ok t = true -> good t = true -> wf_val t v = true -> schema_of t = Some msg ->
  exists bs, pwrite m t v = Ok bs /\
    (nlen bs < two64 -> exists vals, pb_decode msg bs = Some vals /\ pb_of_val t v = Some vals).
Proof.
  intros Ht Hg Hwf Hsch. destruct (top_write m t v Ht Hwf) as (r & Er & Ew).
  exists (snd r). split; [exact Ew|]. intros Hlen.
  pose proof (decoder_inverts t v Hg Hwf) as D. rewrite Er in D. cbn [map] in D.
  specialize (D (Forall_cons r (Hlen : small r) (Forall_nil _))).
  unfold schema_of in Hsch. unfold pb_decode, pb_of_val.
  destruct t; try discriminate Ht; try discriminate Hsch; destruct v as [| | | | | | |vs| | |i x]; try discriminate Hwf.
  - rewrite recs_seq_eq in Er. injection Er as <-. cbn [field_type] in Hsch, D. injection Hsch as <-.
    unfold wire_of in D. cbn [fst snd] in D |- *. rewrite D, pb_seq_eq. eexists; split; reflexivity.
  - rewrite recs_choice_eq in Er. injection Er as <-. cbn [field_type] in Hsch, D. injection Hsch as <-.
    unfold wire_of in D. cbn [fst snd] in D |- *. rewrite D, pb_choice_eq. eexists; split; reflexivity.
Qed.

(* the finding classes of C18 inside the type universe are those of C17 (a NULL or SEQUENCE OF alternative of a
   CHOICE, nested lists, lists of NULL, BitVec excess bytes); the SET numbering class lives at the declaration
   level ([decl]) *)
Definition Known_C18 (t : pty) (v : pval) : Prop := Known_C17 t v.

Theorem decodes_unbounded m t v msg :
  wf_pty t -> wf_pval t v -> ~ Known_C18 t v -> schema_of t = Some msg ->
  exists bs, pwrite m t v = Ok bs /\
    (nlen bs < two64 -> exists vals, pb_decode msg bs = Some vals /\ pb_of_val t v = Some vals).
Proof.
  intros [Ht Hs] Hl Hk Hsch.
  assert (Hg : good t = true) by (apply good_of_sized; [exact Hs|intros K; apply Hk; left; exact K]).
  assert (Hwf : wf_val t v = true).
  { apply wf_of_lax; [exact Hl|]. destruct (excess t v) eqn:E; [exfalso; apply Hk; right; exact E|reflexivity]. }
  exact (decodes_good m t v msg Ht Hg Hwf Hsch).
Qed.
