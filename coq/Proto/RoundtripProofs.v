(* Proto/RoundtripProofs.v -- C17: the protobuf Reader reads back what the Writer wrote (unbounded, by
   induction on the type universe), up to ProtobufEq. *)
From A1 Require Import Proto.Wire Proto.Rw Proto.Proofs Proto.RwLemmas.
Require Import ZifyBool ZifyNat ZifyN.
Local Open Scope N_scope.

(** * named versions of the local fixpoints of [rd] and [peq] *)
Definition rd_fields (m : mode) (src : list N) :=
  fix fields (fs : list (bool * pty)) (st : rstate) {struct fs} : res (list pval * rstate) :=
    match fs with
    | [] => Ok ([], st)
    | (false, t) :: fs' =>
        let! (v, st1) := rd m src t st in
        let! (vs, st2) := fields fs' st1 in Ok (v :: vs, st2)
    | (true, t) :: fs' =>
        if hast_next_tag st then
          let! (v, st1) := rd m src t st in
          let! (vs, st2) := fields fs' st1 in Ok (VOpt (Some v) :: vs, st2)
        else
          let! (vs, st2) := fields fs' (increment_tag_counter st) in Ok (VOpt None :: vs, st2)
    end.

Definition rd_loop (m : mode) (src : list N) (t' : pty) (tc : N) :=
  fix loop (pending : list tagentry) {struct pending} : res (list pval * list tagentry) :=
    match pending with
    | [] => Ok ([], [])
    | (tag, f, r) :: rest =>
        if tag =? tc then
          let! (v, _) := rd m src t' (Root r) in
          let! (vs, kept) := loop rest in Ok (v :: vs, kept)
        else
          let! (vs, kept) := loop rest in Ok (vs, (tag, f, r) :: kept)
    end.

Lemma rd_seq_eq m src fs st :
  rd m src (TSeq fs) st =
  let '(o, st') := next_tag_range true (Some LengthDelimited) st in
  let! enc := index_enclosed src (unwrap_or o (0, 0)) in
  let! (vs, _) := rd_fields m src fs enc in
  Ok (VSeq vs, st').
Proof. reflexivity. Qed.

Lemma rd_seqof_eq m src t' tc tags :
  rd m src (TSeqOf t') (Enclosed tc tags) =
  let! (vs, kept) := rd_loop m src t' tc tags in Ok (VList vs, Enclosed (tc + 1) kept).
Proof. reflexivity. Qed.

Lemma rd_choice_eq m src alts st :
  rd m src (TChoice alts) st =
  let '(o, st') := next_tag_range true None st in
  match o with
  | None => Err E_MISSING
  | Some (s, e) =>
      let! sl := slice src (s, e) in
      let! (tag, fmt, rest) := read_tag sl in
      let! rest' := (if format_eqb fmt LengthDelimited
                     then let! (_, r2) := read_varint rest in Ok r2 else Ok rest) in
      let read := nlen sl - nlen rest' in
      let inner := Enclosed 1 [(1, fmt, (s + read, e))] in
      let idx := tag - 1 in
      let! ov := match nth_alt alts idx with
                 | Some a => let! (v, _) := rd m src a inner in Ok (Some v)
                 | None => Ok None
                 end in
      match ov with
      | Some v => Ok (VChoice idx v, st')
      | None => Err E_UNEXPECTED_TAG
      end
  end.
Proof.
  cbn [rd]. destruct (next_tag_range true None st) as [o st']. destruct o as [[s e]|]; [|reflexivity].
  destruct (slice src (s, e)) as [sl| |]; cbn [bind]; try reflexivity.
  destruct (read_tag sl) as [[[tag fmt] rest]| |]; cbn [bind]; try reflexivity.
  match goal with |- bind ?X _ = bind ?X _ => destruct X as [rest'| |]; cbn [bind]; try reflexivity end.
  cbv zeta.
  match goal with |- bind ?X _ = bind ?Y _ => assert (E : X = Y); [|rewrite E; reflexivity] end.
  generalize (tag - 1). induction alts as [|a r IH]; intros j; cbn [nth_alt]; [reflexivity|].
  destruct (j =? 0); [reflexivity|apply IH].
Qed.

Definition peq_fields :=
  fix fields (fs : list (bool * pty)) (xs ys : list pval) {struct fs} : bool :=
    match fs, xs, ys with
    | [], [], [] => true
    | (false, t) :: fs', x :: xs', y :: ys' => peq t x y && fields fs' xs' ys'
    | (true, t) :: fs', VOpt ox :: xs', VOpt oy :: ys' =>
        match ox, oy with
        | Some x, Some y => peq t x y
        | Some x, None => pval_eqb x (default_of t)
        | None, Some y => pval_eqb (default_of t) y
        | None, None => true
        end && fields fs' xs' ys'
    | _, _, _ => false
    end.
Definition peq_all2 (t' : pty) :=
  fix all2 (xs ys : list pval) {struct xs} : bool :=
    match xs, ys with
    | [], [] => true
    | x :: xs', y :: ys' => peq t' y x && all2 xs' ys'
    | _, _ => false
    end.
Lemma peq_seq_eq fs xs ys : peq (TSeq fs) (VSeq xs) (VSeq ys) = peq_fields fs xs ys.
Proof. reflexivity. Qed.
Lemma peq_seqof_eq t' xs ys : peq (TSeqOf t') (VList xs) (VList ys) = peq_all2 t' xs ys.
Proof. reflexivity. Qed.
Lemma peq_choice_eq alts i x j y :
  peq (TChoice alts) (VChoice i x) (VChoice j y) =
  (i =? j) && match nth_alt alts i with Some a => peq a x y | None => false end.
Proof.
  cbn [peq]. f_equal. generalize i. induction alts as [|a r IH]; intros k; cbn [nth_alt]; [reflexivity|].
  destruct (k =? 0); [reflexivity|apply IH].
Qed.

(** * byte ranges *)
Definition at_range (src : list N) (rg : range) (p : list N) : Prop :=
  exists pre post, src = pre ++ p ++ post /\ rg = (nlen pre, nlen pre + nlen p).

Lemma nlen_app a b : nlen (a ++ b) = nlen a + nlen b.
Proof. unfold nlen. rewrite app_length. lia. Qed.

Lemma slice_at src rg p : at_range src rg p -> slice src rg = Ok p.
Proof.
  intros (pre & post & -> & ->). unfold slice.
  assert ((nlen pre + nlen p <? nlen pre) = false) as -> by lia.
  assert ((N.of_nat (length (pre ++ p ++ post)) <? nlen pre + nlen p) = false) as ->.
  { fold (nlen (pre ++ p ++ post)). rewrite !nlen_app. lia. }
  unfold nlen. rewrite Nat2N.id. rewrite skipn_app, skipn_all, Nat.sub_diag. cbn [app skipn].
  replace (N.to_nat (N.of_nat (length pre) + N.of_nat (length p) - N.of_nat (length pre))) with (length p + 0)%nat by lia.
  rewrite firstn_app_2. cbn [firstn]. apply f_equal, app_nil_r.
Qed.

Lemma at_range_bound src rg p : at_range src rg p -> nlen p <= nlen src /\ snd rg <= nlen src.
Proof. intros (pre & post & -> & ->). cbn [snd]. rewrite !nlen_app. lia. Qed.

(** * records *)
Definition rec_wf (r : prec) : Prop :=
  match fst r with
  | VarInt => exists x, x < two64 /\ snd r = write_varint x
  | LengthDelimited => True
  | _ => False
  end.

Definition ent_ok (src : list N) (e : tagentry) (tr : N * prec) : Prop :=
  fst (fst e) = fst tr /\ snd (fst e) = fst (snd tr) /\ at_range src (snd e) (snd (snd tr)).

Lemma write_tag_len tag f : 1 <= nlen (write_tag tag f).
Proof. unfold write_tag, nlen. pose proof (write_varint_len (tag_word tag f)). lia. Qed.

Lemma content_cons tag r trs : content ((tag, r) :: trs) = rec_bytes tag r ++ content trs.
Proof. reflexivity. Qed.

Lemma rec_bytes_len tag r : 1 <= nlen (rec_bytes tag r).
Proof. unfold rec_bytes. rewrite nlen_app. pose proof (write_tag_len tag (fst r)). lia. Qed.

Lemma content_len trs : N.of_nat (length trs) <= nlen (content trs).
Proof.
  induction trs as [|[tag r] trs IH]; [cbn; lia|].
  rewrite content_cons, nlen_app. pose proof (rec_bytes_len tag r). cbn [length]. lia.
Qed.

Lemma checked_end_ok a b e : a + b <= e -> e < two64 -> checked_end a b e = Ok (a + b).
Proof.
  intros H1 H2. unfold checked_end, usize_max.
  assert ((two64 - 1 <? a + b) = false) as -> by lia.
  assert ((e <? a + b) = false) as -> by lia. reflexivity.
Qed.

Lemma ie_loop_content : forall trs pre post acc fuel src position e,
  src = pre ++ content trs ++ post -> nlen src < two64 ->
  position = nlen pre -> e = nlen pre + nlen (content trs) ->
  Forall (fun tr => fst tr < 2 ^ 29 /\ rec_wf (snd tr)) trs ->
  (length trs < fuel)%nat ->
  exists ents, ie_loop fuel src position e acc = Ok (acc ++ ents) /\ Forall2 (ent_ok src) ents trs.
Proof.
  induction trs as [|[tag [f p]] trs IH]; intros pre post acc fuel src position e Hsrc Hlen Hpos He Hwf Hfuel.
  - destruct fuel as [|fuel]; [lia|]. cbn [ie_loop]. change (content []) with (@nil N) in He.
    assert ((position <? e) = false) as -> by (change (nlen []) with 0 in He; lia).
    exists []. rewrite app_nil_r. split; [reflexivity|constructor].
  - destruct fuel as [|fuel]; [cbn [length] in Hfuel; lia|]. cbn [ie_loop].
    inversion Hwf as [|? ? [Htag Hr] Hwf']; subst x l. cbn [fst snd] in Htag, Hr.
    rewrite content_cons in Hsrc, He.
    pose proof (rec_bytes_len tag (f, p)) as Hrl.
    assert ((position <? e) = true) as -> by (rewrite nlen_app in He; lia).
    assert (Hsl : slice src (position, e) = Ok (rec_bytes tag (f, p) ++ content trs)).
    { apply slice_at. exists pre, post. split; [exact Hsrc|subst; reflexivity]. }
    rewrite Hsl. cbn [bind].
    unfold rec_bytes at 1. cbn [fst]. rewrite <- app_assoc.
    rewrite tag_roundtrip by exact Htag. cbn [bind].
    set (wt := write_tag tag f) in *.
    assert (Hsrcb : nlen src = nlen pre + nlen (rec_bytes tag (f, p)) + nlen (content trs) + nlen post).
    { rewrite Hsrc. rewrite !nlen_app. lia. }
    unfold rec_bytes in Hsrcb, Hsrc, He. cbn [fst] in Hsrcb, Hsrc, He. fold wt in Hsrcb, Hsrc, He.
    rewrite !nlen_app in Hsrcb. rewrite !nlen_app in He.
    unfold rec_wf in Hr. cbn [fst snd] in Hr.
    destruct f; try contradiction.
    + (* VarInt *)
      destruct Hr as (x & Hx & ->). unfold rbody in *. cbn [fst snd] in *.
      unfold content_off_len. rewrite varint_roundtrip by exact Hx. cbn [bind].
      match goal with |- context [checked_end ?a ?b e] =>
        assert (Ha : a = nlen pre + nlen wt)
          by (unfold rec_bytes, rbody; cbn [fst snd]; rewrite ?nlen_app; fold wt; lia);
        assert (Hb : b = nlen (write_varint x)) by (rewrite ?nlen_app; lia);
        rewrite Ha, Hb end.
      set (cp := nlen pre + nlen wt). set (cl := nlen (write_varint x)).
      rewrite checked_end_ok by (unfold cp, cl; lia). cbn [bind].
      destruct (IH (pre ++ wt ++ write_varint x) post (acc ++ [(tag, VarInt, (cp, cp + cl))]) fuel src (cp + cl) e)
        as (ents & E1 & E2).
      * rewrite Hsrc. rewrite <- !app_assoc. reflexivity.
      * exact Hlen.
      * rewrite !nlen_app. lia.
      * rewrite !nlen_app. lia.
      * exact Hwf'.
      * cbn [length] in Hfuel. lia.
      * exists ((tag, VarInt, (cp, cp + cl)) :: ents). rewrite E1, <- app_assoc. split; [reflexivity|].
        constructor; [|exact E2]. unfold ent_ok. cbn [fst snd]. repeat split.
        exists (pre ++ wt), (content trs ++ post). split.
        -- rewrite Hsrc, <- !app_assoc. reflexivity.
        -- rewrite nlen_app. f_equal; lia.
    + (* LengthDelimited *)
      unfold rbody in *. cbn [fst snd] in *. rewrite !nlen_app in Hsrcb, He.
      unfold content_off_len. rewrite <- app_assoc.
      rewrite varint_roundtrip by lia. cbn [bind].
      set (wv := write_varint (nlen p)) in *.
      match goal with |- context [checked_end ?a ?b e] =>
        assert (Ha : a = nlen pre + nlen wt + nlen wv)
          by (unfold rec_bytes, rbody; cbn [fst snd]; rewrite ?nlen_app; fold wt; fold wv; lia);
        rewrite Ha end.
      set (cp := nlen pre + nlen wt + nlen wv).
      rewrite checked_end_ok by (unfold cp; lia). cbn [bind].
      destruct (IH (pre ++ wt ++ wv ++ p) post (acc ++ [(tag, LengthDelimited, (cp, cp + nlen p))]) fuel src (cp + nlen p) e)
        as (ents & E1 & E2).
      * rewrite Hsrc. rewrite <- !app_assoc. reflexivity.
      * exact Hlen.
      * rewrite !nlen_app. lia.
      * rewrite !nlen_app. lia.
      * exact Hwf'.
      * cbn [length] in Hfuel. lia.
      * exists ((tag, LengthDelimited, (cp, cp + nlen p)) :: ents). rewrite E1, <- app_assoc. split; [reflexivity|].
        constructor; [|exact E2]. unfold ent_ok. cbn [fst snd]. repeat split.
        exists (pre ++ wt ++ wv), (content trs ++ post). split.
        -- rewrite Hsrc, <- !app_assoc. reflexivity.
        -- rewrite !nlen_app. f_equal; lia.
Qed.

Lemma index_enclosed_content src rg trs :
  at_range src rg (content trs) -> nlen src < two64 ->
  Forall (fun tr => fst tr < 2 ^ 29 /\ rec_wf (snd tr)) trs ->
  exists ents, index_enclosed src rg = Ok (Enclosed 1 ents) /\ Forall2 (ent_ok src) ents trs.
Proof.
  intros (pre & post & Hsrc & ->) Hlen Hwf. unfold index_enclosed. cbn [fst snd].
  destruct (ie_loop_content trs pre post [] (length src + 2) src (nlen pre) (nlen pre + nlen (content trs)))
    as (ents & E1 & E2); auto.
  - pose proof (content_len trs) as H1.
    assert (nlen (content trs) <= nlen src) by (rewrite Hsrc, !nlen_app; lia).
    unfold nlen in *. lia.
  - exists ents. rewrite E1. cbn [bind app]. split; [reflexivity|exact E2].
Qed.

(** * the fragment of the type universe *)
Definition is_null (t : pty) : bool := match t with TNull => true | _ => false end.
Definition is_seqof (t : pty) : bool := match t with TSeqOf _ => true | _ => false end.
Definition single (t : pty) : bool := negb (is_null t) && negb (is_seqof t).
Definition max_fields : N := 2 ^ 29 - 1.

(* well-formed (non-empty ENUMERATED and CHOICE, field numbers representable) and outside the finding classes
   (no NULL / SEQUENCE OF alternative, no SEQUENCE OF SEQUENCE OF, no SEQUENCE OF NULL) *)
(* what the compiler produces for an extensible INTEGER: u64 when MIN (absent = 0) is not negative, i64 otherwise
   (needed for C18 only: the format follows the sign of MIN, the declared proto type follows the Rust type) *)
Definition wf_kind (k : pikind) : bool :=
  match k with
  | KExt false mn _ => (0 <=? unwrap_or mn 0)%Z
  | KExt true mn _ => (unwrap_or mn 0 <? 0)%Z
  | _ => true
  end.

Fixpoint good (t : pty) : bool :=
  match t with
  | TInt k => wf_kind k
  | TEnum n => (0 <? n) && (n <=? two32)
  | TSeq fs => (nl fs <? max_fields) && forallb (fun p => good (snd p)) fs
  | TSeqOf t' => single t' && good t'
  | TChoice alts => negb (is_nil alts) && (nl alts <? max_fields) && forallb (fun a => single a && good a) alts
  | _ => true
  end.

Lemma list_n_eqb_refl l : list_n_eqb l l = true.
Proof. induction l as [|x l IH]; cbn; [reflexivity|rewrite N.eqb_refl, IH; reflexivity]. Qed.

Definition peq2 (t : pty) (v v' : pval) : Prop := peq t v v' = true /\ peq t v' v = true.

Definition Head (st : rstate) (f : format) (rg : range) (st' : rstate) : Prop :=
  next_tag_range true (Some f) st = (Some rg, st') /\ next_tag_range true None st = (Some rg, st').

Lemma head_root rg f : Head (Root rg) f rg (Root rg).
Proof. split; reflexivity. Qed.
Lemma format_eqb_refl f : format_eqb f f = true.
Proof. destruct f; reflexivity. Qed.
Lemma head_enclosed tc f rg rest : Head (Enclosed tc ((tc, f, rg) :: rest)) f rg (Enclosed (tc + 1) rest).
Proof. split; cbn [next_tag_range take_tag]; rewrite N.eqb_refl, ?format_eqb_refl; reflexivity. Qed.

Lemma next_reader_head src st f rg st' p :
  Head st f rg st' -> at_range src rg p -> next_reader src f st = Ok (p, st').
Proof.
  intros [H _] Hr. unfold next_reader. rewrite H. cbn [unwrap_or]. rewrite (slice_at _ _ _ Hr). reflexivity.
Qed.

(* the shape of what a single-record type writes *)
Lemma single_shape t v : single t = true -> wf_val t v = true ->
  exists r, recs_of t v = [r] /\ rec_wf r.
Proof.
  intros Hs Hwf.
  destruct t; try discriminate Hs; destruct v; try discriminate Hwf.
  - eexists; split; [reflexivity|]. unfold rec_wf, write_bool. cbn [fst snd]. destruct b; eexists; (split; [|reflexivity]); reflexivity.
  - eexists; split; [reflexivity|]. unfold rec_wf. cbn [fst snd]. apply number_bytes_varint.
  - eexists; split; [reflexivity|exact I].
  - eexists; split; [reflexivity|exact I].
  - eexists; split; [reflexivity|exact I].
  - eexists; split; [reflexivity|]. unfold rec_wf, write_enum_variant, u32_of_u64. cbn [fst snd].
    eexists; split; [|reflexivity]. unfold two32, two64. lia.
  - rewrite recs_seq_eq. eexists; split; [reflexivity|exact I].
  - rewrite recs_choice_eq. eexists; split; [reflexivity|exact I].
Qed.

Lemma recs_wf t v : good t = true -> wf_val t v = true -> Forall rec_wf (recs_of t v).
Proof.
  intros Hg Hwf. destruct (single t) eqn:Hs.
  - destruct (single_shape t v Hs Hwf) as (r & -> & Hr). constructor; [exact Hr|constructor].
  - destruct t; try discriminate Hs; destruct v as [| | | | | | | | |l|]; try discriminate Hwf; cbn [recs_of]; [constructor|].
    cbn [good] in Hg. apply andb_true_iff in Hg. destruct Hg as [Hs' _]. cbn [wf_val] in Hwf.
    induction l as [|x l IH]; cbn [flat_map]; [constructor|].
    cbn [forallb] in Hwf. apply andb_true_iff in Hwf. destruct Hwf as [H1 H2].
    apply Forall_app. split; [|apply IH, H2].
    destruct (single_shape t x Hs' H1) as (r & -> & Hr). constructor; [exact Hr|constructor].
Qed.

(* nothing written: the value is the default (NULL, or an empty SEQUENCE OF) *)
Lemma recs_nil_default t v : good t = true -> wf_val t v = true -> recs_of t v = [] ->
  v = default_of t /\ pval_eqb v v = true.
Proof.
  intros Hg Hwf Hn. destruct (single t) eqn:Hs.
  - destruct (single_shape t v Hs Hwf) as (r & E & _). congruence.
  - destruct t; try discriminate Hs; destruct v as [| | | | | | | | |l|]; try discriminate Hwf; [split; reflexivity|].
    cbn [good] in Hg. apply andb_true_iff in Hg. destruct Hg as [Hs' _]. cbn [wf_val recs_of] in *.
    destruct l as [|x l]; [split; reflexivity|].
    cbn [forallb flat_map] in *. apply andb_true_iff in Hwf. destruct Hwf as [H1 _].
    destruct (single_shape t x Hs' H1) as (r & E & _). rewrite E in Hn. discriminate Hn.
Qed.

Definition good_fields (fs : list (bool * pty)) : bool := forallb (fun p => good (snd p)) fs.

Lemma recs_fields_wf fs : forall vs tag, good_fields fs = true -> wf_fields fs vs = true ->
  Forall (fun tr => tag <= fst tr < tag + nl fs /\ rec_wf (snd tr)) (recs_fields fs vs tag).
Proof.
  induction fs as [|[o t] fs IH]; intros vs tag Hg Hwf.
  - destruct vs; constructor.
  - cbn [good_fields forallb snd] in Hg. apply andb_true_iff in Hg. destruct Hg as [Hg1 Hg2].
    assert (TAIL : forall vs', wf_fields fs vs' = true ->
              Forall (fun tr => tag <= fst tr < tag + nl ((o, t) :: fs) /\ rec_wf (snd tr)) (recs_fields fs vs' (tag + 1))).
    { intros vs' H. eapply Forall_impl; [|apply (IH vs' (tag + 1) Hg2 H)].
      intros tr [H1 H2]. split; [|exact H2]. unfold nl in *. cbn [length]. lia. }
    assert (HEAD : forall v, wf_val t v = true ->
              Forall (fun tr => tag <= fst tr < tag + nl ((o, t) :: fs) /\ rec_wf (snd tr)) (map (pair tag) (recs_of t v))).
    { intros v H. apply Forall_forall. intros tr Hin. apply in_map_iff in Hin. destruct Hin as (r & <- & Hin).
      pose proof (recs_wf t v Hg1 H) as W. rewrite Forall_forall in W. cbn [fst snd].
      split; [unfold nl; cbn [length]; lia|apply W, Hin]. }
    destruct o.
    + destruct vs as [|v vs']; [discriminate|].
      destruct v as [| | | | | | | |ov| |]; try discriminate.
      destruct ov as [v|]; cbn [wf_fields recs_fields] in *.
      * apply andb_true_iff in Hwf. destruct Hwf as [H1 H2]. apply Forall_app. split; [apply HEAD, H1|apply TAIL, H2].
      * apply TAIL, Hwf.
    + destruct vs as [|v vs']; [discriminate|]. cbn [wf_fields recs_fields] in *.
      apply andb_true_iff in Hwf. destruct Hwf as [H1 H2]. apply Forall_app. split; [apply HEAD, H1|apply TAIL, H2].
Qed.

(** * the reader on what the writer wrote *)
Definition RS (m : mode) (t : pty) : Prop :=
  forall v src rg st st' r, good t = true -> wf_val t v = true -> nlen src < two64 ->
  recs_of t v = [r] -> at_range src rg (snd r) -> Head st (fst r) rg st' ->
  exists v', rd m src t st = Ok (v', st') /\ peq2 t v v'.

Definition RF (m : mode) (t : pty) : Prop :=
  forall v src tcr ents rest, good t = true -> wf_val t v = true -> nlen src < two64 ->
  Forall2 (ent_ok src) ents (map (pair tcr) (recs_of t v)) ->
  Forall (fun e : tagentry => fst (fst e) <> tcr) rest ->
  exists v', rd m src t (Enclosed tcr (ents ++ rest)) = Ok (v', Enclosed (tcr + 1) rest) /\ peq2 t v v'.

Lemma RF_of_RS m t : single t = true -> RS m t -> RF m t.
Proof.
  intros Hs HR v src tcr ents rest Hg Hwf Hlen Hents Hrest.
  destruct (single_shape t v Hs Hwf) as (r & E & Hr). rewrite E in Hents. cbn [map] in Hents.
  inversion Hents as [|e tr ents' l' He Hnil]; subst. inversion Hnil; subst.
  destruct e as [[tag f] rg]. destruct He as (H1 & H2 & H3). cbn [fst snd] in H1, H2, H3. subst tag f.
  cbn [app]. apply (HR v src rg _ _ r Hg Hwf Hlen E H3). apply head_enclosed.
Qed.

Lemma hast_false tcr ents : Forall (fun e : tagentry => fst (fst e) <> tcr) ents ->
  hast_next_tag (Enclosed tcr ents) = false.
Proof.
  intros H. cbn [hast_next_tag]. induction H as [|[[tag f] rg] l Hx _ IH]; [reflexivity|].
  cbn [existsb fst] in *. rewrite IH. assert ((tag =? tcr) = false) as -> by lia. reflexivity.
Qed.

Lemma loop_rest m src t' tcr rest : Forall (fun e : tagentry => fst (fst e) <> tcr) rest ->
  rd_loop m src t' tcr rest = Ok ([], rest).
Proof.
  induction 1 as [|[[tag f] rg] l Hx _ IH]; [reflexivity|].
  cbn [rd_loop fst] in *. assert ((tag =? tcr) = false) as -> by lia. rewrite IH. reflexivity.
Qed.

Lemma RF_seqof m t' : RS m t' -> RF m (TSeqOf t').
Proof.
  intros HR v src tcr ents rest Hg Hwf Hlen Hents Hrest.
  destruct v as [| | | | | | | | |vs|]; try discriminate Hwf.
  cbn [good] in Hg. apply andb_true_iff in Hg. destruct Hg as [Hs Hg].
  cbn [wf_val recs_of] in Hwf, Hents.
  assert (L : exists vs', rd_loop m src t' tcr (ents ++ rest) = Ok (vs', rest) /\
                          peq_all2 t' vs vs' = true /\ peq_all2 t' vs' vs = true).
  { revert ents Hents. induction vs as [|x vs IH]; intros ents Hents.
    - cbn [flat_map map] in Hents. inversion Hents; subst. cbn [app]. rewrite loop_rest by exact Hrest.
      exists []. repeat split; reflexivity.
    - cbn [forallb] in Hwf. apply andb_true_iff in Hwf. destruct Hwf as [H1 H2].
      destruct (single_shape t' x Hs H1) as (r & E & Hr).
      cbn [flat_map] in Hents. rewrite E in Hents. cbn [app map] in Hents.
      inversion Hents as [|e tr ents' l' He Htl]; subst.
      destruct e as [[tag f] rg]. destruct He as (E1 & E2 & E3). cbn [fst snd] in E1, E2, E3. subst tag f.
      destruct (IH H2 ents' Htl) as (vs' & L1 & L2 & L3).
      destruct (HR x src rg (Root rg) (Root rg) r Hg H1 Hlen E E3 (head_root rg (fst r))) as (x' & R1 & R2 & R3).
      cbn [app rd_loop]. rewrite N.eqb_refl, R1. cbn [bind]. rewrite L1. cbn [bind].
      exists (x' :: vs'). split; [reflexivity|]. cbn [peq_all2]. rewrite L2, L3, R2, R3. split; reflexivity. }
  destruct L as (vs' & L1 & L2 & L3).
  exists (VList vs'). rewrite rd_seqof_eq, L1. cbn [bind]. split; [reflexivity|].
  split; rewrite peq_seqof_eq; assumption.
Qed.

Lemma RF_null m : RF m TNull.
Proof.
  intros v src tcr ents rest Hg Hwf Hlen Hents Hrest.
  destruct v; try discriminate Hwf. cbn [recs_of map] in Hents. inversion Hents; subst.
  exists VNull. split; [reflexivity|split; reflexivity].
Qed.

Lemma ents_tags src ents trs lo :
  Forall2 (ent_ok src) ents trs -> Forall (fun tr => lo <= fst tr) trs ->
  Forall (fun e : tagentry => lo <= fst (fst e)) ents.
Proof.
  induction 1 as [|e tr ents trs He _ IH]; intros H; [constructor|].
  inversion H; subst. constructor; [destruct He as [-> _]; assumption|apply IH; assumption].
Qed.

Lemma RFields m src fs : Forall (fun p => RF m (snd p)) fs -> nlen src < two64 ->
  forall vs tcr ents, good_fields fs = true -> wf_fields fs vs = true ->
  Forall2 (ent_ok src) ents (recs_fields fs vs tcr) ->
  exists vs' st, rd_fields m src fs (Enclosed tcr ents) = Ok (vs', st) /\
                 peq_fields fs vs vs' = true /\ peq_fields fs vs' vs = true.
Proof.
  intros HF Hlen. induction HF as [|[o t] fs Ht _ IH]; intros vs tcr ents Hg Hwf Hents.
  - destruct vs; [|discriminate]. exists [], (Enclosed tcr ents). repeat split; reflexivity.
  - cbn [snd] in Ht. cbn [good_fields forallb snd] in Hg. apply andb_true_iff in Hg. destruct Hg as [Hg1 Hg2].
    (* the entries of the later fields do not carry the current number *)
    assert (LATER : forall vs' e2, wf_fields fs vs' = true -> Forall2 (ent_ok src) e2 (recs_fields fs vs' (tcr + 1)) ->
              Forall (fun e : tagentry => fst (fst e) <> tcr) e2).
    { intros vs' e2 H2 F2. pose proof (recs_fields_wf fs vs' (tcr + 1) Hg2 H2) as W.
      eapply Forall_impl; [|apply (ents_tags src e2 _ (tcr + 1) F2)].
      - intros e. cbv beta. lia.
      - eapply Forall_impl; [|exact W]. intros tr [[H _] _]. exact H. }
    (* a present component *)
    assert (PRESENT : forall v vs', wf_val t v = true -> wf_fields fs vs' = true ->
              Forall2 (ent_ok src) ents (map (pair tcr) (recs_of t v) ++ recs_fields fs vs' (tcr + 1)) ->
              exists e2 v' vs2 st, rd m src t (Enclosed tcr ents) = Ok (v', Enclosed (tcr + 1) e2) /\ peq2 t v v' /\
                rd_fields m src fs (Enclosed (tcr + 1) e2) = Ok (vs2, st) /\
                peq_fields fs vs' vs2 = true /\ peq_fields fs vs2 vs' = true /\
                (recs_of t v = [] -> ents = e2) /\ (recs_of t v <> [] -> hast_next_tag (Enclosed tcr ents) = true)).
    { intros v vs' H1 H2 F. apply Forall2_app_inv_r in F. destruct F as (e1 & e2 & F1 & F2 & ->).
      destruct (Ht v src tcr e1 e2 Hg1 H1 Hlen F1 (LATER vs' e2 H2 F2)) as (v' & R1 & R2).
      destruct (IH vs' (tcr + 1) e2 Hg2 H2 F2) as (vs2 & st & R3 & R4 & R5).
      exists e2, v', vs2, st. repeat split; try assumption; try apply R2.
      - intros En. rewrite En in F1. inversion F1; subst. reflexivity.
      - intros Hne. destruct (recs_of t v) as [|r rs]; [congruence|]. cbn [map] in F1.
        inversion F1 as [|e tr e1' l' He _]; subst. destruct e as [[tag f] rg]. destruct He as [He _]. cbn [fst] in He.
        subst tag. cbn [hast_next_tag app existsb]. rewrite N.eqb_refl. reflexivity. }
    destruct o.
    + destruct vs as [|v vs']; [discriminate|].
      destruct v as [| | | | | | | |ov| |]; try discriminate.
      destruct ov as [v|]; cbn [wf_fields recs_fields] in Hwf, Hents.
      * apply andb_true_iff in Hwf. destruct Hwf as [H1 H2].
        destruct (PRESENT v vs' H1 H2 Hents) as (e2 & v' & vs2 & st & R1 & [R2a R2b] & R3 & R4 & R5 & N1 & N2).
        cbn [rd_fields].
        destruct (recs_of t v) as [|r0 rs0] eqn:En.
        -- (* nothing was written: reads back as absent *)
           specialize (N1 eq_refl). subst e2.
           pose proof (LATER vs' ents H2 Hents) as Hl. rewrite (hast_false tcr ents Hl).
           cbn [increment_tag_counter]. rewrite R3. cbn [bind].
           destruct (recs_nil_default t v Hg1 H1 En) as [Ed Er].
           exists (VOpt None :: vs2), st. split; [reflexivity|]. cbn [peq_fields]. rewrite R4, R5.
           rewrite <- Ed, Er. split; reflexivity.
        -- rewrite N2 by discriminate. rewrite R1. cbn [bind]. rewrite R3. cbn [bind].
           exists (VOpt (Some v') :: vs2), st. split; [reflexivity|]. cbn [peq_fields]. rewrite R2a, R2b, R4, R5.
           split; reflexivity.
      * pose proof (LATER vs' ents Hwf Hents) as Hl. cbn [rd_fields]. rewrite (hast_false tcr ents Hl).
        cbn [increment_tag_counter].
        destruct (IH vs' (tcr + 1) ents Hg2 Hwf Hents) as (vs2 & st & R3 & R4 & R5).
        rewrite R3. cbn [bind]. exists (VOpt None :: vs2), st. split; [reflexivity|]. cbn [peq_fields].
        rewrite R4, R5. split; reflexivity.
    + destruct vs as [|v vs']; [discriminate|]. cbn [wf_fields recs_fields] in Hwf, Hents.
      apply andb_true_iff in Hwf. destruct Hwf as [H1 H2].
      destruct (PRESENT v vs' H1 H2 Hents) as (e2 & v' & vs2 & st & R1 & [R2a R2b] & R3 & R4 & R5 & _).
      cbn [rd_fields]. rewrite R1. cbn [bind]. rewrite R3. cbn [bind].
      exists (v' :: vs2), st. split; [reflexivity|]. cbn [peq_fields]. rewrite R2a, R2b, R4, R5. split; reflexivity.
Qed.

Lemma write_varint_not_nil v : is_nil (write_varint v) = false.
Proof. pose proof (write_varint_nonempty v). destruct (write_varint v); [congruence|reflexivity]. Qed.

Lemma RS_bool m : RS m TBool.
Proof.
  intros v src rg st st' r Hg Hwf Hlen Hr Hat Hh.
  destruct v as [b| | | | | | | | | |]; try discriminate Hwf. cbn [recs_of] in Hr. injection Hr as <-. cbn [fst snd] in *.
  cbn [rd]. rewrite (next_reader_head src st VarInt rg st' _ Hh Hat). cbn [bind].
  unfold write_bool. rewrite write_varint_not_nil. unfold read_bool.
  rewrite read_varint_self by (destruct b; reflexivity). cbn [bind].
  exists (VBool b). split; [destruct b; reflexivity|]. split; cbn; apply eqb_reflx.
Qed.

Lemma RS_int m k : RS m (TInt k).
Proof.
  intros v src rg st st' r Hg Hwf Hlen Hr Hat Hh.
  destruct v as [|z| | | | | | | | |]; try discriminate Hwf. cbn [recs_of] in Hr. injection Hr as <-. cbn [fst snd] in *.
  cbn [rd]. rewrite (next_reader_head src st VarInt rg st' _ Hh Hat). cbn [bind].
  destruct (number_bytes_varint k z) as (x & Hx & Ex).
  assert (is_nil (number_bytes k z) = false) as -> by (rewrite Ex; apply write_varint_not_nil).
  cbn [wf_val] in Hwf. rewrite (number_roundtrip k z Hwf). cbn [bind].
  exists (VInt z). split; [reflexivity|]. split; cbn; apply Z.eqb_refl.
Qed.

Lemma RS_str m : RS m TStr.
Proof.
  intros v src rg st st' r Hg Hwf Hlen Hr Hat Hh.
  destruct v as [| |s| | | | | | | |]; try discriminate Hwf. cbn [recs_of] in Hr. injection Hr as <-. cbn [fst snd] in *.
  cbn [rd]. rewrite (next_reader_head src st LengthDelimited rg st' _ Hh Hat). cbn [bind].
  cbn [wf_val] in Hwf. apply andb_true_iff in Hwf. destruct Hwf as [_ Hu]. unfold read_string. rewrite Hu. cbn [bind].
  exists (VStr s). split; [reflexivity|]. split; cbn; apply list_n_eqb_refl.
Qed.

Lemma RS_bytes m : RS m TBytes.
Proof.
  intros v src rg st st' r Hg Hwf Hlen Hr Hat Hh.
  destruct v as [| | |l| | | | | | |]; try discriminate Hwf. cbn [recs_of] in Hr. injection Hr as <-. cbn [fst snd] in *.
  cbn [rd]. rewrite (next_reader_head src st LengthDelimited rg st' _ Hh Hat). cbn [bind read_bytes].
  exists (VBytes l). split; [reflexivity|]. split; cbn; apply list_n_eqb_refl.
Qed.

Lemma RS_bits m : RS m TBits.
Proof.
  intros v src rg st st' r Hg Hwf Hlen Hr Hat Hh.
  destruct v as [| | | |bytes n| | | | | |]; try discriminate Hwf.
  change (recs_of TBits (VBits bytes n)) with [(LengthDelimited, bytes ++ be_bytes 8 n)] in Hr.
  assert (Er : r = (LengthDelimited, bytes ++ be_bytes 8 n)) by congruence. subst r. clear Hr. cbn [fst snd] in Hat, Hh.
  cbn [rd]. rewrite (next_reader_head src st LengthDelimited rg st' _ Hh Hat). cbn [bind]. unfold read_bytes. cbn [bind].
  cbn [wf_val] in Hwf. apply andb_true_iff in Hwf. destruct Hwf as [Hwf Hn]. apply andb_true_iff in Hwf. destruct Hwf as [_ Hl].
  set (p := bytes ++ be_bytes 8 n).
  assert (Lp : length p = (length bytes + 8)%nat) by (unfold p; rewrite app_length, be_bytes_length; reflexivity).
  assert (is_nil p = false) as -> by (destruct p; [cbn [length] in Lp; lia|reflexivity]).
  assert ((length p <? 8)%nat = false) as -> by (apply Nat.ltb_ge; lia).
  unfold bitvec_from_trailing. assert ((length p <? 8)%nat = false) as -> by (apply Nat.ltb_ge; lia).
  replace (length p - 8)%nat with (length bytes) by lia. unfold p.
  rewrite firstn_app, Nat.sub_diag, firstn_all, skipn_app, skipn_all, Nat.sub_diag. cbn [firstn skipn app].
  rewrite app_nil_r. rewrite be_bytes_small by (change (256 ^ N.of_nat 8) with two64; unfold two64, two32 in *; lia).
  cbn [bind]. exists (VBits bytes n). split; [reflexivity|].
  split; cbn; rewrite list_n_eqb_refl, N.eqb_refl; reflexivity.
Qed.

Lemma RS_enum m n : RS m (TEnum n).
Proof.
  intros v src rg st st' r Hg Hwf Hlen Hr Hat Hh.
  destruct v as [| | | | | |i| | | |]; try discriminate Hwf. cbn [recs_of] in Hr. injection Hr as <-. cbn [fst snd] in *.
  cbn [good wf_val] in Hg, Hwf.
  assert (Hi : u32_of_u64 i = i) by (unfold u32_of_u64, two32 in *; apply N.mod_small; lia).
  rewrite Hi in Hat. unfold write_enum_variant in Hat.
  cbn [rd]. destruct Hh as [Hh _]. rewrite Hh. rewrite (slice_at _ _ _ Hat). cbn [bind].
  rewrite read_varint_self by (unfold two32, two64 in *; lia). cbn [bind]. rewrite Hwf.
  exists (VEnum i). split; [reflexivity|]. split; cbn; apply N.eqb_refl.
Qed.

Lemma RS_seq m fs : Forall (fun p => RF m (snd p)) fs -> RS m (TSeq fs).
Proof.
  intros HF v src rg st st' r Hg Hwf Hlen Hr Hat Hh.
  destruct v as [| | | | | | |vs| | |]; try discriminate Hwf. rewrite recs_seq_eq in Hr. injection Hr as <-. cbn [fst snd] in *.
  cbn [good] in Hg. apply andb_true_iff in Hg. destruct Hg as [Hn Hg]. rewrite wf_seq_eq in Hwf.
  pose proof (recs_fields_wf fs vs 1 Hg Hwf) as W.
  destruct (index_enclosed_content src rg (recs_fields fs vs 1) Hat Hlen) as (ents & I1 & I2).
  { eapply Forall_impl; [|exact W]. intros tr [[H1 H2] H3]. split; [|exact H3]. unfold max_fields in Hn.
    change (2 ^ 29) with 536870912 in *. lia. }
  destruct (RFields m src fs HF Hlen vs 1 ents Hg Hwf I2) as (vs' & stf & R1 & R2 & R3).
  rewrite rd_seq_eq. destruct Hh as [Hh _]. rewrite Hh. cbn [unwrap_or]. rewrite I1. cbn [bind]. rewrite R1. cbn [bind].
  exists (VSeq vs'). split; [reflexivity|]. split; rewrite peq_seq_eq; assumption.
Qed.

(* reading a CHOICE whose (only) record lies at [rg] *)
Lemma RS_choice_body m alts i x a src rg st st' r :
  RS m a -> good a = true -> single a = true -> wf_val a x = true -> nlen src < two64 ->
  nth_alt alts i = Some a -> i + 1 < 2 ^ 29 ->
  recs_of a x = [r] -> rec_wf r ->
  at_range src rg (rec_bytes (i + 1) r) ->
  next_tag_range true None st = (Some rg, st') ->
  exists v', rd m src (TChoice alts) st = Ok (v', st') /\ peq2 (TChoice alts) (VChoice i x) v'.
Proof.
  intros HR Hga Hsa Hwa Hlen Ha Hi Hr Hrw Hat Hh.
  destruct rg as [s e]. rewrite rd_choice_eq, Hh. rewrite (slice_at _ _ _ Hat). cbn [bind].
  unfold rec_bytes at 1. rewrite tag_roundtrip by exact Hi. cbn [bind].
  destruct Hat as (pre & post & Hsrc & Hrg). injection Hrg as Hs He.
  destruct r as [f p]. cbn [fst snd] in *.
  (* after the optional length prefix the payload remains *)
  assert (REST : (if format_eqb f LengthDelimited
                  then let! (_, r2) := read_varint (rbody (f, p)) in Ok r2 else Ok (rbody (f, p))) = Ok p
                 /\ exists hdr, rec_bytes (i + 1) (f, p) = hdr ++ p).
  { unfold rec_wf in Hrw. cbn [fst snd] in Hrw. unfold rec_bytes, rbody. cbn [fst snd].
    destruct f; try contradiction.
    - split; [reflexivity|]. eexists; reflexivity.
    - assert (Hp : nlen p < two64).
      { assert (nlen p <= nlen src); [|lia]. rewrite Hsrc. unfold rec_bytes, rbody. cbn [fst snd]. rewrite !nlen_app. lia. }
      change (format_eqb LengthDelimited LengthDelimited) with true. cbv iota.
      rewrite varint_roundtrip by exact Hp. cbn [bind]. split; [reflexivity|].
      exists (write_tag (i + 1) LengthDelimited ++ write_varint (nlen p)). rewrite <- app_assoc. reflexivity. }
  destruct REST as [REST (hdr & Hhdr)]. rewrite REST. cbn [bind]. cbv zeta.
  replace (i + 1 - 1) with i by lia. rewrite Ha.
  set (rg' := (s + (nlen (rec_bytes (i + 1) (f, p)) - nlen p), e)).
  assert (Hat' : at_range src rg' p).
  { exists (pre ++ hdr), post. split.
    - rewrite Hsrc, Hhdr, <- !app_assoc. reflexivity.
    - unfold rg'. rewrite Hhdr in *. rewrite !nlen_app in *. f_equal; lia. }
  destruct (HR x src rg' (Enclosed 1 [(1, f, rg')]) (Enclosed (1 + 1) []) (f, p) Hga Hwa Hlen Hr Hat'
              (head_enclosed 1 f rg' [])) as (x' & R1 & R2 & R3).
  rewrite R1. cbn [bind]. exists (VChoice i x'). split; [reflexivity|].
  split; rewrite peq_choice_eq, N.eqb_refl, Ha; assumption.
Qed.

Lemma RS_choice m alts : Forall (fun a => single a = true -> RS m a) alts -> RS m (TChoice alts).
Proof.
  intros HF v src rg st st' r Hg Hwf Hlen Hr Hat Hh.
  destruct v as [| | | | | | | | | |i x]; try discriminate Hwf. rewrite recs_choice_eq in Hr. injection Hr as <-. cbn [fst snd] in *.
  cbn [good] in Hg. apply andb_true_iff in Hg. destruct Hg as [Hg Hga]. apply andb_true_iff in Hg. destruct Hg as [_ Hn].
  rewrite wf_choice_eq in Hwf. unfold recs_alt in Hat.
  destruct (nth_alt alts i) as [a|] eqn:Ea; [|discriminate].
  destruct (nth_alt_in alts i a Ea) as [Hin Hi].
  rewrite forallb_forall in Hga. specialize (Hga a Hin). apply andb_true_iff in Hga. destruct Hga as [Hsa Hgda].
  rewrite Forall_forall in HF. specialize (HF a Hin Hsa).
  destruct (single_shape a x Hsa Hwf) as (ra & Era & Hrw).
  assert (Hi' : i + 1 < 2 ^ 29) by (unfold max_fields in Hn; change (2 ^ 29) with 536870912 in *; lia).
  assert (Hu : u32_of_u64 i = i) by (unfold u32_of_u64, two32; apply N.mod_small; change (2 ^ 29) with 536870912 in *; lia).
  rewrite Era, Hu in Hat. cbn [map] in Hat. rewrite content_one in Hat.
  destruct Hh as [_ Hh].
  apply (RS_choice_body m alts i x a src rg st st' ra HF Hgda Hsa Hwf Hlen Ea Hi' Era Hrw Hat Hh).
Qed.

Theorem reader_inverts m : forall t, (single t = true -> RS m t) /\ RF m t.
Proof.
  induction t as [| k | | | | | n | fs IH | t' IH | alts IH] using pty_ind2.
  - split; [intros _; apply RS_bool|apply RF_of_RS; [reflexivity|apply RS_bool]].
  - split; [intros _; apply RS_int|apply RF_of_RS; [reflexivity|apply RS_int]].
  - split; [intros _; apply RS_str|apply RF_of_RS; [reflexivity|apply RS_str]].
  - split; [intros _; apply RS_bytes|apply RF_of_RS; [reflexivity|apply RS_bytes]].
  - split; [intros _; apply RS_bits|apply RF_of_RS; [reflexivity|apply RS_bits]].
  - split; [discriminate|apply RF_null].
  - split; [intros _; apply RS_enum|apply RF_of_RS; [reflexivity|apply RS_enum]].
  - assert (H : RS m (TSeq fs)).
    { apply RS_seq. eapply Forall_impl; [|exact IH]. intros p [_ H]. exact H. }
    split; [intros _; exact H|apply RF_of_RS; [reflexivity|exact H]].
  - split; [discriminate|].
    intros v src tcr ents rest Hg. pose proof Hg as Hg'. cbn [good] in Hg'. apply andb_true_iff in Hg'. destruct Hg' as [Hs _].
    apply (RF_seqof m t' (proj1 IH Hs)); exact Hg.
  - assert (H : RS m (TChoice alts)).
    { apply RS_choice. eapply Forall_impl; [|exact IH]. intros a [H _]. exact H. }
    split; [intros _; exact H|apply RF_of_RS; [reflexivity|exact H]].
Qed.

(** * top level *)
Definition top_ok (t : pty) : bool := match t with TSeq _ | TChoice _ | TEnum _ => true | _ => false end.

Lemma top_single t : top_ok t = true -> single t = true.
Proof. destruct t; try discriminate; reflexivity. Qed.

(* the bytes of a top-level value are the payload of the one record it would be as a component *)
Lemma top_write m t v : top_ok t = true -> wf_val t v = true ->
  exists r, recs_of t v = [r] /\ pwrite_vec m t v = Ok (snd r).
Proof.
  intros Ht Hwf. destruct t; try discriminate Ht; destruct v as [| | | | | |i|vs| | |i x]; try discriminate Hwf.
  - eexists. split; [reflexivity|]. reflexivity.
  - rewrite recs_seq_eq. eexists. split; [reflexivity|]. cbn [snd].
    unfold pwrite_vec. rewrite wr_seq_eq. cbn [wst0 w_root].
    change (set_root (set_tc (wst0 None) 0) false) with (base 0 false).
    rewrite wf_seq_eq in Hwf.
    rewrite (W_fields m fs (proj2 (Forall_forall _ _) (fun p _ => wr_records m (snd p))) vs (base 0 false) Hwf (okst_base 0)).
    reflexivity.
  - rewrite recs_choice_eq. eexists. split; [reflexivity|]. cbn [snd].
    unfold pwrite_vec. rewrite wr_choice_eq. cbv zeta. cbn [wst0 w_root].
    change (set_root (set_tc (wst0 None) (u32_of_u64 i)) false) with (base (u32_of_u64 i) false).
    rewrite wr_pick_eq. rewrite wf_choice_eq in Hwf. unfold recs_alt.
    destruct (nth_alt alts i) as [a|]; [|discriminate].
    rewrite (wr_records m a x (base (u32_of_u64 i) false) Hwf (okst_base _)). reflexivity.
Qed.

Theorem roundtrip_good m t v :
  top_ok t = true -> good t = true -> wf_val t v = true ->
  exists bs, pwrite m t v = Ok bs /\
    (nlen bs < two64 -> exists v', pread m t bs = Ok v' /\ peq t v v' = true /\ peq t v' v = true).
Proof.
  intros Ht Hg Hwf. destruct (top_write m t v Ht Hwf) as (r & Er & Ew).
  exists (snd r). split; [exact Ew|]. intros Hlen.
  destruct (reader_inverts m t) as [HR _]. specialize (HR (top_single t Ht)).
  destruct (HR v (snd r) (0, nlen (snd r)) (Root (0, nlen (snd r))) (Root (0, nlen (snd r))) r Hg Hwf Hlen Er)
    as (v' & R1 & R2 & R3).
  - exists [], []. split; [rewrite app_nil_r; reflexivity|reflexivity].
  - apply head_root.
  - exists v'. unfold pread. rewrite R1. cbn [bind]. repeat split; assumption.
Qed.

(** * the fragment, stated through the finding classes *)
(* a type that contains, anywhere, one of the constructs on which the faithful model refutes the round trip *)
Inductive Known_ty : pty -> Prop :=
| K_choice_null alts : In TNull alts -> Known_ty (TChoice alts)                 (* CHOICE with a NULL alternative *)
| K_choice_list alts e : In (TSeqOf e) alts -> Known_ty (TChoice alts)          (* CHOICE with a SEQUENCE OF alternative *)
| K_nested_list e : Known_ty (TSeqOf (TSeqOf e))                                (* SEQUENCE OF SEQUENCE OF *)
| K_list_null : Known_ty (TSeqOf TNull)                                         (* SEQUENCE OF NULL (elements leave no trace) *)
| K_in_seq fs o t : In (o, t) fs -> Known_ty t -> Known_ty (TSeq fs)
| K_in_list t : Known_ty t -> Known_ty (TSeqOf t)
| K_in_choice alts a : In a alts -> Known_ty a -> Known_ty (TChoice alts).

(* sizes a generated type always has: non-empty ENUMERATED / CHOICE, at most 2^32 variants, field numbers below 2^29 *)
Fixpoint sized (t : pty) : bool :=
  match t with
  | TInt k => wf_kind k
  | TEnum n => (0 <? n) && (n <=? two32)
  | TSeq fs => (nl fs <? max_fields) && forallb (fun p => sized (snd p)) fs
  | TSeqOf t' => sized t'
  | TChoice alts => negb (is_nil alts) && (nl alts <? max_fields) && forallb sized alts
  | _ => true
  end.

Lemma good_of_sized : forall t, sized t = true -> ~ Known_ty t -> good t = true.
Proof.
  induction t as [| k | | | | | n | fs IH | t' IH | alts IH] using pty_ind2; intros Hs Hk; try reflexivity.
  - exact Hs.
  - exact Hs.
  - cbn [sized good] in *. apply andb_true_iff in Hs. destruct Hs as [H1 H2]. rewrite H1. cbn [andb].
    apply forallb_forall. intros [o t] Hin. rewrite forallb_forall in H2. rewrite Forall_forall in IH.
    apply (IH (o, t) Hin (H2 (o, t) Hin)). intros K. apply Hk. apply (K_in_seq fs o t Hin K).
  - cbn [sized good] in *. apply andb_true_iff. split.
    + destruct t'; try reflexivity; exfalso; apply Hk; constructor.
    + apply IH; [exact Hs|]. intros K. apply Hk, K_in_list, K.
  - cbn [sized good] in *. apply andb_true_iff in Hs. destruct Hs as [H1 H2]. rewrite H1. cbn [andb].
    apply forallb_forall. intros a Hin. rewrite forallb_forall in H2. rewrite Forall_forall in IH.
    apply andb_true_iff. split.
    + destruct a; try reflexivity; exfalso; apply Hk.
      * apply K_choice_null, Hin.
      * eapply K_choice_list, Hin.
    + apply (IH a Hin (H2 a Hin)). intros K. apply Hk. apply (K_in_choice alts a Hin K).
Qed.

(** values: [wf_lax] is [wf_val] without the BitVec normal form (a BitVec may hold more bytes than its bit
    length needs), [excess] says that some BitVec inside the value does *)
Fixpoint wf_lax (t : pty) (v : pval) {struct t} : bool :=
  match t, v with
  | TBool, VBool _ => true
  | TInt k, VInt z => in_kind k z
  | TStr, VStr s => byte_list s && utf8_valid s
  | TBytes, VBytes l => byte_list l
  | TBits, VBits bytes n => byte_list bytes && ((n + 7) / 8 <=? N.of_nat (length bytes)) && (n <? two32)
  | TNull, VNull => true
  | TEnum n, VEnum i => i <? n
  | TSeq fs, VSeq vs =>
      (fix fields (fs : list (bool * pty)) (vs : list pval) {struct fs} : bool :=
         match fs, vs with
         | [], [] => true
         | (false, t) :: fs', v :: vs' => wf_lax t v && fields fs' vs'
         | (true, t) :: fs', VOpt (Some v) :: vs' => wf_lax t v && fields fs' vs'
         | (true, _) :: fs', VOpt None :: vs' => fields fs' vs'
         | _, _ => false
         end) fs vs
  | TSeqOf t', VList vs => forallb (wf_lax t') vs
  | TChoice alts, VChoice i v =>
      (fix pick (alts : list pty) (k : N) {struct alts} : bool :=
         match alts with
         | a :: r => if k =? 0 then wf_lax a v else pick r (k - 1)
         | [] => false
         end) alts i
  | _, _ => false
  end.

Fixpoint excess (t : pty) (v : pval) {struct t} : bool :=
  match t, v with
  | TBits, VBits bytes n => negb (N.of_nat (length bytes) =? (n + 7) / 8)
  | TSeq fs, VSeq vs =>
      (fix fields (fs : list (bool * pty)) (vs : list pval) {struct fs} : bool :=
         match fs, vs with
         | (false, t) :: fs', v :: vs' => excess t v || fields fs' vs'
         | (true, t) :: fs', VOpt (Some v) :: vs' => excess t v || fields fs' vs'
         | (true, _) :: fs', VOpt None :: vs' => fields fs' vs'
         | _, _ => false
         end) fs vs
  | TSeqOf t', VList vs => existsb (excess t') vs
  | TChoice alts, VChoice i v =>
      (fix pick (alts : list pty) (k : N) {struct alts} : bool :=
         match alts with
         | a :: r => if k =? 0 then excess a v else pick r (k - 1)
         | [] => false
         end) alts i
  | _, _ => false
  end.

Definition lax_fields :=
  fix fields (fs : list (bool * pty)) (vs : list pval) {struct fs} : bool :=
    match fs, vs with
    | [], [] => true
    | (false, t) :: fs', v :: vs' => wf_lax t v && fields fs' vs'
    | (true, t) :: fs', VOpt (Some v) :: vs' => wf_lax t v && fields fs' vs'
    | (true, _) :: fs', VOpt None :: vs' => fields fs' vs'
    | _, _ => false
    end.
Definition excess_fields :=
  fix fields (fs : list (bool * pty)) (vs : list pval) {struct fs} : bool :=
    match fs, vs with
    | (false, t) :: fs', v :: vs' => excess t v || fields fs' vs'
    | (true, t) :: fs', VOpt (Some v) :: vs' => excess t v || fields fs' vs'
    | (true, _) :: fs', VOpt None :: vs' => fields fs' vs'
    | _, _ => false
    end.
Lemma lax_seq_eq fs vs : wf_lax (TSeq fs) (VSeq vs) = lax_fields fs vs.
Proof. reflexivity. Qed.
Lemma excess_seq_eq fs vs : excess (TSeq fs) (VSeq vs) = excess_fields fs vs.
Proof. reflexivity. Qed.
Lemma lax_choice_eq alts i x :
  wf_lax (TChoice alts) (VChoice i x) = match nth_alt alts i with Some a => wf_lax a x | None => false end.
Proof.
  cbn [wf_lax]. generalize i. induction alts as [|a r IH]; intros j; cbn [nth_alt]; [reflexivity|].
  destruct (j =? 0); [reflexivity|apply IH].
Qed.
Lemma excess_choice_eq alts i x :
  excess (TChoice alts) (VChoice i x) = match nth_alt alts i with Some a => excess a x | None => false end.
Proof.
  cbn [excess]. generalize i. induction alts as [|a r IH]; intros j; cbn [nth_alt]; [reflexivity|].
  destruct (j =? 0); [reflexivity|apply IH].
Qed.

Lemma wf_of_lax : forall t v, wf_lax t v = true -> excess t v = false -> wf_val t v = true.
Proof.
  induction t as [| k | | | | | n | fs IH | t' IH | alts IH] using pty_ind2; intros v Hl He;
    destruct v as [b|z|s|l|bytes bl| |i|vs|ov|vs|i x]; try discriminate Hl; try exact Hl.
  - cbn [wf_lax excess wf_val] in *. apply andb_true_iff in Hl. destruct Hl as [Hl H3]. apply andb_true_iff in Hl.
    destruct Hl as [H1 H2]. rewrite H1, H3. apply negb_false_iff in He. rewrite He. reflexivity.
  - rewrite lax_seq_eq in Hl. rewrite excess_seq_eq in He. rewrite wf_seq_eq.
    revert vs Hl He. induction IH as [|[o t] fs Ht _ IHfs]; intros vs Hl He.
    + destruct vs; [reflexivity|discriminate].
    + cbn [snd] in Ht. destruct o.
      * destruct vs as [|v vs']; [discriminate|].
        destruct v as [| | | | | | | |ov| |]; try discriminate.
        destruct ov as [v|]; cbn [lax_fields excess_fields wf_fields] in *.
        -- apply andb_true_iff in Hl. destruct Hl as [H1 H2]. apply orb_false_iff in He. destruct He as [E1 E2].
           rewrite (Ht v H1 E1), (IHfs vs' H2 E2). reflexivity.
        -- apply IHfs; assumption.
      * destruct vs as [|v vs']; [discriminate|]. cbn [lax_fields excess_fields wf_fields] in *.
        apply andb_true_iff in Hl. destruct Hl as [H1 H2]. apply orb_false_iff in He. destruct He as [E1 E2].
        rewrite (Ht v H1 E1), (IHfs vs' H2 E2). reflexivity.
  - cbn [wf_lax excess wf_val] in *. induction vs as [|x vs IHvs]; [reflexivity|].
    cbn [forallb existsb] in *. apply andb_true_iff in Hl. destruct Hl as [H1 H2]. apply orb_false_iff in He.
    destruct He as [E1 E2]. rewrite (IH x H1 E1), (IHvs H2 E2). reflexivity.
  - rewrite lax_choice_eq in Hl. rewrite excess_choice_eq in He. rewrite wf_choice_eq.
    destruct (nth_alt alts i) as [a|] eqn:Ea; [|discriminate].
    rewrite Forall_forall in IH. apply (IH a (proj1 (nth_alt_in alts i a Ea)) x Hl He).
Qed.

Definition wf_pty (t : pty) : Prop := top_ok t = true /\ sized t = true.
Definition wf_pval (t : pty) (v : pval) : Prop := wf_lax t v = true.
(* the finding classes of C17: a type construct of [Known_ty], or a BitVec with excess bytes inside the value *)
Definition Known_C17 (t : pty) (v : pval) : Prop := Known_ty t \/ excess t v = true.

Theorem roundtrip_unbounded m t v :
  wf_pty t -> wf_pval t v -> ~ Known_C17 t v ->
  exists bs, pwrite m t v = Ok bs /\
    (nlen bs < two64 -> exists v', pread m t bs = Ok v' /\ peq t v v' = true).
Proof.
  intros [Ht Hs] Hl Hk.
  assert (Hg : good t = true) by (apply good_of_sized; [exact Hs|intros K; apply Hk; left; exact K]).
  assert (Hwf : wf_val t v = true).
  { apply wf_of_lax; [exact Hl|]. destruct (excess t v) eqn:E; [exfalso; apply Hk; right; exact E|reflexivity]. }
  destruct (roundtrip_good m t v Ht Hg Hwf) as (bs & W & R). exists bs. split; [exact W|].
  intros Hlen. destruct (R Hlen) as (v' & R1 & R2 & _). exists v'. split; assumption.
Qed.

(* conversely, the fragment excludes exactly the finding classes: a type of [Known_ty] is never [good] *)
Lemma forallb_false_in {A} (f : A -> bool) l x : In x l -> f x = false -> forallb f l = false.
Proof.
  intros Hin Hf. destruct (forallb f l) eqn:E; [|reflexivity].
  rewrite forallb_forall in E. rewrite (E x Hin) in Hf. discriminate.
Qed.

Lemma known_not_good t : Known_ty t -> good t = false.
Proof.
  induction 1 as [alts Hin|alts e Hin|e| |fs o t Hin _ IH|t _ IH|alts a Hin _ IH]; cbn [good].
  - rewrite (forallb_false_in _ alts TNull Hin) by reflexivity. apply andb_false_r.
  - rewrite (forallb_false_in _ alts (TSeqOf e) Hin) by reflexivity. apply andb_false_r.
  - reflexivity.
  - reflexivity.
  - rewrite (forallb_false_in _ fs (o, t) Hin) by exact IH. apply andb_false_r.
  - rewrite IH. apply andb_false_r.
  - rewrite (forallb_false_in _ alts a Hin) by (rewrite IH; apply andb_false_r). apply andb_false_r.
Qed.
