(* Executable interface of the Parse layer (op codes 3300..3399). Stub until the layer is built. *)
From A1 Require Import Base.Res.
Local Open Scope Z_scope.
Definition run_parse (m : mode) (op : Z) (a : list Z) : list Z := [-1].
