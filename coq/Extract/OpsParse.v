(* Executable interface of the Parse / Resolve layer (op codes 3300..3399).
   Mirror: harness/a1h/src/parse.rs (the formats are described in its header).
     3301  one module text            -> tokenize, parse_module, resolve_single; dump of the resolved model
     3302  k (len code*len)*k         -> every module tokenized and parsed in load order, resolve_all; dumps
     3303  flags code*                -> outcome per stage (0 tokenizer, 1 parser, 2 resolver, 3 to_rust, 4 to_protobuf);
                                         the panic site fields (file line msg) are printed as 0 0 0 -- checks/C14.py
                                         blanks them in the implementation's answer before comparing; stages 5, 6
                                         (code generators) are not modelled and are cut there as well
     3304  n1 <3302 input> <3302 input> -> len(answer 1) answer 1 answer 2
     331x  k <k opaque ints> <input of 330x>
   A lookup that recurses without bound in the Rust code (resolver: cyclic IMPORTS of an undefined name; to_rust:
   TagResolver on a cycle of untagged type references / CHOICE alternatives) kills the process there; the harness
   runner reports that as `3 32`, and so does the model.  Fuel exhaustion of the parser would print `-3`. *)
From A1 Require Import Base.Res Front.Lex Front.Ast Front.Parse Front.Resolve.
Local Open Scope Z_scope.

Definition zn (n : N) : Z := Z.of_N n.

Definition d_str (s : str) : list Z := Z.of_nat (length s) :: map zn s.

Definition d_oid (o : option (list oidc)) : list Z :=
  match o with
  | None => [0]
  | Some l =>
      1 :: Z.of_nat (length l) ::
      flat_map (fun c => match c with
                         | NameForm s => 0 :: d_str s
                         | NumberForm n => [1; zn n]
                         | NameAndNumberForm s n => 2 :: d_str s ++ [zn n]
                         end) l
  end.

Definition d_tag (t : option atag) : list Z :=
  match t with
  | None => [-1]
  | Some (TagUniversal n) => [0; zn n]
  | Some (TagApplication n) => [1; zn n]
  | Some (TagContext n) => [2; zn n]
  | Some (TagPrivate n) => [3; zn n]
  end.

Definition d_lit (l : literal) : list Z :=
  match l with
  | LBool b => [0; if b then 1 else 0]
  | LString s => 1 :: d_str s
  | LInteger z => [2; z]
  | LOctets bs => 3 :: Z.of_nat (length bs) :: map zn bs
  | LEnumVariant t v => 4 :: d_str t ++ d_str v
  end.

Definition zb (b : bool) : Z := if b then 1 else 0.

Definition d_size (s : size N) : list Z :=
  match s with
  | SAny => [0]
  | SFix n e => [1; zn n; zb e]
  | SRange a b e => [2; zn a; zn b; zb e]
  end.

Definition d_optz (o : option Z) : list Z := match o with None => [0] | Some v => [1; v] end.
Definition d_optn (o : option N) : list Z := match o with None => [-1] | Some v => [zn v] end.
Definition d_default (d : option literal) : list Z := match d with None => [0] | Some l => 1 :: d_lit l end.

Fixpoint d_type (t : rty) : list Z :=
  match t with
  | TBoolean => [0]
  | TInteger (lo, hi, e) c =>
      1 :: d_optz lo ++ d_optz hi ++ [zb e] ++ Z.of_nat (length c) :: flat_map (fun p => d_str (fst p) ++ [snd p]) c
  | TString s c =>
      2 :: d_size s ++ [match c with Utf8 => 0 | Numeric => 1 | Printable => 2 | Ia5 => 3 | Visible => 4 end]
  | TOctetString s => 3 :: d_size s
  | TBitString s c => 4 :: d_size s ++ Z.of_nat (length c) :: flat_map (fun p => d_str (fst p) ++ [zn (snd p)]) c
  | TNull => [5]
  | TOptional i => 6 :: d_type i
  | TDefault i l => 7 :: d_type i ++ d_lit l
  | TSequence fs e =>
      8 :: Z.of_nat (length fs) ::
      (fix go (l : list (rfield)) : list Z :=
         match l with
         | [] => []
         | (n, (tag, t0, d)) :: r => d_str n ++ d_tag tag ++ d_type t0 ++ d_default d ++ go r
         end) fs ++ d_optn e
  | TSequenceOf i s => 9 :: d_type i ++ d_size s
  | TSet fs e =>
      10 :: Z.of_nat (length fs) ::
      (fix go (l : list (rfield)) : list Z :=
         match l with
         | [] => []
         | (n, (tag, t0, d)) :: r => d_str n ++ d_tag tag ++ d_type t0 ++ d_default d ++ go r
         end) fs ++ d_optn e
  | TSetOf i s => 11 :: d_type i ++ d_size s
  | TEnumerated vs e =>
      12 :: Z.of_nat (length vs) :: flat_map (fun v => d_str (fst v) ++ d_optn (snd v)) vs ++ d_optn e
  | TChoice vs e =>
      13 :: Z.of_nat (length vs) ::
      (fix go (l : list (str * option atag * rty)) : list Z :=
         match l with
         | [] => []
         | (n, tag, t0) :: r => d_str n ++ d_tag tag ++ d_type t0 ++ go r
         end) vs ++ d_optn e
  | TRef n tag => 14 :: d_str n ++ d_tag tag
  end.

Definition d_asn (a : rasn) : list Z :=
  let '(tag, t, d) := a in d_tag tag ++ d_type t ++ d_default d.

Definition d_model (m : amodel rasn) : list Z :=
  d_str (m_name m) ++ d_oid (m_oid m)
  ++ Z.of_nat (length (m_imports m))
     :: flat_map (fun i => Z.of_nat (length (i_what i)) :: flat_map d_str (i_what i) ++ d_str (i_from i) ++ d_oid (i_from_oid i))
                 (m_imports m)
  ++ Z.of_nat (length (m_definitions m))
     :: flat_map (fun d => d_str (fst d) ++ d_asn (snd d)) (m_definitions m)
  ++ Z.of_nat (length (m_value_references m))
     :: flat_map (fun v => d_str (fst (fst v)) ++ d_asn (snd (fst v)) ++ d_lit (snd v)) (m_value_references m).

Definition d_tok (t : option token) : list Z :=
  match t with
  | None => [-1]
  | Some (Text l c s) => 0 :: zn l :: zn c :: d_str s
  | Some (Separator l c ch) => [1; zn l; zn c; 1; zn ch]
  end.

Definition d_rerr (e : rerr) : list Z :=
  match e with
  | FailedToResolveType n => 0 :: d_str n
  | FailedToResolveReference n => 1 :: d_str n
  | FailedToParseLiteral n => 2 :: d_str n
  end.

Definition is_scalar (z : Z) : bool :=
  ((0 <=? z) && (z <? 55296)) || ((57344 <=? z) && (z <? 1114112)).

Definition CRASH : list Z := [3; 32].

(* tokenizer + parser of one text; Error answers are completed by the caller *)
Inductive front (A : Type) : Type :=
| FOk (a : A)
| FAnswer (a : list Z).
Arguments FOk {A} a.
Arguments FAnswer {A} a.

Definition parse_text (m : mode) (idx : list Z) (a : list Z) : front umodel :=
  match tokenize m (map Z.to_N a) with
  | Panic p => FAnswer [2; 0; zn p]
  | Err e => FAnswer [2; 0; zn e]
  | Ok ts =>
      match parse ts with
      | POk u => FOk u
      | PErr k t => FAnswer (1 :: 1 :: idx ++ zn k :: d_tok t)
      | PPanic p => FAnswer [2; 1; zn p]
      | POutOfFuel => FAnswer [-3]
      end
  end.

Definition op_3301 (m : mode) (a : list Z) : list Z :=
  if negb (forallb is_scalar a) then [-2] else
  match parse_text m [] a with
  | FAnswer o => o
  | FOk u =>
      match resolve_single u with
      | ROk r => 0 :: d_model r
      | RErr e => 1 :: 2 :: d_rerr e
      | RDiverge => CRASH
      end
  end.

(* k (len code*len)*k *)
Fixpoint split_texts (k : nat) (a : list Z) : option (list (list Z)) :=
  match k with
  | O => match a with [] => Some [] | _ => None end
  | S k' =>
      match a with
      | [] => None
      | len :: r =>
          if (len <? 0) || (Z.of_nat (length r) <? len) then None
          else let n := Z.to_nat len in
               match split_texts k' (skipn n r) with
               | Some l => Some (firstn n r :: l)
               | None => None
               end
      end
  end.

Definition texts_of (a : list Z) : option (list (list Z)) :=
  match a with
  | [] => None
  | k :: r => if (k <? 0) || (Z.of_nat (length r) <? k) then None
              else match split_texts (Z.to_nat k) r with
                   | Some l => if forallb (forallb is_scalar) l then Some l else None
                   | None => None
                   end
  end.

Fixpoint parse_all (m : mode) (idx : Z) (ts : list (list Z)) (acc : list umodel) : front (list umodel) :=
  match ts with
  | [] => FOk (rev acc)
  | t :: r =>
      match parse_text m [idx] t with
      | FOk u => parse_all m (idx + 1) r (u :: acc)
      | FAnswer o => FAnswer o
      end
  end.

Definition op_3302 (m : mode) (a : list Z) : list Z :=
  match texts_of a with
  | None => [-2]
  | Some ts =>
      match parse_all m 0 ts [] with
      | FAnswer o => o
      | FOk us =>
          match resolve_all us with
          | ROk rs => 0 :: Z.of_nat (length rs) :: flat_map d_model rs
          | RErr e => 1 :: 2 :: d_rerr e
          | RDiverge => CRASH
          end
      end
  end.

(* the process dies as soon as one of the two runs diverges *)
Definition is_crash (o : list Z) : bool :=
  match o with [3; 32] => true | _ => false end.

Definition op_3304 (m : mode) (a : list Z) : list Z :=
  match a with
  | [] => [-2]
  | n1 :: r =>
      if (n1 <? 0) || (Z.of_nat (length r) <? n1) || (Z.of_nat (length a) <=? n1) then [-2]
      else
        let n := Z.to_nat n1 in
        let first := op_3302 m (firstn n r) in
        if is_crash first then CRASH else
        let second := op_3302 m (skipn n r) in
        if is_crash second then CRASH else
        Z.of_nat (length first) :: first ++ second
  end.

(* ---------- the part of Model::to_rust (rust.rs, asn/tag_resolver.rs) that decides whether it returns:
   TagResolver with an empty scope (Model::to_rust passes `&[]`), so only local definitions are consulted ---------- *)

Section ToRust.
  Variable defs : list (str * rasn).

  (* tri-state of a tag lookup: Found (Some t) / Found None / Diverges *)
  Fixpoint resolve_type_tag (fuel : nat) (t : rty) {struct fuel} : lookup (option atag) :=
    match fuel with
    | O => Diverges
    | S f =>
        match t with
        | TBoolean => Found (Some (TagUniversal 1))
        | TInteger _ _ => Found (Some (TagUniversal 2))
        | TBitString _ _ => Found (Some (TagUniversal 3))
        | TOctetString _ => Found (Some (TagUniversal 4))
        | TEnumerated _ _ => Found (Some (TagUniversal 10))
        | TString _ Numeric => Found (Some (TagUniversal 18))
        | TString _ Printable => Found (Some (TagUniversal 19))
        | TString _ Visible => Found (Some (TagUniversal 26))
        | TString _ Utf8 => Found (Some (TagUniversal 12))
        | TString _ Ia5 => Found (Some (TagUniversal 22))
        | TNull => Found (Some (TagUniversal 5))
        | TOptional i => resolve_type_tag f i
        | TDefault i _ => resolve_type_tag f i
        | TSequence _ _ => Found (Some (TagUniversal 16))
        | TSequenceOf _ _ => Found (Some (TagUniversal 16))
        | TSet _ _ => Found (Some (TagUniversal 17))
        | TSetOf _ _ => Found (Some (TagUniversal 17))
        | TChoice vs e =>
            let n := match e with Some k => S (N.to_nat k) | None => length vs end in
            (* .map(..).collect::<Option<Vec<Tag>>>() stops at the first None; some tag of the list is returned (the
               smallest one in Rust: only Some/None/divergence matters here) *)
            (fix go (l : list (str * option atag * rty)) (best : option atag) : lookup (option atag) :=
               match l with
               | [] => Found best
               | (_, Some tg, _) :: r => go r (Some tg)
               | (_, None, t0) :: r =>
                   match resolve_type_tag f t0 with
                   | Found (Some tg) => go r (Some tg)
                   | Found None => Found None
                   | NotFound => Found None
                   | Diverges => Diverges
                   end
               end) (firstn n vs) None
        | TRef name tag =>
            match tag with
            | Some tg => Found (Some tg)
            | None => resolve_tag f name
            end
        end
    end
  with resolve_tag (fuel : nat) (name : str) {struct fuel} : lookup (option atag) :=
    match fuel with
    | O => Diverges
    | S f =>
        match find (fun d => str_eqb (fst d) name) defs with
        | None => Found None
        | Some (_, (Some tg, _, _)) => Found (Some tg)
        | Some (_, (None, t, _)) => resolve_type_tag f t
        end
    end.

  Variable fuel : nat.

  Definition diverges (l : lookup (option atag)) : bool := match l with Diverges => true | _ => false end.

  (* does definition_type_to_rust_type / definition_to_rust reach a diverging lookup?  `tagged` = the `tag`
     argument is Some (then `tag.or_else(..)` does not evaluate its closure) *)
  Fixpoint dtype_diverges (t : rty) (tagged : bool) : bool :=
    match t with
    | TOptional i | TDefault i _ | TSequenceOf i _ | TSetOf i _ =>
        (* resolve_no_default(inner): resolve_default(inner) uses an empty model (cannot diverge); then
           self.resolve_type_tag(inner) *)
        let here := if tagged then false else diverges (resolve_type_tag fuel i) in
        (* the tag handed down only gates a lookup of the same `i` again: handing down `tagged` decides the same *)
        here || dtype_diverges i tagged
    | TSequence fs _ | TSet fs _ =>
        (fix go (l : list rfield) : bool :=
           match l with
           | [] => false
           | (_, (tag, t0, _)) :: r =>
               dtype_diverges t0 (match tag with Some _ => true | None => false end) || go r
           end) fs
        || (if tagged then false else diverges (resolve_type_tag fuel t))
    | TChoice vs _ =>
        (fix go (l : list (str * option atag * rty)) : bool :=
           match l with
           | [] => false
           | (_, tag, t0) :: r =>
               dtype_diverges t0 (match tag with Some _ => true | None => false end) || go r
           end) vs
        || (if tagged then false else diverges (resolve_type_tag fuel t))
    | TRef name _ => diverges (resolve_tag fuel name)
    | _ => false
    end.

  (* definition_to_rust on a top-level definition *)
  Definition def_diverges (a : rasn) : bool :=
    let '(tag, t, _) := a in
    let tagged := match tag with Some _ => true | None => false end in
    match t with
    | TSequence fs _ | TSet fs _ =>
        (fix go (l : list rfield) : bool :=
           match l with
           | [] => false
           | (_, (ftag, t0, _)) :: r =>
               dtype_diverges t0 (match ftag with Some _ => true | None => false end) || go r
           end) fs
    | TChoice vs _ =>
        (fix go (l : list (str * option atag * rty)) : bool :=
           match l with
           | [] => false
           | (_, vtag, t0) :: r =>
               dtype_diverges t0 (match vtag with Some _ => true | None => false end) || go r
           end) vs
    | TSequenceOf i _ | TSetOf i _ | TOptional i | TDefault i _ => dtype_diverges i tagged
    | TRef name _ => diverges (resolve_tag fuel name)
    | _ => false
    end.
End ToRust.

Fixpoint ty_nodes (t : rty) : nat :=
  match t with
  | TOptional i | TDefault i _ | TSequenceOf i _ | TSetOf i _ => S (ty_nodes i)
  | TSequence fs _ | TSet fs _ =>
      S ((fix go (l : list rfield) : nat :=
            match l with [] => O | (_, (_, t0, _)) :: r => (ty_nodes t0 + go r)%nat end) fs)
  | TChoice vs _ =>
      S ((fix go (l : list (str * option atag * rty)) : nat :=
            match l with [] => O | (_, _, t0) :: r => (ty_nodes t0 + go r)%nat end) vs)
  | _ => 1%nat
  end.

Definition to_rust_diverges (m : amodel rasn) : bool :=
  let defs := m_definitions m in
  let nodes := fold_right (fun d acc => (ty_nodes (snd (fst (snd d))) + acc)%nat) 1%nat defs in
  let fuel := (S (length defs) * S nodes)%nat in
  existsb (fun d => def_diverges defs fuel (snd d)) defs.

Definition tok_len (t : token) : Z :=
  match t with Text _ _ s => Z.of_nat (length s) | Separator _ _ _ => 1 end.

Definition op_3303 (m : mode) (a : list Z) : list Z :=
  match a with
  | [] => [-2]
  | flags :: text =>
      if negb (forallb is_scalar text) then [-2] else
      match tokenize m (map Z.to_N text) with
      | Panic p => [0; 2; zn p; 0; 0; 0]
      | Err e => [0; 2; zn e; 0; 0; 0]
      | Ok ts =>
          match parse ts with
          | PErr k t =>
              [0; 0; 1; 1; zn k] ++
              match t with
              | None => [0; 0; 0; 0]
              | Some tk => [1; zn (tok_line tk); zn (tok_column tk); tok_len tk]
              end
          | PPanic p => [0; 0; 1; 2; zn p; 0; 0; 0]
          | POutOfFuel => [-3]
          | POk u =>
              match resolve_single u with
              | RErr e => [0; 0; 1; 0; 2; 1; hd 0 (d_rerr e); 0; 0; 0; 0]
              | RDiverge => CRASH
              | ROk r =>
                  if to_rust_diverges r then CRASH
                  else [0; 0; 1; 0; 2; 0; 3; 0] ++ (if Z.odd flags then [4; 0] else [])
              end
          end
      end
  end.

Definition run_base (m : mode) (op : Z) (a : list Z) : list Z :=
  match op with
  | 3301 => op_3301 m a
  | 3302 => op_3302 m a
  | 3303 => op_3303 m a
  | 3304 => op_3304 m a
  | _ => [-1]
  end.

Definition run_parse (m : mode) (op : Z) (a : list Z) : list Z :=
  if (3311 <=? op) && (op <=? 3314) then
    match a with
    | k :: r => if (0 <=? k) && (k <? Z.of_nat (length a)) then run_base m (op - 10) (skipn (Z.to_nat k) r) else [-2]
    | [] => [-2]
    end
  else run_base m op a.
