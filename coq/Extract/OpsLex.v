(* Executable interface of the Lex layer (op codes 3000..3099). Stub until the layer is built. *)
From A1 Require Import Base.Res.
Local Open Scope Z_scope.
Definition run_lex (m : mode) (op : Z) (a : list Z) : list Z := [-1].
