(* Executable interface of the Lex layer (op codes 3000..3099).
   3001  input  = the code points of the whole text
         output = 0 :: ntokens :: per token (kind(0=Text,1=Separator) line column len codes...)
                | 2 class          (panic)
                | -2               (some input integer is not a Unicode scalar value: no &str exists)
   3002  input  = k :: k opaque integers (layout metadata of checks/C13.py) ++ code points; output as 3001
   3003  (model only; ties the Coq specification Front/LexProofs.v to the printer of checks/C13.py)
         input  = a structured layout  g0 t1 g1 ... tn gn  as a flat event list:
                    gap items  -20 space | -21 tab | -22 CR LF | -23 LF | -24 c.. line comment ended by LF
                               | -26 c.. line comment ended by CR LF | -25 b.. block comment, b = c | -1 LF | -2 CR LF | -3 open | -4 close
                               | -27 lone CR | -28 c.. line comment "--" c "--"
                    -10 end of gap;  -11 c separator item;  -12 c.. text item
         output = 0 :: lex_safeb :: |text| :: render ts gs ++ ntokens :: expect ts gs (encoded as in 3001)
   Mirror: harness/a1h/src/lex.rs *)
From A1 Require Import Base.Res Front.Lex Front.LexProofs.
Local Open Scope Z_scope.

Definition is_scalar (z : Z) : bool :=
  ((0 <=? z) && (z <? 55296)) || ((57344 <=? z) && (z <? 1114112)).

Definition enc_token (t : token) : list Z :=
  match t with
  | Text l c s => 0 :: Z.of_N l :: Z.of_N c :: Z.of_nat (length s) :: map Z.of_N s
  | Separator l c ch => [1; Z.of_N l; Z.of_N c; 1; Z.of_N ch]
  end.

Definition lex_text (m : mode) (a : list Z) : list Z :=
  if forallb is_scalar a then
    match tokenize m (map Z.to_N a) with
    | Ok ts => 0 :: Z.of_nat (length ts) :: flat_map enc_token ts
    | Err e => [1; Z.of_N e]
    | Panic p => [2; Z.of_N p]
    end
  else [-2].

(* ---- decoder of structured layouts (op 3003) ---- *)
Inductive coll : Type :=
| KNone | KSep | KText (r : list N) | KLine (crlf : bool) (r : list N) | KBlock (r : list citem)
| KLineD (r : list N).
Record dst : Type := { d_ts : list ptoken; d_gs : list gap; d_g : list gitem; d_c : coll }.

Definition close_coll (s : dst) : dst :=
  match d_c s with
  | KNone | KSep => {| d_ts := d_ts s; d_gs := d_gs s; d_g := d_g s; d_c := KNone |}
  | KText r => {| d_ts := PText (rev r) :: d_ts s; d_gs := d_gs s; d_g := d_g s; d_c := KNone |}
  | KLine b r => {| d_ts := d_ts s; d_gs := d_gs s; d_g := GLine (rev r) b :: d_g s; d_c := KNone |}
  | KBlock r => {| d_ts := d_ts s; d_gs := d_gs s; d_g := GBlock (rev r) :: d_g s; d_c := KNone |}
  | KLineD r => {| d_ts := d_ts s; d_gs := d_gs s; d_g := GLineD (rev r) :: d_g s; d_c := KNone |}
  end.
Definition with_coll (s : dst) (c : coll) : dst :=
  {| d_ts := d_ts s; d_gs := d_gs s; d_g := d_g s; d_c := c |}.
Definition push_item (s : dst) (i : gitem) : dst :=
  {| d_ts := d_ts s; d_gs := d_gs s; d_g := i :: d_g s; d_c := KNone |}.
Definition block_item (s : dst) (i : citem) : dst :=
  match d_c s with KBlock r => with_coll s (KBlock (i :: r)) | _ => s end.

Definition dstep (s : dst) (z : Z) : dst :=
  if 0 <=? z then
    let c := Z.to_N z in
    match d_c s with
    | KNone => s
    | KSep => {| d_ts := PSep c :: d_ts s; d_gs := d_gs s; d_g := d_g s; d_c := KNone |}
    | KText r => with_coll s (KText (c :: r))
    | KLine b r => with_coll s (KLine b (c :: r))
    | KBlock r => with_coll s (KBlock (CChar c :: r))
    | KLineD r => with_coll s (KLineD (c :: r))
    end
  else
    match z with
    | -1 => block_item s CNl
    | -2 => block_item s CCrNl
    | -3 => block_item s COpen
    | -4 => block_item s CClose
    | -10 => let s := close_coll s in
             {| d_ts := d_ts s; d_gs := rev (d_g s) :: d_gs s; d_g := []; d_c := KNone |}
    | -11 => with_coll (close_coll s) KSep
    | -12 => with_coll (close_coll s) (KText [])
    | -20 => push_item (close_coll s) GSpace
    | -21 => push_item (close_coll s) GTab
    | -22 => push_item (close_coll s) GCrLf
    | -23 => push_item (close_coll s) GLf
    | -24 => with_coll (close_coll s) (KLine false [])
    | -26 => with_coll (close_coll s) (KLine true [])
    | -25 => with_coll (close_coll s) (KBlock [])
    | -27 => push_item (close_coll s) GCr
    | -28 => with_coll (close_coll s) (KLineD [])
    | _ => s
    end.

Definition decode_layout (a : list Z) : list ptoken * list gap :=
  let s := close_coll (fold_left dstep a {| d_ts := []; d_gs := []; d_g := []; d_c := KNone |}) in
  (rev (d_ts s), rev (d_gs s)).

Definition spec_layout (a : list Z) : list Z :=
  let (ts, gs) := decode_layout a in
  let text := render ts gs in
  let e := expect ts gs in
  0 :: (if lex_safeb ts gs then 1 else 0)
    :: Z.of_nat (length text) :: map Z.of_N text ++ Z.of_nat (length e) :: flat_map enc_token e.

Definition run_lex (m : mode) (op : Z) (a : list Z) : list Z :=
  match op, a with
  | 3001, _ => lex_text m a
  | 3002, k :: rest => lex_text m (skipn (Z.to_nat k) rest)
  | 3003, _ => spec_layout a
  | _, _ => [-1]
  end.
