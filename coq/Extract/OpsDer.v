(* Uniform executable interface of the DER model: op code + integer list in,
   integer list out.  The Rust harness implements the same ops on the real crate. *)
From A1 Require Import Der.Prim.
Local Open Scope Z_scope.

Definition zs (l : list N) : list Z := map Z.of_N l.
Definition ns (l : list Z) : list N := map Z.to_N l.

Definition class_of_z (z : Z) : tclass :=
  match z with 0 => Universal | 1 => Application | 2 => ContextSpecific | _ => Private end.
Definition z_of_class (c : tclass) : Z :=
  match c with Universal => 0 | Application => 1 | ContextSpecific => 2 | Private => 3 end.
Definition kind_of_z (z : Z) : ikind :=
  match z with 0 => U8 | 1 => I8 | 2 => U16 | 3 => I16 | 4 => U32 | 5 => I32 | 6 => U64 | _ => I64 end.

Definition enc_res {A} (f : A -> list Z) (r : res (A * list N)) : list Z :=
  match r with
  | Ok (a, rest) => 0 :: Z.of_nat (length rest) :: f a
  | Err e => [1; Z.of_N e]
  | Panic p => [2; Z.of_N p]
  end.

(* write then read back with a tail: result = nbytes :: bytes ++ enc_res *)
Definition wr {A} (bytes : list N) (tail : list Z) (rd : list N -> res (A * list N)) (f : A -> list Z) :=
  Z.of_nat (length bytes) :: zs bytes ++ enc_res f (rd (bytes ++ ns tail)).

Definition run_der (op : Z) (a : list Z) : list Z :=
  match op, a with
  | 2001, l :: tail => wr (write_length (Z.to_N l)) tail read_length (fun v => [Z.of_N v])
  | 2002, c :: n :: tail =>
      wr (write_identifier (class_of_z c) (Z.to_N n)) tail read_identifier
         (fun '(c, n) => [z_of_class c; Z.of_N n])
  | 2003, c :: tag :: b :: tail =>
      wr (w_boolean (class_of_z c) (Z.to_N tag) (negb (b =? 0))) tail (r_boolean (Z.to_N tag))
         (fun b : bool => [if b then 1 else 0])
  | 2004, k :: c :: tag :: v :: tail =>
      wr (w_number (kind_of_z k) (class_of_z c) (Z.to_N tag) v) tail (r_number (kind_of_z k) (Z.to_N tag))
         (fun v => [v])
  | 2005, c :: tag :: n :: i :: tail =>
      wr (w_enumerated (class_of_z c) (Z.to_N tag) (Z.to_N i)) tail (r_enumerated (Z.to_N n) (Z.to_N tag))
         (fun v => [Z.of_N v])
  | 2010, bytes => enc_res (fun v => [Z.of_N v]) (read_length (ns bytes))
  | 2011, bytes => enc_res (fun '(c, n) => [z_of_class c; Z.of_N n]) (read_identifier (ns bytes))
  | 2012, bytes => enc_res (fun b : bool => [if b then 1 else 0]) (read_boolean (ns bytes))
  | 2013, bl :: bytes => enc_res (fun v => [v]) (read_integer_i64 (Z.to_N bl) (ns bytes))
  | 2014, bl :: bytes => enc_res (fun v => [Z.of_N v]) (read_integer_u64 (Z.to_N bl) (ns bytes))
  | 2015, k :: tag :: bytes => enc_res (fun v => [v]) (r_number (kind_of_z k) (Z.to_N tag) (ns bytes))
  | 2016, tag :: bytes => enc_res (fun b : bool => [if b then 1 else 0]) (r_boolean (Z.to_N tag) (ns bytes))
  | 2017, n :: tag :: bytes => enc_res (fun v => [Z.of_N v]) (r_enumerated (Z.to_N n) (Z.to_N tag) (ns bytes))
  | _, _ => [-1]
  end.
