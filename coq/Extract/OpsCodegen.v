(* Executable interface of the Codegen layer (op codes 3400..3499). Stub until the layer is built. *)
From A1 Require Import Base.Res.
Local Open Scope Z_scope.
Definition run_codegen (m : mode) (op : Z) (a : list Z) : list Z := [-1].
