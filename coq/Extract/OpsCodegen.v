(* Executable interface of the Codegen layer (op codes 3400..3499).
   3410 kind <char code>...  ->  0 <char code>...     the name mangling functions of Front/Codegen.v
        kind 0 rust_field_name          1 rust_variant_name      2 rust_struct_or_enum_name
             3 rust_module_name(_,false) 4 rust_constant_name
             5 RustCodeGenerator::rust_field_name(_, true)       6 RustCodeGenerator::rust_variant_name
             7 RustCodeGenerator::rust_module_name
             8 emitted field name (5 after 0)                    9 emitted variant name (6 after 1)
        a char code outside ASCII is out of model: answer -3 (the generators stay ASCII)
   3411 <char code>...       ->  0 ident keyword     is_rust_ident / is_keyword as 0/1 (tied to proc_macro2's lexer and syn's
                                                   keyword table by the harness)
   3401..3403 are implementation-only ops (see harness/a1h/src/codegen.rs): unknown here. *)
From A1 Require Import Base.Res Front.Codegen.
Local Open Scope Z_scope.

Definition ascii_codes (a : list Z) : option (list N) :=
  if forallb (fun c => (0 <=? c) && (c <? 128)) a then Some (map Z.to_N a) else None.

Definition ok_str (s : list N) : list Z := 0 :: map Z.of_N s.
Definition b2z (b : bool) : Z := if b then 1 else 0.

Definition run_mangle (m : mode) (op : Z) (a : list Z) : list Z :=
  if op =? 3410 then
    match a with
    | [] => [-2]
    | kind :: cs =>
      match ascii_codes cs with
      | None => if forallb (fun c => (0 <=? c) && (c <? 1114112) && negb ((55296 <=? c) && (c <? 57344))) cs then [-3] else [-2]
      | Some s =>
        if kind =? 0 then ok_str (rust_field_name s)
        else if kind =? 1 then ok_str (rust_variant_name s)
        else if kind =? 2 then ok_str (rust_struct_or_enum_name s)
        else if kind =? 3 then ok_str (rust_module_name s false)
        else if kind =? 4 then ok_str (rust_constant_name s)
        else if kind =? 5 then ok_str (gen_field_name s true)
        else if kind =? 6 then ok_str (gen_variant_name s)
        else if kind =? 7 then ok_str (gen_module_name s)
        else if kind =? 8 then ok_str (emit_field s)
        else if kind =? 9 then ok_str (emit_variant s)
        else [-1]
      end
    end
  else if op =? 3411 then
    match ascii_codes a with
    | None => [-3]
    | Some s => [0; b2z (is_rust_ident s); b2z (is_keyword s)]
    end
  else [-1].

(* ------------------------------------------------------------------ op 3412: the attribute type sub-language
   3412 <aty>  ->  0 <token dump of print_ty t>  <0 <aty of parse_attr_type (print_ty t)> | 1>
   aty  : 0 | 1 | 2 hasmin min hasmax max ext | 3 size cs | 4 size | 5 size | 6 aty | 7 aty lit | 8 size aty | 9 size aty
          | 10 str hastag [class number]            (bool, null, integer, string, octets, bits, optional, default,
                                                     sequence_of, set_of, complex)
   size : 0 | 1 n ext | 2 a b ext        lit : 0 b | 1 str | 2 z | 3 n byte*n | 4 str str       str : len code*len
   token: 1 str (ident) | 2 n (integer literal) | 3 c (punct) | 5 str (string literal) | 4 k tok*k ( ) | 6 k tok*k [ ]
   malformed input -> -2 *)
From A1 Require Import Front.Attr.

Definition dec (A : Type) := list Z -> option (A * list Z).

Definition d_nat_list (n : Z) (a : list Z) : option (list Z * list Z) :=
  if (n <? 0) || (Z.of_nat (length a) <? n) then None else Some (firstn (Z.to_nat n) a, skipn (Z.to_nat n) a).

Definition d_str : dec (list N) := fun a =>
  match a with
  | n :: r => match d_nat_list n r with
              | Some (cs, r') => if forallb (fun c => (0 <=? c) && (c <? 128)) cs then Some (map Z.to_N cs, r') else None
              | None => None
              end
  | [] => None
  end.

Definition d_bool (z : Z) : option bool := if z =? 0 then Some false else if z =? 1 then Some true else None.

Definition d_size : dec size := fun a =>
  match a with
  | 0 :: r => Some (SAny, r)
  | 1 :: n :: e :: r => match d_bool e with Some e' => if n <? 0 then None else Some (SFix (Z.to_N n) e', r) | None => None end
  | 2 :: x :: y :: e :: r => match d_bool e with Some e' => if (x <? 0) || (y <? 0) then None else Some (SRange (Z.to_N x) (Z.to_N y) e', r) | None => None end
  | _ => None
  end.

Definition d_charset (z : Z) : option charset :=
  if z =? 0 then Some Utf8 else if z =? 1 then Some Numeric else if z =? 2 then Some Printable
  else if z =? 3 then Some Ia5 else if z =? 4 then Some Visible else None.

Definition d_lit : dec lit := fun a =>
  match a with
  | 0 :: b :: r => option_map (fun b' => (LBool b', r)) (d_bool b)
  | 1 :: r => option_map (fun '(s, r') => (LStr s, r')) (d_str r)
  | 2 :: z :: r => Some (LInt z, r)
  | 3 :: n :: r => match d_nat_list n r with
                   | Some (bs, r') => if forallb (fun c => (0 <=? c) && (c <? 256)) bs then Some (LOct (map Z.to_N bs), r') else None
                   | None => None
                   end
  | 4 :: r => match d_str r with
              | Some (t, r') => option_map (fun '(v, r'') => (LEnum t v, r'')) (d_str r')
              | None => None
              end
  | _ => None
  end.

Definition d_tag (c n : Z) : option tag :=
  if n <? 0 then None
  else if c =? 0 then Some (TUniversal (Z.to_N n)) else if c =? 1 then Some (TApplication (Z.to_N n))
  else if c =? 2 then Some (TContext (Z.to_N n)) else if c =? 3 then Some (TPrivate (Z.to_N n)) else None.

Fixpoint d_aty (fuel : nat) : dec aty := fun a =>
  match fuel with
  | O => None
  | S f =>
    match a with
    | 0 :: r => Some (ABool, r)
    | 1 :: r => Some (ANull, r)
    | 2 :: hmin :: mn :: hmax :: mx :: e :: r =>
      match d_bool hmin, d_bool hmax, d_bool e with
      | Some h1, Some h2, Some e' => Some (AInt (if h1 then Some mn else None) (if h2 then Some mx else None) e', r)
      | _, _, _ => None
      end
    | 3 :: r => match d_size r with
                | Some (sz, cs :: r') => option_map (fun c => (AStr sz c, r')) (d_charset cs)
                | _ => None
                end
    | 4 :: r => option_map (fun '(sz, r') => (AOct sz, r')) (d_size r)
    | 5 :: r => option_map (fun '(sz, r') => (ABits sz, r')) (d_size r)
    | 6 :: r => option_map (fun '(t, r') => (AOpt t, r')) (d_aty f r)
    | 7 :: r => match d_aty f r with
                | Some (t, r') => option_map (fun '(l, r'') => (ADef t l, r'')) (d_lit r')
                | None => None
                end
    | 8 :: r => match d_size r with
                | Some (sz, r') => option_map (fun '(t, r'') => (ASeqOf t sz, r'')) (d_aty f r')
                | None => None
                end
    | 9 :: r => match d_size r with
                | Some (sz, r') => option_map (fun '(t, r'') => (ASetOf t sz, r'')) (d_aty f r')
                | None => None
                end
    | 10 :: r => match d_str r with
                 | Some (name, 0 :: r') => Some (ARef name None, r')
                 | Some (name, 1 :: c :: n :: r') => option_map (fun g => (ARef name (Some g), r')) (d_tag c n)
                 | _ => None
                 end
    | _ => None
    end
  end.

Definition e_str (s : list N) : list Z := Z.of_nat (length s) :: map Z.of_N s.
Definition e_size (sz : size) : list Z :=
  match sz with SAny => [0] | SFix n e => [1; Z.of_N n; b2z e] | SRange x y e => [2; Z.of_N x; Z.of_N y; b2z e] end.
Definition e_charset (c : charset) : Z := match c with Utf8 => 0 | Numeric => 1 | Printable => 2 | Ia5 => 3 | Visible => 4 end.
Definition e_lit (l : lit) : list Z :=
  match l with
  | LBool b => [0; b2z b] | LStr s => 1 :: e_str s | LInt z => [2; z]
  | LOct bs => 3 :: Z.of_nat (length bs) :: map Z.of_N bs
  | LEnum t v => 4 :: e_str t ++ e_str v
  end.
Definition e_opt (o : option Z) : list Z := match o with Some z => [1; z] | None => [0; 0] end.
Fixpoint e_aty (t : aty) : list Z :=
  match t with
  | ABool => [0] | ANull => [1]
  | AInt mn mx e => 2 :: e_opt mn ++ e_opt mx ++ [b2z e]
  | AStr sz cs => 3 :: e_size sz ++ [e_charset cs]
  | AOct sz => 4 :: e_size sz
  | ABits sz => 5 :: e_size sz
  | AOpt t' => 6 :: e_aty t'
  | ADef t' l => 7 :: e_aty t' ++ e_lit l
  | ASeqOf t' sz => 8 :: e_size sz ++ e_aty t'
  | ASetOf t' sz => 9 :: e_size sz ++ e_aty t'
  | ARef name tg => 10 :: e_str name ++ match tg with
                                        | None => [0]
                                        | Some (TUniversal n) => [1; 0; Z.of_N n] | Some (TApplication n) => [1; 1; Z.of_N n]
                                        | Some (TContext n) => [1; 2; Z.of_N n] | Some (TPrivate n) => [1; 3; Z.of_N n]
                                        end
  end.

(* token trees are nested through lists: dump with explicit fuel (the printer's output is shallow: depth <= 2 * depth t + 4) *)
Fixpoint e_toks (fuel : nat) (ts : list tok) : list Z :=
  match fuel with
  | O => [-9]
  | S f =>
    flat_map (fun t => match t with
                       | TIdent s => 1 :: e_str s
                       | TNum n => [2; Z.of_N n]
                       | TPunct c => [3; Z.of_N c]
                       | TStr s => 5 :: e_str s
                       | TParen l => 4 :: Z.of_nat (length l) :: e_toks f l
                       | TBracket l => 6 :: Z.of_nat (length l) :: e_toks f l
                       end) ts
  end.

Definition run_attr (a : list Z) : list Z :=
  match d_aty (S (length a)) a with
  | Some (t, []) =>
    let toks := print_ty t in
    0 :: Z.of_nat (length toks) :: e_toks (2 * depth t + 6) toks ++
      match parse_attr_type (S (depth t)) toks with
      | Ok t' => 0 :: e_aty t'
      | _ => [1]
      end
  | _ => [-2]
  end.

Definition run_codegen (m : mode) (op : Z) (a : list Z) : list Z :=
  if op =? 3412 then run_attr a else run_mangle m op a.
