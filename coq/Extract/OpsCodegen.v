(* Executable interface of the Codegen layer (op codes 3400..3499).
   3410 kind <char code>...  ->  0 <char code>...     the name mangling functions of Front/Codegen.v
        kind 0 rust_field_name          1 rust_variant_name      2 rust_struct_or_enum_name
             3 rust_module_name(_,false) 4 rust_constant_name
             5 RustCodeGenerator::rust_field_name(_, true)       6 RustCodeGenerator::rust_variant_name
             7 RustCodeGenerator::rust_module_name
             8 emitted field name (5 after 0)                    9 emitted variant name (6 after 1)
        a char code outside ASCII is out of model: answer -3 (the generators stay ASCII)
   3411 <char code>...       ->  0 ident keyword     is_rust_ident / is_keyword as 0/1 (tied to proc_macro2's lexer and syn's
                                                   keyword table by the harness)
   3401..3403 are implementation-only ops (see harness/a1h/src/codegen.rs): unknown here. *)
From A1 Require Import Base.Res Front.Codegen.
Local Open Scope Z_scope.

Definition ascii_codes (a : list Z) : option (list N) :=
  if forallb (fun c => (0 <=? c) && (c <? 128)) a then Some (map Z.to_N a) else None.

Definition ok_str (s : list N) : list Z := 0 :: map Z.of_N s.
Definition b2z (b : bool) : Z := if b then 1 else 0.

Definition run_mangle (m : mode) (op : Z) (a : list Z) : list Z :=
  if op =? 3410 then
    match a with
    | [] => [-2]
    | kind :: cs =>
      match ascii_codes cs with
      | None => if forallb (fun c => (0 <=? c) && (c <? 1114112) && negb ((55296 <=? c) && (c <? 57344))) cs then [-3] else [-2]
      | Some s =>
        if kind =? 0 then ok_str (rust_field_name s)
        else if kind =? 1 then ok_str (rust_variant_name s)
        else if kind =? 2 then ok_str (rust_struct_or_enum_name s)
        else if kind =? 3 then ok_str (rust_module_name s false)
        else if kind =? 4 then ok_str (rust_constant_name s)
        else if kind =? 5 then ok_str (gen_field_name s true)
        else if kind =? 6 then ok_str (gen_variant_name s)
        else if kind =? 7 then ok_str (gen_module_name s)
        else if kind =? 8 then ok_str (emit_field s)
        else if kind =? 9 then ok_str (emit_variant s)
        else [-1]
      end
    end
  else if op =? 3411 then
    match ascii_codes a with
    | None => [-3]
    | Some s => [0; b2z (is_rust_ident s); b2z (is_keyword s)]
    end
  else [-1].

(* ------------------------------------------------------------------ op 3412: the attribute type sub-language
   3412 <aty>  ->  0 <token dump of print_ty t>  <0 <aty of parse_attr_type (print_ty t)> | 1>
   aty  : 0 | 1 | 2 hasmin min hasmax max ext | 3 size cs | 4 size | 5 size | 6 aty | 7 aty lit | 8 size aty | 9 size aty
          | 10 str hastag [class number]            (bool, null, integer, string, octets, bits, optional, default,
                                                     sequence_of, set_of, complex)
   size : 0 | 1 n ext | 2 a b ext        lit : 0 b | 1 str | 2 z | 3 n byte*n | 4 str str       str : len code*len
   token: 1 str (ident) | 2 n (integer literal) | 3 c (punct) | 5 str (string literal) | 4 k tok*k ( ) | 6 k tok*k [ ]
   malformed input -> -2 *)
From A1 Require Import Front.Attr.

Definition dec (A : Type) := list Z -> option (A * list Z).

Definition d_nat_list (n : Z) (a : list Z) : option (list Z * list Z) :=
  if (n <? 0) || (Z.of_nat (length a) <? n) then None else Some (firstn (Z.to_nat n) a, skipn (Z.to_nat n) a).

Definition d_str : dec (list N) := fun a =>
  match a with
  | n :: r => match d_nat_list n r with
              | Some (cs, r') => if forallb (fun c => (0 <=? c) && (c <? 128)) cs then Some (map Z.to_N cs, r') else None
              | None => None
              end
  | [] => None
  end.

Definition d_bool (z : Z) : option bool := if z =? 0 then Some false else if z =? 1 then Some true else None.

Definition d_size : dec size := fun a =>
  match a with
  | 0 :: r => Some (SAny, r)
  | 1 :: n :: e :: r => match d_bool e with Some e' => if n <? 0 then None else Some (SFix (Z.to_N n) e', r) | None => None end
  | 2 :: x :: y :: e :: r => match d_bool e with Some e' => if (x <? 0) || (y <? 0) then None else Some (SRange (Z.to_N x) (Z.to_N y) e', r) | None => None end
  | _ => None
  end.

Definition d_charset (z : Z) : option charset :=
  if z =? 0 then Some Utf8 else if z =? 1 then Some Numeric else if z =? 2 then Some Printable
  else if z =? 3 then Some Ia5 else if z =? 4 then Some Visible else None.

Definition d_lit : dec lit := fun a =>
  match a with
  | 0 :: b :: r => option_map (fun b' => (LBool b', r)) (d_bool b)
  | 1 :: r => option_map (fun '(s, r') => (LStr s, r')) (d_str r)
  | 2 :: z :: r => Some (LInt z, r)
  | 3 :: n :: r => match d_nat_list n r with
                   | Some (bs, r') => if forallb (fun c => (0 <=? c) && (c <? 256)) bs then Some (LOct (map Z.to_N bs), r') else None
                   | None => None
                   end
  | 4 :: r => match d_str r with
              | Some (t, r') => option_map (fun '(v, r'') => (LEnum t v, r'')) (d_str r')
              | None => None
              end
  | _ => None
  end.

Definition d_tag (c n : Z) : option tag :=
  if n <? 0 then None
  else if c =? 0 then Some (TUniversal (Z.to_N n)) else if c =? 1 then Some (TApplication (Z.to_N n))
  else if c =? 2 then Some (TContext (Z.to_N n)) else if c =? 3 then Some (TPrivate (Z.to_N n)) else None.

Fixpoint d_aty (fuel : nat) : dec aty := fun a =>
  match fuel with
  | O => None
  | S f =>
    match a with
    | 0 :: r => Some (ABool, r)
    | 1 :: r => Some (ANull, r)
    | 2 :: hmin :: mn :: hmax :: mx :: e :: r =>
      match d_bool hmin, d_bool hmax, d_bool e with
      | Some h1, Some h2, Some e' => Some (AInt (if h1 then Some mn else None) (if h2 then Some mx else None) e', r)
      | _, _, _ => None
      end
    | 3 :: r => match d_size r with
                | Some (sz, cs :: r') => option_map (fun c => (AStr sz c, r')) (d_charset cs)
                | _ => None
                end
    | 4 :: r => option_map (fun '(sz, r') => (AOct sz, r')) (d_size r)
    | 5 :: r => option_map (fun '(sz, r') => (ABits sz, r')) (d_size r)
    | 6 :: r => option_map (fun '(t, r') => (AOpt t, r')) (d_aty f r)
    | 7 :: r => match d_aty f r with
                | Some (t, r') => option_map (fun '(l, r'') => (ADef t l, r'')) (d_lit r')
                | None => None
                end
    | 8 :: r => match d_size r with
                | Some (sz, r') => option_map (fun '(t, r'') => (ASeqOf t sz, r'')) (d_aty f r')
                | None => None
                end
    | 9 :: r => match d_size r with
                | Some (sz, r') => option_map (fun '(t, r'') => (ASetOf t sz, r'')) (d_aty f r')
                | None => None
                end
    | 10 :: r => match d_str r with
                 | Some (name, 0 :: r') => Some (ARef name None, r')
                 | Some (name, 1 :: c :: n :: r') => option_map (fun g => (ARef name (Some g), r')) (d_tag c n)
                 | _ => None
                 end
    | _ => None
    end
  end.

Definition e_str (s : list N) : list Z := Z.of_nat (length s) :: map Z.of_N s.
Definition e_size (sz : size) : list Z :=
  match sz with SAny => [0] | SFix n e => [1; Z.of_N n; b2z e] | SRange x y e => [2; Z.of_N x; Z.of_N y; b2z e] end.
Definition e_charset (c : charset) : Z := match c with Utf8 => 0 | Numeric => 1 | Printable => 2 | Ia5 => 3 | Visible => 4 end.
Definition e_lit (l : lit) : list Z :=
  match l with
  | LBool b => [0; b2z b] | LStr s => 1 :: e_str s | LInt z => [2; z]
  | LOct bs => 3 :: Z.of_nat (length bs) :: map Z.of_N bs
  | LEnum t v => 4 :: e_str t ++ e_str v
  end.
Definition e_opt (o : option Z) : list Z := match o with Some z => [1; z] | None => [0; 0] end.
Fixpoint e_aty (t : aty) : list Z :=
  match t with
  | ABool => [0] | ANull => [1]
  | AInt mn mx e => 2 :: e_opt mn ++ e_opt mx ++ [b2z e]
  | AStr sz cs => 3 :: e_size sz ++ [e_charset cs]
  | AOct sz => 4 :: e_size sz
  | ABits sz => 5 :: e_size sz
  | AOpt t' => 6 :: e_aty t'
  | ADef t' l => 7 :: e_aty t' ++ e_lit l
  | ASeqOf t' sz => 8 :: e_size sz ++ e_aty t'
  | ASetOf t' sz => 9 :: e_size sz ++ e_aty t'
  | ARef name tg => 10 :: e_str name ++ match tg with
                                        | None => [0]
                                        | Some (TUniversal n) => [1; 0; Z.of_N n] | Some (TApplication n) => [1; 1; Z.of_N n]
                                        | Some (TContext n) => [1; 2; Z.of_N n] | Some (TPrivate n) => [1; 3; Z.of_N n]
                                        end
  end.

(* token trees are nested through lists: dump with explicit fuel (the printer's output is shallow: depth <= 2 * depth t + 4) *)
Fixpoint e_toks (fuel : nat) (ts : list tok) : list Z :=
  match fuel with
  | O => [-9]
  | S f =>
    flat_map (fun t => match t with
                       | TIdent s => 1 :: e_str s
                       | TNum n => [2; Z.of_N n]
                       | TPunct c => [3; Z.of_N c]
                       | TStr s => 5 :: e_str s
                       | TParen l => 4 :: Z.of_nat (length l) :: e_toks f l
                       | TBracket l => 6 :: Z.of_nat (length l) :: e_toks f l
                       end) ts
  end.

Definition run_attr (a : list Z) : list Z :=
  match d_aty (S (length a)) a with
  | Some (t, []) =>
    let toks := print_ty t in
    0 :: Z.of_nat (length toks) :: e_toks (2 * depth t + 6) toks ++
      match parse_attr_type (S (depth t)) toks with
      | Ok t' => 0 :: e_aty t'
      | _ => [1]
      end
  | _ => [-2]
  end.

(* ------------------------------------------------------------------ op 3413: the whole attribute (Front/AttrItem.v)
   3413 0 kind tagopt ext nnames str*nnames     header of a definition; kind 0 sequence 1 set 2 choice 3 enumerated 4 transparent,
                                                 ext = -1 | index of the member named in extensible_after(..), names = the member
                                                 names of the Rust model (all members are BOOLEAN)
   3413 1 <aty> tagopt nconsts (str z)*         field of a struct          3413 2 <aty> tagopt      CHOICE variant
   3413 3 <aty> nconsts (str z)*                field of a tuple struct    3413 4 (0 | 1 n)         ENUMERATED variant `#[asn(n)]`
   tagopt: 0 | 1 class number
   -> 0 <token dump of the printed attribute> <result>    | 2 class (the generator panics) | -2 (malformed)
      result (what parse_asn_definition lets one observe of the re-parsed attribute)
        header : 0 kind tagopt ext | 1        (a CHOICE printed without tag answers tagopt 0: its derived default tag is not the attribute's)
        field  : 0 <aty> tagopt nconsts (str z)* nconsts' (str z)* | 1     (the second list: the constants of the member in
                 to_rust_keep_names of the re-parsed definition; a CHOICE variant has none)
        ENUMERATED variant : 0 (0 | 1 n) | 1 *)
From A1 Require Import Front.AttrItem.

Definition d_tagopt : dec (option tag) := fun a =>
  match a with
  | 0 :: r => Some (None, r)
  | 1 :: c :: n :: r => option_map (fun g => (Some g, r)) (d_tag c n)
  | _ => None
  end.

Fixpoint d_strs (n : nat) : dec (list (list N)) := fun a =>
  match n with
  | O => Some ([], a)
  | S n' => match d_str a with
            | Some (s, r) => option_map (fun '(l, r') => (s :: l, r')) (d_strs n' r)
            | None => None
            end
  end.

Fixpoint d_consts (n : nat) : dec (list (list N * Z)) := fun a =>
  match n with
  | O => Some ([], a)
  | S n' => match d_str a with
            | Some (s, z :: r) => option_map (fun '(l, r') => ((s, z) :: l, r')) (d_consts n' r)
            | _ => None
            end
  end.

(* a count that is plausible for the rest of the input (never Z.to_nat an unchecked number) *)
Definition d_count (a : list Z) : option (nat * list Z) :=
  match a with
  | n :: r => if (n <? 0) || (Z.of_nat (length r) <? n) then None else Some (Z.to_nat n, r)
  | [] => None
  end.

Definition e_tagopt (tg : option tag) : list Z :=
  match tg with
  | None => [0]
  | Some (TUniversal n) => [1; 0; Z.of_N n] | Some (TApplication n) => [1; 1; Z.of_N n]
  | Some (TContext n) => [1; 2; Z.of_N n] | Some (TPrivate n) => [1; 3; Z.of_N n]
  end.
Definition e_consts (cs : list (list N * Z)) : list Z :=
  Z.of_nat (length cs) :: flat_map (fun c => e_str (fst c) ++ [snd c]) cs.

Definition d_hkind (z : Z) : option hkind :=
  if z =? 0 then Some HSequence else if z =? 1 then Some HSet else if z =? 2 then Some HChoice
  else if z =? 3 then Some HEnumerated else if z =? 4 then Some HTransparent else None.
Definition e_hkind (k : hkind) : Z :=
  match k with HSequence => 0 | HSet => 1 | HChoice => 2 | HEnumerated => 3 | HTransparent => 4 end.

Definition dump_toks (fuel : nat) (toks : list tok) : list Z := Z.of_nat (length toks) :: e_toks fuel toks.

(* add_definition: `fields[index]` panics for a struct, `variants.get(index)` gives no name for an enum *)
Definition header_ext_name (k : hkind) (names : list (list N)) (ext : Z) : res (option (list N)) :=
  if ext =? -1 then Ok None else
  match k with
  | HTransparent => Ok None
  | HSequence | HSet => if Z.of_nat (length names) <=? ext then Panic P_INDEX_OOB else Ok (nth_error names (Z.to_nat ext))
  | HChoice | HEnumerated => if Z.of_nat (length names) <=? ext then Ok None else Ok (nth_error names (Z.to_nat ext))
  end.

Definition run_attr_header (a : list Z) : list Z :=
  match a with
  | kz :: r =>
    match d_hkind kz, d_tagopt r with
    | Some k, Some (tg, ext :: r') =>
      match d_count r' with
      | Some (n, r'') =>
        match d_strs n r'' with
        | Some (names, []) =>
          if ext <? -1 then [-2] else
          match header_ext_name k names ext with
          | Panic p => [2; Z.of_N p]
          | Err _ => [-2]
          | Ok ex =>
            let toks := print_attr (mk_attr (PHeader (hkind_name k)) tg [] ex) in
            0 :: dump_toks 4 toks ++
              match parse_attr CHeader 1 toks with
              | Ok a' =>
                match a_primary a' with
                | PHeader s =>
                  match header_kind s with
                  | Some k' =>
                    match (match k' with HTransparent => Ok None | _ => find_ext_index (a_ext a') (emitted_members k' names) end) with
                    | Ok e => 0 :: e_hkind k' :: e_tagopt (a_tag a') ++ [match e with Some i => Z.of_nat i | None => -1 end]
                    | _ => [1]
                    end
                  | None => [1]
                  end
                | _ => [1]
                end
              | _ => [1]
              end
          end
        | _ => [-2]
        end
      | None => [-2]
      end
    | _, _ => [-2]
    end
  | [] => [-2]
  end.

Definition run_attr_field (c : ctx) (tuple : bool) (t : aty) (tg : option tag) (cs : list (list N * Z)) : list Z :=
  let toks := print_attr (mk_attr (PType t) tg cs None) in
  0 :: dump_toks (2 * depth t + 8) toks ++
    match parse_attr c (S (depth t)) toks with
    | Ok a' =>
      match into_asn (match t with ARef n _ => n | _ => [] end) a' with
      | Some (tg', t', cs') =>
        0 :: e_aty t' ++ e_tagopt tg' ++ e_consts cs' ++
          e_consts (match c with
                    | CTransparent => if tuple then tuple_rust_constants t' cs' else field_rust_constants t' cs'
                    | _ => []
                    end)
      | None => [1]
      end
    | _ => [1]
    end.

Definition run_attr_item (a : list Z) : list Z :=
  match a with
  | 0 :: r => run_attr_header r
  | 1 :: r =>
    match d_aty (S (length r)) r with
    | Some (t, r1) =>
      match d_tagopt r1 with
      | Some (tg, r2) =>
        match d_count r2 with
        | Some (n, r3) => match d_consts n r3 with Some (cs, []) => run_attr_field CTransparent false t tg cs | _ => [-2] end
        | None => [-2]
        end
      | None => [-2]
      end
    | None => [-2]
    end
  | 2 :: r =>
    match d_aty (S (length r)) r with
    | Some (t, r1) => match d_tagopt r1 with Some (tg, []) => run_attr_field CChoiceVariant false t tg [] | _ => [-2] end
    | None => [-2]
    end
  | 3 :: r =>
    match d_aty (S (length r)) r with
    | Some (t, r1) =>
      match d_count r1 with
      | Some (n, r2) => match d_consts n r2 with Some (cs, []) => run_attr_field CTransparent true t None cs | _ => [-2] end
      | None => [-2]
      end
    | None => [-2]
    end
  | 4 :: r =>
    match (match r with [0] => Some None | [1; n] => if n <? 0 then None else Some (Some (Z.to_N n)) | _ => None end) with
    | Some num =>
      let toks := print_attr (mk_attr (PNumber num) None [] None) in
      0 :: dump_toks 2 toks ++
        match parse_attr CEnumVariant 1 toks with
        | Ok a' => match a_primary a' with
                   | PNumber None => [0; 0]
                   | PNumber (Some n) => [0; 1; Z.of_N n]
                   | _ => [1]
                   end
        | _ => [1]
        end
    | None => [-2]
    end
  | _ => [-2]
  end.

(* ------------------------------------------------------------------ op 3414: descriptor constants (Front/Descr.v)
   3414 <definition dump>   the canonical dump of one Definition<Rust> of harness/a1h/src/codegen.rs `dump_def`:
        str name, then  0 sort tagopt ext n (str type tagopt consts)*n | 1 tagopt ext n str*n | 2 tagopt ext n (str type tagopt)*n
                      | 3 type tagopt consts
        type  : 0 | 1 kind hasmin min hasmax max ext | 2 size cs | 3 size | 4 size | 5 sort size type | 6 | 7 type | 8 type lit
              | 9 str tagopt       (kind 0 i8 1 u8 2 i16 3 u16 4 i32 5 u32 6 i64 7 u64)
        consts: n (str str)*n      ext: -1 | index
   -> 0 k (str owner, trait, const, value)*k | 2 class | -2
        trait 0 numbers 1 utf8string 2 numericstring 3 printablestring 4 ia5string 5 visiblestring 6 octetstring 7 bitstring
              8 sequenceof 9 setof 10 sequence 11 set 12 choice 13 enumerated
        const 0 MIN 1 MAX 2 EXTENSIBLE 3 STD_VARIANT_COUNT 4 VARIANT_COUNT 5 STD_OPTIONAL_FIELDS 6 FIELD_COUNT 7 EXTENDED_AFTER_FIELD
        value: the number / 0,1 for a bool / -1 for None *)
From A1 Require Import Front.IntTy Front.Descr.

Definition d_ikind (z : Z) : option ikind :=
  if z =? 0 then Some I8 else if z =? 1 then Some U8 else if z =? 2 then Some I16 else if z =? 3 then Some U16
  else if z =? 4 then Some I32 else if z =? 5 then Some U32 else if z =? 6 then Some I64 else if z =? 7 then Some U64 else None.

Fixpoint d_rty (fuel : nat) : dec rty := fun a =>
  match fuel with
  | O => None
  | S f =>
    match a with
    | 0 :: r => Some (RBool, r)
    | 1 :: k :: hmin :: mn :: hmax :: mx :: e :: r =>
      match d_ikind k, d_bool hmin, d_bool hmax, d_bool e with
      | Some k', Some h1, Some h2, Some e' => Some (RInt k' (if h1 then Some mn else None) (if h2 then Some mx else None) e', r)
      | _, _, _, _ => None
      end
    | 2 :: r => match d_size r with
                | Some (sz, cs :: r') => option_map (fun c => (RString sz c, r')) (d_charset cs)
                | _ => None
                end
    | 3 :: r => option_map (fun '(sz, r') => (RVecU8 sz, r')) (d_size r)
    | 4 :: r => option_map (fun '(sz, r') => (RBitVec sz, r')) (d_size r)
    | 5 :: srt :: r => match d_bool srt, d_size r with
                       | Some s, Some (sz, r') => option_map (fun '(t, r'') => (RVec t sz s, r'')) (d_rty f r')
                       | _, _ => None
                       end
    | 6 :: r => Some (RNull, r)
    | 7 :: r => option_map (fun '(t, r') => (ROption t, r')) (d_rty f r)
    | 8 :: r => match d_rty f r with
                | Some (t, r') => option_map (fun '(l, r'') => (RDefault t l, r'')) (d_lit r')
                | None => None
                end
    | 9 :: r => match d_str r with
                | Some (name, r') => option_map (fun '(tg, r'') => (RComplex name tg, r'')) (d_tagopt r')
                | None => None
                end
    | _ => None
    end
  end.

Fixpoint d_str_pairs (n : nat) : dec (list (list N * list N)) := fun a =>
  match n with
  | O => Some ([], a)
  | S n' => match d_str a with
            | Some (s, r) => match d_str r with
                             | Some (v, r') => option_map (fun '(l, r'') => ((s, v) :: l, r'')) (d_str_pairs n' r')
                             | None => None
                             end
            | None => None
            end
  end.
Definition d_rconsts : dec (list (list N * list N)) := fun a =>
  match d_count a with Some (n, r) => d_str_pairs n r | None => None end.

Definition d_ext : dec (option N) := fun a =>
  match a with
  | e :: r => if e =? -1 then Some (None, r) else if e <? 0 then None else Some (Some (Z.to_N e), r)
  | [] => None
  end.

Fixpoint d_rfields (with_consts : bool) (fuel n : nat) : dec (list rfield) := fun a =>
  match n with
  | O => Some ([], a)
  | S n' =>
    match d_str a with
    | Some (name, r) =>
      match d_rty fuel r with
      | Some (t, r1) =>
        match d_tagopt r1 with
        | Some (tg, r2) =>
          match (if with_consts then d_rconsts r2 else Some ([], r2)) with
          | Some (cs, r3) => option_map (fun '(l, r4) => (mk_rfield name t tg cs :: l, r4)) (d_rfields with_consts fuel n' r3)
          | None => None
          end
        | None => None
        end
      | None => None
      end
    | None => None
    end
  end.

Definition d_def : dec (list N * rust_def) := fun a =>
  let fuel := S (length a) in
  match d_str a with
  | Some (name, 0 :: srt :: r) =>
    match d_bool srt, d_tagopt r with
    | Some s, Some (tg, r1) =>
      match d_ext r1 with
      | Some (ext, r2) =>
        match d_count r2 with
        | Some (n, r3) => option_map (fun '(fs, r4) => ((name, DStruct s fs tg ext), r4)) (d_rfields true fuel n r3)
        | None => None
        end
      | None => None
      end
    | _, _ => None
    end
  | Some (name, 1 :: r) =>
    match d_tagopt r with
    | Some (tg, r1) =>
      match d_ext r1 with
      | Some (ext, r2) =>
        match d_count r2 with
        | Some (n, r3) => option_map (fun '(vs, r4) => ((name, DEnum vs tg ext), r4)) (d_strs n r3)
        | None => None
        end
      | None => None
      end
    | None => None
    end
  | Some (name, 2 :: r) =>
    match d_tagopt r with
    | Some (tg, r1) =>
      match d_ext r1 with
      | Some (ext, r2) =>
        match d_count r2 with
        | Some (n, r3) => option_map (fun '(vs, r4) => ((name, DDataEnum vs tg ext), r4)) (d_rfields false fuel n r3)
        | None => None
        end
      | None => None
      end
    | None => None
    end
  | Some (name, 3 :: r) =>
    match d_rty fuel r with
    | Some (t, r1) =>
      match d_tagopt r1 with
      | Some (tg, r2) => option_map (fun '(cs, r3) => ((name, DTuple t tg cs), r3)) (d_rconsts r2)
      | None => None
      end
    | None => None
    end
  | _ => None
  end.

Definition e_ctrait (t : ctrait) : Z :=
  match t with
  | TrNumbers => 0 | TrString Utf8 => 1 | TrString Numeric => 2 | TrString Printable => 3 | TrString Ia5 => 4 | TrString Visible => 5
  | TrOctet => 6 | TrBits => 7 | TrSeqOf => 8 | TrSetOf => 9 | TrSequence => 10 | TrSet => 11 | TrChoice => 12 | TrEnumerated => 13
  end.
Definition e_cname (c : cname) : Z :=
  match c with
  | CMin => 0 | CMax => 1 | CExtensible => 2 | CStdVariantCount => 3 | CVariantCount => 4 | CStdOptionalFields => 5
  | CFieldCount => 6 | CExtendedAfterField => 7
  end.
Definition e_cval (v : cval) : Z :=
  match v with VZ z => z | VB b => b2z b | VN n => Z.of_N n | VON (Some n) => Z.of_N n | VON None => -1 end.

Definition run_consts (m : mode) (a : list Z) : list Z :=
  match d_def a with
  | Some ((name, d), []) =>
    match consts_of m name d with
    | Ok cs => 0 :: Z.of_nat (length cs) :: flat_map (fun c => e_str (dc_owner c) ++ [e_ctrait (dc_trait c); e_cname (dc_name c); e_cval (dc_val c)]) cs
    | Panic p => [2; Z.of_N p]
    | Err e => [1; Z.of_N e]
    end
  | _ => [-2]
  end.

Definition run_codegen (m : mode) (op : Z) (a : list Z) : list Z :=
  if op =? 3412 then run_attr a else if op =? 3413 then run_attr_item a else if op =? 3414 then run_consts m a else run_mangle m op a.
