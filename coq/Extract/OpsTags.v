(* Executable interface of the Tags layer (op codes 3200..3299); mirrored by harness/a1h/src/tags.rs.

   op 3201: is_set ext auto n (tc tn ty opt)*n m entry*m
            ext  = -1 (no marker) | number of components written before `...`
            tc   = -1 untagged | 0 UNIVERSAL | 1 APPLICATION | 2 context | 3 PRIVATE;  tn = number
            ty   = 0..11 builtin | 20 ENUMERATED, 21 SEQUENCE, 22 SET written inline | 99 undefined name | 100+j entry j
            opt  = 0 mandatory | 1 OPTIONAL | 2 DEFAULT
            entry = tc tn kind [cext k (tc tn ty)*k]     kind 23 = CHOICE; references to later entries only
   answer : 0 n order(n) tags(2n, wire order) std_optional extended_after(-1 none) own_class own_number
            | 1 stage | 2 class | -2 malformed input *)
From A1 Require Import Base.Res Front.Tags.
Local Open Scope Z_scope.

Definition dec_tag (tc tn : Z) : option (option tag) :=
  if tn <? 0 then None
  else match tc with
       | -1 => Some None
       | 0 => Some (Some (Universal, Z.to_N tn))
       | 1 => Some (Some (Application, Z.to_N tn))
       | 2 => Some (Some (ContextSpecific, Z.to_N tn))
       | 3 => Some (Some (Private, Z.to_N tn))
       | _ => None
       end.

Definition dec_bkind (t : Z) : option bkind :=
  match t with
  | 0 => Some KBool | 1 => Some KInt | 2 => Some KOctets | 3 => Some KUtf8 | 4 => Some KNull | 5 => Some KBits
  | 6 => Some KIa5 | 7 => Some KNumeric | 8 => Some KPrintable | 9 => Some KVisible | 10 => Some KSeqOf
  | 11 => Some KSetOf | _ => None
  end.

(* [lo]: references must point to an entry with index > lo; [m]: number of entries *)
Definition dec_ty (inline : bool) (lo m t : Z) : option aty :=
  match dec_bkind t with
  | Some k => Some (TBuiltin k)
  | None =>
      if t =? 99 then Some (TRef RUndef)
      else if (100 <=? t) then
        if (lo <? t - 100) && (t - 100 <? m) then Some (TRef (RIdx (Z.to_nat (t - 100)))) else None
      else if inline then
        match t with
        | 20 => Some (TConstr KEnum) | 21 => Some (TConstr KSeq) | 22 => Some (TConstr KSet) | _ => None
        end
      else None
  end.

Definition dec_pres (o : Z) : option presence :=
  match o with 0 => Some Mandatory | 1 => Some Optional | 2 => Some Default | _ => None end.

(* raw components first: their type codes can only be checked once m is known *)
Fixpoint take_comps (n : nat) (a : list Z) : option (list (option tag * Z * presence) * list Z) :=
  match n with
  | O => Some ([], a)
  | S n' =>
      match a with
      | tc :: tn :: ty :: o :: a' =>
          match dec_tag tc tn, dec_pres o with
          | Some tg, Some p =>
              match take_comps n' a' with
              | Some (cs, r) => Some ((tg, ty, p) :: cs, r)
              | None => None
              end
          | _, _ => None
          end
      | _ => None
      end
  end.

Fixpoint take_alts (k : nat) (i m : Z) (a : list Z) : option (list (option tag * aty) * list Z) :=
  match k with
  | O => Some ([], a)
  | S k' =>
      match a with
      | tc :: tn :: ty :: a' =>
          match dec_tag tc tn, dec_ty false i m ty with
          | Some tg, Some t =>
              match take_alts k' i m a' with
              | Some (al, r) => Some ((tg, t) :: al, r)
              | None => None
              end
          | _, _ => None
          end
      | _ => None
      end
  end.

Fixpoint take_entries (cnt : nat) (i m : Z) (a : list Z) : option (env * list Z) :=
  match cnt with
  | O => Some ([], a)
  | S cnt' =>
      match a with
      | tc :: tn :: kind :: a' =>
          match dec_tag tc tn with
          | None => None
          | Some tg =>
              let entry :=
                if kind =? 23 then
                  match a' with
                  | cext :: k :: a'' =>
                      if (k <? 1) || negb ((cext =? -1) || ((1 <=? cext) && (cext <=? k)))
                         || (Z.of_nat (length a'') <? k) then None
                      else
                        match take_alts (Z.to_nat k) i m a'' with
                        | Some (al, r) =>
                            Some (TChoice (if cext =? -1 then None else Some (Z.to_nat cext - 1)%nat) al, r)
                        | None => None
                        end
                  | _ => None
                  end
                else
                  match dec_ty true i m kind with
                  | Some t => Some (t, a')
                  | None => None
                  end in
              match entry with
              | None => None
              | Some (t, r) =>
                  match take_entries cnt' (i + 1) m r with
                  | Some (e, r') => Some ({| d_tag := tg; d_ty := t |} :: e, r')
                  | None => None
                  end
              end
          end
      | _ => None
      end
  end.

Fixpoint finish_comps (m : Z) (l : list (option tag * Z * presence)) : option (list comp) :=
  match l with
  | [] => Some []
  | (tg, ty, p) :: l' =>
      match dec_ty true (-1) m ty, finish_comps m l' with
      | Some t, Some cs => Some ({| c_tag := tg; c_ty := t; c_pres := p |} :: cs)
      | _, _ => None
      end
  end.

Definition decode (a : list Z) : option sdef :=
  match a with
  | is_set :: ext :: auto :: n :: a1 =>
      if negb ((0 <=? is_set) && (is_set <=? 1) && (0 <=? auto) && (auto <=? 1) && (0 <=? n)
               && (-1 <=? ext) && (ext <=? n)) || (Z.of_nat (length a1) <? n) then None
      else
        match take_comps (Z.to_nat n) a1 with
        | Some (raw, m :: a2) =>
            if (m <? 0) || (Z.of_nat (length a2) <? m) then None
            else
              match take_entries (Z.to_nat m) 0 m a2 with
              | Some (e, []) =>
                  match finish_comps m raw with
                  | Some cs =>
                      Some {| s_set := is_set =? 1;
                              s_marker := if ext =? -1 then None else Some (Z.to_nat ext);
                              s_auto := auto =? 1;
                              s_own := None;
                              s_comps := cs;
                              s_env := e |}
                  | None => None
                  end
              | _ => None
              end
        | _ => None
        end
  | _ => None
  end.

Definition z_of_class (c : tclass) : Z := Z.of_N (class_code c).
Definition enc_tag (t : tag) : list Z := [z_of_class (fst t); Z.of_N (snd t)].

Definition enc_layout (r : res layout) : list Z :=
  match r with
  | Ok l =>
      0 :: Z.of_nat (length (l_wire l))
        :: map (fun f => Z.of_nat (rf_idx f)) (l_wire l)
        ++ flat_map enc_tag (l_tags l)
        ++ [Z.of_nat (l_std_optional l);
            match l_extended_after l with Some x => Z.of_nat x | None => -1 end]
        ++ enc_tag (l_own l)
  | Err e => [1; Z.of_N e]
  | Panic p => [2; Z.of_N p]
  end.

Definition run_tags (m : mode) (op : Z) (a : list Z) : list Z :=
  match op with
  | 3201 => match decode a with
            | Some d => enc_layout (layout_of d)
            | None => [-2]
            end
  | _ => [-1]
  end.
