(* Executable interface of the Tags layer (op codes 3200..3299). Stub until the layer is built. *)
From A1 Require Import Base.Res.
Local Open Scope Z_scope.
Definition run_tags (m : mode) (op : Z) (a : list Z) : list Z := [-1].
