(* Executable interface of the L1 model (PackedWrite / PackedRead). *)
From A1 Require Import Per.Prim.
From A1 Require Per.X691.
Local Open Scope Z_scope.

Definition zs (l : list N) : list Z := map Z.of_N l.
Definition ns (l : list Z) : list N := map Z.to_N l.
Definition zb (b : bool) : Z := if b then 1 else 0.
Definition optn (z : Z) : option N := if z <? 0 then None else Some (Z.to_N z).

Definition TAIL : bits := [true; false; true].

Definition enc_r {A} (f : A -> list Z) (r : res (A * src)) : list Z :=
  match r with
  | Ok (a, s) => 0 :: Z.of_N (s_pos s) :: f a
  | Err e => [1; Z.of_N e]
  | Panic p => [2; Z.of_N p]
  end.

(* write, then read back from Bits::from((content, bit_len)) after appending TAIL *)
Definition wr {A} (w : res bits) (rd : src -> res (A * src)) (f : A -> list Z) : list Z :=
  match w with
  | Ok wb =>
      let all := wb ++ TAIL in
      let bytes := bytes_of_bits all in
      let s := src_of_bytes bytes (N.of_nat (length all)) in
      0 :: Z.of_nat (length wb) :: Z.of_nat (length (bytes_of_bits wb)) :: zs (bytes_of_bits wb) ++ enc_r f (rd s)
  | Err e => [1; Z.of_N e]
  | Panic p => [2; Z.of_N p]
  end.

Definition pad_bytes (bs : bits) (buflen : N) : list Z :=
  let b := bytes_of_bits bs in
  zs b ++ repeat 0 (N.to_nat buflen - length b).

(* pattern bytes: b[i] = (a*i + c) mod 256 *)
Fixpoint pattern (n : nat) (i a c : N) : list N :=
  match n with
  | O => []
  | S n' => ((a * i + c) mod 256)%N :: pattern n' (i + 1)%N a c
  end.

Definition enc_ref (o : option bits) : list Z :=
  match o with
  | Some b => 0 :: Z.of_nat (length b) :: zs (bytes_of_bits b)
  | None => [1]
  end.

Definition run_per (m : mode) (op : Z) (a : list Z) : list Z :=
  match op, a with
  | 1001, lb :: ub :: v :: _ =>
      wr (w_nnbi m (optn lb) (optn ub) (Z.to_N v)) (r_nnbi m (optn lb) (optn ub)) (fun v => [Z.of_N v])
  | 1002, bl :: v :: _ =>
      wr (w_2s_compliment m (Z.to_N bl) v) (r_2s_compliment (Z.to_N bl)) (fun v => [v])
  | 1003, lb :: ub :: v :: _ =>
      wr (w_constrained m lb ub v) (r_constrained m lb ub) (fun v => [v])
  | 1004, v :: _ =>
      wr (w_normally_small m (Z.to_N v)) (r_normally_small m) (fun v => [Z.of_N v])
  | 1005, lb :: v :: _ =>
      wr (w_semi_constrained m lb v) (r_semi_constrained m lb) (fun v => [v])
  | 1006, v :: _ =>
      wr (w_unconstrained m v) (r_unconstrained m) (fun v => [v])
  | 1007, lb :: ub :: v :: _ =>
      match w_length_determinant m (optn lb) (optn ub) (Z.to_N v) with
      | Ok (b, fs) =>
          (match fs with Some x => Z.of_N x | None => -1 end) ::
          wr (Ok b) (r_length_determinant m (optn lb) (optn ub)) (fun v => [Z.of_N v])
      | Err e => [1; Z.of_N e]
      | Panic p => [2; Z.of_N p]
      end
  | 1008, std :: ext :: idx :: _ =>
      wr (w_enumeration_index m (Z.to_N std) (negb (ext =? 0)) (Z.to_N idx))
         (r_enumeration_index m (Z.to_N std) (negb (ext =? 0))) (fun v => [Z.of_N v])
  | 1009, lb :: ub :: ext :: n :: bytes =>
      wr (w_octetstring m (optn lb) (optn ub) (negb (ext =? 0)) (ns (firstn (Z.to_nat n) bytes)))
         (r_octetstring m (optn lb) (optn ub) (negb (ext =? 0)))
         (fun bs => Z.of_nat (length bs / 8) :: zs (bytes_of_bits bs))
  | 1019, lb :: ub :: ext :: n :: pa :: pc :: _ =>
      wr (w_octetstring m (optn lb) (optn ub) (negb (ext =? 0)) (pattern (Z.to_nat n) 0 (Z.to_N pa) (Z.to_N pc)))
         (r_octetstring m (optn lb) (optn ub) (negb (ext =? 0)))
         (fun bs => Z.of_nat (length bs / 8) :: zs (bytes_of_bits bs))
  | 1010, lb :: ub :: ext :: off :: len :: n :: bytes =>
      wr (w_bitstring m (optn lb) (optn ub) (negb (ext =? 0)) (ns (firstn (Z.to_nat n) bytes)) (Z.to_N off) (Z.to_N len))
         (r_bitstring m (optn lb) (optn ub) (negb (ext =? 0)))
         (fun '(bs, bl, buflen) => Z.of_N bl :: Z.of_N buflen :: pad_bytes bs buflen)
  | 1020, lb :: ub :: ext :: off :: len :: n :: pa :: pc :: _ =>
      wr (w_bitstring m (optn lb) (optn ub) (negb (ext =? 0)) (pattern (Z.to_nat n) 0 (Z.to_N pa) (Z.to_N pc)) (Z.to_N off) (Z.to_N len))
         (r_bitstring m (optn lb) (optn ub) (negb (ext =? 0)))
         (fun '(bs, bl, buflen) => Z.of_N bl :: Z.of_N buflen :: pad_bytes bs buflen)
  (* raw reads: <args> bitlen bytes... *)
  | 1031, lb :: ub :: bl :: bytes =>
      enc_r (fun v => [Z.of_N v]) (r_nnbi m (optn lb) (optn ub) (src_of_bytes (ns bytes) (Z.to_N bl)))
  | 1032, n :: bl :: bytes =>
      enc_r (fun v => [v]) (r_2s_compliment (Z.to_N n) (src_of_bytes (ns bytes) (Z.to_N bl)))
  | 1033, lb :: ub :: bl :: bytes =>
      enc_r (fun v => [v]) (r_constrained m lb ub (src_of_bytes (ns bytes) (Z.to_N bl)))
  | 1034, bl :: bytes =>
      enc_r (fun v => [Z.of_N v]) (r_normally_small m (src_of_bytes (ns bytes) (Z.to_N bl)))
  | 1035, lb :: bl :: bytes =>
      enc_r (fun v => [v]) (r_semi_constrained m lb (src_of_bytes (ns bytes) (Z.to_N bl)))
  | 1036, bl :: bytes =>
      enc_r (fun v => [v]) (r_unconstrained m (src_of_bytes (ns bytes) (Z.to_N bl)))
  | 1037, lb :: ub :: bl :: bytes =>
      enc_r (fun v => [Z.of_N v]) (r_length_determinant m (optn lb) (optn ub) (src_of_bytes (ns bytes) (Z.to_N bl)))
  | 1038, std :: ext :: bl :: bytes =>
      enc_r (fun v => [Z.of_N v]) (r_enumeration_index m (Z.to_N std) (negb (ext =? 0)) (src_of_bytes (ns bytes) (Z.to_N bl)))
  | 1039, lb :: ub :: ext :: bl :: bytes =>
      enc_r (fun bs => Z.of_nat (length bs / 8) :: zs (bytes_of_bits bs))
            (r_octetstring m (optn lb) (optn ub) (negb (ext =? 0)) (src_of_bytes (ns bytes) (Z.to_N bl)))
  | 1040, lb :: ub :: ext :: bl :: bytes =>
      enc_r (fun '(bs, bl, buflen) => Z.of_N bl :: Z.of_N buflen :: pad_bytes bs buflen)
            (r_bitstring m (optn lb) (optn ub) (negb (ext =? 0)) (src_of_bytes (ns bytes) (Z.to_N bl)))
  (* X.691 reference encodings (Per/X691.v): answer = 0 :: nbits :: bytes, or [1] when inadmissible *)
  | 1051, lb :: ub :: v :: _ => enc_ref (X691.x_constrained lb ub v)
  | 1052, lb :: v :: _ => enc_ref (X691.x_semi_constrained lb v)
  | 1053, v :: _ => enc_ref (Some (X691.x_unconstrained v))
  | 1054, v :: _ => enc_ref (Some (X691.x_normally_small (Z.to_N v)))
  | 1055, lb :: ub :: v :: _ => enc_ref (X691.x_length (optn lb) (optn ub) (Z.to_N v))
  | 1056, std :: ext :: idx :: _ => enc_ref (X691.x_index (Z.to_N std) (negb (ext =? 0)) (Z.to_N idx))
  | 1057, lb :: ub :: ext :: n :: bytes =>
      enc_ref (X691.x_octetstring (optn lb) (optn ub) (negb (ext =? 0)) (ns (firstn (Z.to_nat n) bytes)))
  | 1058, lb :: ub :: ext :: n :: pa :: pc :: _ =>
      enc_ref (X691.x_octetstring (optn lb) (optn ub) (negb (ext =? 0)) (pattern (Z.to_nat n) 0 (Z.to_N pa) (Z.to_N pc)))
  | 1059, lb :: ub :: ext :: off :: len :: n :: bytes =>
      enc_ref (X691.x_bitstring (optn lb) (optn ub) (negb (ext =? 0))
                 (firstn (Z.to_nat len) (skipn (Z.to_nat off) (bits_of_bytes (ns (firstn (Z.to_nat n) bytes))))))
  | 1060, lb :: ub :: ext :: off :: len :: n :: pa :: pc :: _ =>
      enc_ref (X691.x_bitstring (optn lb) (optn ub) (negb (ext =? 0))
                 (firstn (Z.to_nat len) (skipn (Z.to_nat off) (bits_of_bytes (pattern (Z.to_nat n) 0 (Z.to_N pa) (Z.to_N pc))))))
  | _, _ => [-1]
  end.
