(* Executable interface of the IntTy layer (op codes 3100..3199). Stub until the layer is built. *)
From A1 Require Import Base.Res.
Local Open Scope Z_scope.
Definition run_intty (m : mode) (op : Z) (a : list Z) : list Z := [-1].
