(* Executable interface of the IntTy layer (op codes 3100..3199); mirror of harness/a1h/src/intty.rs.

   3101 lo_kind lo hi_kind hi ext      -> 0 kind has_min min has_max max ext | 1 err | 2 panic
   3102 lo_kind lo hi_kind hi ext      -> 0 retkind(min) retkind(max) len min-text len max-text
   3103 n (lo_kind lo hi_kind hi ext)* -> 0 (kind has_min min has_max max ext)*   (n definitions in one module)
   3104 lo_kind lo hi_kind hi ext      -> 0 kind hasMIN MIN hasMIN_T MIN_T hasMAX MAX hasMAX_T MAX_T EXTENSIBLE
   bound kind: 0 = literal, 1 = MIN/MAX keyword, 2 = absent (both bounds: plain INTEGER, ext must be 0) *)
From A1 Require Import Base.Res Front.IntTy.
Local Open Scope Z_scope.

Definition kind_code (k : ikind) : Z :=
  match k with U8 => 0 | I8 => 1 | U16 => 2 | I16 => 3 | U32 => 4 | I32 => 5 | U64 => 6 | I64 => 7 end.

Definition sbound_of (kind v : Z) : option sbound :=
  match kind with 0 => Some (Lit v) | 1 => Some Kw | _ => None end.

Definition srange_of (lk lo hk hi ext : Z) : option srange :=
  if (lk =? 2) || (hk =? 2) then
    if (lk =? 2) && (hk =? 2) && (ext =? 0) then Some Unconstrained else None
  else
    match sbound_of lk lo, sbound_of hk hi with
    | Some l, Some h => Some (Constrained l h (negb (ext =? 0)))
    | _, _ => None
    end.

Definition opt_z (o : option Z) : list Z := match o with Some z => [1; z] | None => [0; 0] end.
Definition bool_z (b : bool) : Z := if b then 1 else 0.

Definition describe (t : rty) : list Z :=
  kind_code (rk t) :: opt_z (rmin t) ++ opt_z (rmax t) ++ [bool_z (rext t)].

Definition enc_res {A} (f : A -> list Z) (r : res A) : list Z :=
  match r with
  | Ok a => 0 :: f a
  | Err e => [1; Z.of_N e]
  | Panic p => [2; Z.of_N p]
  end.

Definition lenp (l : list Z) : list Z := Z.of_nat (length l) :: l.

(* n definitions in one module: the module is parsed, then resolved definition by definition
   (first error wins), then converted *)
Fixpoint ranges_of (n : nat) (a : list Z) : option (list srange) :=
  match n, a with
  | O, [] => Some []
  | S n', lk :: lo :: hk :: hi :: ext :: rest =>
      match srange_of lk lo hk hi ext, ranges_of n' rest with
      | Some r, Some rs => Some (r :: rs)
      | _, _ => None
      end
  | _, _ => None
  end.

Fixpoint resolve_all (rs : list srange) : res (list (option Z * option Z * bool)) :=
  match rs with
  | [] => Ok []
  | r :: t => let! x := front_range r in let! xs := resolve_all t in Ok (x :: xs)
  end.

Fixpoint convert_all (m : mode) (xs : list (option Z * option Z * bool)) : res (list Z) :=
  match xs with
  | [] => Ok []
  | (lo, hi, ext) :: t => let! ty := int_type m lo hi ext in let! r := convert_all m t in Ok (describe ty ++ r)
  end.

Definition run_intty (m : mode) (op : Z) (a : list Z) : list Z :=
  match op, a with
  | 3101, [lk; lo; hk; hi; ext] =>
      match srange_of lk lo hk hi ext with
      | None => [-1]
      | Some r => enc_res describe (src_int_type m r)
      end
  | 3102, [lk; lo; hk; hi; ext] =>
      match srange_of lk lo hk hi ext with
      | None => [-1]
      | Some r =>
          enc_res (fun '(k, a, b) => kind_code k :: kind_code k :: lenp a ++ lenp b)
                  (let! t := src_int_type m r in min_max_fn_text m t)
      end
  | 3104, [lk; lo; hk; hi; ext] =>
      match srange_of lk lo hk hi ext with
      | None => [-1]
      | Some r =>
          enc_res (fun t => let '(k, mn, mnt, mx, mxt, e) := walker_consts t in
                            kind_code k :: opt_z mn ++ opt_z mnt ++ opt_z mx ++ opt_z mxt ++ [bool_z e])
                  (src_int_type m r)
      end
  | 3103, n :: rest =>
      if n <? 1 then [-1] else
      match ranges_of (Z.to_nat n) rest with
      | None => [-1]
      | Some rs => enc_res (fun l => l) (let! xs := resolve_all rs in convert_all m xs)
      end
  | _, _ => [-1]
  end.
