(* Executable interface of the L0 model (slice.rs / buffer.rs). *)
From A1 Require Import Bits.Copy.
Local Open Scope Z_scope.

Definition zs (l : list N) : list Z := map Z.of_N l.
Definition ns (l : list Z) : list N := map Z.to_N l.
Definition zb (b : bool) : Z := if b then 1 else 0.

(* take a length-prefixed byte list off the argument list *)
Definition take_list (a : list Z) : list Z * list Z :=
  match a with
  | n :: rest => (firstn (Z.to_nat n) rest, skipn (Z.to_nat n) rest)
  | [] => ([], [])
  end.

Definition enc_unit_res {A} (f : A -> list Z) (r : res A) : list Z :=
  match r with
  | Ok a => 0 :: f a
  | Err e => [1; Z.of_N e]
  | Panic p => [2; Z.of_N p]
  end.

(* BitBuffer / Bits op sequences: the answer accumulates one record per op *)
Inductive carrier := CBuf (b : bitbuffer) | CBits (r : bitsrd).

Definition last_byte (l : list N) : Z := Z.of_N (last l 0%N).

Definition state_rec (c : carrier) : list Z :=
  match c with
  | CBuf b => [Z.of_nat (length (bb_buf b)); Z.of_N (bb_wpos b); Z.of_N (bb_rpos b); last_byte (bb_buf b)]
  | CBits r => [Z.of_nat (length (br_slice r)); Z.of_N (br_len r); Z.of_N (br_pos r); 0]
  end.

Definition final_rec (c : carrier) : list Z :=
  match c with
  | CBuf b => zs (bb_buf b)
  | CBits r => []
  end.

(* one op: returns either the new carrier plus output ints, or a panic class *)
Definition step (m : mode) (c : carrier) (op : Z) (a : list Z) : res (carrier * list Z) * list Z :=
  match op, c, a with
  | 1, CBuf b, bit :: rest =>
      (match bb_write_bit m b (negb (bit =? 0)) with
       | Ok (b', None) => Ok (CBuf b', [0]) | Ok (b', Some e) => Ok (CBuf b', [1; Z.of_N e])
       | Err e => Ok (c, [1; Z.of_N e]) | Panic p => Panic p end, rest)
  | 2, CBuf b, soff :: slen :: rest =>
      let '(src, rest) := take_list rest in
      (match bb_write_bits_ol m b (ns src) (Z.to_N soff) (Z.to_N slen) with
       | Ok (b', None) => Ok (CBuf b', [0]) | Ok (b', Some e) => Ok (CBuf b', [1; Z.of_N e])
       | Err e => Ok (c, [1; Z.of_N e]) | Panic p => Panic p end, rest)
  | 7, CBuf b, soff :: rest =>
      let '(src, rest) := take_list rest in
      (match bb_write_bits_o m b (ns src) (Z.to_N soff) with
       | Ok (b', None) => Ok (CBuf b', [0]) | Ok (b', Some e) => Ok (CBuf b', [1; Z.of_N e])
       | Err e => Ok (c, [1; Z.of_N e]) | Panic p => Panic p end, rest)
  | 3, CBuf b, rest =>
      (match bb_read_bit b with
       | Ok (bit, b') => Ok (CBuf b', [0; zb bit]) | Err e => Ok (c, [1; Z.of_N e]) | Panic p => Panic p end, rest)
  | 3, CBits r, rest =>
      (match br_read_bit r with
       | Ok (bit, r') => Ok (CBits r', [0; zb bit]) | Err e => Ok (c, [1; Z.of_N e]) | Panic p => Panic p end, rest)
  | 4, CBuf b, doff :: dlen :: n :: fill :: rest =>
      (match bb_read_bits_ol m b (repeat (Z.to_N fill) (Z.to_nat n)) (Z.to_N doff) (Z.to_N dlen) with
       | Ok (d, b') => Ok (CBuf b', 0 :: zs d) | Err e => Ok (c, [1; Z.of_N e]) | Panic p => Panic p end, rest)
  | 4, CBits r, doff :: dlen :: n :: fill :: rest =>
      (match br_read_bits_ol m r (repeat (Z.to_N fill) (Z.to_nat n)) (Z.to_N doff) (Z.to_N dlen) with
       | Ok (d, r') => Ok (CBits r', 0 :: zs d) | Err e => Ok (c, [1; Z.of_N e]) | Panic p => Panic p end, rest)
  | 5, CBuf b, pos :: bit :: rest =>
      (match bb_patch_bit m b (Z.to_N pos) (negb (bit =? 0)) with
       | Ok (b', None) => Ok (CBuf b', [0]) | Ok (b', Some e) => Ok (CBuf b', [1; Z.of_N e])
       | Err e => Ok (c, [1; Z.of_N e]) | Panic p => Panic p end, rest)
  | 8, CBits r, p :: rest => (Ok (CBits (br_set_pos r (Z.to_N p)), [0]), rest)
  | 9, CBits r, rest =>
      (match br_remaining m r with
       | Ok n => Ok (c, [0; Z.of_N n]) | Err e => Ok (c, [1; Z.of_N e]) | Panic p => Panic p end, rest)
  | 10, CBits r, l :: rest => (Ok (CBits (br_set_len r (Z.to_N l)), [0]), rest)
  | _, _, _ => (Panic 99%N, [])
  end.

Fixpoint run_seq (fuel : nat) (m : mode) (c : carrier) (a : list Z) (acc : list Z) : list Z :=
  match fuel with
  | O => [-3]
  | S f =>
      match a with
      | [] => 0 :: acc ++ final_rec c
      | op :: rest =>
          match step m c op rest with
          | (Ok (c', out), rest') => run_seq f m c' rest' (acc ++ out ++ state_rec c')
          | (Err e, _) => [1; Z.of_N e]
          | (Panic p, _) => [2; Z.of_N p]
          end
      end
  end.

Definition run_bits (m : mode) (op : Z) (a : list Z) : list Z :=
  match op, a with
  | 1101, pos :: soff :: slen :: rest =>
      let '(dst, rest) := take_list rest in
      let '(src, _) := take_list rest in
      enc_unit_res (fun '(d, p) => Z.of_N p :: zs d)
        (slice_write_bits m (ns dst) (Z.to_N pos) (ns src) (Z.to_N soff) (Z.to_N slen))
  | 1102, pos :: doff :: dlen :: rest =>
      let '(src, rest) := take_list rest in
      let '(dst, _) := take_list rest in
      enc_unit_res (fun '(d, p) => Z.of_N p :: zs d)
        (slice_read_bits m (ns src) (Z.to_N pos) (ns dst) (Z.to_N doff) (Z.to_N dlen))
  | 1103, pos :: bit :: dst =>
      enc_unit_res (fun '(d, p) => Z.of_N p :: zs d) (slice_write_bit (ns dst) (Z.to_N pos) (negb (bit =? 0)))
  | 1104, pos :: src =>
      enc_unit_res (fun '(b, p) => [Z.of_N p; zb b]) (slice_read_bit (ns src) (Z.to_N pos))
  | 1110, a => run_seq (S (length a)) m (CBuf bb_empty) a []
  | 1111, len :: rest =>
      let '(sl, ops) := take_list rest in
      run_seq (S (length ops)) m (CBits {| br_slice := ns sl; br_pos := 0; br_len := Z.to_N len |}) ops []
  | _, _ => [-1]
  end.
