(* Executable interface of the L0 model (slice.rs / buffer.rs). *)
From A1 Require Import Bits.Copy Bits.Buffer.
Local Open Scope Z_scope.

Definition zs (l : list N) : list Z := map Z.of_N l.
Definition ns (l : list Z) : list N := map Z.to_N l.
Definition zb (b : bool) : Z := if b then 1 else 0.

(* take a length-prefixed byte list off the argument list *)
Definition take_list (a : list Z) : list Z * list Z :=
  match a with
  | n :: rest => (firstn (Z.to_nat n) rest, skipn (Z.to_nat n) rest)
  | [] => ([], [])
  end.

Definition enc_unit_res {A} (f : A -> list Z) (r : res A) : list Z :=
  match r with
  | Ok a => 0 :: f a
  | Err e => [1; Z.of_N e]
  | Panic p => [2; Z.of_N p]
  end.

(* BitBuffer / Bits op sequences: the answer accumulates one record per op.
   Sub-ops on a BitBuffer (every public method of buffer.rs):
     1 bit                  write_bit                 11 L(src)           write_bits
     2 soff slen L(src)     write_bits_with_offset_len 12 len L(src)      write_bits_with_len
     7 soff L(src)          write_bits_with_offset
     3                      read_bit                  13 n fill           read_bits
     4 doff dlen n fill     read_bits_with_offset_len 14 dlen n fill      read_bits_with_len
                                                      15 doff n fill      read_bits_with_offset
     5 pos bit              with_write_position_at(pos, write_bit(bit))   (legacy form)
    16 clear   17 reset_read_position   18 n ensure_can_write_additional_bits   19 observe (byte_len, bit_len)
    20 pos <sub-op>         with_write_position_at(pos, sub-op)
    21 pos <sub-op>         with_read_position_at(pos, sub-op)
    22 max <sub-op>         with_max_read(max, sub-op)
    30                      Bits::from(&buffer): len, pos, remaining, is_empty, then read_bits_with_len of everything
   Sub-ops on Bits: 3 4 13 14 15 as above, 8 p set_pos, 9 remaining, 10 l set_len,
    21 pos <sub-op> with_read_position_at(pos, sub-op). *)
Inductive carrier := CBuf (b : bitbuffer) | CBits (r : bitsrd).

Definition is_empty_z (r : bitsrd) : Z := zb (br_is_empty r).

(* after every step: byte_len(), bit_len(), the read position, content() *)
Definition state_rec (c : carrier) : list Z :=
  match c with
  | CBuf b => Z.of_N (bb_byte_len b) :: Z.of_N (bb_bit_len b) :: Z.of_N (bb_rpos b) :: zs (bb_content b)
  | CBits r => [Z.of_nat (length (br_slice r)); Z.of_N (br_len r); Z.of_N (br_pos r); is_empty_z r]
  end.

(* at the end: Into<Vec<u8>> *)
Definition final_rec (c : carrier) : list Z :=
  match c with
  | CBuf b => zs (bb_into_vec b)
  | CBits r => []
  end.

Definition wr_out (b : bitbuffer) (r : res (bitbuffer * option N)) : res (bitbuffer * list Z) :=
  match r with
  | Ok (b', None) => Ok (b', [0])
  | Ok (b', Some e) => Ok (b', [1; Z.of_N e])
  | Err e => Ok (b, [1; Z.of_N e])
  | Panic p => Panic p
  end.

Definition rd_out {S} (s : S) (r : res (list N * S)) : res (S * list Z) :=
  match r with
  | Ok (d, s') => Ok (s', 0 :: zs d)
  | Err e => Ok (s, [1; Z.of_N e])
  | Panic p => Panic p
  end.

Definition bit_out {S} (s : S) (r : res (bool * S)) : res (S * list Z) :=
  match r with
  | Ok (bit, s') => Ok (s', [0; zb bit])
  | Err e => Ok (s, [1; Z.of_N e])
  | Panic p => Panic p
  end.

Definition mkdst (n fill : Z) : list N := repeat (Z.to_N fill) (Z.to_nat n).

Definition bad {S} : res (S * list Z) * list Z := (Panic 99%N, []).

(* a nested sub-op as the closure of a scoped combinator: its output and the unread
   arguments travel out as the closure's result *)
Definition as_closure {S} (r : res (S * list Z) * list Z) : res (S * (list Z * list Z)) :=
  match r with
  | (Ok (s, out), rest) => Ok (s, (out, rest))
  | (Err e, _) => Err e
  | (Panic p, _) => Panic p
  end.
Definition of_closure {S} (r : res (S * (list Z * list Z))) : res (S * list Z) * list Z :=
  match r with
  | Ok (s, (out, rest)) => (Ok (s, out), rest)
  | Err e => (Err e, [])
  | Panic p => (Panic p, [])
  end.

Definition bits_probe (m : mode) (b : bitbuffer) : res (list Z) :=
  let r := br_from_buffer b in
  let! rem := br_remaining m r in
  let hd := [Z.of_N (br_len r); Z.of_N (br_pos r); Z.of_N rem; is_empty_z r] in
  if (1048576 <? br_len r)%N then Ok (0 :: hd ++ [3]) else
  match br_read_bits_with_len m r (repeat 0%N (N.to_nat ((br_len r + 7) / 8)%N)) (br_len r) with
  | Ok (d, r') => Ok (0 :: hd ++ 0 :: Z.of_N (br_pos r') :: zs d)
  | Err e => Ok (0 :: hd ++ [1; Z.of_N e])
  | Panic p => Panic p
  end.

Fixpoint bstep (fuel : nat) (m : mode) (b : bitbuffer) (a : list Z) : res (bitbuffer * list Z) * list Z :=
  match fuel with
  | O => (Panic 98%N, [])
  | S fu =>
  match a with
  | [] => bad
  | op :: a =>
    match op with
    | 1 => match a with bit :: rest => (wr_out b (bb_write_bit m b (negb (bit =? 0))), rest) | _ => bad end
    | 2 => match a with
           | soff :: slen :: rest =>
               let '(src, rest) := take_list rest in
               (wr_out b (bb_write_bits_ol m b (ns src) (Z.to_N soff) (Z.to_N slen)), rest)
           | _ => bad end
    | 7 => match a with
           | soff :: rest =>
               let '(src, rest) := take_list rest in
               (wr_out b (bb_write_bits_with_offset m b (ns src) (Z.to_N soff)), rest)
           | _ => bad end
    | 11 => let '(src, rest) := take_list a in (wr_out b (bb_write_bits m b (ns src)), rest)
    | 12 => match a with
            | len :: rest =>
                let '(src, rest) := take_list rest in
                (wr_out b (bb_write_bits_with_len m b (ns src) (Z.to_N len)), rest)
            | _ => bad end
    | 3 => (bit_out b (bb_read_bit b), a)
    | 4 => match a with
           | doff :: dlen :: n :: fill :: rest =>
               (rd_out b (bb_read_bits_with_offset_len m b (mkdst n fill) (Z.to_N doff) (Z.to_N dlen)), rest)
           | _ => bad end
    | 13 => match a with
            | n :: fill :: rest => (rd_out b (bb_read_bits m b (mkdst n fill)), rest)
            | _ => bad end
    | 14 => match a with
            | dlen :: n :: fill :: rest => (rd_out b (bb_read_bits_with_len m b (mkdst n fill) (Z.to_N dlen)), rest)
            | _ => bad end
    | 15 => match a with
            | doff :: n :: fill :: rest => (rd_out b (bb_read_bits_with_offset m b (mkdst n fill) (Z.to_N doff)), rest)
            | _ => bad end
    | 5 => match a with
           | pos :: bit :: rest => (wr_out b (bb_patch_bit m b (Z.to_N pos) (negb (bit =? 0))), rest)
           | _ => bad end
    | 16 => (Ok (bb_clear b, [0]), a)
    | 17 => (Ok (bb_reset_read_position b, [0]), a)
    | 18 => match a with
            | n :: rest =>
                (match ensure_can_write m b (Z.to_N n) with
                 | Ok b' => Ok (b', [0]) | Err e => Ok (b, [1; Z.of_N e]) | Panic p => Panic p end, rest)
            | _ => bad end
    | 19 => (Ok (b, [0; Z.of_N (bb_byte_len b); Z.of_N (bb_bit_len b)]), a)
    | 20 => match a with
            | pos :: rest =>
                of_closure (bb_with_write_position_at m b (Z.to_N pos) (fun b1 => as_closure (bstep fu m b1 rest)))
            | _ => bad end
    | 21 => match a with
            | pos :: rest =>
                of_closure (bb_with_read_position_at m b (Z.to_N pos) (fun b1 => as_closure (bstep fu m b1 rest)))
            | _ => bad end
    | 22 => match a with
            | mx :: rest =>
                of_closure (bb_with_max_read m b (Z.to_N mx) (fun b1 => as_closure (bstep fu m b1 rest)))
            | _ => bad end
    | 30 => (match bits_probe m b with
             | Ok out => Ok (b, out) | Err e => Ok (b, [1; Z.of_N e]) | Panic p => Panic p end, a)
    | _ => bad
    end
  end
  end.

Fixpoint rstep (fuel : nat) (m : mode) (r : bitsrd) (a : list Z) : res (bitsrd * list Z) * list Z :=
  match fuel with
  | O => (Panic 98%N, [])
  | S fu =>
  match a with
  | [] => bad
  | op :: a =>
    match op with
    | 3 => (bit_out r (br_read_bit r), a)
    | 4 => match a with
           | doff :: dlen :: n :: fill :: rest =>
               (rd_out r (br_read_bits_ol m r (mkdst n fill) (Z.to_N doff) (Z.to_N dlen)), rest)
           | _ => bad end
    | 13 => match a with
            | n :: fill :: rest => (rd_out r (br_read_bits m r (mkdst n fill)), rest)
            | _ => bad end
    | 14 => match a with
            | dlen :: n :: fill :: rest => (rd_out r (br_read_bits_with_len m r (mkdst n fill) (Z.to_N dlen)), rest)
            | _ => bad end
    | 15 => match a with
            | doff :: n :: fill :: rest => (rd_out r (br_read_bits_with_offset m r (mkdst n fill) (Z.to_N doff)), rest)
            | _ => bad end
    | 8 => match a with
           | p :: rest => let r' := br_set_pos r (Z.to_N p) in (Ok (r', [0; Z.of_N (br_pos r')]), rest)
           | _ => bad end
    | 9 => (match br_remaining m r with
            | Ok n => Ok (r, [0; Z.of_N n]) | Err e => Ok (r, [1; Z.of_N e]) | Panic p => Panic p end, a)
    | 10 => match a with
            | l :: rest => let r' := br_set_len r (Z.to_N l) in (Ok (r', [0; Z.of_N (br_len r')]), rest)
            | _ => bad end
    | 21 => match a with
            | pos :: rest =>
                of_closure (br_with_read_position_at r (Z.to_N pos) (fun r1 => as_closure (rstep fu m r1 rest)))
            | _ => bad end
    | _ => bad
    end
  end
  end.

Definition step (m : mode) (c : carrier) (a : list Z) : res (carrier * list Z) * list Z :=
  match c with
  | CBuf b => match bstep (S (length a)) m b a with
              | (Ok (b', out), rest) => (Ok (CBuf b', out), rest)
              | (Err e, rest) => (Err e, rest) | (Panic p, rest) => (Panic p, rest) end
  | CBits r => match rstep (S (length a)) m r a with
               | (Ok (r', out), rest) => (Ok (CBits r', out), rest)
               | (Err e, rest) => (Err e, rest) | (Panic p, rest) => (Panic p, rest) end
  end.

(* [acc] is kept reversed *)
Fixpoint run_seq (fuel : nat) (m : mode) (c : carrier) (a : list Z) (acc : list Z) : list Z :=
  match fuel with
  | O => [-3]
  | S f =>
      match a with
      | [] => 0 :: rev_append acc (final_rec c)
      | _ =>
          match step m c a with
          | (Ok (c', out), rest') => run_seq f m c' rest' (rev_append (out ++ state_rec c') acc)
          | (Err e, _) => [1; Z.of_N e]
          | (Panic p, _) => [2; Z.of_N p]
          end
      end
  end.

(* a sequence starts with the record of the freshly constructed carrier *)
Definition start_seq (m : mode) (c : res carrier) (ops : list Z) : list Z :=
  match c with
  | Ok c => run_seq (S (length ops)) m c ops (rev_append (state_rec c) [])
  | Err e => [1; Z.of_N e]
  | Panic p => [2; Z.of_N p]
  end.

Definition buf_res (r : res bitbuffer) : res carrier := let! b := r in Ok (CBuf b).
Definition bits_res (r : res bitsrd) : res carrier := let! b := r in Ok (CBits b).

(* BitBuffer constructors: 0 default, 1 cap with_capacity, 2 L from_bytes, 3 L bit_len from_bits,
   4 L w r from_bits_with_position, 5 L From<Vec<u8>> *)
Definition buf_ctor (a : list Z) : res carrier * list Z :=
  match a with
  | 0 :: rest => (Ok (CBuf bb_default), rest)
  | 1 :: cap :: rest => (buf_res (bb_with_capacity (Z.to_N cap)), rest)
  | 2 :: rest => let '(l, rest) := take_list rest in (buf_res (bb_from_bytes (ns l)), rest)
  | 3 :: rest =>
      let '(l, rest) := take_list rest in
      match rest with
      | bl :: rest => (buf_res (bb_from_bits (ns l) (Z.to_N bl)), rest)
      | [] => (Panic 99%N, [])
      end
  | 4 :: rest =>
      let '(l, rest) := take_list rest in
      match rest with
      | w :: r :: rest => (buf_res (bb_from_bits_with_position (ns l) (Z.to_N w) (Z.to_N r)), rest)
      | _ => (Panic 99%N, [])
      end
  | 5 :: rest => let '(l, rest) := take_list rest in (buf_res (bb_from_bytes (ns l)), rest)
  | _ => (Panic 99%N, [])
  end.

(* Bits constructors: 0 L From<&[u8]>, 1 L len From<(&[u8], usize)>,
   2 L w r From<&BitBuffer> of from_bits_with_position(L, w, r) *)
Definition bits_ctor (m : mode) (a : list Z) : res carrier * list Z :=
  match a with
  | 0 :: rest => let '(l, rest) := take_list rest in (Ok (CBits (br_from_slice (ns l))), rest)
  | 1 :: rest =>
      let '(l, rest) := take_list rest in
      match rest with
      | len :: rest => (bits_res (br_from_slice_len m (ns l) (Z.to_N len)), rest)
      | [] => (Panic 99%N, [])
      end
  | 2 :: rest =>
      let '(l, rest) := take_list rest in
      match rest with
      | w :: r :: rest =>
          (bits_res (let! b := bb_from_bits_with_position (ns l) (Z.to_N w) (Z.to_N r) in Ok (br_from_buffer b)), rest)
      | _ => (Panic 99%N, [])
      end
  | _ => (Panic 99%N, [])
  end.

Definition run_bits (m : mode) (op : Z) (a : list Z) : list Z :=
  match op, a with
  | 1101, pos :: soff :: slen :: rest =>
      let '(dst, rest) := take_list rest in
      let '(src, _) := take_list rest in
      enc_unit_res (fun '(d, p) => Z.of_N p :: zs d)
        (slice_write_bits m (ns dst) (Z.to_N pos) (ns src) (Z.to_N soff) (Z.to_N slen))
  | 1102, pos :: doff :: dlen :: rest =>
      let '(src, rest) := take_list rest in
      let '(dst, _) := take_list rest in
      enc_unit_res (fun '(d, p) => Z.of_N p :: zs d)
        (slice_read_bits m (ns src) (Z.to_N pos) (ns dst) (Z.to_N doff) (Z.to_N dlen))
  | 1103, pos :: bit :: dst =>
      enc_unit_res (fun '(d, p) => Z.of_N p :: zs d) (slice_write_bit (ns dst) (Z.to_N pos) (negb (bit =? 0)))
  | 1104, pos :: src =>
      enc_unit_res (fun '(b, p) => [Z.of_N p; zb b]) (slice_read_bit (ns src) (Z.to_N pos))
  | 1110, a => start_seq m (Ok (CBuf bb_default)) a
  | 1111, len :: rest =>
      let '(sl, ops) := take_list rest in
      start_seq m (Ok (CBits {| br_slice := ns sl; br_pos := 0; br_len := Z.to_N len |})) ops
  | 1112, a => let '(c, ops) := buf_ctor a in start_seq m c ops
  | 1113, a => let '(c, ops) := bits_ctor m a in start_seq m c ops
  | _, _ => [-1]
  end.
