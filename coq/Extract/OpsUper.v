(* Executable interface of the Uper layer (op codes 1200..1299). Stub until the layer is built. *)
From A1 Require Import Base.Res.
Local Open Scope Z_scope.
Definition run_uper (m : mode) (op : Z) (a : list Z) : list Z := [-1].
