(* Executable interface of the L2 model (UperWriter / UperReader). *)
From A1 Require Import Uper.Reader.
From A1 Require Import Uper.ReaderD.
Local Open Scope Z_scope.

Definition zs (l : list N) : list Z := map Z.of_N l.
Definition zb (b : bool) : Z := if b then 1 else 0.
Definition optn (z : Z) : option N := if z <? 0 then None else Some (Z.to_N z).

Definition nx (l : list Z) : Z * list Z := match l with x :: r => (x, r) | [] => (0, []) end.
Definition take (n : Z) (l : list Z) : list Z * list Z := (firstn (Z.to_nat n) l, skipn (Z.to_nat n) l).

Definition kind_of (z : Z) : ikind :=
  match z with 0 => U8 | 1 => I8 | 2 => U16 | 3 => I16 | 4 => U32 | 5 => I32 | 6 => U64 | _ => I64 end.
Definition cset_of (z : Z) : cset :=
  match z with 0 => Utf8 | 1 => Ia5 | 2 => Numeric | 3 => Printable | _ => Visible end.

Definition size3 (l : list Z) : (option N * option N * bool) * list Z :=
  let '(lo, l) := nx l in let '(hi, l) := nx l in let '(e, l) := nx l in
  ((optn lo, optn hi, negb (e =? 0)), l).

Fixpoint parse_val (fuel : nat) (l : list Z) : val * list Z :=
  match fuel with
  | O => (VNull, [])
  | S f =>
      let '(tag, l) := nx l in
      match tag with
      | 0 => let '(b, l) := nx l in (VBool (negb (b =? 0)), l)
      | 1 => (VNull, l)
      | 2 => let '(z, l) := nx l in (VInt z, l)
      | 3 => let '(n, l) := nx l in let '(cs, l) := take n l in (VStr (map Z.to_N cs), l)
      | 4 => let '(n, l) := nx l in let '(bs, l) := take n l in (VOctets (map Z.to_N bs), l)
      | 5 => let '(bl, l) := nx l in let '(n, l) := nx l in let '(bs, l) := take n l in
             (VBits (map Z.to_N bs) (Z.to_N bl), l)
      | 6 => let '(n, l) := nx l in
             let '(vs, l) :=
               (fix go (k : nat) (l : list Z) (acc : list val) : list val * list Z :=
                  match k with
                  | O => (frev acc, l)
                  | S k' => let '(v, l) := parse_val f l in go k' l (v :: acc)
                  end) (Z.to_nat n) l [] in
             (VList vs, l)
      | 7 => let '(n, l) := nx l in
             let '(vs, l) :=
               (fix go (k : nat) (l : list Z) (acc : list (option val)) : list (option val) * list Z :=
                  match k with
                  | O => (frev acc, l)
                  | S k' =>
                      let '(p, l) := nx l in
                      if p =? 0 then go k' l (None :: acc)
                      else let '(v, l) := parse_val f l in go k' l (Some v :: acc)
                  end) (Z.to_nat n) l [] in
             (VSeq vs, l)
      | 8 => let '(i, l) := nx l in let '(v, l) := parse_val f l in (VChoice (Z.to_N i) v, l)
      | _ => let '(i, l) := nx l in (VEnum (Z.to_N i), l)
      end
  end.

Fixpoint parse_ty (fuel : nat) (l : list Z) : ty * list Z :=
  match fuel with
  | O => (TNull, [])
  | S f =>
      let '(tag, l) := nx l in
      match tag with
      | 0 => (TBool, l)
      | 1 => (TNull, l)
      | 2 => let '(k, l) := nx l in
             let '(hl, l) := nx l in let '(lo, l) := nx l in
             let '(hh, l) := nx l in let '(hi, l) := nx l in
             let '(e, l) := nx l in
             (TInt (kind_of k) (if hl =? 0 then None else Some lo) (if hh =? 0 then None else Some hi) (negb (e =? 0)), l)
      | 3 => let '(c, l) := nx l in let '(s, l) := size3 l in
             let '(lo, hi, e) := s in (TStr (cset_of c) lo hi e, l)
      | 4 => let '(s, l) := size3 l in let '(lo, hi, e) := s in (TOctets lo hi e, l)
      | 5 => let '(s, l) := size3 l in let '(lo, hi, e) := s in (TBitStr lo hi e, l)
      | 6 => let '(s, l) := size3 l in let '(lo, hi, e) := s in
             let '(t, l) := parse_ty f l in (TListOf t lo hi e, l)
      | 7 => let '(so, l) := nx l in let '(fc, l) := nx l in let '(ea, l) := nx l in let '(n, l) := nx l in
             let '(fs, l) :=
               (fix go (k : nat) (l : list Z) (acc : list (fkind * ty)) : list (fkind * ty) * list Z :=
                  match k with
                  | O => (frev acc, l)
                  | S k' =>
                      let '(fk, l) := nx l in
                      let '(kind, l) :=
                        (match fk with
                         | 0 => (FReq, l)
                         | 1 => (FOpt, l)
                         | _ => let '(d, l) := parse_val (S (length l)) l in (FDef d, l)
                         end) in
                      let '(t, l) := parse_ty f l in
                      go k' l ((kind, t) :: acc)
                  end) (Z.to_nat n) l [] in
             (TSeq fs (Z.to_N so) (Z.to_N fc) (optn ea), l)
      | 8 => let '(std, l) := nx l in let '(e, l) := nx l in let '(n, l) := nx l in
             let '(alts, l) :=
               (fix go (k : nat) (l : list Z) (acc : list ty) : list ty * list Z :=
                  match k with
                  | O => (frev acc, l)
                  | S k' => let '(t, l) := parse_ty f l in go k' l (t :: acc)
                  end) (Z.to_nat n) l [] in
             (TChoice alts (Z.to_N std) (negb (e =? 0)), l)
      | _ => let '(vc, l) := nx l in let '(std, l) := nx l in let '(e, l) := nx l in
             (TEnum (Z.to_N vc) (Z.to_N std) (negb (e =? 0)), l)
      end
  end.

Fixpoint enc_val (v : val) : list Z :=
  match v with
  | VBool b => [0; zb b]
  | VNull => [1]
  | VInt z => [2; z]
  | VStr cs => 3 :: Z.of_nat (length cs) :: zs cs
  | VOctets bs => 4 :: Z.of_nat (length bs) :: zs bs
  | VBits bs bl => 5 :: Z.of_N bl :: Z.of_nat (length bs) :: zs bs
  | VList vs => 6 :: Z.of_nat (length vs) :: flat_map enc_val vs
  | VSeq fs => 7 :: Z.of_nat (length fs) ::
               flat_map (fun o => match o with Some x => 1 :: enc_val x | None => [0] end) fs
  | VChoice i x => 8 :: Z.of_N i :: enc_val x
  | VEnum i => [9; Z.of_N i]
  end.

Definition enc_rd (r : res (val * rst)) : list Z * option rst :=
  match r with
  | Ok (v, r') => (0 :: enc_val v, Some r')
  | Err e => ([1; Z.of_N e], None)
  | Panic p => ([2; Z.of_N p], None)
  end.

Definition enc_rem (m : mode) (r : rst) : list Z :=
  match src_remaining m (r_src r) with
  | Ok n => [0; Z.of_N n]
  | Err e => [1; Z.of_N e]
  | Panic p => [2; Z.of_N p]
  end.

Definition reader_on (w : wst) : rst :=
  let b := w_bits w in
  r_of_src (src_of_bytes (bytes_of_bits b) (N.of_nat (length b))).

Fixpoint parse_pairs (k : nat) (l : list Z) : list (ty * val) :=
  match k with
  | O => []
  | S k' =>
      let '(t, l) := parse_ty (S (length l)) l in
      let '(v, l) := parse_val (S (length l)) l in
      (t, v) :: parse_pairs k' l
  end.

Fixpoint write_all (m : mode) (i : Z) (tvs : list (ty * val)) (w : wst) : res wst + (N * Z) :=
  match tvs with
  | [] => inl (Ok w)
  | (t, v) :: r =>
      match write_ty m t v w with
      | Ok w' => write_all m (i + 1) r w'
      | Err e => inr (e, i)
      | Panic p => inl (Panic p)
      end
  end.

Fixpoint read_all (m : mode) (tvs : list (ty * val)) (r : rst) : list Z :=
  match tvs with
  | [] => enc_rem m r
  | (t, _) :: rest =>
      match enc_rd (read_ty m t r) with
      | (o, Some r') => o ++ read_all m rest r'
      | (o, None) => o
      end
  end.

Definition sentinel_ty : ty := TInt U8 (Some 0) (Some 255) false.

Definition run_uper (m : mode) (op : Z) (a : list Z) : list Z :=
  match op with
  | 1201 =>
      let '(k, l) := nx a in
      let tvs := parse_pairs (Z.to_nat k) l in
      match write_all m 0 tvs w_empty with
      | inr (e, i) => [1; Z.of_N e; i]
      | inl (Err e) => [1; Z.of_N e]
      | inl (Panic p) => [2; Z.of_N p]
      | inl (Ok w) =>
          let b := w_bits w in
          let bytes := bytes_of_bits b in
          0 :: Z.of_nat (length b) :: Z.of_nat (length bytes) :: zs bytes ++ read_all m tvs (reader_on w)
      end
  | 1202 =>
      let '(t, l) := parse_ty (S (length a)) a in
      let '(bl, bytes) := nx l in
      let r := r_of_src (src_of_bytes (map Z.to_N bytes) (Z.to_N bl)) in
      match read_ty m t r with
      | Ok (v, r') => 0 :: enc_val v ++ enc_rem m r'
      | Err e => [1; Z.of_N e; 0]
      | Panic p => [2; Z.of_N p; 0]
      end
  | 1203 =>
      let '(ta, l) := parse_ty (S (length a)) a in
      let '(tb, l) := parse_ty (S (length l)) l in
      let '(v, _) := parse_val (S (length l)) l in
      match write_ty m ta v w_empty with
      | Err e => [1; Z.of_N e]
      | Panic p => [2; Z.of_N p]
      | Ok w =>
          let vlen := w_n w in
          match write_ty m sentinel_ty (VInt 165) w with
          | Err e => [1; Z.of_N e]
          | Panic p => [2; Z.of_N p]
          | Ok w =>
              let b := w_bits w in
              let bytes := bytes_of_bits b in
              let hdr := 0 :: Z.of_N vlen :: Z.of_nat (length b) :: Z.of_nat (length bytes) :: zs bytes in
              match enc_rd (read_ty m tb (reader_on w)) with
              | (o, None) => hdr ++ o
              | (o, Some r) =>
                  match read_ty m sentinel_ty r with
                  | Ok (VInt s, r') => hdr ++ o ++ [0; s] ++ enc_rem m r'
                  | Ok (_, r') => hdr ++ o ++ [0; -1] ++ enc_rem m r'
                  | Err e => hdr ++ o ++ [1; Z.of_N e]
                  | Panic p => hdr ++ o ++ [2; Z.of_N p]
                  end
              end
          end
      end
  (* C19: op 1202 on the model of the feature build; a failure also reports the log that `Reader::read`
     moves into the error (length, then one code per entry, oldest first).  The enumerated-index warning
     is left out on both sides: the harness' EnumC has the constant VARIANT_COUNT = 0 (its variant count is
     dynamic), so the real reader emits that warning for every index there. *)
  | 1204 =>
      let '(t, l) := parse_ty (S (length a)) a in
      let '(bl, bytes) := nx l in
      let r := rd_of (r_of_src (src_of_bytes (map Z.to_N bytes) (Z.to_N bl))) in
      match read_ty_dl m t r with
      | DOk v r' => 0 :: enc_val v ++ enc_rem m (erase r')
      | DErr e lg =>
          let codes := filter (fun c => negb (c =? L_WARNING_ENUM)%N) (rev lg) in
          1 :: Z.of_N e :: 0 :: Z.of_nat (length codes) :: zs codes
      | DPanic p => [2; Z.of_N p; 0]
      end
  | _ => [-1]
  end.
