(* Executable interface of the Proto layer (op codes 4000..4099). Stub until the layer is built. *)
From A1 Require Import Base.Res.
Local Open Scope Z_scope.
Definition run_proto (m : mode) (op : Z) (a : list Z) : list Z := [-1].
