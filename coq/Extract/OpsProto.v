(* Executable interface of the Proto layer (op codes 4000..4199).
   The Rust harness (harness/a1h/src/proto.rs) implements the same ops on the real crate. *)
From A1 Require Import Base.Res Proto.Wire Proto.Rw Proto.Schema.
Local Open Scope Z_scope.

Definition zs (l : list N) : list Z := map Z.of_N l.
Definition ns (l : list Z) : list N := map Z.to_N l.

Definition enc_res {A} (f : A -> list Z) (r : res (A * list N)) : list Z :=
  match r with
  | Ok (a, rest) => 0 :: Z.of_nat (length rest) :: f a
  | Err e => [1; Z.of_N e]
  | Panic p => [2; Z.of_N p]
  end.

(* write then read back with a tail: nbytes :: bytes ++ enc_res *)
Definition wr_rd {A} (bytes : list N) (tail : list Z) (rd : list N -> res (A * list N)) (f : A -> list Z) :=
  Z.of_nat (length bytes) :: zs bytes ++ enc_res f (rd (bytes ++ ns tail)).

Definition fmt_of_z (z : Z) : format :=
  match z with 0 => VarInt | 1 => Fixed64 | 2 => LengthDelimited | _ => Fixed32 end.

(** * The zoo: the types generated from the ASN.1 modules embedded in proto.rs,
      in the order generated write_seq/read_seq visit the components *)
Definition r (t : pty) := (false, t).
Definition o (t : pty) := (true, t).
Definition t_inner := TSeq [r (TInt KU16); o TStr].
Definition t_color := TEnum 3.
Definition t_ch2 := TChoice [TInt KU8; TBytes].
Definition t_ch := TChoice [TInt KI16; TBool; TStr; t_inner; t_ch2; t_color].
Definition t_tup := TSeq [r (TInt KU16)].
Definition t_tupl := TSeq [r (TSeqOf TStr)].
(* a message that can be blank: zero bytes of content *)
Definition t_blank := TSeq [o (TInt KU8); o TStr; o (TSeqOf TBool)].
Definition t_chblank := TChoice [t_blank; TInt KU8].
(* DEFAULT components are ordinary components for the protobuf writer/reader (write_default / read_default delegate) *)
Definition t_definner := TSeq [r (TInt KU8); r TStr; r TBool].
Definition t_defch := TChoice [t_definner; TInt KU8].
(* INTEGERs with an extension marker: 64-bit Rust type, numbers::Constraint MIN / MAX = the root bounds *)
Definition kx (sg : bool) (mn mx : Z) : pikind := KExt sg (Some mn) (Some mx).
Definition k_xs5 := kx true (-5) 5.
Definition k_xu255 := kx false 0 255.

Definition zoo_ty (id : Z) : option pty :=
  match id with
  | 0 => Some (TSeq [r (TInt KU8); r (TInt KI8); r (TInt KU16); r (TInt KI16); r (TInt KU32); r (TInt KI32);
                     r (TInt KU64); r (TInt KI64); r (TInt KU64)])
  | 1 => Some t_inner
  | 2 => Some t_color
  | 3 => Some (TSeq [r TBool; r TStr; r TBytes; r TBits; r t_color; r TStr])
  | 4 => Some (TSeq [o (TInt KU8); o TStr; o TBool; o TBytes; o t_inner; r (TInt KI8); o t_color; o (TInt KI64)])
  | 5 => Some (TSeq [r (TSeqOf (TInt KI32)); r (TSeqOf TStr); r (TSeqOf t_inner); o (TSeqOf (TInt KU8)); r TBool;
                     r (TSeqOf (TInt KU16))])
  | 6 => Some t_ch2
  | 7 => Some t_ch
  | 8 => Some (TSeq [r TBool; r t_ch; r (TInt KU8); o t_ch2])
  | 9 => Some (TSeq [r (TSeqOf t_ch2); r (TSeqOf t_color); r (TSeqOf TBool); r (TSeqOf TBytes)])
  | 10 => Some t_tup
  | 11 => Some t_tupl
  | 12 => Some (TSeq [r t_tup; o t_tup; r t_tupl])
  | 13 => Some (TSeq [r (TSeq [o (TSeq [o (TInt KU8)]); r TBool]); r TStr])
  | 14 => Some (visit_ty zoo_set)
  | 15 => Some (TSeq [r (TInt KU8); r TNull; r (TInt KU8)])
  | 16 => Some (TSeq [o TNull; o (TInt KU8); r (TInt KU8)])
  | 17 => Some (TChoice [TNull; TInt KU8])
  | 18 => Some (TSeq [r TBits])
  | 19 => Some (TSeq [r (TSeqOf (TSeqOf (TInt KU8))); r (TInt KU8)])
  | 20 => Some (TChoice [TSeqOf (TInt KU8); TInt KU8])
  | 21 => Some (TSeq [r (TSeqOf TNull); r (TInt KU8)])
  | 22 => Some t_blank
  | 23 => Some (TSeq [r (TSeqOf t_blank); r (TInt KU8)])
  | 24 => Some t_chblank
  | 25 => Some (TSeq [r t_blank; o t_blank; r t_chblank; r TBool])
  | 26 => Some (TSeq [r TStr; r (TInt KU8); r (TInt KI8); r TBool; r TStr; r t_color; r (TInt KU16); r (TInt KU64); o TStr])
  | 27 => Some (TSeq [r (TInt KU8); r TBool; o (TInt KU8); r TStr; r TBool])
  | 28 => Some (TSeq [r (TInt KU8); r TBool; r t_color; r (TInt KU8)])
  | 29 => Some t_definner
  | 30 => Some t_defch
  | 31 => Some (TSeq [r (TSeqOf t_definner); r t_defch; o t_definner])
  | 32 => Some (TSeq [r (TInt k_xs5); r (TInt KI8); r (TInt k_xu255); r (TInt KU8); r (TInt (kx true (-128) 127));
                      r (TInt (kx false 0 4294967295)); r (TInt KU32);
                      r (TInt (kx true (-2147483648) 2147483647)); r (TInt KI32);
                      r (TInt (kx true i64_min (-1))); r (TInt (KExt false None None)); r (TInt (kx false 5 i64_max));
                      r (TInt (kx false 5 100000000000)); r (TInt (kx true (-100000000000) 5));
                      o (TInt k_xs5); o (TInt k_xu255)])
  | 33 => Some (TSeq [r (TSeqOf (TInt k_xs5)); r (TSeqOf (TInt k_xu255))])
  | 34 => Some (TChoice [TInt k_xs5; TInt k_xu255; TInt KU8])
  | _ => None
  end.

(* declared form (differs from the visit order only for the SET with explicit tags) *)
Definition zoo_decl (id : Z) : option decl :=
  match id with
  | 14 => Some zoo_set
  | _ => match zoo_ty id with Some t => Some (DPlain t) | None => None end
  end.

(* types of the ProtobufEq tie (hand-written #[derive(ProtobufEq)] types in proto.rs) *)
Definition peq_ty (id : Z) : option pty :=
  match id with
  | 0 => Some (TSeq [o (TInt KU64); o TStr; o TBool; r (TSeqOf (TInt KI32)); o TBytes; r TBits; o t_inner;
                     o (TSeqOf TStr)])
  | 1 => Some (TChoice [TInt KU64; t_inner; TStr])
  | _ => None
  end.

(** * Values as integer lists *)
Fixpoint take_n {A} (n : nat) (l : list A) : option (list A * list A) :=
  match n, l with
  | O, _ => Some ([], l)
  | S n', x :: l' => match take_n n' l' with Some (a, b) => Some (x :: a, b) | None => None end
  | S _, [] => None
  end.

Fixpoint dec_val (t : pty) (a : list Z) {struct t} : option (pval * list Z) :=
  match t with
  | TBool => match a with b :: a' => Some (VBool (negb (b =? 0)), a') | _ => None end
  | TInt _ => match a with z :: a' => Some (VInt z, a') | _ => None end
  | TStr => match a with
            | n :: a' => match take_n (Z.to_nat n) a' with Some (s, a'') => Some (VStr (ns s), a'') | None => None end
            | _ => None end
  | TBytes => match a with
              | n :: a' => match take_n (Z.to_nat n) a' with Some (s, a'') => Some (VBytes (ns s), a'') | None => None end
              | _ => None end
  | TBits => match a with
             | bl :: n :: a' =>
                 match take_n (Z.to_nat n) a' with
                 | Some (s, a'') => let '(bytes, k) := bitvec_from_bytes (ns s) (Z.to_N bl) in Some (VBits bytes k, a'')
                 | None => None end
             | _ => None end
  | TNull => Some (VNull, a)
  | TEnum _ => match a with i :: a' => Some (VEnum (Z.to_N i), a') | _ => None end
  | TSeq fs =>
      match (fix fields (fs : list (bool * pty)) (a : list Z) {struct fs} : option (list pval * list Z) :=
               match fs with
               | [] => Some ([], a)
               | (false, t) :: fs' =>
                   match dec_val t a with
                   | Some (v, a') => match fields fs' a' with Some (vs, a'') => Some (v :: vs, a'') | None => None end
                   | None => None end
               | (true, t) :: fs' =>
                   match a with
                   | 0 :: a' => match fields fs' a' with Some (vs, a'') => Some (VOpt None :: vs, a'') | None => None end
                   | _ :: a' =>
                       match dec_val t a' with
                       | Some (v, a'') =>
                           match fields fs' a'' with Some (vs, a3) => Some (VOpt (Some v) :: vs, a3) | None => None end
                       | None => None end
                   | [] => None
                   end
               end) fs a with
      | Some (vs, a') => Some (VSeq vs, a')
      | None => None
      end
  | TSeqOf t' =>
      match a with
      | n :: a' =>
          match (fix elems (k : nat) (a : list Z) {struct k} : option (list pval * list Z) :=
                   match k with
                   | O => Some ([], a)
                   | S k' => match dec_val t' a with
                             | Some (v, a') => match elems k' a' with Some (vs, a'') => Some (v :: vs, a'') | None => None end
                             | None => None end
                   end) (Z.to_nat n) a' with
          | Some (vs, a'') => Some (VList vs, a'')
          | None => None
          end
      | _ => None
      end
  | TChoice alts =>
      match a with
      | i :: a' =>
          (fix pick (alts : list pty) (j : nat) {struct alts} : option (pval * list Z) :=
             match alts, j with
             | t :: _, O => match dec_val t a' with Some (v, a'') => Some (VChoice (Z.to_N i) v, a'') | None => None end
             | _ :: rest, S j' => pick rest j'
             | [], _ => None
             end) alts (Z.to_nat i)
      | _ => None
      end
  end.

Definition enc_bytes (l : list N) : list Z := Z.of_nat (length l) :: zs l.

Fixpoint enc_val (v : pval) : list Z :=
  match v with
  | VBool b => [if b then 1 else 0]
  | VInt z => [z]
  | VStr s => enc_bytes s
  | VBytes l => enc_bytes l
  | VBits bytes n => Z.of_N n :: enc_bytes bytes
  | VNull => []
  | VEnum i => [Z.of_N i]
  | VSeq vs => flat_map enc_val vs
  | VOpt None => [0]
  | VOpt (Some v) => 1 :: enc_val v
  | VList vs => Z.of_nat (length vs) :: flat_map enc_val vs
  | VChoice i v => Z.of_N i :: enc_val v
  end.

Definition out_res {A} (f : A -> list Z) (x : res A) : list Z :=
  match x with
  | Ok a => 0 :: f a
  | Err e => [1; Z.of_N e]
  | Panic p => [2; Z.of_N p]
  end.

Definition op_write_read (m : mode) (t : pty) (capmode : Z) (v : pval) : list Z :=
  match pwrite_vec m t v with
  | Ok bs =>
      let n := N.of_nat (length bs) in
      let cap := match capmode with 0 => n | 1 => (n + 3)%N | _ => (n - 1)%N end in
      0 :: enc_bytes bs
        ++ out_res enc_bytes (pwrite_slice m cap t v)
        ++ out_res enc_val (pread m t bs)
  | Err e => [1; Z.of_N e]
  | Panic p => [2; Z.of_N p]
  end.

Definition run_proto (m : mode) (op : Z) (a : list Z) : list Z :=
  match op, a with
  (* primitive round trips *)
  | 4001, v :: tail => wr_rd (write_varint (Z.to_N v)) tail read_varint (fun v => [Z.of_N v])
  | 4002, v :: tail => wr_rd (write_sint32 v) tail read_sint32 (fun v => [v])
  | 4003, v :: tail => wr_rd (write_sint64 v) tail read_sint64 (fun v => [v])
  | 4004, f :: w :: tail =>
      wr_rd (write_tag (Z.to_N f) (fmt_of_z w)) tail read_tag (fun '(f, w) => [Z.of_N f; Z.of_N (format_code w)])
  | 4005, v :: tail => wr_rd (write_uint32 (Z.to_N v)) tail read_uint32 (fun v => [Z.of_N v])
  | 4006, b :: tail => wr_rd (write_bool (negb (b =? 0))) tail read_bool (fun b : bool => [if b then 1 else 0])
  | 4007, v :: tail => wr_rd (write_sfixed32 v) tail read_sfixed32 (fun v => [v])
  | 4008, bytes => let w := write_bytes (ns bytes) in Z.of_nat (length w) :: zs w
  | 4009, bl :: bytes =>
      (* BitVec::from_bytes(bytes, bl).to_vec_with_trailing_bit_len(), then from_vec_with_trailing_bit_len *)
      let '(b, k) := bitvec_from_bytes (ns bytes) (Z.to_N bl) in
      match bitvec_payload m b k with
      | Ok p => 0 :: enc_bytes p ++ out_res (fun '(b', k') => Z.of_N k' :: enc_bytes b') (bitvec_from_trailing m p)
      | Err e => [1; Z.of_N e]
      | Panic p => [2; Z.of_N p]
      end
  (* raw reads of arbitrary bytes *)
  | 4010, bytes => enc_res (fun v => [Z.of_N v]) (read_varint (ns bytes))
  | 4011, bytes => enc_res (fun '(f, w) => [Z.of_N f; Z.of_N (format_code w)]) (read_tag (ns bytes))
  | 4012, bytes => enc_res (fun v => [v]) (read_sint32 (ns bytes))
  | 4013, bytes => enc_res (fun v => [v]) (read_sint64 (ns bytes))
  | 4014, bytes => enc_res enc_bytes (read_string (ns bytes))
  | 4015, bytes => enc_res (fun '(b, k) => Z.of_N k :: enc_bytes b) (read_bit_vec m (ns bytes))
  | 4016, bytes => enc_res (fun v => [Z.of_N v]) (read_uint32 (ns bytes))
  | 4017, bytes => enc_res (fun b : bool => [if b then 1 else 0]) (read_bool (ns bytes))
  | 4018, bytes => enc_res (fun v => [v]) (read_sfixed32 (ns bytes))
  (* Writer / Reader over the zoo *)
  | 4050, tid :: capmode :: vals =>
      match zoo_ty tid with
      | Some t => match dec_val t vals with
                  | Some (v, []) => op_write_read m t capmode v
                  | _ => [-2]
                  end
      | None => [-1]
      end
  | 4060, tid :: _hint :: bytes =>
      match zoo_ty tid with
      | Some t => out_res enc_val (pread m t (ns bytes))
      | None => [-1]
      end
  (* ProtobufEq *)
  | 4070, pid :: vals =>
      match peq_ty pid with
      | Some t => match dec_val t vals with
                  | Some (v1, rest) =>
                      match dec_val t rest with
                      | Some (v2, []) => [0; if peq t v1 v2 then 1 else 0]
                      | _ => [-2]
                      end
                  | None => [-2]
                  end
      | None => [-1]
      end
  (* C18: abstract schema of a zoo type, and the reference decoder on the model's bytes *)
  | 4101, [tid] =>
      match zoo_decl tid with
      | Some d => 0 :: dump_msg (schema_of_decl d)
      | None => [-1]
      end
  | 4110, tid :: vals =>
      match zoo_decl tid, zoo_ty tid with
      | Some d, Some t =>
          match dec_val t vals with
          | Some (v, []) =>
              match pwrite_vec m t v with
              | Ok bs => match pb_decode (schema_of_decl d) bs with
                         | Some pv => 0 :: dump_pbmsg pv
                         | None => [1]
                         end
              | Err e => [3; Z.of_N e]
              | Panic p => [2; Z.of_N p]
              end
          | _ => [-2]
          end
      | _, _ => [-1]
      end
  | _, _ => [-1]
  end.
