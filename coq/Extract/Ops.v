From A1 Require Import Base.Res.
From A1 Require Export Extract.OpsDer.
From A1 Require Extract.OpsUperRef.
From A1 Require Extract.OpsBits Extract.OpsPer Extract.OpsUper Extract.OpsLex Extract.OpsIntTy Extract.OpsTags Extract.OpsParse Extract.OpsCodegen Extract.OpsProto.
Local Open Scope Z_scope.

(* top-level dispatcher; op code ranges per layer *)
Definition mode_of (dev : bool) : mode := if dev then dev_mode else release_mode.

Definition run (dev : bool) (op : Z) (args : list Z) : list Z :=
  let m := mode_of dev in
  if (2000 <=? op) && (op <? 2100) then run_der op args
  else if (1100 <=? op) && (op <? 1200) then OpsBits.run_bits m op args
  else if (1000 <=? op) && (op <? 1100) then OpsPer.run_per m op args
  else if (1250 <=? op) && (op <? 1260) then OpsUperRef.run_uperref m op args
  else if (1200 <=? op) && (op <? 1300) then OpsUper.run_uper m op args
  else if (3000 <=? op) && (op <? 3100) then OpsLex.run_lex m op args
  else if (3100 <=? op) && (op <? 3200) then OpsIntTy.run_intty m op args
  else if (3200 <=? op) && (op <? 3300) then OpsTags.run_tags m op args
  else if (3300 <=? op) && (op <? 3400) then OpsParse.run_parse m op args
  else if (3400 <=? op) && (op <? 3500) then OpsCodegen.run_codegen m op args
  else if (4000 <=? op) && (op <? 4200) then OpsProto.run_proto m op args
  else [-1].

Fixpoint list_z_eqb (a b : list Z) : bool :=
  match a, b with
  | [], [] => true
  | x :: a', y :: b' => (x =? y) && list_z_eqb a' b'
  | _, _ => false
  end.

(* used by the in-Coq cross-check of the extracted driver *)
Definition agree (dev : bool) (c : Z * list Z * list Z) : bool :=
  let '(op, args, expected) := c in list_z_eqb (run dev op args) expected.
