From A1 Require Import Base.Res.
From A1 Require Export Extract.OpsDer.
From A1 Require Extract.OpsBits.
Local Open Scope Z_scope.

(* top-level dispatcher; op code ranges per layer *)
Definition mode_of (dev : bool) : mode := if dev then dev_mode else release_mode.

Definition run (dev : bool) (op : Z) (args : list Z) : list Z :=
  let m := mode_of dev in
  if (2000 <=? op) && (op <? 2100) then run_der op args
  else if (1100 <=? op) && (op <? 1200) then OpsBits.run_bits m op args
  else [-1].

Fixpoint list_z_eqb (a b : list Z) : bool :=
  match a, b with
  | [], [] => true
  | x :: a', y :: b' => (x =? y) && list_z_eqb a' b'
  | _, _ => false
  end.

(* used by the in-Coq cross-check of the extracted driver *)
Definition agree (dev : bool) (c : Z * list Z * list Z) : bool :=
  let '(op, args, expected) := c in list_z_eqb (run dev op args) expected.
