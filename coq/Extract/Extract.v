From A1 Require Import Extract.Ops.
Require Extraction.
Require Import ExtrOcamlBasic.
Extraction Language OCaml.
Extraction "model.ml" run.
