(* Executable interface of the type-level X.691 reference (Uper/X691Type.v): op 1251. *)
From A1 Require Import Uper.X691Type Extract.OpsUper.
Local Open Scope Z_scope.

Definition run_uperref (m : mode) (op : Z) (a : list Z) : list Z :=
  match op with
  | 1251 =>
      let '(t, l) := parse_ty (S (length a)) a in
      let '(v, _) := parse_val (S (length l)) l in
      match x691 t v with
      | Some b => 0 :: Z.of_nat (length b) :: Z.of_nat (length (bytes_of_bits b)) :: zs (bytes_of_bits b)
      | None => [1]
      end
  | _ => [-1]
  end.
