(* The naive bit-vector specification: bits are [list bool], MSB first. *)
From A1 Require Export Base.Word.
Local Open Scope N_scope.

Definition bits := list bool.

Definition byte_bits (b : N) : list bool :=
  [N.testbit b 7; N.testbit b 6; N.testbit b 5; N.testbit b 4;
   N.testbit b 3; N.testbit b 2; N.testbit b 1; N.testbit b 0].

Definition bits_of_bytes (l : list N) : bits := flat_map byte_bits l.

Definition b2n (b : bool) : N := if b then 1 else 0.

(* value of up to 8 bits, MSB first, left-aligned in a byte (zero padding) *)
Definition byte_of_bits (l : list bool) : N :=
  let g i := b2n (nth i l false) in
  128 * g 0%nat + 64 * g 1%nat + 32 * g 2%nat + 16 * g 3%nat + 8 * g 4%nat + 4 * g 5%nat + 2 * g 6%nat + g 7%nat.

Fixpoint bytes_of_bits_fuel (fuel : nat) (l : list bool) : list N :=
  match fuel with
  | O => []
  | S f => match l with
           | [] => []
           | _ => byte_of_bits (firstn 8 l) :: bytes_of_bits_fuel f (skipn 8 l)
           end
  end.
Definition bytes_of_bits (l : list bool) : list N := bytes_of_bits_fuel (S (length l)) l.

Definition slice (l : bits) (off n : nat) : bits := firstn n (skipn off l).
Definition splice (pos : nat) (xs dst : bits) : bits :=
  firstn pos dst ++ xs ++ skipn (pos + length xs) dst.

(* value of a bit list, MSB first *)
Definition val_of_bits (l : bits) : N := fold_left (fun a b => 2 * a + b2n b) l 0.
(* the k low bits of v, MSB first *)
Fixpoint bits_of_val (k : nat) (v : N) : bits :=
  match k with
  | O => []
  | S k' => N.testbit v (N.of_nat k') :: bits_of_val k' v
  end.
