(* Model of the whole public surface of src/protocol/per/unaligned/buffer.rs, function for
   function on top of Bits/Copy.v (which holds the tuple carriers, ensure_can_write and the
   first three BitBuffer writes): the remaining BitWrite / BitRead entry points of BitBuffer
   (every one is an override that forwards to the tuple carrier's method of the same name),
   the constructors, clear / reset_read_position, the three scoped-position combinators,
   and the remaining BitRead / ScopedBitRead methods of Bits with its three constructors. *)
From A1 Require Export Bits.Copy.
Local Open Scope N_scope.

(** ** tuple carriers: the four forwarding methods of slice.rs *)

(* (&mut [u8], &mut usize)::write_bits_with_offset: len = src.len() * 8 - off *)
Definition slice_write_bits_o (m : mode) (dst : list N) (pos : N) (src : list N) (soff : N) : res (list N * N) :=
  let! l := usub m (blen src * BYTE_LEN) soff in
  slice_write_bits m dst pos src soff l.
(* ::write_bits = write_bits_with_offset(src, 0) *)
Definition slice_write_bits_all (m : mode) (dst : list N) (pos : N) (src : list N) : res (list N * N) :=
  slice_write_bits_o m dst pos src 0.
(* ::write_bits_with_len = write_bits_with_offset_len(src, 0, len) *)
Definition slice_write_bits_l (m : mode) (dst : list N) (pos : N) (src : list N) (len : N) : res (list N * N) :=
  slice_write_bits m dst pos src 0 len.

(* (&[u8], &mut usize)::read_bits / _with_offset / _with_len *)
Definition slice_read_bits_all (m : mode) (src : list N) (pos : N) (dst : list N) : res (list N * N) :=
  slice_read_bits m src pos dst 0 (blen dst * BYTE_LEN).
Definition slice_read_bits_o (m : mode) (src : list N) (pos : N) (dst : list N) (doff : N) : res (list N * N) :=
  let! l := usub m (blen dst * BYTE_LEN) doff in
  slice_read_bits m src pos dst doff l.
Definition slice_read_bits_l (m : mode) (src : list N) (pos : N) (dst : list N) (dlen : N) : res (list N * N) :=
  slice_read_bits m src pos dst 0 dlen.

(** ** BitBuffer *)

Definition bb_set_wpos (b : bitbuffer) (p : N) : bitbuffer :=
  {| bb_buf := bb_buf b; bb_wpos := p; bb_rpos := bb_rpos b |}.
Definition bb_set_rpos (b : bitbuffer) (p : N) : bitbuffer :=
  {| bb_buf := bb_buf b; bb_wpos := bb_wpos b; bb_rpos := p |}.

(* the result of a write through the tuple carrier, folded back into the buffer: an Err
   leaves the (already grown) buffer behind *)
Definition bb_after_write (b : bitbuffer) (r : res (list N * N)) : res (bitbuffer * option N) :=
  match r with
  | Ok (buf, p) => Ok ({| bb_buf := buf; bb_wpos := p; bb_rpos := bb_rpos b |}, None)
  | Err e => Ok (b, Some e)
  | Panic p => Panic p
  end.

(* BitBuffer::write_bits: ensure(src.len() * 8), then the carrier's write_bits *)
Definition bb_write_bits (m : mode) (b : bitbuffer) (src : list N) : res (bitbuffer * option N) :=
  let! b := ensure_can_write m b (blen src * BYTE_LEN) in
  bb_after_write b (slice_write_bits_all m (bb_buf b) (bb_wpos b) src).

(* BitBuffer::write_bits_with_offset: ensure(src.len() * 8 - off), then the carrier's
   write_bits_with_offset (which subtracts again) *)
Definition bb_write_bits_with_offset (m : mode) (b : bitbuffer) (src : list N) (soff : N) : res (bitbuffer * option N) :=
  let! l := usub m (blen src * BYTE_LEN) soff in
  let! b := ensure_can_write m b l in
  bb_after_write b (slice_write_bits_o m (bb_buf b) (bb_wpos b) src soff).

(* BitBuffer::write_bits_with_len: source check first, then ensure(len), then the carrier *)
Definition bb_write_bits_with_len (m : mode) (b : bitbuffer) (src : list N) (len : N) : res (bitbuffer * option N) :=
  if blen src * BYTE_LEN <? len then Ok (b, Some E_INSUFFICIENT_SRC) else
  let! b := ensure_can_write m b len in
  bb_after_write b (slice_write_bits_l m (bb_buf b) (bb_wpos b) src len).

(* BitBuffer::write_bits_with_offset_len: Copy.bb_write_bits_ol; BitBuffer::write_bit: Copy.bb_write_bit *)

Definition bb_after_read (b : bitbuffer) (r : res (list N * N)) : res (list N * bitbuffer) :=
  let! (dst', p) := r in Ok (dst', bb_set_rpos b p).

(* BitBuffer::ensure_can_read_bits (private): the multi-bit reads must not deliver the padding
   bits (or stale bytes) behind the write position *)
Definition bb_ensure_can_read_bits (b : bitbuffer) (bit_len : N) : res unit :=
  if bb_wpos b - bb_rpos b <? bit_len then Err E_END_OF_STREAM else Ok tt.   (* saturating_sub *)

(* the four multi-bit reads: the guard with the number of bits the call is going to ask for,
   then the tuple carrier's method of the same name. (Copy.bb_read_bits_ol is the carrier call
   without the guard, i.e. read_bits_with_offset_len before the repair; it is no longer used
   by the executable interface.) *)
Definition bb_read_bits (m : mode) (b : bitbuffer) (dst : list N) : res (list N * bitbuffer) :=
  let! _ := bb_ensure_can_read_bits b (blen dst * BYTE_LEN) in
  bb_after_read b (slice_read_bits_all m (bb_buf b) (bb_rpos b) dst).
Definition bb_read_bits_with_offset (m : mode) (b : bitbuffer) (dst : list N) (doff : N) : res (list N * bitbuffer) :=
  let! _ := bb_ensure_can_read_bits b (blen dst * BYTE_LEN - doff) in           (* saturating_sub *)
  bb_after_read b (slice_read_bits_o m (bb_buf b) (bb_rpos b) dst doff).
Definition bb_read_bits_with_len (m : mode) (b : bitbuffer) (dst : list N) (dlen : N) : res (list N * bitbuffer) :=
  let! _ := bb_ensure_can_read_bits b dlen in
  bb_after_read b (slice_read_bits_l m (bb_buf b) (bb_rpos b) dst dlen).
Definition bb_read_bits_with_offset_len (m : mode) (b : bitbuffer) (dst : list N) (doff dlen : N) : res (list N * bitbuffer) :=
  let! _ := bb_ensure_can_read_bits b dlen in
  bb_after_read b (slice_read_bits m (bb_buf b) (bb_rpos b) dst doff dlen).

(* constructors *)
Definition bb_default : bitbuffer := bb_empty.
(* Vec::<u8>::with_capacity panics above isize::MAX; capacity is not observable otherwise *)
Definition bb_with_capacity (cap : N) : res bitbuffer :=
  if two63 <=? cap then Panic P_CAPACITY else Ok bb_empty.
(* assert! (both profiles) *)
Definition bb_from_bits (buf : list N) (bit_length : N) : res bitbuffer :=
  if blen buf * BYTE_LEN <? bit_length then Panic P_ASSERT else
  Ok {| bb_buf := buf; bb_wpos := bit_length; bb_rpos := 0 |}.
Definition bb_from_bytes (buf : list N) : res bitbuffer := bb_from_bits buf (blen buf * BYTE_LEN).
Definition bb_from_bits_with_position (buf : list N) (w r : N) : res bitbuffer :=
  if blen buf * BYTE_LEN <? w then Panic P_ASSERT else
  if blen buf * BYTE_LEN <? r then Panic P_ASSERT else
  Ok {| bb_buf := buf; bb_wpos := w; bb_rpos := r |}.

Definition bb_clear (b : bitbuffer) : bitbuffer := bb_empty.
Definition bb_reset_read_position (b : bitbuffer) : bitbuffer := bb_set_rpos b 0.

(* observations *)
Definition bb_content (b : bitbuffer) : list N := bb_buf b.
Definition bb_bit_len (b : bitbuffer) : N := bb_wpos b.
Definition bb_byte_len (b : bitbuffer) : N := blen (bb_buf b).
Definition bb_into_vec (b : bitbuffer) : list N := bb_buf b.

(* the scoped combinators; the closure is a function on the buffer that may panic. The
   position is restored only on normal return. *)
Definition bb_with_write_position_at {T} (m : mode) (b : bitbuffer) (pos : N)
  (f : bitbuffer -> res (bitbuffer * T)) : res (bitbuffer * T) :=
  if debug_asserts m && (blen (bb_buf b) * 8 <? pos) then Panic P_ASSERT else
  let before := bb_wpos b in
  let! (b', t) := f (bb_set_wpos b pos) in
  Ok (bb_set_wpos b' before, t).

Definition bb_with_read_position_at {T} (m : mode) (b : bitbuffer) (pos : N)
  (f : bitbuffer -> res (bitbuffer * T)) : res (bitbuffer * T) :=
  if debug_asserts m && negb (pos <? bb_wpos b) then Panic P_ASSERT else
  let before := bb_rpos b in
  let! (b', t) := f (bb_set_rpos b pos) in
  Ok (bb_set_rpos b' before, t).

Definition bb_with_max_read {T} (m : mode) (b : bitbuffer) (max_read_len : N)
  (f : bitbuffer -> res (bitbuffer * T)) : res (bitbuffer * T) :=
  let! w := uadd m (bb_rpos b) max_read_len in
  let before := bb_wpos b in
  let! (b', t) := f (bb_set_wpos b w) in
  Ok (bb_set_wpos b' before, t).

(** ** Bits *)

(* From<&[u8]>, From<(&[u8], usize)> (debug_assert!), From<&BitBuffer> *)
Definition br_from_slice (sl : list N) : bitsrd :=
  {| br_slice := sl; br_pos := 0; br_len := blen sl * BYTE_LEN |}.
Definition br_from_slice_len (m : mode) (sl : list N) (len : N) : res bitsrd :=
  if debug_asserts m && (blen sl * BYTE_LEN <? len) then Panic P_ASSERT else
  Ok {| br_slice := sl; br_pos := 0; br_len := len |}.
Definition br_from_buffer (b : bitbuffer) : bitsrd :=
  {| br_slice := bb_content b; br_pos := 0; br_len := bb_bit_len b |}.

(* Bits::read_bits / _with_offset / _with_len call Bits's own read_bits_with_offset_len *)
Definition br_read_bits (m : mode) (r : bitsrd) (dst : list N) : res (list N * bitsrd) :=
  br_read_bits_ol m r dst 0 (blen dst * BYTE_LEN).
Definition br_read_bits_with_offset (m : mode) (r : bitsrd) (dst : list N) (doff : N) : res (list N * bitsrd) :=
  let! l := usub m (blen dst * BYTE_LEN) doff in
  br_read_bits_ol m r dst doff l.
Definition br_read_bits_with_len (m : mode) (r : bitsrd) (dst : list N) (dlen : N) : res (list N * bitsrd) :=
  br_read_bits_ol m r dst 0 dlen.

Definition br_is_empty (r : bitsrd) : bool := br_len r =? 0.

(* ScopedBitRead::with_read_position_at (trait default): both set_pos calls clamp *)
Definition br_with_read_position_at {T} (r : bitsrd) (pos : N)
  (f : bitsrd -> res (bitsrd * T)) : res (bitsrd * T) :=
  let original := br_pos r in
  let! (r', t) := f (br_set_pos r pos) in
  Ok (br_set_pos r' original, t).
