(* Model of src/protocol/per/unaligned/slice.rs on byte lists: read_bit/write_bit of
   the tuple carriers, bit_string_copy (bitwise) and bit_string_copy_bulked
   (len <= 16 dispatch, source-alignment head, aligned copy_from_slice branch,
   unaligned half_left/half_right loop, tail), and of BitBuffer / Bits from buffer.rs. *)
From A1 Require Export Base.Word Gen.PerConsts.
Local Open Scope N_scope.

Definition E_INSUFFICIENT_DST : N := 4.
Definition E_INSUFFICIENT_SRC : N := 5.
Definition E_END_OF_STREAM : N := 15.

Definition blen (l : list N) : N := N.of_nat (length l).

(* v[i] and v[i] = x with Rust's bounds check *)
Definition getb (l : list N) (i : N) : res N :=
  match nth_error l (N.to_nat i) with Some b => Ok b | None => Panic P_INDEX_OOB end.
Definition setb (l : list N) (i : N) (v : N) : res (list N) :=
  if i <? blen l then Ok (firstn (N.to_nat i) l ++ v :: skipn (S (N.to_nat i)) l)
  else Panic P_INDEX_OOB.

(* usize arithmetic per profile *)
Definition uadd (m : mode) (a b : N) : res N :=
  if a + b <? two64 then Ok (a + b)
  else if overflow_checks m then Panic P_ARITH else Ok ((a + b) mod two64).
Definition usub (m : mode) (a b : N) : res N :=
  if b <=? a then Ok (a - b)
  else if overflow_checks m then Panic P_ARITH else Ok (a + two64 - b).
Definition umul (m : mode) (a b : N) : res N :=
  if a * b <? two64 then Ok (a * b)
  else if overflow_checks m then Panic P_ARITH else Ok ((a * b) mod two64).

(** ** tuple carriers *)

(* (&[u8], &mut usize)::read_bit *)
Definition slice_read_bit (src : list N) (pos : N) : res (bool * N) :=
  if blen src * BYTE_LEN <=? pos then Err E_END_OF_STREAM else
  let! b := getb src (pos / BYTE_LEN) in
  Ok (negb (N.land b (128 / 2 ^ (pos mod BYTE_LEN)) =? 0), pos + 1).

(* (&mut [u8], &mut usize)::write_bit *)
Definition slice_write_bit (dst : list N) (pos : N) (bit : bool) : res (list N * N) :=
  if blen dst * BYTE_LEN <? pos + 1 then Err E_END_OF_STREAM else
  let! b := getb dst (pos / BYTE_LEN) in
  let mask := 128 / 2 ^ (pos mod BYTE_LEN) in
  let nb := if bit then N.lor b mask else N.land b (255 - mask) in
  let! dst' := setb dst (pos / BYTE_LEN) nb in
  Ok (dst', pos + 1).

(** ** bit_string_copy *)
Fixpoint copy_loop (n : nat) (k : N) (src : list N) (sp : N) (dst : list N) (dp : N) : res (list N) :=
  match n with
  | O => Ok dst
  | S n' =>
      let! sb := getb src ((sp + k) / BYTE_LEN) in
      let bit := negb (N.land sb (2 ^ (BYTE_LEN - (sp + k) mod BYTE_LEN - 1)) =? 0) in
      let di := (dp + k) / BYTE_LEN in
      let mask := 2 ^ (BYTE_LEN - (dp + k) mod BYTE_LEN - 1) in
      let! db := getb dst di in
      let nb := if bit then N.lor db mask else N.land db (255 - mask) in
      let! dst' := setb dst di nb in
      copy_loop n' (k + 1) src sp dst' dp
  end.

Definition bit_string_copy (m : mode) (src : list N) (sp : N) (dst : list N) (dp len : N) : res (list N) :=
  let! dend := uadd m dp len in
  if blen dst * BYTE_LEN <? dend then Err E_INSUFFICIENT_DST else
  let! send := uadd m sp len in
  if blen src * BYTE_LEN <? send then Err E_INSUFFICIENT_SRC else
  copy_loop (N.to_nat len) 0 src sp dst dp.

(* the unaligned whole-byte loop *)
Fixpoint unaligned_loop (n : nat) (index : N) (src : list N) (si : N) (dst : list N) (di off : N) : res (list N) :=
  match n with
  | O => Ok dst
  | S n' =>
      let! byte := getb src (index + si) in
      let half_left := byte / 2 ^ off in
      let half_right := (byte * 2 ^ (BYTE_LEN - off)) mod 256 in
      let keep := (255 * 2 ^ (BYTE_LEN - off)) mod 256 in
      let! d0 := getb dst (index + di) in
      let! dst1 := setb dst (index + di) (N.lor (N.land d0 keep) half_left) in
      let! d1 := getb dst1 (index + di + 1) in
      let! dst2 := setb dst1 (index + di + 1) (N.lor (N.land d1 (255 / 2 ^ off)) half_right) in
      unaligned_loop n' (index + 1) src si dst2 di off
  end.

Definition copy_from_slice (src : list N) (si : N) (dst : list N) (di n : N) : res (list N) :=
  if (blen src <? si + n) || (blen dst <? di + n) then Panic P_SLICE_RANGE else
  Ok (firstn (N.to_nat di) dst ++ firstn (N.to_nat n) (skipn (N.to_nat si) src) ++ skipn (N.to_nat (di + n)) dst).

Definition bit_string_copy_bulked (m : mode) (src : list N) (sp : N) (dst : list N) (dp len : N) : res (list N) :=
  if len <=? BYTE_LEN * 2 then bit_string_copy m src sp dst dp len else
  let! dend := uadd m dp len in
  if blen dst * BYTE_LEN <? dend then Err E_INSUFFICIENT_DST else
  let! send := uadd m sp len in
  if blen src * BYTE_LEN <? send then Err E_INSUFFICIENT_SRC else
  let head := (BYTE_LEN - sp mod BYTE_LEN) mod BYTE_LEN in
  let! dst := (if head =? 0 then Ok dst else bit_string_copy m src sp dst dp (N.min head len)) in
  if negb (head =? 0) && (len <=? head) then Ok dst else
  let sp := sp + head in
  let dp := dp + head in
  let len := len - head in
  let di := dp / BYTE_LEN in
  let off := dp mod BYTE_LEN in
  let si := sp / BYTE_LEN in
  let nbytes := len / BYTE_LEN in
  let! dst := (if off =? 0 then copy_from_slice src si dst di nbytes
               else unaligned_loop (N.to_nat nbytes) 0 src si dst di off) in
  if len mod BYTE_LEN =? 0 then Ok dst
  else bit_string_copy m src (sp + nbytes * BYTE_LEN) dst (dp + nbytes * BYTE_LEN) (len mod BYTE_LEN).

(* read_bits_with_offset_len on (&[u8], &mut usize): copies into dst, advances the cursor *)
Definition slice_read_bits (m : mode) (src : list N) (pos : N) (dst : list N) (doff dlen : N)
  : res (list N * N) :=
  let! dst' := bit_string_copy_bulked m src pos dst doff dlen in
  let! pos' := uadd m pos dlen in
  Ok (dst', pos').

(* write_bits_with_offset_len on (&mut [u8], &mut usize) *)
Definition slice_write_bits (m : mode) (dst : list N) (pos : N) (src : list N) (soff slen : N)
  : res (list N * N) :=
  let! dst' := bit_string_copy_bulked m src soff dst pos slen in
  let! pos' := uadd m pos slen in
  Ok (dst', pos').

(** ** BitBuffer *)
Record bitbuffer := { bb_buf : list N; bb_wpos : N; bb_rpos : N }.
Definition bb_empty := {| bb_buf := []; bb_wpos := 0; bb_rpos := 0 |}.

Definition ensure_can_write (m : mode) (b : bitbuffer) (bit_len : N) : res bitbuffer :=
  let! e := uadd m (bb_wpos b) bit_len in
  if blen (bb_buf b) * BYTE_LEN <=? e then
    let! e7 := uadd m e 7 in
    let required := e7 / BYTE_LEN in
    let! ext := usub m required (blen (bb_buf b)) in
    if two63 <=? ext then Panic P_CAPACITY else
    Ok {| bb_buf := bb_buf b ++ repeat 0 (N.to_nat ext); bb_wpos := bb_wpos b; bb_rpos := bb_rpos b |}
  else Ok b.

(* BitBuffer writes first grow the buffer and then write through the tuple carrier: an
   Err from the latter leaves the grown buffer behind, so the result carries the state
   together with the optional error kind. *)
Definition bb_write_bit (m : mode) (b : bitbuffer) (bit : bool) : res (bitbuffer * option N) :=
  let! b := ensure_can_write m b 1 in
  match slice_write_bit (bb_buf b) (bb_wpos b) bit with
  | Ok (buf, p) => Ok ({| bb_buf := buf; bb_wpos := p; bb_rpos := bb_rpos b |}, None)
  | Err e => Ok (b, Some e)
  | Panic p => Panic p
  end.

Definition bb_write_bits_ol (m : mode) (b : bitbuffer) (src : list N) (soff slen : N) : res (bitbuffer * option N) :=
  let! send := uadd m soff slen in
  if blen src * BYTE_LEN <? send then Ok (b, Some E_INSUFFICIENT_SRC) else
  let! b := ensure_can_write m b slen in
  match slice_write_bits m (bb_buf b) (bb_wpos b) src soff slen with
  | Ok (buf, p) => Ok ({| bb_buf := buf; bb_wpos := p; bb_rpos := bb_rpos b |}, None)
  | Err e => Ok (b, Some e)
  | Panic p => Panic p
  end.

(* write_bits_with_offset: len = src.len()*8 - off (usize subtraction) *)
Definition bb_write_bits_o (m : mode) (b : bitbuffer) (src : list N) (soff : N) : res (bitbuffer * option N) :=
  let! l := usub m (blen src * BYTE_LEN) soff in
  bb_write_bits_ol m b src soff l.

Definition bb_read_bit (b : bitbuffer) : res (bool * bitbuffer) :=
  if bb_rpos b <? bb_wpos b then
    let! (bit, p) := slice_read_bit (bb_buf b) (bb_rpos b) in
    Ok (bit, {| bb_buf := bb_buf b; bb_wpos := bb_wpos b; bb_rpos := p |})
  else Err E_END_OF_STREAM.

Definition bb_read_bits_ol (m : mode) (b : bitbuffer) (dst : list N) (doff dlen : N) : res (list N * bitbuffer) :=
  let! (dst', p) := slice_read_bits m (bb_buf b) (bb_rpos b) dst doff dlen in
  Ok (dst', {| bb_buf := bb_buf b; bb_wpos := bb_wpos b; bb_rpos := p |}).

(* with_write_position_at(pos, |b| b.write_bit(bit)) *)
Definition bb_patch_bit (m : mode) (b : bitbuffer) (pos : N) (bit : bool) : res (bitbuffer * option N) :=
  if debug_asserts m && (blen (bb_buf b) * 8 <? pos) then Panic P_ASSERT else
  let b' := {| bb_buf := bb_buf b; bb_wpos := pos; bb_rpos := bb_rpos b |} in
  let! (b'', e) := bb_write_bit m b' bit in
  Ok ({| bb_buf := bb_buf b''; bb_wpos := bb_wpos b; bb_rpos := bb_rpos b'' |}, e).

(** ** Bits (read-only view with a declared bit length) *)
Record bitsrd := { br_slice : list N; br_pos : N; br_len : N }.

Definition br_read_bit (r : bitsrd) : res (bool * bitsrd) :=
  if br_pos r <? br_len r then
    let! (bit, p) := slice_read_bit (br_slice r) (br_pos r) in
    Ok (bit, {| br_slice := br_slice r; br_pos := p; br_len := br_len r |})
  else Err E_END_OF_STREAM.

Definition br_read_bits_ol (m : mode) (r : bitsrd) (dst : list N) (doff dlen : N) : res (list N * bitsrd) :=
  if br_len r - br_pos r <? dlen then Err E_END_OF_STREAM else
  let! (dst', p) := slice_read_bits m (br_slice r) (br_pos r) dst doff dlen in
  Ok (dst', {| br_slice := br_slice r; br_pos := p; br_len := br_len r |}).

Definition br_set_pos (r : bitsrd) (p : N) : bitsrd :=
  {| br_slice := br_slice r; br_pos := N.min p (br_len r); br_len := br_len r |}.
Definition br_set_len (r : bitsrd) (l : N) : bitsrd :=
  {| br_slice := br_slice r; br_pos := br_pos r; br_len := N.min l (blen (br_slice r) * BYTE_LEN) |}.
Definition br_remaining (m : mode) (r : bitsrd) : res N := usub m (br_len r) (br_pos r).
