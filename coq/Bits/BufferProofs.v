(* Proofs about Bits/Buffer.v (the full BitBuffer surface): every write entry point is an
   instance of write_bits_with_offset_len, the invariant of Bits/Proofs.v is preserved by
   every public operation except a scoped write that runs past the old end (refuted by a
   concrete run), and a scoped write that stays inside the written bits is a splice. *)
From A1 Require Import Bits.Naive Bits.Copy Bits.Proofs Bits.Buffer.
Require Import ZifyBool ZifyNat ZifyN.
Local Open Scope N_scope.

(** * the five write entry points *)
Lemma bb_after_write_ol m b src soff slen :
  bb_write_bits_ol m b src soff slen =
  (let! send := uadd m soff slen in
   if blen src * BYTE_LEN <? send then Ok (b, Some E_INSUFFICIENT_SRC) else
   let! b := ensure_can_write m b slen in
   bb_after_write b (slice_write_bits m (bb_buf b) (bb_wpos b) src soff slen)).
Proof. reflexivity. Qed.

Lemma bb_write_bits_with_len_eq m b src len : len < two64 ->
  bb_write_bits_with_len m b src len = bb_write_bits_ol m b src 0 len.
Proof.
  intros H. rewrite bb_after_write_ol. unfold bb_write_bits_with_len, slice_write_bits_l.
  rewrite uadd_ok by (cbn; lia). cbn [bind]. change (0 + len) with len. reflexivity.
Qed.

Lemma bb_write_bits_with_offset_eq m b src soff : soff <= 8 * blen src -> 8 * blen src < two64 ->
  bb_write_bits_with_offset m b src soff = bb_write_bits_ol m b src soff (8 * blen src - soff).
Proof.
  intros H H64. rewrite bb_after_write_ol. unfold bb_write_bits_with_offset, slice_write_bits_o, BYTE_LEN.
  rewrite usub_ok by lia. cbn [bind]. rewrite uadd_ok by lia. cbn [bind].
  replace (blen src * 8 - soff) with (8 * blen src - soff) by lia.
  destruct (N.ltb_spec (blen src * 8) (soff + (8 * blen src - soff))); [lia|].
  destruct (ensure_can_write m b (8 * blen src - soff)) as [b1|e|p]; cbn [bind]; reflexivity.
Qed.

Lemma bb_write_bits_eq m b src : 8 * blen src < two64 ->
  bb_write_bits m b src = bb_write_bits_ol m b src 0 (8 * blen src).
Proof.
  intros H64. rewrite bb_after_write_ol. unfold bb_write_bits, slice_write_bits_all, slice_write_bits_o, BYTE_LEN.
  rewrite uadd_ok by lia. cbn [bind]. change (0 + 8 * blen src) with (8 * blen src).
  destruct (N.ltb_spec (blen src * 8) (8 * blen src)); [lia|].
  replace (blen src * 8) with (8 * blen src) by lia.
  destruct (ensure_can_write m b (8 * blen src)) as [b1|e|p]; cbn [bind]; try reflexivity.
  rewrite usub_ok by lia. cbn [bind]. rewrite N.sub_0_r. reflexivity.
Qed.

(* the old model of write_bits_with_offset in Copy.v is the same function on its domain *)
Lemma bb_write_bits_with_offset_old m b src soff : soff <= 8 * blen src -> 8 * blen src < two64 ->
  bb_write_bits_with_offset m b src soff = bb_write_bits_o m b src soff.
Proof.
  intros H H64. rewrite bb_write_bits_with_offset_eq, bb_write_bits_o_eq by assumption. reflexivity.
Qed.

(** * the write entry points as one family *)
Inductive wop5 :=
| W5Bit (bit : bool)                          (* write_bit *)
| W5All (src : list N)                        (* write_bits *)
| W5Len (src : list N) (len : N)              (* write_bits_with_len *)
| W5Off (src : list N) (soff : N)             (* write_bits_with_offset *)
| W5OffLen (src : list N) (soff slen : N).    (* write_bits_with_offset_len *)

Definition w5_apply (m : mode) (b : bitbuffer) (w : wop5) : res (bitbuffer * option N) :=
  match w with
  | W5Bit bit => bb_write_bit m b bit
  | W5All src => bb_write_bits m b src
  | W5Len src len => bb_write_bits_with_len m b src len
  | W5Off src soff => bb_write_bits_with_offset m b src soff
  | W5OffLen src soff slen => bb_write_bits_ol m b src soff slen
  end.

Definition w5_src (w : wop5) : list N :=
  match w with
  | W5Bit bit => [if bit then 128 else 0]
  | W5All s | W5Len s _ | W5Off s _ | W5OffLen s _ _ => s
  end.
Definition w5_off (w : wop5) : N :=
  match w with W5Off _ o | W5OffLen _ o _ => o | _ => 0 end.
(* the number of bits the call asks to write *)
Definition w5_len (w : wop5) : N :=
  match w with
  | W5Bit _ => 1
  | W5All s => 8 * blen s
  | W5Len _ l => l
  | W5Off s o => 8 * blen s - o
  | W5OffLen _ _ l => l
  end.
(* side conditions: sources are [u8] lists and the usize arithmetic of the call does not wrap *)
Definition w5_ok (w : wop5) : Prop :=
  Forall byte (w5_src w) /\ 8 * blen (w5_src w) < two64 /\ w5_off w + w5_len w < two64
  /\ match w with W5Off s o => o <= 8 * blen s | _ => True end.
(* the source holds the requested range *)
Definition w5_fits (w : wop5) : Prop := w5_off w + w5_len w <= 8 * blen (w5_src w).
(* the bits the call writes *)
Definition w5_bits (w : wop5) : bits :=
  match w with
  | W5Bit bit => [bit]
  | _ => slice (bits_of_bytes (w5_src w)) (N.to_nat (w5_off w)) (N.to_nat (w5_len w))
  end.

Lemma w5_bits_length w : w5_fits w -> length (w5_bits w) = N.to_nat (w5_len w).
Proof.
  intros H. destruct w; [reflexivity|..]; unfold w5_bits;
    apply slice_length; rewrite bits_length; unfold w5_fits, blen in H; lia.
Qed.

(* every multi-bit entry point is write_bits_with_offset_len (src, w5_off, w5_len) *)
Lemma w5_as_ol m b w : w5_ok w ->
  match w with
  | W5Bit bit => True
  | _ => w5_apply m b w = bb_write_bits_ol m b (w5_src w) (w5_off w) (w5_len w)
  end.
Proof.
  intros (Fs & H64 & Ho & Hx). destruct w; cbn [w5_apply w5_src w5_off w5_len] in *; [exact I|..].
  - apply bb_write_bits_eq. exact H64.
  - apply bb_write_bits_with_len_eq. lia.
  - apply bb_write_bits_with_offset_eq; assumption.
  - reflexivity.
Qed.

(* a source that is too short: an error, and the buffer (whatever it is) is left untouched *)
Lemma w5_short m b w : w5_ok w -> ~ w5_fits w ->
  w5_apply m b w = Ok (b, Some E_INSUFFICIENT_SRC).
Proof.
  intros Hok Hn. pose proof (w5_as_ol m b w Hok) as E. destruct Hok as (Fs & H64 & Ho & Hx).
  unfold w5_fits in Hn.
  destruct w; [cbn in Hn; lia|..]; rewrite E; unfold bb_write_bits_ol, BYTE_LEN;
    rewrite uadd_ok by exact Ho; cbn [bind];
    match goal with |- context [?a <? ?b] => destruct (N.ltb_spec a b) end; try reflexivity; lia.
Qed.

(* appending: invariant, cursor and the refinement to [++] *)
Lemma w5_append m b w :
  bb_inv b -> w5_ok w -> w5_fits w -> bb_wpos b + w5_len w < two63 ->
  exists b', w5_apply m b w = Ok (b', None)
    /\ bb_inv b' /\ bb_wpos b' = bb_wpos b + w5_len w /\ bb_rpos b' = bb_rpos b
    /\ firstn (N.to_nat (bb_wpos b')) (bits_of_bytes (bb_buf b'))
       = firstn (N.to_nat (bb_wpos b)) (bits_of_bytes (bb_buf b)) ++ w5_bits w.
Proof.
  intros Hi Hok Hf Hb. pose proof (w5_as_ol m b w Hok) as E. destruct Hok as (Fs & H64 & Ho & Hx).
  destruct w as [bit|src|src len|src soff|src soff slen].
  - exact (bb_write_bit_spec m b bit Hi Hb).
  - rewrite E. destruct (bb_write_bits_ol_spec m b _ _ _ Hi Fs Ho Hb) as [_ S]. exact (S Hf).
  - rewrite E. destruct (bb_write_bits_ol_spec m b _ _ _ Hi Fs Ho Hb) as [_ S]. exact (S Hf).
  - rewrite E. destruct (bb_write_bits_ol_spec m b _ _ _ Hi Fs Ho Hb) as [_ S]. exact (S Hf).
  - rewrite E. destruct (bb_write_bits_ol_spec m b _ _ _ Hi Fs Ho Hb) as [_ S]. exact (S Hf).
Qed.

(** * writing inside the written bits: with_write_position_at *)
Lemma ensure_in_place m b n :
  bb_wpos b + n < 8 * blen (bb_buf b) \/ (bb_wpos b + n = 8 * blen (bb_buf b)) -> bb_wpos b + n < two63 ->
  ensure_can_write m b n = Ok b.
Proof.
  intros Hc Hb. unfold ensure_can_write, BYTE_LEN. unfold two63 in Hb.
  rewrite uadd_ok by (unfold two64; lia). cbn [bind].
  destruct (N.leb_spec (blen (bb_buf b) * 8) (bb_wpos b + n)) as [Hg|Hg]; [|reflexivity].
  rewrite uadd_ok by (unfold two64; lia). cbn [bind].
  rewrite usub_ok by lia. cbn [bind].
  destruct (N.leb_spec two63 ((bb_wpos b + n + 7) / 8 - blen (bb_buf b))) as [Hx|Hx]; [unfold two63 in Hx; lia|].
  replace ((bb_wpos b + n + 7) / 8 - blen (bb_buf b)) with 0 by lia.
  cbn [N.to_nat repeat]. rewrite app_nil_r. destruct b; reflexivity.
Qed.

Lemma inv_capacity b : bb_inv b -> bb_wpos b <= 8 * blen (bb_buf b).
Proof. intros (Hl & _). rewrite Hl. lia. Qed.

Lemma w5_in_place m b pos w :
  bb_inv b -> w5_ok w -> w5_fits w -> pos + w5_len w <= bb_wpos b -> bb_wpos b < two63 ->
  exists buf', w5_apply m (bb_set_wpos b pos) w
      = Ok ({| bb_buf := buf'; bb_wpos := pos + w5_len w; bb_rpos := bb_rpos b |}, None)
    /\ upd (bb_buf b) buf' (N.to_nat pos) (w5_bits w).
Proof.
  intros Hi Hok Hf Hin Hb. pose proof (inv_capacity b Hi) as Hc.
  pose proof (w5_as_ol m (bb_set_wpos b pos) w Hok) as E. destruct Hok as (Fs & H64 & Ho & Hx).
  assert (Hbytes : Forall byte (bb_buf b)) by apply Hi.
  assert (En : ensure_can_write m (bb_set_wpos b pos) (w5_len w) = Ok (bb_set_wpos b pos)).
  { apply ensure_in_place; cbn [bb_set_wpos bb_wpos bb_buf]; lia. }
  assert (OL : forall src soff slen, Forall byte src -> soff + slen < two64 -> soff + slen <= 8 * blen src ->
             slen = w5_len w ->
             exists buf', bb_write_bits_ol m (bb_set_wpos b pos) src soff slen
               = Ok ({| bb_buf := buf'; bb_wpos := pos + slen; bb_rpos := bb_rpos b |}, None)
               /\ upd (bb_buf b) buf' (N.to_nat pos) (slice (bits_of_bytes src) (N.to_nat soff) (N.to_nat slen))).
  { intros src soff slen Fsrc Os Hs ->. unfold bb_write_bits_ol, BYTE_LEN.
    rewrite uadd_ok by exact Os. cbn [bind].
    destruct (N.ltb_spec (blen src * 8) (soff + w5_len w)); [lia|].
    rewrite En. cbn [bind bb_set_wpos bb_buf bb_wpos bb_rpos].
    destruct (write_bits_exact m (bb_buf b) pos src soff (w5_len w) Fsrc Hbytes Os) as (buf' & Ew & U);
      [unfold two63 in Hb; unfold two64; lia|exact Hs|lia|].
    rewrite Ew. exists buf'. split; [reflexivity|exact U]. }
  destruct w as [bit|src|src len|src soff|src soff slen]; cbn [w5_src w5_off w5_len w5_bits] in *.
  - cbn [w5_apply]. unfold bb_write_bit. rewrite En. cbn [bind bb_set_wpos bb_buf bb_wpos bb_rpos].
    destruct (write_bit_spec (bb_buf b) pos bit Hbytes) as [Wok _].
    destruct Wok as (buf' & Ew & U); [lia|]. rewrite Ew. exists buf'. split; [reflexivity|exact U].
  - rewrite E. apply OL; try assumption; reflexivity.
  - rewrite E. apply OL; try assumption; reflexivity.
  - rewrite E. apply OL; try assumption; reflexivity.
  - rewrite E. apply OL; try assumption; reflexivity.
Qed.

Lemma splice_nth_after (l X : bits) p i : (p <= length l)%nat -> (p + length X <= i)%nat ->
  nth i (splice p X l) false = nth i l false.
Proof.
  intros Hp Hi. unfold splice.
  assert (Lf : length (firstn p l) = p) by (rewrite firstn_length; lia).
  rewrite app_nth2 by lia. rewrite app_nth2 by lia. rewrite nth_skipn_add, Lf. f_equal. lia.
Qed.

Lemma firstn_splice (l X : bits) p w : (p + length X <= w)%nat -> (w <= length l)%nat ->
  firstn w (splice p X l) = splice p X (firstn w l).
Proof.
  intros Hq Hw. unfold splice.
  assert (Lf : length (firstn p l) = p) by (rewrite firstn_length; lia).
  rewrite firstn_app, Lf. rewrite (firstn_all2 (firstn p l)) by lia.
  rewrite firstn_app. rewrite (firstn_all2 X) by lia.
  rewrite firstn_firstn. replace (Nat.min p w) with p by lia.
  f_equal. f_equal.
  rewrite firstn_skipn_comm. f_equal. f_equal. lia.
Qed.

(* with_write_position_at(pos, write) where the write ends at or before the old bit_len:
   no growth, the cursor is put back, exactly bits [pos, pos+n) of the written prefix change *)
Lemma scope_write_in_place m b pos w :
  bb_inv b -> w5_ok w -> w5_fits w -> pos + w5_len w <= bb_wpos b -> bb_wpos b < two63 ->
  exists b', bb_with_write_position_at m b pos (fun b1 => w5_apply m b1 w) = Ok (b', None)
    /\ bb_inv b' /\ bb_wpos b' = bb_wpos b /\ bb_rpos b' = bb_rpos b
    /\ length (bb_buf b') = length (bb_buf b)
    /\ firstn (N.to_nat (bb_wpos b)) (bits_of_bytes (bb_buf b'))
       = splice (N.to_nat pos) (w5_bits w) (firstn (N.to_nat (bb_wpos b)) (bits_of_bytes (bb_buf b))).
Proof.
  intros Hi Hok Hf Hin Hb. pose proof (inv_capacity b Hi) as Hc.
  destruct (w5_in_place m b pos w Hi Hok Hf Hin Hb) as (buf' & E & (UB & UL & UF)).
  pose proof (w5_bits_length w Hf) as LX.
  unfold bb_with_write_position_at.
  destruct (debug_asserts m && (blen (bb_buf b) * 8 <? pos)) eqn:Ea.
  { apply andb_prop in Ea. destruct Ea as [_ Ea]. apply N.ltb_lt in Ea. lia. }
  rewrite E. cbn [bind bb_set_wpos bb_buf bb_wpos bb_rpos].
  eexists. split; [reflexivity|]. unfold bb_set_wpos. cbn [bb_buf bb_wpos bb_rpos].
  destruct Hi as (Hl & Hbytes & Hp).
  assert (Lb : length (bits_of_bytes (bb_buf b)) = (8 * length (bb_buf b))%nat) by apply bits_length.
  unfold blen in *.
  split; [|split; [reflexivity|split; [reflexivity|split; [exact UL|]]]].
  - unfold bb_inv, padding_zero, blen. cbn [bb_buf bb_wpos]. split; [rewrite UL; exact Hl|]. split; [exact UF|].
    intros i Hi. rewrite UB. rewrite splice_nth_after by lia. apply Hp. exact Hi.
  - rewrite UB. apply firstn_splice; lia.
Qed.

(* ... and a scoped write that runs past the old end does NOT keep the invariant: the vector
   stays grown and the bits behind the restored bit_len stay set (refuted by this run) *)
Lemma scope_write_past_end_refuted :
  let b := {| bb_buf := [255]; bb_wpos := 8; bb_rpos := 0 |} in
  let b' := {| bb_buf := [255; 255; 240]; bb_wpos := 8; bb_rpos := 0 |} in
  bb_inv b
  /\ (forall m, bb_with_write_position_at m b 4 (fun b1 => bb_write_bits m b1 [255; 255]) = Ok (b', None))
  /\ ~ bb_inv b'.
Proof.
  cbv zeta. split; [|split].
  - unfold bb_inv, padding_zero. cbn [bb_buf bb_wpos]. split; [reflexivity|]. split.
    + repeat constructor.
    + intros i Hi. apply nth_overflow. rewrite bits_length. cbn [length]. lia.
  - intros [[|] [|]]; vm_compute; reflexivity.
  - intros (Hl & _). vm_compute in Hl. discriminate.
Qed.

(** * reads, clear, reset: the stored bits and the write position stay *)
Lemma bb_inv_same b b' : bb_buf b' = bb_buf b -> bb_wpos b' = bb_wpos b -> bb_inv b -> bb_inv b'.
Proof. unfold bb_inv, padding_zero. intros -> ->. auto. Qed.

Inductive mrop :=
| MAll (dst : list N)                        (* read_bits *)
| MLen (dst : list N) (dlen : N)             (* read_bits_with_len *)
| MOff (dst : list N) (doff : N)             (* read_bits_with_offset *)
| MOffLen (dst : list N) (doff dlen : N).    (* read_bits_with_offset_len *)
Inductive rop :=
| RBit                                       (* read_bit *)
| RMulti (r : mrop).

Definition m_read (m : mode) (b : bitbuffer) (r : mrop) : res (list N * bitbuffer) :=
  match r with
  | MAll dst => bb_read_bits m b dst
  | MLen dst dlen => bb_read_bits_with_len m b dst dlen
  | MOff dst doff => bb_read_bits_with_offset m b dst doff
  | MOffLen dst doff dlen => bb_read_bits_with_offset_len m b dst doff dlen
  end.

Definition m_dst (r : mrop) : list N :=
  match r with MAll d | MLen d _ | MOff d _ | MOffLen d _ _ => d end.
Definition m_off (r : mrop) : N :=
  match r with MOff _ o | MOffLen _ o _ => o | _ => 0 end.
(* the number of bits the call asks for *)
Definition m_len (r : mrop) : N :=
  match r with
  | MAll d => 8 * blen d
  | MLen _ l => l
  | MOff d o => 8 * blen d - o
  | MOffLen _ _ l => l
  end.

(* the guard comes first: with fewer than the requested bits between the read position and
   bit_len every multi-bit read is EndOfStream (and, being an Err, leaves the buffer alone) *)
Lemma m_read_short m b r : bb_wpos b - bb_rpos b < m_len r -> m_read m b r = Err E_END_OF_STREAM.
Proof.
  intros H. destruct r; cbn [m_read m_len] in *;
    unfold bb_read_bits, bb_read_bits_with_len, bb_read_bits_with_offset, bb_read_bits_with_offset_len,
      bb_ensure_can_read_bits, BYTE_LEN;
    match goal with |- context [?a <? ?c] => destruct (N.ltb_spec a c) end; try reflexivity; lia.
Qed.

(* all four are the carrier's read_bits_with_offset_len (dst, m_off, m_len) behind the guard *)
Lemma m_read_as_ol m b r : (match r with MOff d o => o <= 8 * blen d | _ => True end) ->
  m_read m b r =
  (let! _ := bb_ensure_can_read_bits b (m_len r) in
   bb_after_read b (slice_read_bits m (bb_buf b) (bb_rpos b) (m_dst r) (m_off r) (m_len r))).
Proof.
  intros Hx. destruct r as [dst|dst dlen|dst doff|dst doff dlen]; cbn [m_read m_len m_dst m_off].
  - unfold bb_read_bits, slice_read_bits_all, BYTE_LEN. replace (blen dst * 8) with (8 * blen dst) by lia. reflexivity.
  - reflexivity.
  - unfold bb_read_bits_with_offset, slice_read_bits_o, BYTE_LEN. replace (blen dst * 8) with (8 * blen dst) by lia.
    rewrite usub_ok by exact Hx. reflexivity.
  - reflexivity.
Qed.

(* a successful multi-bit read lies inside the written bits, returns exactly the stored bits
   [rpos, rpos+n) spliced into the destination at the offset, and advances by n *)
Lemma m_read_exact m b r dst' b' :
  Forall byte (bb_buf b) -> Forall byte (m_dst r) ->
  (match r with MOff d o => o <= 8 * blen d | _ => True end) ->
  bb_rpos b + m_len r < two64 -> m_off r + m_len r < two64 ->
  m_read m b r = Ok (dst', b') ->
  ((bb_rpos b <= bb_wpos b \/ 0 < m_len r) -> bb_rpos b + m_len r <= bb_wpos b)
  /\ bb_rpos b' = bb_rpos b + m_len r /\ bb_buf b' = bb_buf b /\ bb_wpos b' = bb_wpos b
  /\ bits_of_bytes dst' =
       splice (N.to_nat (m_off r))
         (slice (bits_of_bytes (bb_buf b)) (N.to_nat (bb_rpos b)) (N.to_nat (m_len r)))
         (bits_of_bytes (m_dst r))
  /\ length dst' = length (m_dst r).
Proof.
  intros Fb Fd Hx Op Od H. rewrite (m_read_as_ol m b r Hx) in H.
  unfold bb_ensure_can_read_bits in H.
  destruct (N.ltb_spec (bb_wpos b - bb_rpos b) (m_len r)) as [Hs|Hs]; cbn [bind] in H; [discriminate|].
  split; [intros [Hc|Hc]; lia|].
  destruct (bulk_short m (bb_buf b) (bb_rpos b) (m_dst r) (m_off r) (m_len r) Op Od) as [Sd Ss].
  assert (Bd : m_off r + m_len r <= 8 * blen (m_dst r)).
  { destruct (N.le_gt_cases (m_off r + m_len r) (8 * blen (m_dst r))) as [K|K]; [exact K|].
    unfold slice_read_bits in H. rewrite (Sd K) in H. discriminate. }
  assert (Bs : bb_rpos b + m_len r <= 8 * blen (bb_buf b)).
  { destruct (N.le_gt_cases (bb_rpos b + m_len r) (8 * blen (bb_buf b))) as [K|K]; [exact K|].
    unfold slice_read_bits in H. rewrite (Ss Bd K) in H. discriminate. }
  destruct (read_bits_mirror m (bb_buf b) (bb_rpos b) (m_dst r) (m_off r) (m_len r) Fb Fd Op Od Bs Bd)
    as (d & E & U1 & U2 & _).
  rewrite E in H. cbn [bb_after_read bind] in H. inversion H; subst.
  cbn [bb_set_rpos bb_rpos bb_buf bb_wpos]. auto.
Qed.

(* the buffer a caller is left with (an Err leaves it as it was) *)
Definition keep {A} (b : bitbuffer) (r : res (A * bitbuffer)) : res bitbuffer :=
  match r with Ok (_, b') => Ok b' | Err _ => Ok b | Panic p => Panic p end.

Definition r_apply (m : mode) (b : bitbuffer) (r : rop) : res bitbuffer :=
  match r with
  | RBit => keep b (bb_read_bit b)
  | RMulti r => keep b (m_read m b r)
  end.

Lemma after_read_same b r d b1 : bb_after_read b r = Ok (d, b1) ->
  bb_buf b1 = bb_buf b /\ bb_wpos b1 = bb_wpos b.
Proof.
  unfold bb_after_read. destruct r as [[d' p]|e|p]; cbn [bind]; intros H; inversion H; subst.
  split; reflexivity.
Qed.

Lemma guarded_read_same b n r d b1 :
  (let! _ := bb_ensure_can_read_bits b n in bb_after_read b r) = Ok (d, b1) ->
  bb_buf b1 = bb_buf b /\ bb_wpos b1 = bb_wpos b.
Proof.
  destruct (bb_ensure_can_read_bits b n) as [[]|e|p]; cbn [bind]; [apply after_read_same|discriminate|discriminate].
Qed.

Lemma r_apply_same m b r b' : r_apply m b r = Ok b' ->
  bb_buf b' = bb_buf b /\ bb_wpos b' = bb_wpos b.
Proof.
  assert (K : forall (x : res (list N * bitbuffer)),
             (forall d b1, x = Ok (d, b1) -> bb_buf b1 = bb_buf b /\ bb_wpos b1 = bb_wpos b) ->
             keep b x = Ok b' -> bb_buf b' = bb_buf b /\ bb_wpos b' = bb_wpos b).
  { intros x Hx. destruct x as [[d b1]|e|p]; cbn [keep]; intros H; inversion H; subst; [eapply Hx; reflexivity|split; reflexivity]. }
  destruct r as [|r]; cbn [r_apply].
  - unfold bb_read_bit. destruct (bb_rpos b <? bb_wpos b); cbn [keep].
    + destruct (slice_read_bit (bb_buf b) (bb_rpos b)) as [[bit p]|e|p]; cbn [bind keep]; intros H; inversion H; subst; split; reflexivity.
    + intros H; inversion H; subst; split; reflexivity.
  - apply K. intros d b1. destruct r; cbn [m_read]; apply guarded_read_same.
Qed.

(** * every buffer reachable through the public surface *)
Inductive bop :=
| OWrite (w : wop5)
| OScopeW (pos : N) (w : wop5)         (* with_write_position_at(pos, write) *)
| ORead (r : rop)
| OScopeR (pos : N) (r : rop)          (* with_read_position_at(pos, read) *)
| OMaxRead (mx : N) (r : rop)          (* with_max_read(mx, read) *)
| OClear
| OResetRead.

Definition unit_closure (m : mode) (r : rop) (b1 : bitbuffer) : res (bitbuffer * unit) :=
  let! b2 := r_apply m b1 r in Ok (b2, tt).

Definition apply_bop (m : mode) (b : bitbuffer) (op : bop) : res bitbuffer :=
  match op with
  | OWrite w => let! (b', _) := w5_apply m b w in Ok b'
  | OScopeW pos w => let! (b', _) := bb_with_write_position_at m b pos (fun b1 => w5_apply m b1 w) in Ok b'
  | ORead r => r_apply m b r
  | OScopeR pos r => let! (b', _) := bb_with_read_position_at m b pos (unit_closure m r) in Ok b'
  | OMaxRead mx r => let! (b', _) := bb_with_max_read m b mx (unit_closure m r) in Ok b'
  | OClear => Ok (bb_clear b)
  | OResetRead => Ok (bb_reset_read_position b)
  end.

(* side conditions, relative to the buffer the operation is applied to: byte sources and no
   usize wrap (as in w5_ok), fewer than 2^63 bits, and a scoped write must end at or before
   the current bit_len (see scope_write_past_end_refuted for what happens otherwise) *)
Definition bop_ok (b : bitbuffer) (op : bop) : Prop :=
  match op with
  | OWrite w => w5_ok w /\ bb_wpos b + w5_len w < two63
  | OScopeW pos w => w5_ok w /\ pos + w5_len w <= bb_wpos b /\ bb_wpos b < two63
  | _ => True
  end.

Lemma set_wpos_id b p : bb_set_wpos (bb_set_wpos b p) (bb_wpos b) = b.
Proof. destruct b; reflexivity. Qed.

Lemma apply_bop_inv m b op b' : bb_inv b -> bop_ok b op -> apply_bop m b op = Ok b' -> bb_inv b'.
Proof.
  intros Hi Hok H. destruct op as [w|pos w|r|pos r|mx r| |]; cbn [apply_bop bop_ok] in *.
  - destruct Hok as [Hw Hb].
    assert (D : w5_fits w \/ ~ w5_fits w) by (unfold w5_fits; lia).
    destruct D as [F|F].
    + destruct (w5_append m b w Hi Hw F Hb) as (b1 & E & I1 & _). rewrite E in H. cbn [bind] in H. congruence.
    + rewrite (w5_short m b w Hw F) in H. cbn [bind] in H. congruence.
  - destruct Hok as (Hw & Hin & Hb).
    assert (D : w5_fits w \/ ~ w5_fits w) by (unfold w5_fits; lia).
    destruct D as [F|F].
    + destruct (scope_write_in_place m b pos w Hi Hw F Hin Hb) as (b1 & E & I1 & _).
      rewrite E in H. cbn [bind] in H. congruence.
    + unfold bb_with_write_position_at in H.
      destruct (debug_asserts m && (blen (bb_buf b) * 8 <? pos)); [discriminate|].
      rewrite (w5_short m _ w Hw F) in H. cbn [bind] in H. rewrite set_wpos_id in H. congruence.
  - destruct (r_apply_same m b r b' H) as [E1 E2]. exact (bb_inv_same b b' E1 E2 Hi).
  - unfold bb_with_read_position_at in H.
    destruct (debug_asserts m && negb (pos <? bb_wpos b)); [discriminate|].
    unfold unit_closure in H.
    destruct (r_apply m (bb_set_rpos b pos) r) as [b2|e|p] eqn:E; cbn [bind] in H; try discriminate.
    destruct (r_apply_same m _ r b2 E) as [E1 E2]. inversion H; subst.
    apply (bb_inv_same b); [exact E1|exact E2|exact Hi].
  - unfold bb_with_max_read in H.
    destruct (uadd m (bb_rpos b) mx) as [w|e|p]; cbn [bind] in H; try discriminate.
    unfold unit_closure in H.
    destruct (r_apply m (bb_set_wpos b w) r) as [b2|e|p] eqn:E; cbn [bind] in H; try discriminate.
    destruct (r_apply_same m _ r b2 E) as [E1 E2]. inversion H; subst.
    apply (bb_inv_same b); [exact E1|reflexivity|exact Hi].
  - inversion H; subst. exact bb_inv_empty.
  - inversion H; subst. apply (bb_inv_same b); [reflexivity|reflexivity|exact Hi].
Qed.

(* writes, scoped in-place writes, clear and reset never panic and never fail the caller's state *)
Lemma apply_bop_total m b op : bb_inv b -> bop_ok b op ->
  match op with ORead _ | OScopeR _ _ | OMaxRead _ _ => True | _ => exists b', apply_bop m b op = Ok b' end.
Proof.
  intros Hi Hok. destruct op as [w|pos w|r|pos r|mx r| |]; cbn [apply_bop bop_ok] in *; try exact I.
  - destruct Hok as [Hw Hb].
    assert (D : w5_fits w \/ ~ w5_fits w) by (unfold w5_fits; lia).
    destruct D as [F|F].
    + destruct (w5_append m b w Hi Hw F Hb) as (b1 & E & _). rewrite E. cbn [bind]. eauto.
    + rewrite (w5_short m b w Hw F). cbn [bind]. eauto.
  - destruct Hok as (Hw & Hin & Hb).
    assert (D : w5_fits w \/ ~ w5_fits w) by (unfold w5_fits; lia).
    destruct D as [F|F].
    + destruct (scope_write_in_place m b pos w Hi Hw F Hin Hb) as (b1 & E & _). rewrite E. cbn [bind]. eauto.
    + pose proof (inv_capacity b Hi) as Hc. unfold bb_with_write_position_at.
      destruct (debug_asserts m && (blen (bb_buf b) * 8 <? pos)) eqn:Ea.
      { apply andb_prop in Ea. destruct Ea as [_ Ea]. apply N.ltb_lt in Ea. lia. }
      rewrite (w5_short m _ w Hw F). cbn [bind]. eauto.
  - eauto.
  - eauto.
Qed.

Lemma from_bytes_inv buf : Forall byte buf -> exists b, bb_from_bytes buf = Ok b /\ bb_inv b
  /\ bb_buf b = buf /\ bb_wpos b = 8 * blen buf.
Proof.
  intros F. unfold bb_from_bytes, bb_from_bits, BYTE_LEN. rewrite N.ltb_irrefl.
  eexists. split; [reflexivity|]. cbn [bb_buf bb_wpos]. split; [|split; [reflexivity|lia]].
  unfold bb_inv, padding_zero. cbn [bb_buf bb_wpos]. split; [lia|]. split; [exact F|].
  intros i Hi. apply nth_overflow. rewrite bits_length. unfold blen in Hi. lia.
Qed.

Inductive reachable (m : mode) : bitbuffer -> Prop :=
| reach_empty : reachable m bb_empty                       (* default(), with_capacity(_) *)
| reach_bytes buf b : Forall byte buf -> bb_from_bytes buf = Ok b -> reachable m b   (* from_bytes, From<Vec<u8>> *)
| reach_step b op b' : reachable m b -> bop_ok b op -> apply_bop m b op = Ok b' -> reachable m b'.

Theorem reachable_inv m b : reachable m b -> bb_inv b.
Proof.
  induction 1 as [|buf b F E|b op b' R IH Hok E].
  - exact bb_inv_empty.
  - destruct (from_bytes_inv buf F) as (b0 & E0 & I0 & _). congruence.
  - exact (apply_bop_inv m b op b' IH Hok E).
Qed.
