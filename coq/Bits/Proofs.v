(* Proofs that the byte-level model of slice.rs/buffer.rs (Bits/Copy.v) meets the naive
   bit-vector specification (Bits/Naive.v). *)
From A1 Require Import Bits.Naive Bits.Copy.
Require Import ZifyBool ZifyNat ZifyN.
Local Open Scope N_scope.
