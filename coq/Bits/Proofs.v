(* Proofs that the byte-level model of slice.rs/buffer.rs (Bits/Copy.v) meets the naive
   bit-vector specification (Bits/Naive.v). *)
From A1 Require Import Bits.Naive Bits.Copy.
Require Import ZifyBool ZifyNat ZifyN.
Local Open Scope N_scope.

Definition byte (b : N) : Prop := b < 256.

(** * finite sweeps *)
Definition nrange (k : nat) : list N := map N.of_nat (seq 0 k).
Lemma nrange_in k n : n < N.of_nat k -> In n (nrange k).
Proof.
  intros H. unfold nrange. apply in_map_iff. exists (N.to_nat n). split; [lia|].
  apply in_seq. lia.
Qed.
Lemma sweep (P : N -> bool) k :
  forallb P (nrange k) = true -> forall n, n < N.of_nat k -> P n = true.
Proof. intros H n Hn. rewrite forallb_forall in H. apply H, nrange_in, Hn. Qed.

Fixpoint bits_eqb (a b : bits) : bool :=
  match a, b with
  | [], [] => true
  | x :: a', y :: b' => Bool.eqb x y && bits_eqb a' b'
  | _, _ => false
  end.
Lemma bits_eqb_eq a : forall b, bits_eqb a b = true -> a = b.
Proof.
  induction a as [|x a IH]; intros [|y b] H; cbn [bits_eqb] in H; try discriminate; [reflexivity|].
  apply andb_true_iff in H. destruct H as [H1 H2]. apply eqb_prop in H1. f_equal; auto.
Qed.

(* single-bit set/clear/test on a byte, for both mask spellings used in slice.rs *)
Definition bit_step_ok (b j : N) (v : bool) : bool :=
  let mask := 2 ^ (8 - j - 1) in
  let nb := if v then N.lor b mask else N.land b (255 - mask) in
  (nb <? 256)
  && bits_eqb (byte_bits nb) (splice (N.to_nat j) [v] (byte_bits b))
  && Bool.eqb (negb (N.land b mask =? 0)) (nth (N.to_nat j) (byte_bits b) false)
  && (128 / 2 ^ j =? mask).

Lemma bit_sweep :
  forallb (fun b : N => forallb (fun j : N => bit_step_ok b j true && bit_step_ok b j false) (nrange 8)) (nrange 256) = true.
Proof. vm_compute. reflexivity. Qed.

Lemma bit_step_spec (b j : N) (v : bool) : b < 256 -> j < 8 ->
  let mask := 2 ^ (8 - j - 1) in
  let nb := if v then N.lor b mask else N.land b (255 - mask) in
  nb < 256 /\ byte_bits nb = splice (N.to_nat j) [v] (byte_bits b)
  /\ negb (N.land b mask =? 0) = nth (N.to_nat j) (byte_bits b) false
  /\ 128 / 2 ^ j = mask.
Proof.
  intros Hb Hj.
  pose proof (sweep _ _ bit_sweep b Hb) as S1. cbv beta in S1.
  pose proof (sweep _ _ S1 j Hj) as S2. cbv beta in S2.
  apply andb_true_iff in S2. destruct S2 as [St Sf].
  assert (bit_step_ok b j v = true) as S by (destruct v; assumption).
  unfold bit_step_ok in S. cbv zeta in S |- *.
  repeat (apply andb_true_iff in S; destruct S as [S ?]).
  repeat split.
  - apply N.ltb_lt. assumption.
  - apply bits_eqb_eq. assumption.
  - apply eqb_prop. assumption.
  - apply N.eqb_eq. assumption.
Qed.

(* the two halves of the unaligned whole-byte step *)
Definition ul_ok (off a b : N) : bool :=
  let l := N.lor (N.land a ((255 * 2 ^ (8 - off)) mod 256)) (b / 2 ^ off) in
  let r := N.lor (N.land a (255 / 2 ^ off)) ((b * 2 ^ (8 - off)) mod 256) in
  (l <? 256) && (r <? 256)
  && bits_eqb (byte_bits l) (splice (N.to_nat off) (firstn (8 - N.to_nat off) (byte_bits b)) (byte_bits a))
  && bits_eqb (byte_bits r) (splice 0 (skipn (8 - N.to_nat off) (byte_bits b)) (byte_bits a)).

Lemma ul_sweep :
  forallb (fun off : N => forallb (fun a : N => forallb (fun b : N => ul_ok off a b) (nrange 256)) (nrange 256)) (nrange 8) = true.
Proof. vm_compute. reflexivity. Qed.

Lemma ul_spec (off a b : N) : off < 8 -> a < 256 -> b < 256 ->
  let l := N.lor (N.land a ((255 * 2 ^ (8 - off)) mod 256)) (b / 2 ^ off) in
  let r := N.lor (N.land a (255 / 2 ^ off)) ((b * 2 ^ (8 - off)) mod 256) in
  l < 256 /\ r < 256
  /\ byte_bits l = splice (N.to_nat off) (firstn (8 - N.to_nat off) (byte_bits b)) (byte_bits a)
  /\ byte_bits r = splice 0 (skipn (8 - N.to_nat off) (byte_bits b)) (byte_bits a).
Proof.
  intros Ho Ha Hb.
  pose proof (sweep _ _ ul_sweep off Ho) as S1. cbv beta in S1.
  pose proof (sweep _ _ S1 a Ha) as S2. cbv beta in S2.
  pose proof (sweep _ _ S2 b Hb) as S.
  unfold ul_ok in S. cbv zeta in S |- *.
  repeat (apply andb_true_iff in S; destruct S as [S ?]).
  repeat split.
  - apply N.ltb_lt. assumption.
  - apply N.ltb_lt. assumption.
  - apply bits_eqb_eq. assumption.
  - apply bits_eqb_eq. assumption.
Qed.

(** * lists, bits of bytes, splice *)
Lemma byte_bits_length b : length (byte_bits b) = 8%nat.
Proof. reflexivity. Qed.

Lemma bits_cons b l : bits_of_bytes (b :: l) = byte_bits b ++ bits_of_bytes l.
Proof. reflexivity. Qed.

Lemma bits_app l1 l2 : bits_of_bytes (l1 ++ l2) = bits_of_bytes l1 ++ bits_of_bytes l2.
Proof. apply flat_map_app. Qed.

Lemma bits_length l : length (bits_of_bytes l) = (8 * length l)%nat.
Proof.
  induction l as [|b l IH]; [reflexivity|].
  rewrite bits_cons, app_length, byte_bits_length, IH. cbn [length]. lia.
Qed.

Lemma split2 {A} (l : list A) n : (n <= length l)%nat ->
  exists l1 l2, l = l1 ++ l2 /\ length l1 = n.
Proof.
  intros H. exists (firstn n l), (skipn n l). rewrite firstn_skipn, firstn_length. split; [reflexivity|lia].
Qed.

Lemma split3 {A} (l : list A) p n : (p + n <= length l)%nat ->
  exists l1 l2 l3, l = l1 ++ l2 ++ l3 /\ length l1 = p /\ length l2 = n.
Proof.
  intros H. destruct (split2 l p) as (l1 & r & E & L1); [lia|].
  subst l. rewrite app_length in H.
  destruct (split2 r n) as (l2 & l3 & E & L2); [lia|].
  subst r. exists l1, l2, l3. auto.
Qed.

Lemma splice_at p (A B C xs : bits) : length A = p -> length B = length xs ->
  splice p xs (A ++ B ++ C) = A ++ xs ++ C.
Proof.
  intros HA HB. subst p. unfold splice.
  rewrite firstn_app, Nat.sub_diag, firstn_all. cbn [firstn]. rewrite app_nil_r.
  rewrite skipn_app, (skipn_all2 A) by lia. cbn [app].
  replace (length A + length xs - length A)%nat with (length B) by lia.
  rewrite skipn_app, skipn_all, Nat.sub_diag. reflexivity.
Qed.

Lemma splice_nil p l : splice p [] l = l.
Proof. unfold splice. cbn [app length]. rewrite Nat.add_0_r. apply firstn_skipn. Qed.

Lemma splice_length p xs l : (p + length xs <= length l)%nat -> length (splice p xs l) = length l.
Proof. intros H. unfold splice. rewrite !app_length, firstn_length, skipn_length. lia. Qed.

Lemma splice_consec p xs ys l : (p + length xs + length ys <= length l)%nat ->
  splice (p + length xs) ys (splice p xs l) = splice p (xs ++ ys) l.
Proof.
  intros H.
  destruct (split3 l p (length xs)) as (A & B & R & E & HA & HB); [lia|].
  subst l. rewrite !app_length in H.
  destruct (split2 R (length ys)) as (B' & C & E & HB'); [lia|].
  subst R.
  rewrite (splice_at p A B (B' ++ C) xs HA HB).
  replace (A ++ xs ++ B' ++ C) with ((A ++ xs) ++ B' ++ C) by (rewrite <- app_assoc; reflexivity).
  rewrite splice_at by (rewrite ?app_length; lia).
  replace (A ++ B ++ B' ++ C) with (A ++ (B ++ B') ++ C) by (rewrite <- app_assoc; reflexivity).
  rewrite splice_at by (rewrite ?app_length; lia).
  rewrite <- !app_assoc. reflexivity.
Qed.

Lemma splice_mid (A B C xs : bits) j : (j + length xs <= length B)%nat ->
  splice (length A + j) xs (A ++ B ++ C) = A ++ splice j xs B ++ C.
Proof.
  intros H.
  destruct (split3 B j (length xs)) as (B1 & B2 & B3 & E & H1 & H2); [lia|].
  subst B.
  rewrite (splice_at j B1 B2 B3 xs H1 H2).
  replace (A ++ (B1 ++ B2 ++ B3) ++ C) with ((A ++ B1) ++ B2 ++ (B3 ++ C))
    by (rewrite <- !app_assoc; reflexivity).
  rewrite splice_at by (rewrite ?app_length; lia).
  rewrite <- !app_assoc. reflexivity.
Qed.

Lemma slice_length (s : bits) q n : (q + n <= length s)%nat -> length (slice s q n) = n.
Proof. intros H. unfold slice. rewrite firstn_length, skipn_length. lia. Qed.

Lemma slice_S (s : bits) q n v : nth_error s q = Some v ->
  slice s q (S n) = v :: slice s (S q) n.
Proof.
  intros H. apply nth_error_split in H. destruct H as (l1 & l2 & E & L). subst s q.
  unfold slice.
  rewrite !skipn_app, !(skipn_all2 l1) by lia. cbn [app].
  rewrite Nat.sub_diag. replace (S (length l1) - length l1)%nat with 1%nat by lia.
  reflexivity.
Qed.

Lemma skipn_add {A} b : forall a (l : list A), skipn a (skipn b l) = skipn (b + a) l.
Proof.
  induction b as [|b IH]; intros a l; [reflexivity|].
  destruct l as [|x l]; [rewrite !skipn_nil; reflexivity|]. cbn [skipn plus]. apply IH.
Qed.

Lemma slice_app (s : bits) q a b :
  slice s q (a + b) = slice s q a ++ slice s (q + a) b.
Proof.
  unfold slice. rewrite <- (firstn_skipn a (firstn (a + b) (skipn q s))).
  f_equal.
  - rewrite firstn_firstn. f_equal. lia.
  - rewrite skipn_firstn_comm, skipn_add. f_equal. lia.
Qed.

(** * byte access *)
Lemma byte_split (l : list N) i : i < blen l ->
  exists A db C, l = A ++ db :: C /\ length A = N.to_nat i.
Proof.
  intros H. destruct (nth_error l (N.to_nat i)) as [db|] eqn:E.
  - apply nth_error_split in E. destruct E as (A & C & E & L). exists A, db, C. auto.
  - apply nth_error_None in E. unfold blen in H. lia.
Qed.

Lemma getb_at l A db C i : l = A ++ db :: C -> length A = N.to_nat i -> getb l i = Ok db.
Proof.
  intros E L. subst l. unfold getb. rewrite <- L, nth_error_app2, Nat.sub_diag by lia. reflexivity.
Qed.

Lemma setb_at l A db C i nb : l = A ++ db :: C -> length A = N.to_nat i ->
  setb l i nb = Ok (A ++ nb :: C).
Proof.
  intros E L. subst l. unfold setb, blen. rewrite app_length. cbn [length].
  destruct (N.ltb_spec i (N.of_nat (length A + S (length C)))) as [_|Hc]; [|lia].
  rewrite <- L. f_equal.
  rewrite firstn_app, Nat.sub_diag, firstn_all. cbn [firstn]. rewrite app_nil_r. f_equal. f_equal.
  rewrite skipn_app, skipn_all2 by lia. cbn [app].
  replace (S (length A) - length A)%nat with 1%nat by lia. reflexivity.
Qed.

Lemma nth_error_bits l A db C j : l = A ++ db :: C -> (j < 8)%nat ->
  nth_error (bits_of_bytes l) (8 * length A + j) = Some (nth j (byte_bits db) false).
Proof.
  intros E Hj. subst l. rewrite bits_app, bits_cons.
  rewrite nth_error_app2 by (rewrite bits_length; lia).
  rewrite bits_length. replace (8 * length A + j - 8 * length A)%nat with j by lia.
  rewrite nth_error_app1 by (rewrite byte_bits_length; lia).
  apply nth_error_nth'. rewrite byte_bits_length. exact Hj.
Qed.

(** * the update relation: [dst'] is [dst] with the bits [xs] spliced in at [p] *)
Definition upd (dst dst' : list N) (p : nat) (xs : bits) : Prop :=
  bits_of_bytes dst' = splice p xs (bits_of_bytes dst)
  /\ length dst' = length dst /\ Forall byte dst'.

Lemma upd_refl dst p : Forall byte dst -> upd dst dst p [].
Proof. intros H. unfold upd. rewrite splice_nil. auto. Qed.

Lemma upd_trans dst d1 d2 p xs ys :
  (p + length xs + length ys <= 8 * length dst)%nat ->
  upd dst d1 p xs -> upd d1 d2 (p + length xs) ys -> upd dst d2 p (xs ++ ys).
Proof.
  intros H (E1 & L1 & F1) (E2 & L2 & F2). unfold upd. split; [|split; [congruence|assumption]].
  rewrite E2, E1. apply splice_consec. rewrite bits_length. exact H.
Qed.

Lemma upd_byte A db C nb j xs :
  Forall byte (A ++ db :: C) -> nb < 256 ->
  byte_bits nb = splice j xs (byte_bits db) -> (j + length xs <= 8)%nat ->
  upd (A ++ db :: C) (A ++ nb :: C) (8 * length A + j) xs.
Proof.
  intros F Hnb E Hj. unfold upd. split; [|split].
  - rewrite !bits_app, !bits_cons, E, <- (bits_length A). symmetry. apply splice_mid.
    rewrite byte_bits_length. exact Hj.
  - rewrite !app_length. reflexivity.
  - apply Forall_app in F. destruct F as [FA FC]. apply Forall_cons_iff in FC. destruct FC as [_ FC].
    apply Forall_app. split; [assumption|]. constructor; assumption.
Qed.

Lemma Forall_mid (P : N -> Prop) A db C : Forall P (A ++ db :: C) -> P db.
Proof.
  intros F. apply Forall_app in F. destruct F as [_ F]. apply Forall_cons_iff in F. tauto.
Qed.

(** * the bitwise loop *)
Lemma copy_loop_upd n : forall k src sp dst dp,
  Forall byte src -> Forall byte dst ->
  sp + k + N.of_nat n <= 8 * blen src -> dp + k + N.of_nat n <= 8 * blen dst ->
  exists dst', copy_loop n k src sp dst dp = Ok dst' /\
    upd dst dst' (N.to_nat (dp + k)) (slice (bits_of_bytes src) (N.to_nat (sp + k)) n).
Proof.
  induction n as [|n IH]; intros k src sp dst dp Fs Fd Bs Bd.
  - exists dst. split; [reflexivity|]. unfold slice. cbn [firstn]. apply upd_refl. exact Fd.
  - cbn [copy_loop]. unfold BYTE_LEN.
    set (ps := sp + k). set (pd := dp + k).
    destruct (byte_split src (ps / 8)) as (As & sb & Cs & Es & Ls); [unfold blen in *; lia|].
    destruct (byte_split dst (pd / 8)) as (Ad & db & Cd & Ed & Ld); [unfold blen in *; lia|].
    rewrite (getb_at _ _ _ _ _ Es Ls). cbn [bind].
    rewrite (getb_at _ _ _ _ _ Ed Ld). cbn [bind].
    assert (Hsb : sb < 256) by (rewrite Es in Fs; exact (Forall_mid _ _ _ _ Fs)).
    assert (Hdb : db < 256) by (rewrite Ed in Fd; exact (Forall_mid _ _ _ _ Fd)).
    assert (Hjs : ps mod 8 < 8) by lia. assert (Hjd : pd mod 8 < 8) by lia.
    destruct (bit_step_spec sb (ps mod 8) true Hsb Hjs) as (_ & _ & Ebit & _).
    cbv zeta in Ebit. rewrite Ebit.
    set (v := nth (N.to_nat (ps mod 8)) (byte_bits sb) false).
    destruct (bit_step_spec db (pd mod 8) v Hdb Hjd) as (Hnb & Enb & _ & _).
    cbv zeta in Hnb, Enb.
    set (nb := if v then N.lor db (2 ^ (8 - pd mod 8 - 1)) else N.land db (255 - 2 ^ (8 - pd mod 8 - 1))) in *.
    rewrite (setb_at _ _ _ _ _ nb Ed Ld). cbn [bind].
    assert (U1 : upd dst (Ad ++ nb :: Cd) (N.to_nat pd) [v]).
    { rewrite Ed. replace (N.to_nat pd) with (8 * length Ad + N.to_nat (pd mod 8))%nat by lia.
      apply upd_byte; [rewrite <- Ed; exact Fd|exact Hnb|exact Enb|cbn [length]; lia]. }
    destruct U1 as (E1 & L1 & F1).
    destruct (IH (k + 1) src sp (Ad ++ nb :: Cd) dp Fs F1) as (dst' & Ec & U2).
    { lia. } { unfold blen in *. rewrite L1. lia. }
    exists dst'. split; [exact Ec|].
    rewrite (slice_S _ _ _ v).
    2:{ replace (N.to_nat ps) with (8 * length As + N.to_nat (ps mod 8))%nat by lia.
        apply nth_error_bits with (C := Cs); [exact Es|lia]. }
    change (v :: ?t) with ([v] ++ t).
    apply upd_trans with (d1 := Ad ++ nb :: Cd).
    + cbn [length]. rewrite slice_length by (rewrite bits_length; unfold blen in *; lia).
      unfold blen in *. lia.
    + unfold upd. auto.
    + cbn [length].
      replace (N.to_nat pd + 1)%nat with (N.to_nat (dp + (k + 1))) by lia.
      replace (S (N.to_nat ps)) with (N.to_nat (sp + (k + 1))) by lia. exact U2.
Qed.

Lemma uadd_ok m a b : a + b < two64 -> uadd m a b = Ok (a + b).
Proof. intros H. unfold uadd. destruct (N.ltb_spec (a + b) two64); [reflexivity|lia]. Qed.

Lemma bit_string_copy_exact m src sp dst dp len :
  Forall byte src -> Forall byte dst ->
  sp + len < two64 -> dp + len < two64 ->
  sp + len <= 8 * blen src -> dp + len <= 8 * blen dst ->
  exists dst', bit_string_copy m src sp dst dp len = Ok dst' /\
    upd dst dst' (N.to_nat dp) (slice (bits_of_bytes src) (N.to_nat sp) (N.to_nat len)).
Proof.
  intros Fs Fd Os Od Bs Bd. unfold bit_string_copy, BYTE_LEN.
  rewrite (uadd_ok m dp len Od). cbn [bind].
  destruct (N.ltb_spec (blen dst * 8) (dp + len)); [lia|].
  rewrite (uadd_ok m sp len Os). cbn [bind].
  destruct (N.ltb_spec (blen src * 8) (sp + len)); [lia|].
  destruct (copy_loop_upd (N.to_nat len) 0 src sp dst dp Fs Fd) as (dst' & E & U); [lia|lia|].
  exists dst'. split; [exact E|]. rewrite !N.add_0_r in U. exact U.
Qed.

Lemma bitwise_exact m src sp dst dp len :
  Forall (fun b => b < 256) src -> Forall (fun b => b < 256) dst ->
  sp + len < two64 -> dp + len < two64 ->
  sp + len <= 8 * blen src -> dp + len <= 8 * blen dst ->
  exists dst', bit_string_copy m src sp dst dp len = Ok dst' /\
    bits_of_bytes dst' = splice (N.to_nat dp) (slice (bits_of_bytes src) (N.to_nat sp) (N.to_nat len)) (bits_of_bytes dst)
    /\ length dst' = length dst /\ Forall (fun b => b < 256) dst'.
Proof. exact (bit_string_copy_exact m src sp dst dp len). Qed.

Lemma bitwise_short m src sp dst dp len :
  sp + len < two64 -> dp + len < two64 ->
  (8 * blen dst < dp + len -> bit_string_copy m src sp dst dp len = Err E_INSUFFICIENT_DST)
  /\ (dp + len <= 8 * blen dst -> 8 * blen src < sp + len ->
      bit_string_copy m src sp dst dp len = Err E_INSUFFICIENT_SRC).
Proof.
  intros Os Od. unfold bit_string_copy, BYTE_LEN.
  rewrite (uadd_ok m dp len Od), (uadd_ok m sp len Os). cbn [bind]. split.
  - intros H. destruct (N.ltb_spec (blen dst * 8) (dp + len)); [reflexivity|lia].
  - intros H1 H2. destruct (N.ltb_spec (blen dst * 8) (dp + len)); [lia|]. cbn [bind].
    destruct (N.ltb_spec (blen src * 8) (sp + len)); [reflexivity|lia].
Qed.

(** the bitwise loop never leaves the Result world when the ranges fit (no byte hypothesis) *)
Lemma copy_loop_total n : forall k src sp dst dp,
  sp + k + N.of_nat n <= 8 * blen src -> dp + k + N.of_nat n <= 8 * blen dst ->
  exists dst', copy_loop n k src sp dst dp = Ok dst' /\ length dst' = length dst.
Proof.
  induction n as [|n IH]; intros k src sp dst dp Bs Bd.
  - exists dst. split; reflexivity.
  - cbn [copy_loop]. unfold BYTE_LEN.
    destruct (byte_split src ((sp + k) / 8)) as (As & sb & Cs & Es & Ls); [unfold blen in *; lia|].
    destruct (byte_split dst ((dp + k) / 8)) as (Ad & db & Cd & Ed & Ld); [unfold blen in *; lia|].
    rewrite (getb_at _ _ _ _ _ Es Ls). cbn [bind].
    rewrite (getb_at _ _ _ _ _ Ed Ld). cbn [bind].
    match goal with |- context [setb dst _ ?x] => set (nb := x) end.
    rewrite (setb_at _ _ _ _ _ nb Ed Ld). cbn [bind].
    assert (L1 : length (Ad ++ nb :: Cd) = length dst) by (rewrite Ed, !app_length; reflexivity).
    destruct (IH (k + 1) src sp (Ad ++ nb :: Cd) dp) as (dst' & Ec & L2).
    { lia. } { unfold blen in *. rewrite L1. lia. }
    exists dst'. split; [exact Ec|congruence].
Qed.

Lemma bitwise_no_panic m src sp dst dp len :
  sp + len < two64 -> dp + len < two64 ->
  is_panic (bit_string_copy m src sp dst dp len) = false.
Proof.
  intros Os Od. unfold bit_string_copy, BYTE_LEN.
  rewrite (uadd_ok m dp len Od), (uadd_ok m sp len Os). cbn [bind].
  destruct (N.ltb_spec (blen dst * 8) (dp + len)); [reflexivity|]. cbn [bind].
  destruct (N.ltb_spec (blen src * 8) (sp + len)); [reflexivity|].
  destruct (copy_loop_total (N.to_nat len) 0 src sp dst dp) as (dst' & E & _); [lia|lia|].
  rewrite E. reflexivity.
Qed.

(** * single-bit operations of the tuple carriers *)
Lemma write_bit_spec dst pos bit : Forall byte dst ->
  (pos < 8 * blen dst ->
     exists dst', slice_write_bit dst pos bit = Ok (dst', pos + 1) /\ upd dst dst' (N.to_nat pos) [bit])
  /\ (8 * blen dst <= pos -> slice_write_bit dst pos bit = Err E_END_OF_STREAM).
Proof.
  intros Fd. unfold slice_write_bit, BYTE_LEN. split; intros H.
  - destruct (N.ltb_spec (blen dst * 8) (pos + 1)); [lia|].
    destruct (byte_split dst (pos / 8)) as (Ad & db & Cd & Ed & Ld); [unfold blen in *; lia|].
    rewrite (getb_at _ _ _ _ _ Ed Ld). cbn [bind].
    assert (Hdb : db < 256) by (rewrite Ed in Fd; exact (Forall_mid _ _ _ _ Fd)).
    assert (Hjd : pos mod 8 < 8) by lia.
    destruct (bit_step_spec db (pos mod 8) bit Hdb Hjd) as (Hnb & Enb & _ & Em).
    cbv zeta in Hnb, Enb, Em. rewrite Em.
    set (nb := if bit then N.lor db (2 ^ (8 - pos mod 8 - 1)) else N.land db (255 - 2 ^ (8 - pos mod 8 - 1))) in *.
    rewrite (setb_at _ _ _ _ _ nb Ed Ld). cbn [bind].
    eexists. split; [reflexivity|].
    rewrite Ed. replace (N.to_nat pos) with (8 * length Ad + N.to_nat (pos mod 8))%nat by lia.
    apply upd_byte; [rewrite <- Ed; exact Fd|exact Hnb|exact Enb|cbn [length]; lia].
  - destruct (N.ltb_spec (blen dst * 8) (pos + 1)); [reflexivity|lia].
Qed.

Lemma read_bit_spec src pos : Forall byte src ->
  (pos < 8 * blen src ->
     slice_read_bit src pos = Ok (nth (N.to_nat pos) (bits_of_bytes src) false, pos + 1)
     /\ slice (bits_of_bytes src) (N.to_nat pos) 1 = [nth (N.to_nat pos) (bits_of_bytes src) false])
  /\ (8 * blen src <= pos -> slice_read_bit src pos = Err E_END_OF_STREAM).
Proof.
  intros Fs. unfold slice_read_bit, BYTE_LEN. split; intros H.
  - destruct (N.leb_spec (blen src * 8) pos); [lia|].
    destruct (byte_split src (pos / 8)) as (As & sb & Cs & Es & Ls); [unfold blen in *; lia|].
    rewrite (getb_at _ _ _ _ _ Es Ls). cbn [bind].
    assert (Hsb : sb < 256) by (rewrite Es in Fs; exact (Forall_mid _ _ _ _ Fs)).
    assert (Hjs : pos mod 8 < 8) by lia.
    destruct (bit_step_spec sb (pos mod 8) true Hsb Hjs) as (_ & _ & Ebit & Em).
    cbv zeta in Ebit, Em. rewrite Em, Ebit.
    assert (Hn : nth_error (bits_of_bytes src) (N.to_nat pos)
                 = Some (nth (N.to_nat (pos mod 8)) (byte_bits sb) false)).
    { replace (N.to_nat pos) with (8 * length As + N.to_nat (pos mod 8))%nat by lia.
      apply nth_error_bits with (C := Cs); [exact Es|lia]. }
    rewrite (nth_error_nth _ _ false Hn). split; [reflexivity|].
    rewrite (slice_S _ _ _ _ Hn). unfold slice. reflexivity.
  - destruct (N.leb_spec (blen src * 8) pos); [reflexivity|lia].
Qed.

Lemma bit_ops buf pos : Forall (fun b => b < 256) buf ->
  (forall bit,
     (pos < 8 * blen buf ->
        exists buf', slice_write_bit buf pos bit = Ok (buf', pos + 1)
          /\ bits_of_bytes buf' = splice (N.to_nat pos) [bit] (bits_of_bytes buf)
          /\ length buf' = length buf /\ Forall (fun b => b < 256) buf')
     /\ (8 * blen buf <= pos -> slice_write_bit buf pos bit = Err E_END_OF_STREAM))
  /\ (pos < 8 * blen buf ->
        exists b, slice_read_bit buf pos = Ok (b, pos + 1)
          /\ [b] = slice (bits_of_bytes buf) (N.to_nat pos) 1)
  /\ (8 * blen buf <= pos -> slice_read_bit buf pos = Err E_END_OF_STREAM).
Proof.
  intros F. split; [|split].
  - intros bit. exact (write_bit_spec buf pos bit F).
  - intros H. destruct (read_bit_spec buf pos F) as [R _]. destruct (R H) as [R1 R2].
    eexists. split; [exact R1|]. symmetry. exact R2.
  - destruct (read_bit_spec buf pos F) as [_ R]. exact R.
Qed.

(** * the bulked copy *)
Lemma bits_firstn n : forall l, bits_of_bytes (firstn n l) = firstn (8 * n) (bits_of_bytes l).
Proof.
  induction n as [|n IH]; intros l; [reflexivity|].
  destruct l as [|b l]; [reflexivity|].
  cbn [firstn]. rewrite !bits_cons, IH.
  replace (8 * S n)%nat with (length (byte_bits b) + 8 * n)%nat by (rewrite byte_bits_length; lia).
  rewrite firstn_app_2. reflexivity.
Qed.

Lemma bits_skipn n : forall l, bits_of_bytes (skipn n l) = skipn (8 * n) (bits_of_bytes l).
Proof.
  induction n as [|n IH]; intros l; [reflexivity|].
  destruct l as [|b l]; [reflexivity|].
  cbn [skipn]. rewrite bits_cons, IH.
  replace (8 * S n)%nat with (8 + 8 * n)%nat by lia.
  rewrite <- skipn_add. reflexivity.
Qed.

Lemma Forall_firstn {A} (P : A -> Prop) n l : Forall P l -> Forall P (firstn n l).
Proof. intros H. rewrite <- (firstn_skipn n l) in H. apply Forall_app in H. tauto. Qed.
Lemma Forall_skipn {A} (P : A -> Prop) n l : Forall P l -> Forall P (skipn n l).
Proof. intros H. rewrite <- (firstn_skipn n l) in H. apply Forall_app in H. tauto. Qed.

Lemma upd_trans' dst d1 d2 p q xs ys zs :
  upd dst d1 p xs -> upd d1 d2 q ys -> q = (p + length xs)%nat -> zs = xs ++ ys ->
  (p + length xs + length ys <= 8 * length dst)%nat -> upd dst d2 p zs.
Proof. intros U1 U2 -> -> H. exact (upd_trans dst d1 d2 p xs ys H U1 U2). Qed.

Lemma copy_from_slice_upd src si dst di n :
  Forall byte src -> Forall byte dst -> si + n <= blen src -> di + n <= blen dst ->
  exists dst', copy_from_slice src si dst di n = Ok dst' /\
    upd dst dst' (8 * N.to_nat di) (slice (bits_of_bytes src) (8 * N.to_nat si) (8 * N.to_nat n)).
Proof.
  intros Fs Fd Bs Bd. unfold copy_from_slice.
  destruct (N.ltb_spec (blen src) (si + n)); [lia|].
  destruct (N.ltb_spec (blen dst) (di + n)); [lia|]. cbn [orb].
  eexists. split; [reflexivity|]. unfold upd. split; [|split].
  - rewrite !bits_app, bits_firstn, bits_firstn, !bits_skipn. unfold splice, slice.
    f_equal. f_equal. f_equal.
    rewrite firstn_length, skipn_length, bits_length. unfold blen in *. lia.
  - rewrite !app_length, !firstn_length, !skipn_length. unfold blen in *. lia.
  - apply Forall_app. split; [apply Forall_firstn; exact Fd|].
    apply Forall_app. split; [apply Forall_firstn, Forall_skipn; exact Fs|apply Forall_skipn; exact Fd].
Qed.

Lemma slice_byte l A b C : l = A ++ b :: C ->
  slice (bits_of_bytes l) (8 * length A) 8 = byte_bits b.
Proof.
  intros E. subst l. unfold slice. rewrite bits_app, bits_cons, <- (bits_length A).
  rewrite skipn_app, skipn_all, Nat.sub_diag. reflexivity.
Qed.

Lemma unaligned_loop_upd n : forall index src si dst di off,
  Forall byte src -> Forall byte dst -> off < 8 ->
  index + si + N.of_nat n <= blen src -> index + di + N.of_nat n + 1 <= blen dst ->
  exists dst', unaligned_loop n index src si dst di off = Ok dst' /\
    upd dst dst' (N.to_nat (8 * (index + di) + off))
        (slice (bits_of_bytes src) (N.to_nat (8 * (index + si))) (8 * n)).
Proof.
  induction n as [|n IH]; intros index src si dst di off Fs Fd Ho Bs Bd.
  - exists dst. split; [reflexivity|]. unfold slice. cbn [firstn Nat.mul]. apply upd_refl. exact Fd.
  - cbn [unaligned_loop]. unfold BYTE_LEN.
    destruct (byte_split src (index + si)) as (As & b & Cs & Es & Ls); [unfold blen in *; lia|].
    destruct (byte_split dst (index + di)) as (A & d0 & C & Ed & Ld); [unfold blen in *; lia|].
    destruct C as [|d1 C].
    { exfalso. rewrite Ed in Bd. unfold blen in Bd. rewrite app_length in Bd. cbn [length] in Bd. lia. }
    rewrite (getb_at _ _ _ _ _ Es Ls). cbn [bind].
    rewrite (getb_at _ _ _ _ _ Ed Ld). cbn [bind].
    assert (Hb : b < 256) by (rewrite Es in Fs; exact (Forall_mid _ _ _ _ Fs)).
    assert (Hd0 : d0 < 256) by (rewrite Ed in Fd; exact (Forall_mid _ _ _ _ Fd)).
    assert (Hd1 : d1 < 256).
    { rewrite Ed in Fd. apply Forall_app in Fd. destruct Fd as [_ Fd].
      apply Forall_cons_iff in Fd. destruct Fd as [_ Fd]. apply Forall_cons_iff in Fd. tauto. }
    destruct (ul_spec off d0 b Ho Hd0 Hb) as (Hl & _ & El & _).
    destruct (ul_spec off d1 b Ho Hd1 Hb) as (_ & Hr & _ & Er).
    cbv zeta in Hl, El, Hr, Er.
    set (l := N.lor (N.land d0 ((255 * 2 ^ (8 - off)) mod 256)) (b / 2 ^ off)) in *.
    set (r := N.lor (N.land d1 (255 / 2 ^ off)) ((b * 2 ^ (8 - off)) mod 256)) in *.
    rewrite (setb_at _ _ _ _ _ l Ed Ld). cbn [bind].
    assert (Ed1 : A ++ l :: d1 :: C = (A ++ [l]) ++ d1 :: C) by (rewrite <- app_assoc; reflexivity).
    assert (Ld1 : length (A ++ [l]) = N.to_nat (index + di + 1)) by (rewrite app_length; cbn [length]; lia).
    rewrite (getb_at _ _ _ _ _ Ed1 Ld1). cbn [bind]. fold r.
    rewrite (setb_at _ _ _ _ _ r Ed1 Ld1). cbn [bind].
    assert (U1 : upd dst (A ++ l :: d1 :: C) (8 * length A + N.to_nat off)
                     (firstn (8 - N.to_nat off) (byte_bits b))).
    { rewrite Ed. apply upd_byte; [rewrite <- Ed; exact Fd|exact Hl|exact El|].
      rewrite firstn_length, byte_bits_length. lia. }
    assert (U2 : upd (A ++ l :: d1 :: C) ((A ++ [l]) ++ r :: C) (8 * length (A ++ [l]) + 0)
                     (skipn (8 - N.to_nat off) (byte_bits b))).
    { rewrite Ed1. destruct U1 as (_ & _ & F1). rewrite Ed1 in F1.
      apply upd_byte; [exact F1|exact Hr|exact Er|].
      rewrite skipn_length, byte_bits_length. lia. }
    assert (U12 : upd dst ((A ++ [l]) ++ r :: C) (8 * length A + N.to_nat off) (byte_bits b)).
    { apply (upd_trans' _ _ _ _ _ _ _ _ U1 U2).
      - rewrite firstn_length, byte_bits_length, app_length. cbn [length]. lia.
      - symmetry. apply firstn_skipn.
      - rewrite firstn_length, skipn_length, byte_bits_length. rewrite Ed, app_length. cbn [length]. lia. }
    destruct U12 as (E12 & L12 & F12).
    destruct (IH (index + 1) src si ((A ++ [l]) ++ r :: C) di off Fs F12 Ho) as (dst' & Ec & U3).
    { lia. } { unfold blen in *. rewrite L12. lia. }
    exists dst'. split; [exact Ec|].
    replace (N.to_nat (8 * (index + di) + off)) with (8 * length A + N.to_nat off)%nat by lia.
    apply (upd_trans' dst ((A ++ [l]) ++ r :: C) dst' _ _ (byte_bits b) _ _ (conj E12 (conj L12 F12)) U3).
    + rewrite byte_bits_length. lia.
    + replace (8 * S n)%nat with (8 + 8 * n)%nat by lia. rewrite slice_app. f_equal.
      * replace (N.to_nat (8 * (index + si))) with (8 * length As)%nat by lia.
        apply slice_byte with (C := Cs). exact Es.
      * f_equal. lia.
    + rewrite byte_bits_length, slice_length by (rewrite bits_length; unfold blen in *; lia).
      unfold blen in *. lia.
Qed.

Lemma bulk_exact_upd m src sp dst dp len :
  Forall byte src -> Forall byte dst ->
  sp + len < two64 -> dp + len < two64 ->
  sp + len <= 8 * blen src -> dp + len <= 8 * blen dst ->
  exists dst', bit_string_copy_bulked m src sp dst dp len = Ok dst' /\
    upd dst dst' (N.to_nat dp) (slice (bits_of_bytes src) (N.to_nat sp) (N.to_nat len)).
Proof.
  intros Fs Fd Os Od Bs Bd. unfold bit_string_copy_bulked, BYTE_LEN.
  destruct (N.leb_spec len (8 * 2)) as [Hsm|Hbig]; [apply bit_string_copy_exact; assumption|].
  rewrite (uadd_ok m dp len Od). cbn [bind].
  destruct (N.ltb_spec (blen dst * 8) (dp + len)); [lia|].
  rewrite (uadd_ok m sp len Os). cbn [bind].
  destruct (N.ltb_spec (blen src * 8) (sp + len)); [lia|].
  cbv zeta.
  remember ((8 - sp mod 8) mod 8) as head eqn:Hhead.
  set (s := bits_of_bytes src).
  assert (Ls : length s = (8 * length src)%nat) by apply bits_length.
  (* head *)
  assert (S1 : exists d1,
     (if head =? 0 then Ok dst else bit_string_copy m src sp dst dp (N.min head len)) = Ok d1
     /\ upd dst d1 (N.to_nat dp) (slice s (N.to_nat sp) (N.to_nat head))).
  { destruct (N.eqb_spec head 0) as [E|E].
    - exists dst. split; [reflexivity|]. rewrite E. apply upd_refl. exact Fd.
    - replace (N.min head len) with head by lia. apply bit_string_copy_exact; try assumption; lia. }
  destruct S1 as (d1 & E1 & U1). rewrite E1. cbn [bind].
  replace (negb (head =? 0) && (len <=? head)) with false
    by (symmetry; apply andb_false_iff; right; apply N.leb_gt; lia).
  remember (sp + head) as sp' eqn:Hsp'. remember (dp + head) as dp' eqn:Hdp'.
  remember (len - head) as len' eqn:Hlen'. remember (len' / 8) as nbytes eqn:Hnb.
  assert (L1 : length d1 = length dst) by (destruct U1 as (_ & L & _); exact L).
  assert (F1 : Forall byte d1) by (destruct U1 as (_ & _ & F); exact F).
  (* whole bytes *)
  assert (S2 : exists d2,
     (if dp' mod 8 =? 0 then copy_from_slice src (sp' / 8) d1 (dp' / 8) nbytes
      else unaligned_loop (N.to_nat nbytes) 0 src (sp' / 8) d1 (dp' / 8) (dp' mod 8)) = Ok d2
     /\ upd d1 d2 (N.to_nat dp') (slice s (N.to_nat sp') (8 * N.to_nat nbytes))).
  { destruct (N.eqb_spec (dp' mod 8) 0) as [E|E].
    - destruct (copy_from_slice_upd src (sp' / 8) d1 (dp' / 8) nbytes Fs F1) as (d2 & E2 & U2).
      { unfold blen in *. lia. } { unfold blen in *. rewrite L1. lia. }
      exists d2. split; [exact E2|].
      replace (N.to_nat dp') with (8 * N.to_nat (dp' / 8))%nat by lia.
      replace (N.to_nat sp') with (8 * N.to_nat (sp' / 8))%nat by lia. exact U2.
    - destruct (unaligned_loop_upd (N.to_nat nbytes) 0 src (sp' / 8) d1 (dp' / 8) (dp' mod 8) Fs F1)
        as (d2 & E2 & U2).
      { lia. } { unfold blen in *. lia. } { unfold blen in *. rewrite L1. lia. }
      exists d2. split; [exact E2|].
      replace (N.to_nat dp') with (N.to_nat (8 * (0 + dp' / 8) + dp' mod 8)) by lia.
      replace (N.to_nat sp') with (N.to_nat (8 * (0 + sp' / 8))) by lia. exact U2. }
  destruct S2 as (d2 & E2 & U2). rewrite E2. cbn [bind].
  assert (L2 : length d2 = length dst) by (destruct U2 as (_ & L & _); congruence).
  assert (F2 : Forall byte d2) by (destruct U2 as (_ & _ & F); exact F).
  (* tail *)
  assert (S3 : exists d3,
     (if len' mod 8 =? 0 then Ok d2
      else bit_string_copy m src (sp' + nbytes * 8) d2 (dp' + nbytes * 8) (len' mod 8)) = Ok d3
     /\ upd d2 d3 (N.to_nat (dp' + nbytes * 8)) (slice s (N.to_nat (sp' + nbytes * 8)) (N.to_nat (len' mod 8)))).
  { destruct (N.eqb_spec (len' mod 8) 0) as [E|E].
    - exists d2. split; [reflexivity|]. rewrite E. apply upd_refl. exact F2.
    - apply bit_string_copy_exact; try assumption; unfold blen in *; try rewrite L2; lia. }
  destruct S3 as (d3 & E3 & U3). exists d3. split; [exact E3|].
  assert (U12 : upd dst d2 (N.to_nat dp) (slice s (N.to_nat sp) (N.to_nat head + 8 * N.to_nat nbytes))).
  { apply (upd_trans' _ _ _ _ _ _ _ _ U1 U2).
    - rewrite slice_length by (unfold blen in *; lia). lia.
    - rewrite slice_app. f_equal. f_equal. lia.
    - rewrite !slice_length by (unfold blen in *; lia). unfold blen in *. lia. }
  apply (upd_trans' _ _ _ _ _ _ _ _ U12 U3).
  - rewrite slice_length by (unfold blen in *; lia). lia.
  - replace (N.to_nat len) with ((N.to_nat head + 8 * N.to_nat nbytes) + N.to_nat (len' mod 8))%nat by lia.
    rewrite slice_app. f_equal. f_equal. lia.
  - rewrite !slice_length by (unfold blen in *; lia). unfold blen in *. lia.
Qed.

Lemma bulk_exact m src sp dst dp len :
  Forall (fun b => b < 256) src -> Forall (fun b => b < 256) dst ->
  sp + len < two64 -> dp + len < two64 ->
  sp + len <= 8 * blen src -> dp + len <= 8 * blen dst ->
  exists dst', bit_string_copy_bulked m src sp dst dp len = Ok dst' /\
    bits_of_bytes dst' = splice (N.to_nat dp) (slice (bits_of_bytes src) (N.to_nat sp) (N.to_nat len)) (bits_of_bytes dst)
    /\ length dst' = length dst /\ Forall (fun b => b < 256) dst'.
Proof. exact (bulk_exact_upd m src sp dst dp len). Qed.

Lemma bulk_short m src sp dst dp len :
  sp + len < two64 -> dp + len < two64 ->
  (8 * blen dst < dp + len -> bit_string_copy_bulked m src sp dst dp len = Err E_INSUFFICIENT_DST)
  /\ (dp + len <= 8 * blen dst -> 8 * blen src < sp + len ->
      bit_string_copy_bulked m src sp dst dp len = Err E_INSUFFICIENT_SRC).
Proof.
  intros Os Od. unfold bit_string_copy_bulked, BYTE_LEN.
  destruct (N.leb_spec len (8 * 2)) as [Hsm|Hbig]; [apply bitwise_short; assumption|].
  rewrite (uadd_ok m dp len Od), (uadd_ok m sp len Os). cbn [bind]. split.
  - intros H. destruct (N.ltb_spec (blen dst * 8) (dp + len)); [reflexivity|lia].
  - intros H1 H2. destruct (N.ltb_spec (blen dst * 8) (dp + len)); [lia|]. cbn [bind].
    destruct (N.ltb_spec (blen src * 8) (sp + len)); [reflexivity|lia].
Qed.

Lemma bulk_no_panic m src sp dst dp len :
  Forall (fun b => b < 256) src -> Forall (fun b => b < 256) dst ->
  sp + len < two64 -> dp + len < two64 ->
  is_panic (bit_string_copy_bulked m src sp dst dp len) = false.
Proof.
  intros Fs Fd Os Od. destruct (bulk_short m src sp dst dp len Os Od) as [Sd Ss].
  destruct (N.lt_ge_cases (8 * blen dst) (dp + len)) as [H1|H1]; [rewrite (Sd H1); reflexivity|].
  destruct (N.lt_ge_cases (8 * blen src) (sp + len)) as [H2|H2]; [rewrite (Ss H1 H2); reflexivity|].
  destruct (bulk_exact_upd m src sp dst dp len Fs Fd Os Od H2 H1) as (dst' & E & _).
  rewrite E. reflexivity.
Qed.

(** * multi-bit operations of the tuple carriers *)
Lemma write_bits_exact m dst pos src soff slen :
  Forall (fun b => b < 256) src -> Forall (fun b => b < 256) dst ->
  soff + slen < two64 -> pos + slen < two64 ->
  soff + slen <= 8 * blen src -> pos + slen <= 8 * blen dst ->
  exists dst', slice_write_bits m dst pos src soff slen = Ok (dst', pos + slen) /\
    bits_of_bytes dst' = splice (N.to_nat pos) (slice (bits_of_bytes src) (N.to_nat soff) (N.to_nat slen)) (bits_of_bytes dst)
    /\ length dst' = length dst /\ Forall (fun b => b < 256) dst'.
Proof.
  intros Fs Fd Os Od Bs Bd. unfold slice_write_bits.
  destruct (bulk_exact_upd m src soff dst pos slen Fs Fd Os Od Bs Bd) as (dst' & E & U).
  rewrite E. cbn [bind]. rewrite (uadd_ok m pos slen Od). cbn [bind].
  exists dst'. split; [reflexivity|exact U].
Qed.

Lemma read_bits_mirror m src pos dst doff dlen :
  Forall (fun b => b < 256) src -> Forall (fun b => b < 256) dst ->
  pos + dlen < two64 -> doff + dlen < two64 ->
  pos + dlen <= 8 * blen src -> doff + dlen <= 8 * blen dst ->
  exists dst', slice_read_bits m src pos dst doff dlen = Ok (dst', pos + dlen) /\
    bits_of_bytes dst' = splice (N.to_nat doff) (slice (bits_of_bytes src) (N.to_nat pos) (N.to_nat dlen)) (bits_of_bytes dst)
    /\ length dst' = length dst /\ Forall (fun b => b < 256) dst'.
Proof.
  intros Fs Fd Os Od Bs Bd. unfold slice_read_bits.
  destruct (bulk_exact_upd m src pos dst doff dlen Fs Fd Os Od Bs Bd) as (dst' & E & U).
  rewrite E. cbn [bind]. rewrite (uadd_ok m pos dlen Os). cbn [bind].
  exists dst'. split; [reflexivity|exact U].
Qed.

(** * BitBuffer *)
Definition padding_zero (b : bitbuffer) : Prop :=
  forall i, (N.to_nat (bb_wpos b) <= i)%nat -> nth i (bits_of_bytes (bb_buf b)) false = false.

Definition bb_inv (b : bitbuffer) : Prop :=
  blen (bb_buf b) = (bb_wpos b + 7) / 8 /\ Forall byte (bb_buf b) /\ padding_zero b.

Lemma bb_inv_empty : bb_inv bb_empty.
Proof.
  unfold bb_inv, padding_zero. cbn [bb_empty bb_buf bb_wpos]. split; [reflexivity|]. split; [constructor|].
  intros i _. destruct i; reflexivity.
Qed.

Lemma Forall_repeat0 k : Forall byte (repeat 0 k).
Proof. induction k; cbn [repeat]; constructor; [reflexivity|assumption]. Qed.

Lemma bits_repeat0 k : bits_of_bytes (repeat 0 k) = repeat false (8 * k).
Proof.
  induction k as [|k IH]; [reflexivity|].
  cbn [repeat]. rewrite bits_cons, IH. replace (8 * S k)%nat with (8 + 8 * k)%nat by lia.
  reflexivity.
Qed.

Lemma nth_skipn_add {A} n : forall (l : list A) i d, nth i (skipn n l) d = nth (n + i) l d.
Proof.
  induction n as [|n IH]; intros l i d; [reflexivity|].
  destruct l as [|x l]; [destruct i; reflexivity|]. cbn [skipn plus nth]. apply IH.
Qed.

(* writing [X] at the write position of a zero-extended buffer: padding stays zero and the
   written prefix grows by exactly [X] *)
Lemma write_preserves buf k wpos buf' X :
  (forall i, (wpos <= i)%nat -> nth i (bits_of_bytes buf) false = false) ->
  (wpos <= 8 * length buf)%nat ->
  upd (buf ++ repeat 0 k) buf' wpos X ->
  (forall i, (wpos + length X <= i)%nat -> nth i (bits_of_bytes buf') false = false)
  /\ firstn (wpos + length X) (bits_of_bytes buf') = firstn wpos (bits_of_bytes buf) ++ X.
Proof.
  intros Pz Hw (E & _ & _). rewrite E, bits_app, bits_repeat0. unfold splice.
  set (l := bits_of_bytes buf) in *.
  assert (Ll : length l = (8 * length buf)%nat) by apply bits_length.
  assert (Lf : length (firstn wpos (l ++ repeat false (8 * k))) = wpos).
  { rewrite firstn_length, app_length. lia. }
  split.
  - intros i Hi.
    rewrite app_nth2 by lia. rewrite app_nth2 by lia. rewrite nth_skipn_add, Lf.
    remember (wpos + length X + (i - wpos - length X))%nat as i' eqn:Ei.
    destruct (Nat.lt_ge_cases i' (length l)) as [Hlt|Hge].
    + rewrite app_nth1 by exact Hlt. apply Pz. lia.
    + rewrite app_nth2 by exact Hge. apply nth_repeat.
  - rewrite app_assoc, firstn_app, app_length, Lf.
    rewrite firstn_all2 by (rewrite app_length; lia).
    replace (wpos + length X - (wpos + length X))%nat with 0%nat by lia.
    cbn [firstn]. rewrite app_nil_r. f_equal.
    rewrite firstn_app. replace (wpos - length l)%nat with 0%nat by lia.
    cbn [firstn]. apply app_nil_r.
Qed.

Lemma usub_ok m a b : b <= a -> usub m a b = Ok (a - b).
Proof. intros H. unfold usub. destruct (N.leb_spec b a); [reflexivity|lia]. Qed.

Lemma ensure_spec m b n : bb_inv b -> bb_wpos b + n < two63 ->
  exists b1, ensure_can_write m b n = Ok b1
    /\ bb_wpos b1 = bb_wpos b /\ bb_rpos b1 = bb_rpos b
    /\ blen (bb_buf b1) = (bb_wpos b + n + 7) / 8
    /\ exists k, bb_buf b1 = bb_buf b ++ repeat 0 k.
Proof.
  intros (Hl & _ & _) Hb. unfold ensure_can_write, BYTE_LEN. unfold two63 in Hb.
  rewrite uadd_ok by (unfold two64; lia). cbn [bind].
  destruct (N.leb_spec (blen (bb_buf b) * 8) (bb_wpos b + n)) as [Hg|Hg].
  - rewrite uadd_ok by (unfold two64; lia). cbn [bind].
    rewrite usub_ok by lia. cbn [bind].
    destruct (N.leb_spec two63 ((bb_wpos b + n + 7) / 8 - blen (bb_buf b))) as [Hc|Hc];
      [unfold two63 in Hc; lia|].
    eexists. split; [reflexivity|]. cbn [bb_wpos bb_rpos bb_buf]. repeat split.
    + unfold blen in *. rewrite app_length, repeat_length. lia.
    + eexists. reflexivity.
  - exists b. repeat split; [lia|]. exists 0%nat. cbn [repeat]. rewrite app_nil_r. reflexivity.
Qed.

Lemma bb_step_inv b buf1 buf' n X rp :
  bb_inv b ->
  (exists k, buf1 = bb_buf b ++ repeat 0 k) ->
  blen buf1 = (bb_wpos b + n + 7) / 8 ->
  upd buf1 buf' (N.to_nat (bb_wpos b)) X -> length X = N.to_nat n ->
  let b' := {| bb_buf := buf'; bb_wpos := bb_wpos b + n; bb_rpos := rp |} in
  bb_inv b'
  /\ firstn (N.to_nat (bb_wpos b')) (bits_of_bytes (bb_buf b'))
     = firstn (N.to_nat (bb_wpos b)) (bits_of_bytes (bb_buf b)) ++ X.
Proof.
  intros (Hl & Hf & Hp) (k & Ek) Hl1 U LX b'. subst buf1.
  destruct (write_preserves (bb_buf b) k (N.to_nat (bb_wpos b)) buf' X Hp) as (P1 & P2); [unfold blen in Hl; lia|exact U|].
  destruct U as (_ & LU & FU).
  unfold b', bb_inv, padding_zero. cbn [bb_buf bb_wpos]. split; [split; [|split]|].
  - unfold blen in *. rewrite LU. lia.
  - exact FU.
  - intros i Hi. apply P1. lia.
  - replace (N.to_nat (bb_wpos b + n)) with (N.to_nat (bb_wpos b) + length X)%nat by lia. exact P2.
Qed.

Lemma bb_write_bit_spec m b bit : bb_inv b -> bb_wpos b + 1 < two63 ->
  exists b', bb_write_bit m b bit = Ok (b', None)
    /\ bb_inv b' /\ bb_wpos b' = bb_wpos b + 1 /\ bb_rpos b' = bb_rpos b
    /\ firstn (N.to_nat (bb_wpos b')) (bits_of_bytes (bb_buf b'))
       = firstn (N.to_nat (bb_wpos b)) (bits_of_bytes (bb_buf b)) ++ [bit].
Proof.
  intros Hi Hb. unfold bb_write_bit.
  destruct (ensure_spec m b 1 Hi Hb) as (b1 & E1 & W1 & R1 & L1 & K1). rewrite E1. cbn [bind].
  assert (F1 : Forall byte (bb_buf b1)).
  { destruct K1 as (k & ->). apply Forall_app. split; [apply Hi|apply Forall_repeat0]. }
  destruct (write_bit_spec (bb_buf b1) (bb_wpos b1) bit F1) as [Wok _].
  destruct Wok as (buf' & Ew & U); [rewrite W1; lia|].
  rewrite Ew, W1, R1. rewrite W1 in U.
  destruct (bb_step_inv b (bb_buf b1) buf' 1 [bit] (bb_rpos b) Hi K1 L1 U eq_refl) as (I' & P').
  eexists. split; [reflexivity|]. cbn [bb_wpos bb_rpos bb_buf] in *. auto.
Qed.

Lemma bb_write_bits_ol_spec m b src soff slen :
  bb_inv b -> Forall byte src -> soff + slen < two64 -> bb_wpos b + slen < two63 ->
  (8 * blen src < soff + slen ->
     bb_write_bits_ol m b src soff slen = Ok (b, Some E_INSUFFICIENT_SRC))
  /\ (soff + slen <= 8 * blen src ->
     exists b', bb_write_bits_ol m b src soff slen = Ok (b', None)
       /\ bb_inv b' /\ bb_wpos b' = bb_wpos b + slen /\ bb_rpos b' = bb_rpos b
       /\ firstn (N.to_nat (bb_wpos b')) (bits_of_bytes (bb_buf b'))
          = firstn (N.to_nat (bb_wpos b)) (bits_of_bytes (bb_buf b))
            ++ slice (bits_of_bytes src) (N.to_nat soff) (N.to_nat slen)).
Proof.
  intros Hi Fs Os Hb. unfold bb_write_bits_ol, BYTE_LEN.
  rewrite (uadd_ok m soff slen Os). cbn [bind]. split; intros Hs.
  - destruct (N.ltb_spec (blen src * 8) (soff + slen)); [reflexivity|lia].
  - destruct (N.ltb_spec (blen src * 8) (soff + slen)); [lia|].
    destruct (ensure_spec m b slen Hi Hb) as (b1 & E1 & W1 & R1 & L1 & K1). rewrite E1. cbn [bind].
    assert (F1 : Forall byte (bb_buf b1)).
    { destruct K1 as (k & ->). apply Forall_app. split; [apply Hi|apply Forall_repeat0]. }
    destruct (write_bits_exact m (bb_buf b1) (bb_wpos b1) src soff slen Fs F1 Os) as (buf' & Ew & U).
    { rewrite W1. unfold two63 in Hb. unfold two64. lia. } { exact Hs. } { rewrite W1. lia. }
    rewrite Ew, W1, R1. rewrite W1 in U.
    assert (LX : length (slice (bits_of_bytes src) (N.to_nat soff) (N.to_nat slen)) = N.to_nat slen).
    { apply slice_length. rewrite bits_length. unfold blen in Hs. lia. }
    destruct (bb_step_inv b (bb_buf b1) buf' slen _ (bb_rpos b) Hi K1 L1 U LX) as (I' & P').
    eexists. split; [reflexivity|]. cbn [bb_wpos bb_rpos bb_buf] in *. auto.
Qed.

Lemma bb_write_bits_o_eq m b src soff : soff <= 8 * blen src ->
  bb_write_bits_o m b src soff = bb_write_bits_ol m b src soff (8 * blen src - soff).
Proof.
  intros H. unfold bb_write_bits_o, BYTE_LEN. rewrite usub_ok by lia. cbn [bind].
  f_equal. lia.
Qed.

(** write operations and reachable buffers *)
Inductive wop :=
| WBit (bit : bool)
| WBits (src : list N) (soff slen : N)
| WBitsO (src : list N) (soff : N).

Definition apply_wop (m : mode) (b : bitbuffer) (op : wop) : res (bitbuffer * option N) :=
  match op with
  | WBit bit => bb_write_bit m b bit
  | WBits src soff slen => bb_write_bits_ol m b src soff slen
  | WBitsO src soff => bb_write_bits_o m b src soff
  end.

(* the side conditions on one operation: sources are byte lists (they are [u8] in Rust) and
   the source range arithmetic does not wrap; all of these are satisfiable, e.g. by
   [WBits [1;2;3] 3 20] and [WBitsO [1;2;3] 5] (see C11_nonvacuous) *)
Definition wop_ok (op : wop) : Prop :=
  match op with
  | WBit _ => True
  | WBits src soff slen => Forall byte src /\ soff + slen < two64
  | WBitsO src soff => Forall byte src /\ soff <= 8 * blen src /\ 8 * blen src < two64
  end.

(* the number of bits an operation asks to append *)
Definition wop_len (op : wop) : N :=
  match op with
  | WBit _ => 1
  | WBits _ _ slen => slen
  | WBitsO src soff => 8 * blen src - soff
  end.

Definition wops_len (ops : list wop) : N := fold_right (fun op a => wop_len op + a) 0 ops.

(* a caller that ignores error results and carries on with the buffer it is left with *)
Definition wop_step (m : mode) (r : res bitbuffer) (op : wop) : res bitbuffer :=
  let! b := r in let! (b', _) := apply_wop m b op in Ok b'.
Definition run_wops (m : mode) (ops : list wop) (b : bitbuffer) : res bitbuffer :=
  fold_left (wop_step m) ops (Ok b).

Lemma apply_wop_inv m b op :
  bb_inv b -> wop_ok op -> bb_wpos b + wop_len op < two63 ->
  exists b' e, apply_wop m b op = Ok (b', e) /\ bb_inv b'
    /\ bb_wpos b' <= bb_wpos b + wop_len op
    /\ (e <> None -> b' = b).
Proof.
  intros Hi Hok Hb. destruct op as [bit|src soff slen|src soff]; cbn [apply_wop wop_ok wop_len] in *.
  - destruct (bb_write_bit_spec m b bit Hi Hb) as (b' & E & I' & W' & _).
    exists b', None. split; [exact E|]. split; [exact I'|]. split; [lia|congruence].
  - destruct Hok as [Fs Os].
    destruct (bb_write_bits_ol_spec m b src soff slen Hi Fs Os Hb) as [Serr Sok].
    destruct (N.lt_ge_cases (8 * blen src) (soff + slen)) as [H|H].
    + exists b, (Some E_INSUFFICIENT_SRC). split; [exact (Serr H)|]. split; [exact Hi|]. split; [lia|reflexivity].
    + destruct (Sok H) as (b' & E & I' & W' & _).
      exists b', None. split; [exact E|]. split; [exact I'|]. split; [lia|congruence].
  - destruct Hok as (Fs & Ho & O64). rewrite (bb_write_bits_o_eq m b src soff Ho).
    destruct (bb_write_bits_ol_spec m b src soff (8 * blen src - soff) Hi Fs) as [_ Sok]; [lia|exact Hb|].
    destruct Sok as (b' & E & I' & W' & _); [lia|].
    exists b', None. split; [exact E|]. split; [exact I'|]. split; [lia|congruence].
Qed.

Lemma run_wops_inv m ops : forall b,
  bb_inv b -> Forall wop_ok ops -> bb_wpos b + wops_len ops < two63 ->
  exists b', run_wops m ops b = Ok b' /\ bb_inv b' /\ bb_wpos b' <= bb_wpos b + wops_len ops.
Proof.
  unfold run_wops.
  induction ops as [|op ops IH]; intros b Hi Hok Hb.
  - exists b. cbn [fold_left wops_len fold_right]. split; [reflexivity|]. split; [exact Hi|lia].
  - cbn [wops_len fold_right] in Hb. fold (wops_len ops) in Hb.
    apply Forall_cons_iff in Hok. destruct Hok as [Hop Hok].
    destruct (apply_wop_inv m b op Hi Hop) as (b1 & e & E & I1 & W1 & _); [lia|].
    cbn [fold_left]. unfold wop_step at 2. cbn [bind]. rewrite E. cbn [bind].
    destruct (IH b1 I1 Hok) as (b' & E' & I' & W'); [lia|].
    exists b'. split; [exact E'|]. split; [exact I'|].
    cbn [wops_len fold_right]. fold (wops_len ops). lia.
Qed.

Lemma buffer_inv m ops :
  Forall wop_ok ops -> wops_len ops < two63 ->
  exists b', run_wops m ops bb_empty = Ok b' /\ bb_inv b' /\ bb_wpos b' <= wops_len ops.
Proof.
  intros Hok Hb. destruct (run_wops_inv m ops bb_empty bb_inv_empty Hok) as (b' & E & I' & W').
  - cbn [bb_empty bb_wpos]. lia.
  - exists b'. cbn [bb_empty bb_wpos] in W'. split; [exact E|]. split; [exact I'|lia].
Qed.

(** the single-operation form: every [Ok] outcome of a BitBuffer write, with or without an
    error kind, carries a buffer that satisfies the invariant *)
Lemma buffer_inv_step :
  bb_inv bb_empty
  /\ (forall m b bit b' e, bb_inv b -> bb_wpos b + 1 < two63 ->
        bb_write_bit m b bit = Ok (b', e) -> bb_inv b')
  /\ (forall m b src soff slen b' e, bb_inv b -> Forall byte src ->
        soff + slen < two64 -> bb_wpos b + slen < two63 ->
        bb_write_bits_ol m b src soff slen = Ok (b', e) -> bb_inv b')
  /\ (forall m b src soff b' e, bb_inv b -> Forall byte src ->
        soff <= 8 * blen src -> 8 * blen src < two64 -> bb_wpos b + (8 * blen src - soff) < two63 ->
        bb_write_bits_o m b src soff = Ok (b', e) -> bb_inv b').
Proof.
  split; [exact bb_inv_empty|]. split; [|split].
  - intros m b bit b' e Hi Hb H.
    destruct (apply_wop_inv m b (WBit bit) Hi I Hb) as (b1 & e1 & E & I1 & _).
    cbn [apply_wop] in E. congruence.
  - intros m b src soff slen b' e Hi Fs Os Hb H.
    destruct (apply_wop_inv m b (WBits src soff slen) Hi (conj Fs Os) Hb) as (b1 & e1 & E & I1 & _).
    cbn [apply_wop] in E. congruence.
  - intros m b src soff b' e Hi Fs Ho O64 Hb H.
    destruct (apply_wop_inv m b (WBitsO src soff) Hi (conj Fs (conj Ho O64)) Hb) as (b1 & e1 & E & I1 & _).
    cbn [apply_wop] in E. congruence.
Qed.

Lemma buffer_refines :
  (forall m b src soff slen b', bb_inv b -> Forall byte src ->
     soff + slen < two64 -> bb_wpos b + slen < two63 ->
     bb_write_bits_ol m b src soff slen = Ok (b', None) ->
     bb_wpos b' = bb_wpos b + slen /\ bb_rpos b' = bb_rpos b
     /\ firstn (N.to_nat (bb_wpos b')) (bits_of_bytes (bb_buf b'))
        = firstn (N.to_nat (bb_wpos b)) (bits_of_bytes (bb_buf b))
          ++ slice (bits_of_bytes src) (N.to_nat soff) (N.to_nat slen))
  /\ (forall m b bit b', bb_inv b -> bb_wpos b + 1 < two63 ->
     bb_write_bit m b bit = Ok (b', None) ->
     bb_wpos b' = bb_wpos b + 1 /\ bb_rpos b' = bb_rpos b
     /\ firstn (N.to_nat (bb_wpos b')) (bits_of_bytes (bb_buf b'))
        = firstn (N.to_nat (bb_wpos b)) (bits_of_bytes (bb_buf b)) ++ [bit]).
Proof.
  split.
  - intros m b src soff slen b' Hi Fs Os Hb H.
    destruct (bb_write_bits_ol_spec m b src soff slen Hi Fs Os Hb) as [Serr Sok].
    destruct (N.lt_ge_cases (8 * blen src) (soff + slen)) as [Hs|Hs].
    + rewrite (Serr Hs) in H. discriminate.
    + destruct (Sok Hs) as (b1 & E & _ & W & R & P). assert (b1 = b') by congruence. subst b1. auto.
  - intros m b bit b' Hi Hb H.
    destruct (bb_write_bit_spec m b bit Hi Hb) as (b1 & E & _ & W & R & P).
    assert (b1 = b') by congruence. subst b1. auto.
Qed.


(** * byte lists are determined by their bits; single-bit operations as copies of length 1 *)
Lemma byte_roundtrip_sweep :
  forallb (fun b : N => byte_of_bits (byte_bits b) =? b) (nrange 256) = true.
Proof. vm_compute. reflexivity. Qed.

Lemma byte_of_bits_byte_bits b : b < 256 -> byte_of_bits (byte_bits b) = b.
Proof. intros H. apply N.eqb_eq. exact (sweep _ _ byte_roundtrip_sweep b H). Qed.

Lemma bits_inj l1 : forall l2, Forall byte l1 -> Forall byte l2 ->
  bits_of_bytes l1 = bits_of_bytes l2 -> l1 = l2.
Proof.
  induction l1 as [|a l1 IH]; intros [|b l2] F1 F2 E; try reflexivity; try discriminate E.
  apply Forall_cons_iff in F1. apply Forall_cons_iff in F2. destruct F1 as [Ha F1], F2 as [Hb F2].
  rewrite !bits_cons in E.
  pose proof (f_equal (firstn 8) E) as E1. pose proof (f_equal (skipn 8) E) as E2.
  change (byte_bits a = byte_bits b) in E1.
  change (bits_of_bytes l1 = bits_of_bytes l2) in E2.
  f_equal; [|apply IH; assumption].
  rewrite <- (byte_of_bits_byte_bits a Ha), <- (byte_of_bits_byte_bits b Hb), E1. reflexivity.
Qed.

Lemma bit_ops_are_copies m buf pos : Forall (fun b => b < 256) buf ->
  pos < 8 * blen buf -> pos + 1 < two64 ->
  (forall bit, exists buf', slice_write_bit buf pos bit = Ok (buf', pos + 1)
      /\ bit_string_copy m [if bit then 128 else 0] 0 buf pos 1 = Ok buf')
  /\ (exists b, slice_read_bit buf pos = Ok (b, pos + 1)
      /\ bit_string_copy m buf pos [0] 0 1 = Ok [if b then 128 else 0]).
Proof.
  intros F Hp Ho. split.
  - intros bit. destruct (write_bit_spec buf pos bit F) as [W _].
    destruct (W Hp) as (buf' & Ew & Uw). exists buf'. split; [exact Ew|].
    assert (Fs : Forall byte [if bit then 128 else 0]) by (constructor; [destruct bit; reflexivity|constructor]).
    destruct (bit_string_copy_exact m [if bit then 128 else 0] 0 buf pos 1 Fs F) as (d & Ec & Uc);
      [reflexivity|exact Ho|destruct bit; vm_compute; congruence|lia|].
    rewrite Ec. f_equal. destruct Uw as (E1 & _ & F1). destruct Uc as (E2 & _ & F2).
    apply bits_inj; [exact F2|exact F1|]. rewrite E1, E2. destruct bit; reflexivity.
  - destruct (read_bit_spec buf pos F) as [R _]. destruct (R Hp) as [Er Es].
    eexists. split; [exact Er|].
    assert (F0 : Forall byte [0]) by (constructor; [reflexivity|constructor]).
    destruct (bit_string_copy_exact m buf pos [0] 0 1 F F0) as (d & Ec & Uc);
      [exact Ho|reflexivity|lia|vm_compute; congruence|].
    rewrite Ec. f_equal. destruct Uc as (E2 & _ & F2).
    apply bits_inj; [exact F2| |].
    + constructor; [|constructor]. destruct (nth (N.to_nat pos) (bits_of_bytes buf) false); reflexivity.
    + rewrite E2. change (N.to_nat 1) with 1%nat. rewrite Es.
      destruct (nth (N.to_nat pos) (bits_of_bytes buf) false); reflexivity.
Qed.
