(* Round-trip proofs for the DER primitive model (C20). *)
From A1 Require Import Der.Prim.
Require Import ZifyBool ZifyNat ZifyN.
Local Open Scope N_scope.

(** finite sweeps over small N ranges *)
Definition nrange (k : nat) : list N := map N.of_nat (seq 0 k).
Lemma nrange_in k n : n < N.of_nat k -> In n (nrange k).
Proof.
  intros H. unfold nrange. apply in_map_iff. exists (N.to_nat n). split; [lia|].
  apply in_seq. lia.
Qed.
Lemma sweep (P : N -> bool) k :
  forallb P (nrange k) = true -> forall n, n < N.of_nat k -> P n = true.
Proof. intros H n Hn. rewrite forallb_forall in H. apply H, nrange_in, Hn. Qed.

Definition all_classes := [Universal; Application; ContextSpecific; Private].
Definition tclass_eqb (a b : tclass) : bool :=
  match a, b with
  | Universal, Universal | Application, Application
  | ContextSpecific, ContextSpecific | Private, Private => true
  | _, _ => false end.
Lemma tclass_eqb_eq a b : tclass_eqb a b = true -> a = b.
Proof. destruct a, b; simpl; congruence. Qed.

(** identifier octet: class and number survive for every number below 64 *)
Lemma ident_sweep :
  forallb (fun c => forallb (fun n =>
     let b := N.lor (class_bits c) (n mod 256) in
     tclass_eqb (class_of_bits (N.land b CLASS_BITS_MASK)) c
     && (N.land b (not8 CLASS_BITS_MASK) =? n)) (nrange 64)) all_classes = true.
Proof. vm_compute. reflexivity. Qed.

Lemma read_exact_app k l tail : length l = k -> read_exact k (l ++ tail) = Ok (l, tail).
Proof.
  intros H. unfold read_exact. rewrite app_length.
  destruct (Nat.ltb_spec (length l + length tail) k); [lia|].
  subst k. rewrite firstn_app, skipn_app, Nat.sub_diag, firstn_all, skipn_all. simpl.
  rewrite app_nil_r. reflexivity.
Qed.

Lemma read_identifier_write c n tail :
  n < 64 -> read_identifier (write_identifier c n ++ tail) = Ok (c, n, tail).
Proof.
  intros Hn. unfold read_identifier, write_identifier.
  rewrite read_exact_app by reflexivity. cbn [bind hd].
  pose proof ident_sweep as S. rewrite forallb_forall in S.
  assert (In c all_classes) as Hc by (destruct c; simpl; tauto).
  specialize (S c Hc). cbv beta in S.
  pose proof (sweep _ _ S n Hn) as E. cbv zeta in E.
  apply andb_true_iff in E. destruct E as [E1 E2].
  apply tclass_eqb_eq in E1. apply N.eqb_eq in E2. rewrite E1, E2. reflexivity.
Qed.

(* the number an identifier octet can carry: whatever was written, the value read back is below 64 *)
Lemma read_identifier_value_lt inp c n rest :
  read_identifier inp = Ok (c, n, rest) -> n < 64.
Proof.
  unfold read_identifier, read_exact.
  destruct (length inp <? 1)%nat; cbn [bind]; [discriminate|].
  intros H. injection H as _ Hn _. subst n.
  change (not8 CLASS_BITS_MASK) with (N.ones 6).
  rewrite N.land_ones. apply N.mod_lt. discriminate.
Qed.

(* the identifier round trip holds exactly for tag numbers below 64 *)
Lemma read_identifier_write_iff c n tail :
  read_identifier (write_identifier c n ++ tail) = Ok (c, n, tail) <-> n < 64.
Proof.
  split.
  - apply read_identifier_value_lt.
  - apply read_identifier_write.
Qed.

(** integers *)
Lemma pow256 j : 256 ^ N.of_nat j = 2 ^ (8 * N.of_nat j).
Proof. change 256 with (2 ^ 8). rewrite <- N.pow_mul_r. reflexivity. Qed.

Definition int_len (v : N) : N := 8 - N.min (lz64 v / 8) 7.

Lemma write_integer_u64_spec v :
  v < two64 ->
  write_integer_u64 v = be_bytes (N.to_nat (int_len v)) v /\ v < 256 ^ int_len v
  /\ 1 <= int_len v <= 8.
Proof.
  intros Hv. unfold write_integer_u64, int_len.
  destruct (lz64_bound v Hv) as [Hle Hlt].
  set (o := N.min (lz64 v / 8) 7) in *.
  assert (o <= 7) by (unfold o; lia).
  assert (8 * o <= lz64 v) by (unfold o; lia).
  assert (Hsmall : v < 256 ^ (8 - o)).
  { change 256 with (2 ^ 8). rewrite <- N.pow_mul_r.
    eapply N.lt_le_trans; [exact Hlt|]. apply N.pow_le_mono_r; lia. }
  split; [|split; [exact Hsmall|lia]].
  replace 8%nat with (N.to_nat o + N.to_nat (8 - o))%nat by lia.
  apply be_bytes_skip. rewrite N2Nat.id. exact Hsmall.
Qed.

Lemma read_integer_bits_write v tail :
  v < two64 ->
  read_integer_bits (int_len v) (write_integer_u64 v ++ tail) = Ok (v, tail).
Proof.
  intros Hv. destruct (write_integer_u64_spec v Hv) as (E & Hs & Hr).
  unfold read_integer_bits.
  destruct (N.ltb_spec 8 (int_len v)); [lia|].
  rewrite E, read_exact_app by apply be_bytes_length. cbn [bind].
  rewrite be_bytes_small; [reflexivity|]. rewrite N2Nat.id. exact Hs.
Qed.

(** length *)
Lemma short_sweep :
  forallb (fun l => (N.land (N.lor LENGTH_BIT_SHORT_FORM (l mod 256)) LENGTH_BIT_MASK =? LENGTH_BIT_SHORT_FORM)
                    && (N.land (N.lor LENGTH_BIT_SHORT_FORM (l mod 256)) (not8 LENGTH_BIT_MASK) =? l))
          (nrange 128) = true.
Proof. vm_compute. reflexivity. Qed.

Lemma long_sweep :
  forallb (fun k => negb (N.land (N.lor LENGTH_BIT_LONG_FORM (k mod 256)) LENGTH_BIT_MASK =? LENGTH_BIT_SHORT_FORM)
                    && (N.land (N.lor LENGTH_BIT_LONG_FORM (k mod 256)) (not8 LENGTH_BIT_MASK) =? k))
          (nrange 9) = true.
Proof. vm_compute. reflexivity. Qed.

Lemma int_len_alt v : v < two64 -> 127 < v -> 8 - lz64 v / 8 = int_len v.
Proof.
  intros Hv Hb. unfold int_len.
  assert (lz64 v / 8 <= 7); [|lia].
  unfold lz64. assert (7 < N.size v) by (apply size_ge_of_ge; simpl; lia). lia.
Qed.

Lemma read_length_write l tail :
  l < two64 -> read_length (write_length l ++ tail) = Ok (l, tail).
Proof.
  intros Hl. unfold write_length, read_length.
  destruct (N.leb_spec l LENGTH_SHORT_MAX_VALUE) as [Hs|Hs].
  - rewrite read_exact_app by reflexivity. cbn [bind hd].
    pose proof (sweep _ _ short_sweep l) as E. cbv beta in E.
    assert (l < N.of_nat 128) as Hl' by (unfold LENGTH_SHORT_MAX_VALUE in Hs; lia).
    specialize (E Hl'). apply andb_true_iff in E. destruct E as [E1 E2].
    rewrite E1. apply N.eqb_eq in E2. rewrite E2. reflexivity.
  - rewrite <- app_comm_cons.
    change (?b :: ?x ++ tail) with ([b] ++ (x ++ tail)).
    rewrite read_exact_app by reflexivity. cbn [bind hd].
    unfold LENGTH_SHORT_MAX_VALUE in Hs.
    rewrite int_len_alt by (auto; lia).
    destruct (write_integer_u64_spec l Hl) as (_ & _ & Hr).
    pose proof (sweep _ _ long_sweep (int_len l)) as E. cbv beta in E.
    assert (int_len l < N.of_nat 9) as Hk by lia.
    specialize (E Hk). apply andb_true_iff in E. destruct E as [E1 E2].
    apply negb_true_iff in E1. rewrite E1. apply N.eqb_eq in E2. rewrite E2.
    apply read_integer_bits_write, Hl.
Qed.

(** boolean *)
Lemma read_boolean_write b tail : read_boolean (write_boolean b ++ tail) = Ok (b, tail).
Proof. destruct b; reflexivity. Qed.

Lemma read_boolean_nonzero b tail : b <> 0 -> read_boolean (b :: tail) = Ok (true, tail).
Proof.
  intros H. unfold read_boolean. change (b :: tail) with ([b] ++ tail).
  rewrite read_exact_app by reflexivity. cbn [bind hd].
  destruct (N.eqb_spec b 0); [contradiction|reflexivity].
Qed.

Lemma r_boolean_w_boolean c tag b tail :
  tag < 64 -> r_boolean tag (w_boolean c tag b ++ tail) = Ok (b, tail).
Proof.
  intros Ht. unfold r_boolean, w_boolean. rewrite <- !app_assoc.
  rewrite read_identifier_write by exact Ht. cbn [bind].
  rewrite N.eqb_refl. cbn [negb].
  rewrite read_length_write by reflexivity. cbn [bind].
  rewrite N.eqb_refl. cbn [negb]. apply read_boolean_write.
Qed.

(** numbers *)
Lemma to_i64_range k v : is_i64 (to_i64 k v).
Proof. unfold to_i64. apply i64_of_u64_range, u64_of_i64_lt. Qed.

Lemma to_i64_bits k v : u64_of_i64 (to_i64 k v) = u64_of_i64 v.
Proof. unfold to_i64. apply i64_u64_roundtrip, u64_of_i64_lt. Qed.

Lemma from_to_i64 k v : ik_fits k v -> from_i64 k (to_i64 k v) = v.
Proof.
  unfold ik_fits, from_i64, to_i64, i64_of_u64, u64_of_i64.
  assert (Z.of_N two64 = 18446744073709551616%Z) as E64 by reflexivity.
  rewrite E64.
  intros H.
  destruct k; cbn [ik_signed ik_bits] in *;
  match goal with |- context [(2 ^ Z.of_N ?b)%Z] =>
      let c := eval vm_compute in (2 ^ Z.of_N b)%Z in change (2 ^ Z.of_N b)%Z with c end;
  match type of H with context [(2 ^ ?b)%Z] =>
      let c := eval vm_compute in (2 ^ b)%Z in change (2 ^ b)%Z with c in H end;
  match goal with |- context [N.ltb ?a two63] => destruct (N.ltb_spec a two63) as [L|L] end;
  unfold two63 in L;
  repeat match goal with |- context [Z.ltb ?a ?b] => destruct (Z.ltb_spec a b) end;
  lia.
Qed.

Lemma r_number_w_number k c tag v tail :
  tag < 64 -> ik_fits k v -> r_number k tag (w_number k c tag v ++ tail) = Ok (v, tail).
Proof.
  intros Ht Hv. unfold r_number, w_number. rewrite <- !app_assoc.
  rewrite read_identifier_write by exact Ht. cbn [bind].
  rewrite N.eqb_refl. cbn [negb].
  set (value := to_i64 k v). set (bits := u64_of_i64 value).
  assert (Hb : bits < two64) by apply u64_of_i64_lt.
  destruct (write_integer_u64_spec bits Hb) as (_ & _ & Hr).
  assert (Hlen : N.max (8 - lz64 bits / 8) 1 = int_len bits).
  { unfold int_len. lia. }
  rewrite Hlen.
  rewrite read_length_write by (unfold two64; lia). cbn [bind].
  unfold as_u32. rewrite N.mod_small by lia.
  unfold read_integer_i64, write_integer_i64. fold bits.
  rewrite read_integer_bits_write by exact Hb. cbn [bind].
  unfold bits. rewrite u64_i64_roundtrip by apply to_i64_range.
  unfold value. rewrite from_to_i64 by exact Hv. reflexivity.
Qed.

Lemma r_enumerated_w_enumerated c tag n i tail :
  tag < 64 -> i < n -> i < two64 ->
  r_enumerated n tag (w_enumerated c tag i ++ tail) = Ok (i, tail).
Proof.
  intros Ht Hi H64. unfold r_enumerated, w_enumerated.
  rewrite r_number_w_number; [|exact Ht|].
  - cbn [bind]. rewrite N2Z.id. destruct (N.ltb_spec i n); [reflexivity|lia].
  - unfold ik_fits. cbn [ik_signed ik_bits]. change (2 ^ Z.of_N 64)%Z with (Z.of_N two64). lia.
Qed.
