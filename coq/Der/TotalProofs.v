(* Totality facts used by C04: the DER readers never panic; bit reads stay inside the declared length. *)
From A1 Require Import Per.Prim.
From A1 Require Der.Prim.
Require Import ZifyBool ZifyNat ZifyN.
Local Open Scope N_scope.

Module D := A1.Der.Prim.

Lemma bind_np {A B} (r : res A) (f : A -> res B) :
  is_panic r = false -> (forall a, r = Ok a -> is_panic (f a) = false) -> is_panic (bind r f) = false.
Proof. destruct r; simpl; intros H1 H2; auto. Qed.

Lemma read_exact_np k inp : is_panic (D.read_exact k inp) = false.
Proof. unfold D.read_exact. destruct (Nat.ltb _ _); reflexivity. Qed.

Lemma read_integer_bits_np n inp : is_panic (D.read_integer_bits n inp) = false.
Proof.
  unfold D.read_integer_bits. destruct (N.ltb 8 n); [reflexivity|].
  apply bind_np; [apply read_exact_np|]. intros [bs rest] _. reflexivity.
Qed.

Lemma read_length_np inp : is_panic (D.read_length inp) = false.
Proof.
  unfold D.read_length. apply bind_np; [apply read_exact_np|]. intros [bs rest] _.
  destruct (N.eqb _ _); [reflexivity|]. apply read_integer_bits_np.
Qed.

Lemma read_identifier_np inp : is_panic (D.read_identifier inp) = false.
Proof. unfold D.read_identifier. apply bind_np; [apply read_exact_np|]. intros [bs rest] _. reflexivity. Qed.

Lemma read_boolean_np inp : is_panic (D.read_boolean inp) = false.
Proof. unfold D.read_boolean. apply bind_np; [apply read_exact_np|]. intros [bs rest] _. reflexivity. Qed.

Lemma read_integer_i64_np n inp : is_panic (D.read_integer_i64 n inp) = false.
Proof.
  unfold D.read_integer_i64. apply bind_np; [apply read_integer_bits_np|]. intros [v rest] _. reflexivity.
Qed.

Lemma r_number_np k tag inp : is_panic (D.r_number k tag inp) = false.
Proof.
  unfold D.r_number. apply bind_np; [apply read_identifier_np|]. intros [[c v] rest] _.
  destruct (negb _); [reflexivity|].
  apply bind_np; [apply read_length_np|]. intros [len rest'] _.
  apply bind_np; [apply read_integer_i64_np|]. intros [x rest''] _. reflexivity.
Qed.

Lemma r_boolean_np tag inp : is_panic (D.r_boolean tag inp) = false.
Proof.
  unfold D.r_boolean. apply bind_np; [apply read_identifier_np|]. intros [[c v] rest] _.
  destruct (negb _); [reflexivity|].
  apply bind_np; [apply read_length_np|]. intros [len rest'] _.
  destruct (negb _); [reflexivity|]. apply read_boolean_np.
Qed.

Lemma r_enumerated_np n tag inp : is_panic (D.r_enumerated n tag inp) = false.
Proof.
  unfold D.r_enumerated. apply bind_np; [apply r_number_np|]. intros [v rest] _.
  destruct (N.ltb _ _); reflexivity.
Qed.

Lemma der_total inp :
  is_panic (D.read_length inp) = false /\
  is_panic (D.read_identifier inp) = false /\
  is_panic (D.read_boolean inp) = false /\
  (forall n, is_panic (D.read_integer_i64 n inp) = false) /\
  (forall n, is_panic (D.read_integer_u64 n inp) = false) /\
  (forall k tag, is_panic (D.r_number k tag inp) = false) /\
  (forall tag, is_panic (D.r_boolean tag inp) = false) /\
  (forall n tag, is_panic (D.r_enumerated n tag inp) = false).
Proof.
  repeat split; intros;
    [apply read_length_np | apply read_identifier_np | apply read_boolean_np | apply read_integer_i64_np
    | apply read_integer_bits_np | apply r_number_np | apply r_boolean_np | apply r_enumerated_np].
Qed.

(** bit reads never succeed beyond the declared length *)
Lemma read_bit_within_len s b s' :
  r_bit s = Ok (b, s') -> s_pos s < s_len s /\ s_pos s' = s_pos s + 1 /\ s_len s' = s_len s.
Proof.
  unfold r_bit. destruct (N.ltb_spec (s_pos s) (s_len s)) as [H|H]; [|discriminate].
  destruct (s_rest s) as [|x rest]; [discriminate|]. intros E. inversion E; subst. cbn. auto.
Qed.

Lemma read_bits_within_len s dst doff n bs s' :
  r_bits_into s dst doff n = Ok (bs, s') ->
  s_pos s + n <= s_len s \/ s_len s < s_pos s /\ n = 0.
Proof.
  unfold r_bits_into.
  destruct (N.ltb_spec (s_len s - s_pos s) n) as [H|H]; [discriminate|]. intros _. lia.
Qed.
