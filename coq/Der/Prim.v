(* Model of src/protocol/basic/distinguished/mod.rs (BasicRead/BasicWrite for
   io::Read / io::Write over byte slices / Vec<u8>) and of the implemented arms
   of src/rw/der.rs (write/read_number, write/read_boolean, write/read_enumerated).
   Readers take the remaining input and return the value with the rest. *)
From A1 Require Export Base.Word Gen.DerConsts.
Local Open Scope N_scope.

(* error kinds of basic::ErrorKind *)
Definition E_IO : N := 1.
Definition E_TAG : N := 2.
Definition E_LEN : N := 3.
Definition E_CHOICE : N := 4.
Definition E_BYTELEN : N := 5.

Inductive tclass := Universal | Application | ContextSpecific | Private.
Definition class_bits (c : tclass) : N :=
  match c with
  | Universal => CLASS_BITS_UNIVERSAL | Application => CLASS_BITS_APPLICATION
  | ContextSpecific => CLASS_BITS_CONTEXT_SPECIFIC | Private => CLASS_BITS_PRIVATE end.

(* read_exact(&mut [0u8; k]) on a slice reader *)
Definition read_exact (k : nat) (inp : list N) : res (list N * list N) :=
  if (length inp <? k)%nat then Err E_IO else Ok (firstn k inp, skipn k inp).

(** ** writers: return the bytes appended *)

(* identifier_octet |= tag.value() as u8 *)
Definition write_identifier (c : tclass) (value : N) : list N :=
  [N.lor (class_bits c) (value mod 256)].

(* bytes[min(lz/8, 7)..] *)
Definition write_integer_u64 (v : N) : list N :=
  skipn (N.to_nat (N.min (lz64 v / 8) 7)) (be_bytes 8 v).
Definition write_integer_i64 (v : Z) : list N := write_integer_u64 (u64_of_i64 v).

Definition write_length (l : N) : list N :=
  if l <=? LENGTH_SHORT_MAX_VALUE then [N.lor LENGTH_BIT_SHORT_FORM (l mod 256)]
  else
    let len_bytes := 8 - lz64 l / 8 in
    N.lor LENGTH_BIT_LONG_FORM (len_bytes mod 256) :: write_integer_u64 l.

Definition write_boolean (b : bool) : list N := [if b then 1 else 0].

(** ** readers *)

Definition class_of_bits (b : N) : tclass :=
  if b =? CLASS_BITS_UNIVERSAL then Universal
  else if b =? CLASS_BITS_APPLICATION then Application
  else if b =? CLASS_BITS_CONTEXT_SPECIFIC then ContextSpecific
  else Private.

(* !CLASS_BITS_MASK on a u8 *)
Definition not8 (m : N) : N := 255 - m.

Definition read_identifier (inp : list N) : res (tclass * N * list N) :=
  let! (bs, rest) := read_exact 1 inp in
  let b := hd 0 bs in
  Ok (class_of_bits (N.land b CLASS_BITS_MASK), N.land b (not8 CLASS_BITS_MASK), rest).

(* read_integer_{u64,i64}(byte_len: u32): the u64 bit pattern *)
Definition read_integer_bits (byte_len : N) (inp : list N) : res (N * list N) :=
  if 8 <? byte_len then Err E_BYTELEN
  else
    let! (bs, rest) := read_exact (N.to_nat byte_len) inp in
    Ok (of_be bs, rest).

Definition read_integer_u64 := read_integer_bits.
Definition read_integer_i64 (byte_len : N) (inp : list N) : res (Z * list N) :=
  let! (n, rest) := read_integer_bits byte_len inp in Ok (i64_of_u64 n, rest).

Definition read_length (inp : list N) : res (N * list N) :=
  let! (bs, rest) := read_exact 1 inp in
  let b := hd 0 bs in
  if N.land b LENGTH_BIT_MASK =? LENGTH_BIT_SHORT_FORM
  then Ok (N.land b (not8 LENGTH_BIT_MASK), rest)
  else read_integer_u64 (N.land b (not8 LENGTH_BIT_MASK)) rest.

Definition read_boolean (inp : list N) : res (bool * list N) :=
  let! (bs, rest) := read_exact 1 inp in
  Ok (negb (hd 0 bs =? 0), rest).

(** ** BasicWriter / BasicReader (src/rw/der.rs) *)

(* the eight `Number` impls: `self as i64` and `value as T` *)
Inductive ikind := U8 | I8 | U16 | I16 | U32 | I32 | U64 | I64.
Definition ik_bits (k : ikind) : N :=
  match k with U8 | I8 => 8 | U16 | I16 => 16 | U32 | I32 => 32 | U64 | I64 => 64 end.
Definition ik_signed (k : ikind) : bool :=
  match k with I8 | I16 | I32 | I64 => true | _ => false end.
(* values of kind k are Z in the range of the type *)
Definition ik_fits (k : ikind) (v : Z) : Prop :=
  if ik_signed k then (- 2 ^ (Z.of_N (ik_bits k) - 1) <= v < 2 ^ (Z.of_N (ik_bits k) - 1))%Z
  else (0 <= v < 2 ^ Z.of_N (ik_bits k))%Z.
Definition ik_fitsb (k : ikind) (v : Z) : bool :=
  if ik_signed k then ((- 2 ^ (Z.of_N (ik_bits k) - 1) <=? v) && (v <? 2 ^ (Z.of_N (ik_bits k) - 1)))%Z
  else ((0 <=? v) && (v <? 2 ^ Z.of_N (ik_bits k)))%Z.
(* `self as i64`: only u64 values above i64::MAX change *)
Definition to_i64 (k : ikind) (v : Z) : Z := i64_of_u64 (u64_of_i64 v).
(* `value as T` from i64: truncate to the width, reinterpret by signedness *)
Definition from_i64 (k : ikind) (v : Z) : Z :=
  let m := (2 ^ Z.of_N (ik_bits k))%Z in
  let t := (v mod m)%Z in
  if ik_signed k then (if (t <? m / 2)%Z then t else t - m)%Z else t.

Definition w_number (k : ikind) (c : tclass) (tag : N) (v : Z) : list N :=
  let value := to_i64 k v in
  let offset := lz64 (u64_of_i64 value) / 8 in
  let len := 8 - offset in
  write_identifier c tag ++ write_length (N.max len 1) ++ write_integer_i64 value.

(* `len as u32` *)
Definition as_u32 (n : N) : N := n mod 4294967296.

Definition r_number (k : ikind) (tag : N) (inp : list N) : res (Z * list N) :=
  let! (_, value, rest) := read_identifier inp in
  if negb (value =? tag) then Err E_TAG else
  let! (len, rest) := read_length rest in
  let! (v, rest) := read_integer_i64 (as_u32 len) rest in
  Ok (from_i64 k v, rest).

Definition w_boolean (c : tclass) (tag : N) (b : bool) : list N :=
  write_identifier c tag ++ write_length 1 ++ write_boolean b.

Definition r_boolean (tag : N) (inp : list N) : res (bool * list N) :=
  let! (_, value, rest) := read_identifier inp in
  if negb (value =? tag) then Err E_TAG else
  let! (len, rest) := read_length rest in
  if negb (len =? 1) then Err E_LEN else
  read_boolean rest.

(* enumerated: Integer<u64> with the enum's tag; from_choice_index = index < n *)
Definition w_enumerated (c : tclass) (tag : N) (index : N) : list N :=
  w_number U64 c tag (Z.of_N index).
Definition r_enumerated (variants : N) (tag : N) (inp : list N) : res (N * list N) :=
  let! (v, rest) := r_number U64 tag inp in
  if Z.to_N v <? variants then Ok (Z.to_N v, rest) else Err E_CHOICE.
