(* Per/Proofs.v -- stub, to be filled *)
