(* C10 proofs: the model of the PER primitives (Per/Prim.v) against the clause-by-clause
   X.691 reference (Per/X691.v): writers produce the reference bit pattern, readers invert
   it consuming exactly those bits, inadmissible arguments are errors; both cargo profiles. *)
From A1 Require Import Per.Prim Per.X691.
Require Import ZifyBool ZifyNat ZifyN.
Local Open Scope N_scope.


Definition bl (w : bits) : N := N.of_nat (length w).

Lemma bov_length k x : length (bits_of_val k x) = k.
Proof. induction k as [|k IH]; cbn [bits_of_val length]; congruence. Qed.

Lemma bov_app a k x :
  bits_of_val (a + k) x = bits_of_val a (x / 2 ^ N.of_nat k) ++ bits_of_val k x.
Proof.
  induction a as [|a IH]; [reflexivity|].
  cbn [plus bits_of_val app]. rewrite IH. f_equal.
  rewrite N.div_pow2_bits. f_equal. lia.
Qed.

Lemma bov_skipn a k x : skipn a (bits_of_val (a + k) x) = bits_of_val k x.
Proof.
  rewrite bov_app. rewrite skipn_app, bov_length, Nat.sub_diag, skipn_all2 by (rewrite bov_length; lia).
  reflexivity.
Qed.

Lemma bov_mod k x : bits_of_val k (x mod 2 ^ N.of_nat k) = bits_of_val k x.
Proof.
  assert (G : forall j, (j <= k)%nat -> bits_of_val j (x mod 2 ^ N.of_nat k) = bits_of_val j x).
  { induction j as [|j IH]; intros Hj; [reflexivity|].
    cbn [bits_of_val]. rewrite IH by lia. f_equal.
    apply N.mod_pow2_bits_low. lia. }
  apply G. lia.
Qed.

Lemma vob_acc l a :
  fold_left (fun a b => 2 * a + b2n b) l a = a * 2 ^ bl l + val_of_bits l.
Proof.
  unfold val_of_bits, bl. revert a. induction l as [|b l IH]; intros a.
  - cbn. lia.
  - cbn [fold_left length]. rewrite IH, (IH (2 * 0 + b2n b)).
    replace (N.of_nat (S (length l))) with (N.succ (N.of_nat (length l))) by lia.
    rewrite N.pow_succ_r'. lia.
Qed.

Lemma vob_cons b l : val_of_bits (b :: l) = b2n b * 2 ^ bl l + val_of_bits l.
Proof. unfold val_of_bits at 1. cbn [fold_left]. rewrite vob_acc. lia. Qed.

Lemma vob_app l1 l2 : val_of_bits (l1 ++ l2) = val_of_bits l1 * 2 ^ bl l2 + val_of_bits l2.
Proof. unfold val_of_bits at 1. rewrite fold_left_app. fold (val_of_bits l1). apply vob_acc. Qed.

Lemma vob_lt l : val_of_bits l < 2 ^ bl l.
Proof.
  induction l as [|b l IH]; [cbn; lia|].
  rewrite vob_cons. unfold bl in *. cbn [length].
  replace (N.of_nat (S (length l))) with (N.succ (N.of_nat (length l))) by lia.
  rewrite N.pow_succ_r'. destruct b; cbn [b2n]; lia.
Qed.

Lemma vob_bov k x : val_of_bits (bits_of_val k x) = x mod 2 ^ N.of_nat k.
Proof.
  induction k as [|k IH].
  - cbn. rewrite N.mod_1_r. reflexivity.
  - cbn [bits_of_val]. rewrite vob_cons, IH. unfold bl. rewrite bov_length.
    replace (N.of_nat (S k)) with (N.succ (N.of_nat k)) by lia.
    rewrite N.pow_succ_r'.
    assert (2 ^ N.of_nat k <> 0) as Hp by (apply N.pow_nonzero; lia).
    rewrite (N.mul_comm 2). rewrite N.mod_mul_r by lia.
    change (b2n (N.testbit x (N.of_nat k))) with (N.b2n (N.testbit x (N.of_nat k))).
    rewrite N.testbit_spec'. lia.
Qed.

Lemma vob_bov_small k x : x < 2 ^ N.of_nat k -> val_of_bits (bits_of_val k x) = x.
Proof. intros H. rewrite vob_bov. apply N.mod_small, H. Qed.

Lemma bov_vob l : bits_of_val (length l) (val_of_bits l) = l.
Proof.
  induction l as [|b l IH]; [reflexivity|].
  cbn [length bits_of_val]. rewrite vob_cons. f_equal.
  - unfold bl. pose proof (vob_lt l) as Hl. unfold bl in Hl.
    set (p := 2 ^ N.of_nat (length l)) in *.
    apply eq_true_iff_eq. rewrite N.testbit_true.
    assert (p <> 0) by (apply N.pow_nonzero; lia).
    rewrite N.div_add_l by lia. rewrite (N.div_small (val_of_bits l)) by lia.
    destruct b; cbn; split; intros; try reflexivity; try discriminate.
  - rewrite <- (bov_mod (length l)). unfold bl.
    rewrite N.add_comm, N.mod_add by (apply N.pow_nonzero; lia).
    rewrite bov_mod. exact IH.
Qed.

(* the top bit of a (k+1)-bit value *)
Lemma testbit_top y k : y < 2 ^ N.succ k -> N.testbit y k = (2 ^ k <=? y).
Proof.
  intros H. rewrite N.pow_succ_r' in H.
  assert (2 ^ k <> 0) as Hp by (apply N.pow_nonzero; lia).
  apply eq_true_iff_eq. rewrite N.testbit_true, N.leb_le.
  assert (y / 2 ^ k < 2) by (apply N.div_lt_upper_bound; lia).
  rewrite N.mod_small by lia.
  split; intros E.
  - assert (1 <= y / 2 ^ k) as L by lia. 
    pose proof (N.mul_div_le y (2 ^ k) Hp). nia.
  - assert (1 <= y / 2 ^ k); [|lia]. apply N.div_le_lower_bound; lia.
Qed.


Lemma size_le64 r : r < two64 -> N.size r <= 64.
Proof. intros H. apply size_le_of_lt. exact H. Qed.

Lemma skip_lz64 r x : r < two64 ->
  skipn (N.to_nat (lz64 r)) (bits64 x) = field (nbits r) x.
Proof.
  intros Hr. pose proof (size_le64 r Hr) as Hs.
  unfold bits64, field, nbits, lz64.
  replace 64%nat with (N.to_nat (64 - N.size r) + N.to_nat (N.size r))%nat by lia.
  apply bov_skipn.
Qed.

Lemma skip_bits64 k x : (k <= 64)%nat -> skipn (64 - k) (bits64 x) = bits_of_val k x.
Proof.
  intros Hk. unfold bits64. replace 64%nat with ((64 - k) + k)%nat at 2 by lia.
  apply bov_skipn.
Qed.

Lemma field_length k x : bl (field k x) = k.
Proof. unfold bl, field. rewrite bov_length. lia. Qed.

Lemma usub_ok m a b : b <= a -> usub m a b = Ok (a - b).
Proof. intros H. unfold usub. destruct (N.leb_spec b a); [reflexivity|lia]. Qed.
Lemma uadd_ok m a b : a + b < two64 -> uadd m a b = Ok (a + b).
Proof. intros H. unfold uadd. destruct (N.ltb_spec (a + b) two64); [reflexivity|lia]. Qed.

(** ** non-negative-binary-integer *)
Definition nn_bounded (lb ub : option N) : Prop := lb <> None \/ ub <> None.

Lemma w_nnbi_bounded m lb ub v :
  nn_bounded lb ub -> opt_or ub I64_MAX < two64 ->
  opt_or lb 0 <= v <= opt_or ub I64_MAX ->
  w_nnbi m lb ub v = Ok (field (nbits (opt_or ub I64_MAX - opt_or lb 0)) (v - opt_or lb 0)).
Proof.
  intros Hb Hu Hv.
  assert (E : w_nnbi m lb ub v =
    (let lower := opt_or lb 0 in let upper := opt_or ub I64_MAX in
      if (v <? lower) || (upper <? v) then Err E_VALUE_RANGE else
      let! range := usub m upper lower in
      let offset_bits := lz64 range in
      let! x := usub m v lower in
      Ok (skipn (N.to_nat offset_bits) (bits64 x)))).
  { destruct lb, ub; try reflexivity. destruct Hb; congruence. }
  rewrite E. cbv zeta.
  set (lower := opt_or lb 0) in *. set (upper := opt_or ub I64_MAX) in *.
  destruct (N.ltb_spec v lower); [lia|]. destruct (N.ltb_spec upper v); [lia|].
  cbn [orb]. rewrite !usub_ok by lia. cbn [bind].
  rewrite skip_lz64 by lia. reflexivity.
Qed.

Lemma w_nnbi_reject m lb ub v :
  nn_bounded lb ub -> v < opt_or lb 0 \/ opt_or ub I64_MAX < v ->
  w_nnbi m lb ub v = Err E_VALUE_RANGE.
Proof.
  intros Hb Hv.
  destruct lb as [l|], ub as [u|]; try (destruct Hb; congruence); cbn [w_nnbi opt_or] in *;
  match goal with |- context [(?a <? ?b) || (?c <? ?d)] =>
    destruct (N.ltb_spec a b); destruct (N.ltb_spec c d); cbn [orb]; try reflexivity; lia end.
Qed.

Lemma noctets_alt v : v < two64 -> 8 - N.min (lz64 v / 8) 7 = noctets v.
Proof.
  intros Hv. pose proof (size_le64 v Hv). unfold noctets, nbits, lz64. lia.
Qed.

Lemma noctets_range v : v < two64 -> 1 <= noctets v <= 8 /\ v < 2 ^ (8 * noctets v).
Proof.
  intros Hv. pose proof (size_le64 v Hv) as Hs. unfold noctets, nbits. split; [lia|].
  eapply N.lt_le_trans; [apply size_bound|]. apply N.pow_le_mono_r; lia.
Qed.

Lemma x_len_short_small n : n <= 127 -> x_len_short n = false :: field 7 n.
Proof. intros H. unfold x_len_short. destruct (N.leb_spec n 127); [reflexivity|lia]. Qed.

Lemma w_nnbi_unbounded m v : v < two64 ->
  w_nnbi m None None v = Ok (x_len_short (noctets v) ++ field (8 * noctets v) v).
Proof.
  intros Hv. cbn [w_nnbi]. destruct (noctets_range v Hv) as [Hr _].
  rewrite noctets_alt by exact Hv.
  rewrite x_len_short_small by lia.
  assert (E1 : skipn 57 (bits64 (noctets v)) = field 7 (noctets v)) by (apply (skip_bits64 7); lia).
  assert (E2 : skipn (N.to_nat (8 * N.min (lz64 v / 8) 7)) (bits64 v) = field (8 * noctets v) v).
  { rewrite <- (noctets_alt v Hv).
    set (o := N.min (lz64 v / 8) 7).
    replace (N.to_nat (8 * o)) with (64 - N.to_nat (8 * (8 - o)))%nat by lia.
    apply skip_bits64. lia. }
  rewrite E1, E2. reflexivity.
Qed.


(** ** bit sources *)
(* [s] is positioned at the start of [w ++ tail], and [w] lies within both the declared
   length and the underlying slice *)
Definition at_src (s : src) (w tail : bits) : Prop :=
  s_rest s = w ++ tail /\ s_pos s + bl w <= s_len s /\ s_pos s + bl w <= s_total s.

Lemma bl_app a b : bl (a ++ b) = bl a + bl b.
Proof. unfold bl. rewrite app_length. lia. Qed.
Lemma bl_cons a b : bl (a :: b) = 1 + bl b.
Proof. unfold bl. cbn [length]. lia. Qed.
Lemma bl_nil : bl [] = 0. Proof. reflexivity. Qed.

Lemma src_adv_adv s a b r1 r2 : src_adv (src_adv s a r1) b r2 = src_adv s (a + b) r2.
Proof. unfold src_adv. cbn. f_equal. lia. Qed.
Lemma src_adv_0 s : src_adv s 0 (s_rest s) = s.
Proof. destruct s. unfold src_adv. cbn. f_equal. lia. Qed.

Lemma at_src_split s w1 w2 tail :
  at_src s (w1 ++ w2) tail ->
  at_src s w1 (w2 ++ tail) /\ at_src (src_adv s (bl w1) (w2 ++ tail)) w2 tail.
Proof.
  unfold at_src. rewrite bl_app, <- app_assoc. intros (E & L & T). unfold src_adv; cbn [s_pos s_len s_total s_rest]. repeat split; try assumption; try reflexivity; lia.
Qed.

Lemma r_bits_into_ok s w tail dst doff n :
  at_src s w tail -> n = bl w -> doff + n <= dst ->
  r_bits_into s dst doff n = Ok (w, src_adv s n tail).
Proof.
  intros (E & L & T) -> Hd. unfold r_bits_into.
  destruct (N.ltb_spec (s_len s - s_pos s) (bl w)); [lia|].
  destruct (N.ltb_spec dst (doff + bl w)); [lia|].
  destruct (N.ltb_spec (s_total s - s_pos s) (bl w)); [lia|].
  rewrite E. unfold bl. rewrite Nat2N.id.
  rewrite firstn_app, skipn_app, Nat.sub_diag, firstn_all, skipn_all. cbn [firstn skipn app].
  rewrite app_nil_r. reflexivity.
Qed.

Lemma r_bits_ok s w tail n :
  at_src s w tail -> n = bl w -> r_bits s n = Ok (w, src_adv s n tail).
Proof. intros H E. unfold r_bits. apply r_bits_into_ok; auto. lia. Qed.

Lemma r_bit_ok s b tail : at_src s [b] tail -> r_bit s = Ok (b, src_adv s 1 tail).
Proof.
  intros (E & L & T). unfold r_bit. change (bl [b]) with 1 in *.
  destruct (N.ltb_spec (s_pos s) (s_len s)); [|lia]. rewrite E. reflexivity.
Qed.

Lemma at_src_cons s b w tail :
  at_src s (b :: w) tail -> at_src s [b] (w ++ tail) /\ at_src (src_adv s 1 (w ++ tail)) w tail.
Proof. intros H. apply (at_src_split s [b] w tail) in H. exact H. Qed.

(** ** readers: non-negative-binary-integer *)
Lemma r_nnbi_bounded m lb ub v s tail :
  nn_bounded lb ub -> opt_or ub I64_MAX < two64 ->
  opt_or lb 0 <= v <= opt_or ub I64_MAX ->
  let w := field (nbits (opt_or ub I64_MAX - opt_or lb 0)) (v - opt_or lb 0) in
  at_src s w tail ->
  r_nnbi m lb ub s = Ok (v, src_adv s (bl w) tail).
Proof.
  intros Hb Hu Hv w Hs.
  assert (E : r_nnbi m lb ub s =
    (let lower := opt_or lb 0 in let upper := opt_or ub I64_MAX in
      let range := upper - lower in
      let offset_bits := lz64 range in
      let! (bs, s) := r_bits_into s 64 offset_bits (64 - offset_bits) in
      let! v := uadd m lower (val_of_bits bs) in
      Ok (v, s))).
  { destruct lb, ub; try reflexivity. destruct Hb; congruence. }
  rewrite E. cbv zeta. clear E.
  set (lower := opt_or lb 0) in *. set (upper := opt_or ub I64_MAX) in *.
  assert (Hr : upper - lower < two64) by lia.
  pose proof (size_le64 _ Hr) as Hsz.
  assert (Hw : bl w = 64 - lz64 (upper - lower)).
  { unfold w. rewrite field_length. unfold nbits, lz64. lia. }
  rewrite (r_bits_into_ok s w tail) by (auto; unfold lz64; lia).
  cbn [bind]. unfold w at 1. unfold field. rewrite vob_bov_small.
  - rewrite uadd_ok by lia. cbn [bind]. rewrite <- Hw. do 2 f_equal. lia.
  - rewrite N2Nat.id. unfold nbits. eapply N.le_lt_trans; [|apply size_bound]. lia.
Qed.

Lemma r_len_unc_short s n tail : n <= 127 ->
  at_src s (false :: field 7 n) tail ->
  r_length_determinant_unc s = Ok (n, src_adv s 8 tail).
Proof.
  intros Hn Hs. unfold r_length_determinant_unc.
  apply at_src_cons in Hs. destruct Hs as [H1 H2].
  rewrite (r_bit_ok _ _ _ H1). cbn [bind negb].
  rewrite (r_bits_into_ok _ _ _ 64 57 7 H2) by (try rewrite field_length; lia).
  cbn [bind]. rewrite src_adv_adv. unfold field. rewrite vob_bov_small by (cbn; lia). reflexivity.
Qed.

Lemma r_nnbi_unbounded m v s tail : v < two64 ->
  let w := x_len_short (noctets v) ++ field (8 * noctets v) v in
  at_src s w tail ->
  r_nnbi m None None s = Ok (v, src_adv s (bl w) tail).
Proof.
  intros Hv w Hs. destruct (noctets_range v Hv) as [Hr Hlt].
  unfold w in *. rewrite x_len_short_small in * by lia.
  cbn [r_nnbi]. apply at_src_split in Hs. destruct Hs as [H1 H2].
  assert (Hle : noctets v <= 127) by lia.
  rewrite (r_len_unc_short _ _ _ Hle H1). cbn [bind].
  destruct (N.leb_spec (noctets v) 8); [|lia].
  assert (B : bl (false :: field 7 (noctets v)) = 8) by (rewrite bl_cons, field_length; lia).
  rewrite B in H2.
  rewrite (r_bits_ok _ _ _ _ H2) by (rewrite field_length; reflexivity).
  cbn [bind]. rewrite src_adv_adv. unfold field at 1. rewrite vob_bov_small by (rewrite N2Nat.id; exact Hlt).
  rewrite bl_app, B, field_length. reflexivity.
Qed.


(** ** i64 / u64 conversions *)
Lemma Ztwo64 : Z.of_N two64 = 18446744073709551616%Z. Proof. reflexivity. Qed.
Lemma Ztwo63 : Z.of_N two63 = 9223372036854775808%Z. Proof. reflexivity. Qed.

Lemma u64_of_i64_nonneg z : (0 <= z < Z.of_N two64)%Z -> u64_of_i64 z = Z.to_N z.
Proof. intros H. unfold u64_of_i64. rewrite Z.mod_small by lia. reflexivity. Qed.

Lemma u64_of_i64_neg z : (- Z.of_N two64 <= z < 0)%Z -> u64_of_i64 z = Z.to_N (z + Z.of_N two64).
Proof.
  intros H. unfold u64_of_i64. f_equal. symmetry.
  apply Z.mod_unique with (q := (-1)%Z); lia.
Qed.

Lemma u64_of_i64_shift z k : u64_of_i64 (z + k * Z.of_N two64) = u64_of_i64 z.
Proof. unfold u64_of_i64. rewrite Z.mod_add by (rewrite Ztwo64; lia). reflexivity. Qed.

Lemma iwrap_shift z z' k : is_i64 z' -> z = (z' + k * Z.of_N two64)%Z -> iwrap z = z'.
Proof.
  intros Hz ->. unfold iwrap. rewrite u64_of_i64_shift. apply u64_i64_roundtrip, Hz.
Qed.

Lemma i64_of_u64_cases n : n < two64 ->
  i64_of_u64 n = Z.of_N n \/ i64_of_u64 n = (Z.of_N n - Z.of_N two64)%Z.
Proof. intros _. unfold i64_of_u64. destruct (n <? two63); auto. Qed.

(** ** constrained whole number *)
Lemma constrained_range lb ub : is_i64 lb -> is_i64 ub -> (lb <= ub)%Z ->
  u64_of_i64 (ub - lb) = Z.to_N (ub - lb) /\ Z.to_N (ub - lb) < two64.
Proof.
  unfold is_i64. rewrite Ztwo63. intros Hl Hu Hle.
  rewrite u64_of_i64_nonneg by (rewrite Ztwo64; lia). split; [reflexivity|]. unfold two64. lia.
Qed.

Lemma constrained_write m lb ub v :
  is_i64 lb -> is_i64 ub -> (lb <= v <= ub)%Z ->
  exists bs, w_constrained m lb ub v = Ok bs /\ x_constrained lb ub v = Some bs.
Proof.
  intros Hl Hu Hv.
  assert (Hvi : is_i64 v) by (unfold is_i64 in *; lia).
  destruct (constrained_range lb ub Hl Hu ltac:(lia)) as [Er Hr].
  destruct (constrained_range lb v Hl Hvi ltac:(lia)) as [Ev Hvr].
  unfold w_constrained, x_constrained.
  destruct (Z.ltb_spec v lb); [lia|]. destruct (Z.ltb_spec ub v); [lia|]. cbn [orb].
  destruct (Z.leb_spec lb v); [|lia]. destruct (Z.leb_spec v ub); [|lia]. cbn [andb].
  rewrite Er, Ev. set (range := Z.to_N (ub - lb)) in *. set (x := Z.to_N (v - lb)) in *.
  destruct (N.ltb_spec 0 range) as [Hp|Hz].
  - rewrite w_nnbi_bounded; cbn [opt_or]; [|right; discriminate|lia|lia].
    rewrite !N.sub_0_r. eauto.
  - assert (range = 0) as -> by lia. exists []. split; reflexivity.
Qed.

Lemma constrained_reject m lb ub v :
  (v < lb \/ ub < v)%Z -> w_constrained m lb ub v = Err E_VALUE_RANGE.
Proof.
  intros H. unfold w_constrained.
  destruct (Z.ltb_spec v lb); destruct (Z.ltb_spec ub v); cbn [orb]; try reflexivity; lia.
Qed.

Lemma constrained_reject_x lb ub v : (v < lb \/ ub < v)%Z -> x_constrained lb ub v = None.
Proof.
  intros H. unfold x_constrained.
  destruct (Z.leb_spec lb v); destruct (Z.leb_spec v ub); cbn [andb]; try reflexivity; lia.
Qed.

Lemma constrained_read m lb ub v bs s tail :
  is_i64 lb -> is_i64 ub -> (lb <= v <= ub)%Z ->
  x_constrained lb ub v = Some bs -> at_src s bs tail ->
  r_constrained m lb ub s = Ok (v, src_adv s (bl bs) tail).
Proof.
  intros Hl Hu Hv Hx Hs.
  assert (Hvi : is_i64 v) by (unfold is_i64 in *; lia).
  destruct (constrained_range lb ub Hl Hu ltac:(lia)) as [Er Hr].
  destruct (constrained_range lb v Hl Hvi ltac:(lia)) as [Ev Hvr].
  unfold x_constrained in Hx.
  destruct (Z.leb_spec lb v); [|lia]. destruct (Z.leb_spec v ub); [|lia]. cbn [andb] in Hx.
  injection Hx as <-.
  unfold r_constrained. rewrite Er. set (range := Z.to_N (ub - lb)) in *. set (x := Z.to_N (v - lb)) in *.
  destruct (N.ltb_spec 0 range) as [Hp|Hz].
  - rewrite (r_nnbi_bounded m None (Some range) x s tail); cbn [opt_or]; rewrite ?N.sub_0_r;
      [|right; discriminate|lia|lia|exact Hs].
    cbn [bind]. do 2 f_equal.
    unfold is_i64 in *. rewrite Ztwo63 in *.
    destruct (i64_of_u64_cases x ltac:(lia)) as [E|E]; rewrite E.
    + apply iwrap_shift with (k := 0%Z); [unfold is_i64; rewrite Ztwo63; lia|lia].
    + apply iwrap_shift with (k := (-1)%Z); [unfold is_i64; rewrite Ztwo63; lia|lia].
  - assert (range = 0) as E0 by lia.
    assert (Hnil : field (nbits range) x = []) by (rewrite E0; reflexivity).
    rewrite Hnil in *. rewrite bl_nil.
    assert (v = lb) as -> by lia.
    destruct Hs as (E & _). cbn [app] in E. rewrite <- E, src_adv_0. reflexivity.
Qed.

(** ** normally small *)
Lemma normally_small_write m v : v < two64 -> w_normally_small m v = Ok (x_normally_small v).
Proof.
  intros Hv. unfold w_normally_small, x_normally_small, SMALL_NON_NEGATIVE_NUMBER.
  destruct (N.leb_spec 64 v); destruct (N.leb_spec v 63); try lia.
  - rewrite w_nnbi_unbounded by exact Hv. reflexivity.
  - rewrite w_nnbi_bounded; cbn [opt_or]; [|right; discriminate|unfold two64; lia|lia].
    cbn [bind]. rewrite !N.sub_0_r. reflexivity.
Qed.

Lemma normally_small_read m v s tail : v < two64 ->
  at_src s (x_normally_small v) tail ->
  r_normally_small m s = Ok (v, src_adv s (bl (x_normally_small v)) tail).
Proof.
  intros Hv. unfold r_normally_small, x_normally_small, SMALL_NON_NEGATIVE_NUMBER.
  destruct (N.leb_spec v 63); intros Hs; apply at_src_cons in Hs; destruct Hs as [H1 H2];
    rewrite (r_bit_ok _ _ _ H1); cbn [bind].
  - rewrite (r_nnbi_bounded m None (Some 63) v _ tail); cbn [opt_or]; rewrite ?N.sub_0_r;
      [|right; discriminate|unfold two64; lia|lia|exact H2].
    rewrite src_adv_adv, bl_cons. reflexivity.
  - rewrite (r_nnbi_unbounded m v _ tail Hv H2). rewrite src_adv_adv, bl_cons. reflexivity.
Qed.

(** ** semi-constrained *)
Lemma semi_constrained_write m lb v : is_i64 lb -> is_i64 v -> (lb <= v)%Z ->
  exists bs, w_semi_constrained m lb v = Ok bs /\ x_semi_constrained lb v = Some bs.
Proof.
  intros Hl Hv Hle. destruct (constrained_range lb v Hl Hv Hle) as [E Hr].
  unfold w_semi_constrained, x_semi_constrained.
  destruct (Z.ltb_spec v lb); [lia|]. destruct (Z.leb_spec lb v); [|lia].
  rewrite E, w_nnbi_unbounded by exact Hr. eauto.
Qed.

Lemma semi_constrained_reject m lb v : (v < lb)%Z ->
  w_semi_constrained m lb v = Err E_VALUE_RANGE /\ x_semi_constrained lb v = None.
Proof.
  intros H. unfold w_semi_constrained, x_semi_constrained.
  destruct (Z.ltb_spec v lb); [|lia]. destruct (Z.leb_spec lb v); [lia|]. auto.
Qed.

Lemma semi_constrained_read m lb v bs s tail : is_i64 lb -> is_i64 v -> (lb <= v)%Z ->
  x_semi_constrained lb v = Some bs -> at_src s bs tail ->
  r_semi_constrained m lb s = Ok (v, src_adv s (bl bs) tail).
Proof.
  intros Hl Hv Hle Hx Hs. destruct (constrained_range lb v Hl Hv Hle) as [E Hr].
  unfold x_semi_constrained in Hx. destruct (Z.leb_spec lb v); [|lia]. injection Hx as <-.
  unfold r_semi_constrained. set (x := Z.to_N (v - lb)) in *.
  rewrite (r_nnbi_unbounded m x s tail Hr Hs). cbn [bind]. do 2 f_equal.
  unfold is_i64 in *. rewrite Ztwo63 in *.
  destruct (i64_of_u64_cases x Hr) as [E1|E1]; rewrite E1.
  - apply iwrap_shift with (k := 0%Z); [unfold is_i64; rewrite Ztwo63; lia|lia].
  - apply iwrap_shift with (k := (-1)%Z); [unfold is_i64; rewrite Ztwo63; lia|lia].
Qed.


Lemma x_constrained_N l u v :
  x_constrained (Z.of_N l) (Z.of_N u) (Z.of_N v) =
  if (l <=? v) && (v <=? u) then Some (field (nbits (u - l)) (v - l)) else None.
Proof.
  unfold x_constrained.
  destruct (Z.leb_spec (Z.of_N l) (Z.of_N v)); destruct (N.leb_spec l v); try lia; cbn [andb]; [|reflexivity].
  destruct (Z.leb_spec (Z.of_N v) (Z.of_N u)); destruct (N.leb_spec v u); try lia; [|reflexivity].
  do 3 f_equal; lia.
Qed.

Lemma nnbi_write m lb ub v :
  nn_bounded lb ub -> opt_or ub I64_MAX < two64 ->
  opt_or lb 0 <= v <= opt_or ub I64_MAX ->
  exists bs, w_nnbi m lb ub v = Ok bs /\
    x_constrained (Z.of_N (opt_or lb 0)) (Z.of_N (opt_or ub I64_MAX)) (Z.of_N v) = Some bs.
Proof.
  intros Hb Hu Hv. rewrite w_nnbi_bounded by assumption. rewrite x_constrained_N.
  destruct (N.leb_spec (opt_or lb 0) v); [|lia]. destruct (N.leb_spec v (opt_or ub I64_MAX)); [|lia].
  eauto.
Qed.

Lemma nnbi_read m lb ub v bs s tail :
  nn_bounded lb ub -> opt_or ub I64_MAX < two64 ->
  x_constrained (Z.of_N (opt_or lb 0)) (Z.of_N (opt_or ub I64_MAX)) (Z.of_N v) = Some bs ->
  at_src s bs tail ->
  r_nnbi m lb ub s = Ok (v, src_adv s (bl bs) tail).
Proof.
  intros Hb Hu Hx Hs. rewrite x_constrained_N in Hx.
  destruct (N.leb_spec (opt_or lb 0) v); [|discriminate]. destruct (N.leb_spec v (opt_or ub I64_MAX)); [|discriminate].
  injection Hx as <-. apply r_nnbi_bounded; auto.
Qed.

(** ** 2's complement *)
Lemma Zpow_N k : (2 ^ Z.of_N k)%Z = Z.of_N (2 ^ k).
Proof. rewrite N2Z.inj_pow. reflexivity. Qed.

Lemma pow2_pos k : 0 < 2 ^ k.
Proof. apply N.neq_0_lt_0, N.pow_nonzero. lia. Qed.

Lemma pow2_succ k : 0 < k -> 2 ^ k = 2 * 2 ^ (k - 1).
Proof. intros H. rewrite <- N.pow_succ_r'. f_equal. lia. Qed.

(* the bit pattern of [v] in [k] bits *)
Definition twos_bits (k : N) (v : Z) : bits := field k (Z.to_N (v mod 2 ^ Z.of_N k)).

Definition fits (k : N) (v : Z) : Prop := (- 2 ^ (Z.of_N k - 1) <= v < 2 ^ (Z.of_N k - 1))%Z.

Lemma fits_N k v : 0 < k -> fits k v <-> (- Z.of_N (2 ^ (k - 1)) <= v < Z.of_N (2 ^ (k - 1)))%Z.
Proof.
  intros Hk. unfold fits. replace (Z.of_N k - 1)%Z with (Z.of_N (k - 1)) by lia. rewrite Zpow_N. tauto.
Qed.

Lemma mod_pow_dvd x a b : a <= b -> (x mod 2 ^ b) mod 2 ^ a = x mod 2 ^ a.
Proof.
  intros H. replace b with (a + (b - a)) by lia. rewrite N.pow_add_r.
  rewrite N.mod_mul_r by (apply N.pow_nonzero; lia).
  rewrite (N.mul_comm (2 ^ a)), N.mod_add by (apply N.pow_nonzero; lia).
  apply N.mod_mod. apply N.pow_nonzero. lia.
Qed.

Lemma u64_mod_pow v k : k <= 64 ->
  u64_of_i64 v mod 2 ^ k = Z.to_N (v mod 2 ^ Z.of_N k).
Proof.
  intros Hk. unfold u64_of_i64. rewrite Zpow_N.
  assert (Hp := pow2_pos k). assert (Hp64 := pow2_pos 64).
  change two64 with (2 ^ 64).
  apply N2Z.inj. rewrite N2Z.inj_mod by lia.
  rewrite !Z2N.id by (apply Z.mod_pos_bound; lia).
  replace (2 ^ 64) with (2 ^ k * 2 ^ (64 - k)) by (rewrite <- N.pow_add_r; f_equal; lia).
  rewrite N2Z.inj_mul.
  assert (Hq := pow2_pos (64 - k)).
  rewrite Z.rem_mul_r by lia.
  rewrite (Z.mul_comm (Z.of_N (2 ^ k)) (_ mod _)), Z.mod_add by lia. apply Z.mod_mod. lia.
Qed.

Lemma twos_write m k v : 1 <= k <= 64 -> fits k v ->
  w_2s_compliment m k v = Ok (twos_bits k v).
Proof.
  intros Hk Hf. unfold w_2s_compliment.
  destruct (N.eqb_spec k 0); [lia|]. destruct (N.ltb_spec 64 k); [lia|]. cbn [orb].
  unfold fits in Hf.
  destruct (Z.leb_spec (- 2 ^ (Z.of_N k - 1)) v); [|lia].
  destruct (Z.ltb_spec v (2 ^ (Z.of_N k - 1))); [|lia]. cbn [andb negb].
  unfold w_bits_ol, bits64. rewrite bov_length.
  destruct (N.ltb_spec (N.of_nat 64) (64 - k + k)); [lia|].
  replace (N.to_nat (64 - k)) with (64 - N.to_nat k)%nat by lia.
  fold (bits64 (u64_of_i64 v)). rewrite skip_bits64 by lia.
  rewrite firstn_all2 by (rewrite bov_length; lia).
  unfold twos_bits, field. rewrite <- u64_mod_pow by lia.
  rewrite <- (bov_mod (N.to_nat k) (u64_of_i64 v)), N2Nat.id. reflexivity.
Qed.

Lemma twos_reject_len m k v : k = 0 \/ 64 < k -> w_2s_compliment m k v = Err E_BITLEN_RANGE.
Proof.
  intros H. unfold w_2s_compliment.
  destruct (N.eqb_spec k 0); destruct (N.ltb_spec 64 k); cbn [orb]; try reflexivity; lia.
Qed.

Lemma twos_reject_val m k v : 1 <= k <= 64 -> ~ fits k v -> w_2s_compliment m k v = Err E_VALUE_RANGE.
Proof.
  intros Hk Hf. unfold w_2s_compliment.
  destruct (N.eqb_spec k 0); [lia|]. destruct (N.ltb_spec 64 k); [lia|]. cbn [orb].
  unfold fits in Hf.
  destruct (Z.leb_spec (- 2 ^ (Z.of_N k - 1)) v); destruct (Z.ltb_spec v (2 ^ (Z.of_N k - 1)));
    cbn [andb negb]; try reflexivity; lia.
Qed.

Lemma hd_bov k x : hd false (bits_of_val (S k) x) = N.testbit x (N.of_nat k).
Proof. reflexivity. Qed.

Lemma twos_read k v s tail : 1 <= k <= 64 -> fits k v ->
  at_src s (twos_bits k v) tail ->
  r_2s_compliment k s = Ok (v, src_adv s k tail).
Proof.
  intros Hk Hf Hs. unfold r_2s_compliment.
  destruct (N.eqb_spec k 0); [lia|]. destruct (N.ltb_spec 64 k); [lia|]. cbn [orb].
  assert (Hbl : bl (twos_bits k v) = k) by apply field_length.
  rewrite (r_bits_into_ok _ _ _ 64 (64 - k) k Hs) by lia. cbn [bind].
  apply fits_N in Hf; [|lia].
  assert (Hp := pow2_pos (k - 1)). assert (E2 := pow2_succ k ltac:(lia)).
  unfold twos_bits in *. rewrite Zpow_N.
  set (y := Z.to_N (v mod Z.of_N (2 ^ k))).
  assert (Hy : Z.of_N y = (v mod Z.of_N (2 ^ k))%Z).
  { unfold y. rewrite Z2N.id; [reflexivity|]. apply Z.mod_pos_bound. lia. }
  assert (Hylt : y < 2 ^ k).
  { assert (0 <= v mod Z.of_N (2 ^ k) < Z.of_N (2 ^ k))%Z by (apply Z.mod_pos_bound; lia). lia. }
  unfold field. rewrite vob_bov_small by (rewrite N2Nat.id; exact Hylt).
  replace (N.to_nat k) with (S (N.to_nat (k - 1))) by lia.
  rewrite hd_bov, N2Nat.id.
  rewrite testbit_top by (replace (N.succ (k - 1)) with k by lia; exact Hylt).
  do 2 f_equal.
  destruct (Z_lt_le_dec v 0) as [Hneg|Hpos].
  - assert (v mod Z.of_N (2 ^ k) = v + Z.of_N (2 ^ k))%Z as Em.
    { symmetry. apply Z.mod_unique with (q := (-1)%Z); lia. }
    destruct (N.leb_spec (2 ^ (k - 1)) y); lia.
  - rewrite Z.mod_small in Hy by lia.
    destruct (N.leb_spec (2 ^ (k - 1)) y); lia.
Qed.


(** ** unconstrained length determinant (lb = ub = None) *)
Definition frag_of (v : N) : option N :=
  if v <? 16384 then None else Some (N.min (v / 16384) 4 * 16384).

Lemma byte_bits_field6 b : skipn 2 (byte_bits b) = field 6 b.
Proof. reflexivity. Qed.

Lemma w_len_unc m v : w_length_determinant m None None v = Ok (x_len_first v, frag_of v).
Proof.
  unfold w_length_determinant, x_len_first, x_len_short, frag_of, LENGTH_127, LENGTH_16K, LENGTH_64K, MAX_FRAGMENTS.
  cbn [is_some orb andb opt_or].
  destruct (N.leb_spec v 127) as [H1|H1].
  - rewrite w_nnbi_bounded; cbn [opt_or]; [|right; discriminate|unfold two64; lia|lia].
    cbn [bind]. rewrite !N.sub_0_r. destruct (N.ltb_spec v 16384); [|lia]. reflexivity.
  - destruct (N.ltb_spec v 16384) as [H2|H2].
    + rewrite w_nnbi_bounded; cbn [opt_or]; [|right; discriminate|unfold two64; lia|lia].
      cbn [bind]. rewrite !N.sub_0_r. reflexivity.
    + rewrite byte_bits_field6. reflexivity.
Qed.

Lemma r_len_unc_eq m s : r_length_determinant m None None s = r_length_determinant_unc s.
Proof. reflexivity. Qed.

(** ** unconstrained whole number *)
Lemma octets_of_size n : n < two63 ->
  let o := 8 - (64 - N.size n - 1) / 8 in
  o = N.max 1 ((nbits n + 1 + 7) / 8) /\ 1 <= o <= 8 /\ n < 2 ^ (8 * o - 1).
Proof.
  intros Hn o. assert (Hs : N.size n <= 63) by (apply size_le_of_lt; exact Hn).
  unfold nbits. subst o. split; [lia|]. split; [lia|].
  eapply N.lt_le_trans; [apply size_bound|]. apply N.pow_le_mono_r; lia.
Qed.

Lemma unconstrained_len v : is_i64 v ->
  let x := u64_of_i64 v in
  let lead := if (v <? 0)%Z then lo64 x else lz64 x in
  let o := 8 - (lead - 1) / 8 in
  o = twos_octets v /\ 1 <= o <= 8 /\ fits (8 * o) v.
Proof.
  intros Hv x lead o. unfold is_i64 in Hv. rewrite Ztwo63 in Hv.
  unfold twos_octets.
  destruct (Z.ltb_spec v 0) as [Hneg|Hpos]; destruct (Z.leb_spec 0 v); try lia.
  - assert (Ex : two64 - 1 - x = Z.to_N (- v - 1)).
    { unfold x. rewrite u64_of_i64_neg by (rewrite Ztwo64; lia). rewrite Ztwo64. unfold two64. lia. }
    set (n := Z.to_N (- v - 1)) in *.
    destruct (octets_of_size n ltac:(unfold two63; lia)) as (E & R & L).
    unfold o, lead, lo64. rewrite Ex. unfold lz64.
    split; [exact E|]. split; [exact R|].
    apply fits_N; [lia|].
    lia.
  - assert (Ex : x = Z.to_N v).
    { unfold x. apply u64_of_i64_nonneg. rewrite Ztwo64. lia. }
    set (n := Z.to_N v) in *.
    destruct (octets_of_size n ltac:(unfold two63; lia)) as (E & R & L).
    unfold o, lead. rewrite Ex. unfold lz64.
    split; [exact E|]. split; [exact R|].
    apply fits_N; [lia|]. lia.
Qed.

Lemma unconstrained_write m v : is_i64 v -> w_unconstrained m v = Ok (x_unconstrained v).
Proof.
  intros Hv. destruct (unconstrained_len v Hv) as (E & R & F). cbv zeta in E, R, F.
  unfold w_unconstrained, x_unconstrained.
  set (o := 8 - ((if (v <? 0)%Z then lo64 (u64_of_i64 v) else lz64 (u64_of_i64 v)) - 1) / 8) in *.
  rewrite w_len_unc. cbn [bind].
  rewrite (N.mul_comm o 8), twos_write by (auto; lia). cbn [bind].
  unfold x_len_first. destruct (N.ltb_spec o 16384); [|lia]. rewrite <- E. reflexivity.
Qed.

Lemma unconstrained_read m v s tail : is_i64 v ->
  at_src s (x_unconstrained v) tail ->
  r_unconstrained m s = Ok (v, src_adv s (bl (x_unconstrained v)) tail).
Proof.
  intros Hv Hs. destruct (unconstrained_len v Hv) as (E & R & F). cbv zeta in E, R, F.
  rewrite E in R, F. unfold x_unconstrained in *. set (o := twos_octets v) in *.
  rewrite x_len_short_small in * by lia.
  unfold r_unconstrained. rewrite r_len_unc_eq.
  apply at_src_split in Hs. destruct Hs as [H1 H2].
  assert (Hle : o <= 127) by lia.
  rewrite (r_len_unc_short _ _ _ Hle H1). cbn [bind].
  assert (B : bl (false :: field 7 o) = 8) by (rewrite bl_cons, field_length; lia).
  rewrite B in H2. rewrite (N.mul_comm o 8).
  rewrite (twos_read (8 * o) v _ tail) by (auto; lia).
  rewrite src_adv_adv, bl_app, B. unfold twos_field. rewrite field_length. reflexivity.
Qed.


(** ** enumeration / choice index *)
Lemma x_index_root std ext i : i < std ->
  x_index std ext i =
  Some ((if ext then [false] else []) ++ field (nbits (std - 1)) i).
Proof.
  intros H. unfold x_index. destruct (N.ltb_spec i std); [|lia].
  replace (Z.of_N std - 1)%Z with (Z.of_N (std - 1)) by lia.
  change 0%Z with (Z.of_N 0). rewrite x_constrained_N.
  destruct (N.leb_spec 0 i); [|lia]. destruct (N.leb_spec i (std - 1)); [|lia]. cbn [andb].
  rewrite !N.sub_0_r. destruct ext; reflexivity.
Qed.

Lemma x_index_ext std i : std <= i ->
  x_index std true i = Some (true :: x_normally_small (i - std)).
Proof. intros H. unfold x_index. destruct (N.ltb_spec i std); [lia|]. reflexivity. Qed.

Lemma x_index_none std ext i : x_index std ext i = None <-> std <= i /\ ext = false.
Proof.
  destruct (N.lt_ge_cases i std) as [H|H].
  - rewrite x_index_root by exact H. split; [discriminate|lia].
  - destruct ext; [rewrite x_index_ext by exact H; split; [discriminate|intros [_ ?]; discriminate]|].
    unfold x_index. destruct (N.ltb_spec i std); [lia|]. tauto.
Qed.

Lemma index_write m std ext i bs : std < two64 -> i < two64 ->
  x_index std ext i = Some bs -> w_enumeration_index m std ext i = Ok bs.
Proof.
  intros Hs Hi Hx. unfold w_enumeration_index.
  destruct (N.leb_spec std i) as [Ho|Hin].
  - destruct ext; [|rewrite (proj2 (x_index_none std false i)) in Hx by auto; discriminate].
    rewrite x_index_ext in Hx by exact Ho. injection Hx as <-.
    rewrite usub_ok by exact Ho. cbn [bind].
    rewrite normally_small_write by lia. reflexivity.
  - rewrite x_index_root in Hx by exact Hin. injection Hx as <-.
    rewrite usub_ok by lia. cbn [bind].
    rewrite w_nnbi_bounded; cbn [opt_or]; [|right; discriminate|lia|lia].
    cbn [bind]. rewrite !N.sub_0_r. reflexivity.
Qed.

Lemma index_reject m std ext i :
  x_index std ext i = None -> w_enumeration_index m std ext i = Err E_INVALID_CHOICE.
Proof.
  intros Hx. apply x_index_none in Hx. destruct Hx as [Ho ->]. unfold w_enumeration_index.
  destruct (N.leb_spec std i); [reflexivity|lia].
Qed.

Lemma index_read m std ext i bs s tail : std < two64 -> i < two64 ->
  x_index std ext i = Some bs -> at_src s bs tail ->
  r_enumeration_index m std ext s = Ok (i, src_adv s (bl bs) tail).
Proof.
  intros Hs Hi Hx Hsrc. unfold r_enumeration_index.
  destruct (N.lt_ge_cases i std) as [Hin|Ho].
  - rewrite x_index_root in Hx by exact Hin. injection Hx as <-.
    assert (Small : forall s', at_src s' (field (nbits (std - 1)) i) tail ->
       (if std =? 0 then Err E_INVALID_CHOICE else r_nnbi m None (Some (std - 1)) s')
       = Ok (i, src_adv s' (bl (field (nbits (std - 1)) i)) tail)).
    { intros s' H'. destruct (N.eqb_spec std 0); [lia|].
      rewrite (r_nnbi_bounded m None (Some (std - 1)) i s' tail); cbn [opt_or]; rewrite ?N.sub_0_r;
        [reflexivity|right; discriminate|lia|lia|exact H']. }
    destruct ext; cbn [app] in *.
    + apply at_src_cons in Hsrc. destruct Hsrc as [H1 H2].
      rewrite (r_bit_ok _ _ _ H1). cbn [bind]. rewrite (Small _ H2), src_adv_adv, bl_cons. reflexivity.
    + apply Small, Hsrc.
  - destruct ext; [|rewrite (proj2 (x_index_none std false i)) in Hx by auto; discriminate].
    rewrite x_index_ext in Hx by exact Ho. injection Hx as <-.
    apply at_src_cons in Hsrc. destruct Hsrc as [H1 H2].
    rewrite (r_bit_ok _ _ _ H1). cbn [bind].
    rewrite (normally_small_read m (i - std) _ tail ltac:(lia) H2). cbn [bind].
    destruct (N.ltb_spec (i - std + std) two64) as [Hlt|Hge]; [|lia].
    rewrite src_adv_adv, bl_cons. do 3 f_equal. lia.
Qed.

Lemma index_read_empty m s : r_enumeration_index m 0 false s = Err E_INVALID_CHOICE.
Proof. reflexivity. Qed.


(** ** length determinant *)
(* F10-1: a lower bound without an upper bound, or an upper bound of 64K or more: the code
   uses a 63/17..-bit constrained form (and handles the lower bound twice) where X.691 11.9.4.2
   prescribes the unconstrained form *)
Definition Known_C10_length_semi_or_large_bound (lb ub : option N) : Prop :=
  match ub with Some u => 65536 <= u | None => lb <> None end.

Lemma known_length_branch lb ub :
  (is_some lb || is_some ub) && (LENGTH_64K <=? opt_or ub I64_MAX) = true
  <-> Known_C10_length_semi_or_large_bound lb ub.
Proof.
  unfold Known_C10_length_semi_or_large_bound, LENGTH_64K.
  destruct lb as [l|], ub as [u|]; cbn [is_some orb andb opt_or].
  - apply N.leb_le.
  - split; [discriminate|reflexivity].
  - apply N.leb_le.
  - split; [discriminate|congruence].
Qed.

Lemma not_known_cases lb ub : ~ Known_C10_length_semi_or_large_bound lb ub ->
  (exists u, ub = Some u /\ u < 65536) \/ (lb = None /\ ub = None).
Proof.
  unfold Known_C10_length_semi_or_large_bound. destruct ub as [u|].
  - intros H. left. exists u. split; [reflexivity|lia].
  - intros H. right. destruct lb; [exfalso; apply H; discriminate|auto].
Qed.

Definition len_frag (ub : option N) (v : N) : option N :=
  match ub with Some _ => None | None => frag_of v end.
(* what the reader reports: the count, or the size of the first fragment *)
Definition len_result (ub : option N) (v : N) : N :=
  match len_frag ub v with Some f => f | None => v end.

Lemma w_len_constrained m lb u v : u < 65536 ->
  w_length_determinant m lb (Some u) v = let! b := w_nnbi m lb (Some u) v in Ok (b, None).
Proof.
  intros Hu. unfold w_length_determinant, LENGTH_64K. cbn [opt_or is_some].
  rewrite orb_true_r. cbn [andb].
  destruct (N.leb_spec 65536 u); [lia|]. destruct (N.leb_spec u 65536); [|lia]. reflexivity.
Qed.

Lemma r_len_constrained m lb u s : u < 65536 ->
  r_length_determinant m lb (Some u) s = r_nnbi m lb (Some u) s.
Proof.
  intros Hu. unfold r_length_determinant, LENGTH_64K. cbn [opt_or is_some].
  rewrite orb_true_r. cbn [andb].
  destruct (N.leb_spec 65536 u); [lia|]. destruct (N.leb_spec u 65536); [|lia]. reflexivity.
Qed.

Lemma x_length_constrained lb u v : u < 65536 ->
  x_length lb (Some u) v =
  x_constrained (Z.of_N (opt_or lb 0)) (Z.of_N (opt_or (Some u) I64_MAX)) (Z.of_N v).
Proof.
  intros Hu. unfold x_length. destruct (N.ltb_spec u 65536); [|lia]. destruct lb; reflexivity.
Qed.

Lemma length_write m lb ub v bs : ~ Known_C10_length_semi_or_large_bound lb ub ->
  x_length lb ub v = Some bs ->
  w_length_determinant m lb ub v = Ok (bs, len_frag ub v).
Proof.
  intros Hk Hx. destruct (not_known_cases lb ub Hk) as [(u & -> & Hu)|[-> ->]].
  - rewrite w_len_constrained by exact Hu. rewrite x_length_constrained in Hx by exact Hu.
    assert (Hb : nn_bounded lb (Some u)) by (right; discriminate).
    assert (Hu64 : opt_or (Some u) I64_MAX < two64) by (cbn [opt_or]; unfold two64; lia).
    pose proof Hx as Hx'. rewrite x_constrained_N in Hx'.
    destruct (N.leb_spec (opt_or lb 0) v); [|discriminate].
    destruct (N.leb_spec v (opt_or (Some u) I64_MAX)); [|discriminate].
    destruct (nnbi_write m lb (Some u) v Hb Hu64 ltac:(lia)) as (bs' & Ew & Ex).
    rewrite Ew. cbn [bind len_frag]. rewrite Hx in Ex. injection Ex as E1. subst bs'. reflexivity.
  - rewrite w_len_unc. unfold x_length in Hx. destruct (N.leb_spec 0 v); [|lia]. injection Hx as E1. subst bs. reflexivity.
Qed.

Lemma length_reject m lb ub v : ~ Known_C10_length_semi_or_large_bound lb ub ->
  x_length lb ub v = None -> w_length_determinant m lb ub v = Err E_VALUE_RANGE.
Proof.
  intros Hk Hx. destruct (not_known_cases lb ub Hk) as [(u & -> & Hu)|[-> ->]].
  - rewrite w_len_constrained by exact Hu. rewrite x_length_constrained in Hx by exact Hu.
    rewrite x_constrained_N in Hx. rewrite w_nnbi_reject; [reflexivity|right; discriminate|].
    destruct (N.leb_spec (opt_or lb 0) v); [|lia].
    destruct (N.leb_spec v (opt_or (Some u) I64_MAX)); [discriminate|lia].
  - unfold x_length in Hx. destruct (N.leb_spec 0 v); [discriminate|lia].
Qed.

Lemma r_len_unc_mid s n tail : 127 < n < 16384 ->
  at_src s (true :: false :: field 14 n) tail ->
  r_length_determinant_unc s = Ok (n, src_adv s 16 tail).
Proof.
  intros Hn Hs. unfold r_length_determinant_unc.
  apply at_src_cons in Hs. destruct Hs as [H1 H2].
  rewrite (r_bit_ok _ _ _ H1). cbn [bind negb].
  apply at_src_cons in H2. destruct H2 as [H2 H3].
  rewrite (r_bit_ok _ _ _ H2). cbn [bind negb].
  rewrite (r_bits_into_ok _ _ _ 64 50 14 H3) by (try rewrite field_length; lia).
  cbn [bind]. rewrite !src_adv_adv. unfold field. rewrite vob_bov_small by (cbn; lia). reflexivity.
Qed.

Lemma r_len_unc_big s k tail : k <= 4 ->
  at_src s (true :: true :: field 6 k) tail ->
  r_length_determinant_unc s = Ok (16384 * k, src_adv s 8 tail).
Proof.
  intros Hn Hs. unfold r_length_determinant_unc.
  apply at_src_cons in Hs. destruct Hs as [H1 H2].
  rewrite (r_bit_ok _ _ _ H1). cbn [bind negb].
  apply at_src_cons in H2. destruct H2 as [H2 H3].
  rewrite (r_bit_ok _ _ _ H2). cbn [bind negb].
  rewrite (r_bits_into_ok _ _ _ 8 2 6 H3) by (try rewrite field_length; lia).
  cbn [bind]. rewrite !src_adv_adv. unfold field. rewrite vob_bov_small by (cbn; lia).
  unfold LENGTH_16K, MAX_FRAGMENTS. do 2 f_equal. lia.
Qed.

Lemma r_len_unc_first s v tail :
  at_src s (x_len_first v) tail ->
  r_length_determinant_unc s = Ok (len_result None v, src_adv s (bl (x_len_first v)) tail).
Proof.
  unfold x_len_first, len_result, len_frag, frag_of, x_len_short.
  destruct (N.ltb_spec v 16384) as [H16|H16].
  - destruct (N.leb_spec v 127) as [H7|H7]; intros Hs.
    + rewrite (r_len_unc_short _ _ _ H7 Hs). rewrite bl_cons, field_length. reflexivity.
    + rewrite (r_len_unc_mid _ v _ ltac:(lia) Hs). rewrite !bl_cons, field_length. reflexivity.
  - intros Hs. rewrite (r_len_unc_big _ (N.min (v / 16384) 4) _ ltac:(lia) Hs). rewrite !bl_cons, field_length.
    do 2 f_equal. lia.
Qed.

Lemma length_read m lb ub v bs s tail : ~ Known_C10_length_semi_or_large_bound lb ub ->
  x_length lb ub v = Some bs -> at_src s bs tail ->
  r_length_determinant m lb ub s = Ok (len_result ub v, src_adv s (bl bs) tail).
Proof.
  intros Hk Hx Hs. destruct (not_known_cases lb ub Hk) as [(u & -> & Hu)|[-> ->]].
  - rewrite r_len_constrained by exact Hu. rewrite x_length_constrained in Hx by exact Hu.
    apply nnbi_read; auto; [right; discriminate|cbn [opt_or]; unfold two64; lia].
  - rewrite r_len_unc_eq. unfold x_length in Hx. destruct (N.leb_spec 0 v); [|lia]. injection Hx as E1. subst bs. apply r_len_unc_first, Hs.
Qed.

Lemma refuted_length_semi_or_large_bound :
  exists m lb ub v bs, Known_C10_length_semi_or_large_bound lb ub /\
    x_length lb ub v = Some bs /\ w_length_determinant m lb ub v <> Ok (bs, None)
    /\ is_ok (w_length_determinant m lb ub v) = true.
Proof.
  exists dev_mode, (Some 1), None, 3, (x_len_first 3).
  split; [discriminate|]. split; [reflexivity|]. split; [vm_compute; discriminate|reflexivity].
Qed.

Lemma refuted_length_large_bound :
  exists m lb ub v bs, Known_C10_length_semi_or_large_bound lb ub /\ lb = None /\
    x_length lb ub v = Some bs /\ w_length_determinant m lb ub v <> Ok (bs, None)
    /\ is_ok (w_length_determinant m lb ub v) = true.
Proof.
  exists release_mode, None, (Some 65536), 3, (x_len_first 3).
  split; [cbn; lia|]. split; [reflexivity|]. split; [reflexivity|]. split; [vm_compute; discriminate|reflexivity].
Qed.


(** ** fragmentation *)
Lemma x_frag_fuel unit : forall f1 f2 n body,
  n / 16384 < N.of_nat f1 -> n / 16384 < N.of_nat f2 ->
  x_frag f1 unit n body = x_frag f2 unit n body.
Proof.
  induction f1 as [|f1 IH]; intros f2 n body H1 H2; [lia|].
  destruct f2 as [|f2]; [lia|]. cbn [x_frag].
  destruct (N.ltb_spec n 16384) as [Hs|Hb]; [reflexivity|].
  do 4 f_equal. apply IH; lia.
Qed.

Lemma w_bits_ol_ok srcb off len : off + len <= bl srcb ->
  w_bits_ol srcb off len = Ok (firstn (N.to_nat len) (skipn (N.to_nat off) srcb)).
Proof. intros H. unfold w_bits_ol. fold (bl srcb). destruct (N.ltb_spec (bl srcb) (off + len)); [lia|reflexivity]. Qed.

Lemma firstn_skipn_all {A} (l : list A) a b : (a + b = length l)%nat -> firstn b (skipn a l) = skipn a l.
Proof. intros H. apply firstn_all2. rewrite skipn_length. lia. Qed.

Lemma skipn_skipn' {A} b : forall a (l : list A), skipn a (skipn b l) = skipn (b + a) l.
Proof.
  induction b as [|b IH]; intros a l; [reflexivity|].
  destruct l as [|x l]; [destruct a; reflexivity|]. cbn [plus skipn]. apply IH.
Qed.

Lemma x_len_first_short n : n < 16384 -> x_len_first n = x_len_short n.
Proof. intros H. unfold x_len_first. destruct (N.ltb_spec n 16384); [reflexivity|lia]. Qed.
Lemma x_len_first_big n : 16384 <= n -> x_len_first n = true :: true :: field 6 (N.min (n / 16384) 4).
Proof. intros H. unfold x_len_first. destruct (N.ltb_spec n 16384); [lia|reflexivity]. Qed.
Lemma frag_of_short n : n < 16384 -> frag_of n = None.
Proof. intros H. unfold frag_of. destruct (N.ltb_spec n 16384); [reflexivity|lia]. Qed.
Lemma frag_of_big n : 16384 <= n -> frag_of n = Some (N.min (n / 16384) 4 * 16384).
Proof. intros H. unfold frag_of. destruct (N.ltb_spec n 16384); [lia|reflexivity]. Qed.

Lemma octet_loop_spec m srcb length : bl srcb = 8 * length ->
  forall fuel written, written <= length -> (length - written) / 16384 < N.of_nat fuel ->
  w_octet_frag_loop fuel m srcb length written =
  Ok (x_frag fuel 8 (length - written) (skipn (N.to_nat (8 * written)) srcb)).
Proof.
  intros Hlen. induction fuel as [|f IH]; intros written Hw Hf; [lia|].
  cbn [w_octet_frag_loop x_frag]. rewrite w_len_unc. cbn [bind].
  set (rem := length - written) in *. unfold MIN_FRAGMENT_SIZE.
  destruct (N.ltb_spec rem 16384) as [Hs|Hb].
  - rewrite frag_of_short, x_len_first_short by exact Hs. cbn [opt_or].
    rewrite w_bits_ol_ok by lia. cbn [bind].
    destruct (N.ltb_spec rem 16384); [|lia].
    rewrite firstn_skipn_all by (unfold bl in Hlen; lia). reflexivity.
  - rewrite frag_of_big, x_len_first_big by exact Hb. cbn [opt_or].
    set (k := N.min (rem / 16384) 4). set (cnt := k * 16384).
    assert (Hc : 16384 <= cnt <= rem) by lia.
    rewrite w_bits_ol_ok by lia. cbn [bind].
    destruct (N.ltb_spec cnt 16384); [lia|].
    rewrite IH by lia. cbn [bind app].
    rewrite skipn_skipn'.
    replace (cnt * 8) with (8 * cnt) by lia.
    replace (rem - cnt) with (length - (written + cnt)) by lia.
    replace (N.to_nat (8 * written) + N.to_nat (8 * cnt))%nat with (N.to_nat (8 * (written + cnt))) by lia.
    reflexivity.
Qed.

(* the continuation of write_octetstring after the first length determinant *)
Definition octet_cont (m : mode) (pre srcb : bits) (length : N) (hb : bits) (fs : option N) : res bits :=
  let first := opt_or fs length in
  if length <? first then Panic P_SLICE_RANGE else
  let! body := w_bits_ol srcb 0 (8 * first) in
  match fs with
  | None => Ok (pre ++ hb ++ body)
  | Some written =>
      let! more := w_octet_frag_loop (S (N.to_nat (length / MIN_FRAGMENT_SIZE) + 1)) m srcb length written in
      Ok (pre ++ hb ++ body ++ more)
  end.

Lemma w_octetstring_eq m lb ub extensible srcbytes :
  w_octetstring m lb ub extensible srcbytes =
  (let lower := opt_or lb 0 in
   let upper := opt_or ub I64_MAX in
   let length := blen srcbytes in
   let srcb := bits_of_bytes srcbytes in
   let out_of_range := (length <? lower) || (upper <? length) in
   let pre := if extensible then [out_of_range] else [] in
   if out_of_range then
     if extensible then
       let! (hb, fs) := w_length_determinant m None None length in octet_cont m pre srcb length hb fs
     else Err E_SIZE_RANGE
   else if upper =? 0 then Ok pre
   else if is_some lb && opt_n_eqb lb ub && (upper <? LENGTH_64K) then octet_cont m pre srcb length [] None
   else let! (hb, fs) := w_length_determinant m lb ub length in octet_cont m pre srcb length hb fs).
Proof. reflexivity. Qed.

Lemma octet_cont_none m pre srcb n hb : bl srcb = 8 * n ->
  octet_cont m pre srcb n hb None = Ok (pre ++ hb ++ srcb).
Proof.
  intros Hl. unfold octet_cont. cbn [opt_or]. rewrite N.ltb_irrefl.
  rewrite w_bits_ol_ok by lia. cbn [bind skipn N.to_nat].
  rewrite firstn_all2 by (unfold bl in Hl; lia). reflexivity.
Qed.

Lemma octet_cont_unc m pre srcb n : bl srcb = 8 * n ->
  octet_cont m pre srcb n (x_len_first n) (frag_of n) =
  Ok (pre ++ x_unconstrained_length_run 8 n srcb).
Proof.
  intros Hl. unfold x_unconstrained_length_run. cbn [x_frag].
  destruct (N.ltb_spec n 16384) as [Hs|Hb].
  - rewrite frag_of_short, x_len_first_short by exact Hs. apply octet_cont_none, Hl.
  - rewrite frag_of_big, x_len_first_big by exact Hb.
    set (k := N.min (n / 16384) 4). set (cnt := k * 16384).
    assert (Hc : 16384 <= cnt <= n) by lia.
    unfold octet_cont. cbn [opt_or]. destruct (N.ltb_spec n cnt); [lia|].
    rewrite w_bits_ol_ok by lia. cbn [bind skipn N.to_nat].
    unfold MIN_FRAGMENT_SIZE.
    rewrite (octet_loop_spec m srcb n Hl) by lia. cbn [bind app].
    replace (cnt * 8) with (8 * cnt) by lia.
    rewrite (x_frag_fuel 8 _ (N.to_nat (n / 16384))) by lia.
    reflexivity.
Qed.

(** ** OCTET STRING *)
(* the sizes for which the length determinant of a sized run is in the F10-1 class *)
Definition Known_C10_sized_length (lb ub : option N) (n : N) : Prop :=
  Known_C10_length_semi_or_large_bound lb ub /\ opt_or lb 0 <= n <= opt_or ub I64_MAX.

Lemma x_sized_run_eq unit lb ub extensible n body :
  x_sized_run unit lb ub extensible n body =
  (let l := opt_or lb 0 in
   let in_root := (l <=? n) && (match ub with Some u => n <=? u | None => true end) in
   if in_root then
     let pre := if extensible then [false] else [] in
     match ub with
     | Some u =>
        if u =? 0 then Some pre
        else if (l =? u) && (u <? 65536) then Some (pre ++ body)
        else if u <? 65536 then
          match x_constrained (Z.of_N l) (Z.of_N u) (Z.of_N n) with
          | Some lenb => Some (pre ++ lenb ++ body)
          | None => None
          end
        else Some (pre ++ x_unconstrained_length_run unit n body)
     | None => Some (pre ++ x_unconstrained_length_run unit n body)
     end
   else if extensible then Some (true :: x_unconstrained_length_run unit n body)
   else None).
Proof. destruct lb; reflexivity. Qed.

Lemma bits_len8 l : bl (bits_of_bytes l) = 8 * blen l.
Proof.
  unfold bl, blen, bits_of_bytes. induction l as [|b l IH]; [reflexivity|].
  cbn [flat_map]. rewrite app_length. cbn [length byte_bits]. lia.
Qed.

Lemma octetstring_write m lb ub extensible bytes :
  blen bytes < two63 -> ~ Known_C10_sized_length lb ub (blen bytes) ->
  w_octetstring m lb ub extensible bytes =
  match x_octetstring lb ub extensible bytes with Some bs => Ok bs | None => Err E_SIZE_RANGE end.
Proof.
  intros Hn Hk. rewrite w_octetstring_eq. unfold x_octetstring. rewrite x_sized_run_eq. cbv zeta.
  fold (blen bytes). set (n := blen bytes) in *. set (srcb := bits_of_bytes bytes).
  assert (Hl : bl srcb = 8 * n) by apply bits_len8.
  set (lower := opt_or lb 0). set (upper := opt_or ub I64_MAX).
  assert (Hup : (match ub with Some u => n <=? u | None => true end) = (n <=? upper)).
  { unfold upper. destruct ub as [u|]; cbn [opt_or]; [reflexivity|].
    symmetry. apply N.leb_le. unfold I64_MAX. lia. }
  rewrite Hup.
  destruct (N.ltb_spec n lower) as [Hlo|Hlo]; destruct (N.leb_spec lower n) as [Hlo'|Hlo']; try lia; cbn [orb andb].
  { destruct extensible; [|reflexivity]. rewrite w_len_unc. cbn [bind]. apply octet_cont_unc, Hl. }
  destruct (N.ltb_spec upper n) as [Hhi|Hhi]; destruct (N.leb_spec n upper) as [Hhi'|Hhi']; try lia.
  { destruct extensible; [|reflexivity]. rewrite w_len_unc. cbn [bind]. apply octet_cont_unc, Hl. }
  set (pre := if extensible then [false] else []).
  assert (Hnk : ~ Known_C10_length_semi_or_large_bound lb ub).
  { intros K. apply Hk. split; [exact K|]. fold lower upper. lia. }
  destruct (not_known_cases lb ub Hnk) as [(u & Eu & Hu)|[El Eu]].
  - subst ub. cbn [opt_or] in upper. subst upper.
    destruct (N.eqb_spec u 0) as [H0|H0]; [reflexivity|].
    unfold LENGTH_64K. destruct (N.ltb_spec u 65536); [|lia]. rewrite andb_true_r.
    assert (Efix : is_some lb && opt_n_eqb lb (Some u) = (lower =? u)).
    { unfold lower. destruct lb as [l|]; cbn [is_some opt_n_eqb opt_or andb]; [reflexivity|].
      symmetry. apply N.eqb_neq. lia. }
    rewrite Efix. destruct (N.eqb_spec lower u) as [Hfx|Hfx].
    + rewrite octet_cont_none by exact Hl. reflexivity.
    + assert (Hx : x_length lb (Some u) n =
                   x_constrained (Z.of_N lower) (Z.of_N u) (Z.of_N n)) by (apply x_length_constrained; lia).
      destruct (x_constrained (Z.of_N lower) (Z.of_N u) (Z.of_N n)) as [lenb|] eqn:Ec.
      * rewrite (length_write m lb (Some u) n lenb Hnk Hx). cbn [bind len_frag].
        apply octet_cont_none, Hl.
      * rewrite x_constrained_N in Ec.
        destruct (N.leb_spec lower n); [|lia]. destruct (N.leb_spec n u); [discriminate|lia].
  - subst lb ub. cbn [opt_or is_some andb] in *.
    destruct (N.eqb_spec upper 0) as [H0|H0]; [unfold upper, I64_MAX in H0; cbn in H0; lia|].
    rewrite w_len_unc. cbn [bind]. apply octet_cont_unc, Hl.
Qed.


Lemma octetstring_reject m lb ub bytes :
  blen bytes < opt_or lb 0 \/ opt_or ub I64_MAX < blen bytes ->
  w_octetstring m lb ub false bytes = Err E_SIZE_RANGE.
Proof.
  intros H. rewrite w_octetstring_eq. cbv zeta.
  destruct (N.ltb_spec (blen bytes) (opt_or lb 0)); destruct (N.ltb_spec (opt_or ub I64_MAX) (blen bytes));
    cbn [orb]; try reflexivity; lia.
Qed.

(** ** OCTET STRING reader *)
Lemma alloc_ok n : n <= ALLOC_LIMIT -> alloc n = Ok tt.
Proof.
  intros H. unfold alloc. unfold ALLOC_LIMIT in *.
  destruct (N.ltb_spec I64_MAX n) as [L|L]; [unfold I64_MAX, two63 in L; lia|].
  destruct (N.ltb_spec 4294967296 n); [lia|reflexivity].
Qed.

Lemma x_frag_len_ge unit : forall f n body, n / 16384 < N.of_nat f ->
  n / 16384 <= bl (x_frag f unit n body).
Proof.
  induction f as [|f IH]; intros n body Hf; [lia|]. cbn [x_frag].
  destruct (N.ltb_spec n 16384) as [Hs|Hb]; [lia|].
  rewrite !bl_cons, !bl_app, field_length.
  set (cnt := N.min (n / 16384) 4 * 16384).
  assert (Hc : 16384 <= cnt <= n /\ cnt <= 65536) by lia.
  assert (Hf' : (n - cnt) / 16384 < N.of_nat f) by lia.
  specialize (IH (n - cnt) (skipn (N.to_nat (cnt * unit)) body) Hf'). lia.
Qed.

Lemma bl_firstn (l : bits) k : k <= bl l -> bl (firstn (N.to_nat k) l) = k.
Proof. unfold bl. intros H. rewrite firstn_length. lia. Qed.
Lemma bl_skipn (l : bits) k : bl (skipn (N.to_nat k) l) = bl l - k.
Proof. unfold bl. rewrite skipn_length. lia. Qed.

Lemma r_octet_loop_spec m : forall fuel fx n body s acc tail,
  bl body = 8 * n -> n / 16384 < N.of_nat fuel -> n / 16384 < N.of_nat fx ->
  at_src s (x_frag fx 8 n body) tail ->
  r_octet_frag_loop fuel m s acc = Ok (acc ++ body, src_adv s (bl (x_frag fx 8 n body)) tail).
Proof.
  induction fuel as [|fuel IH]; intros fx n body s acc tail Hl Hf Hfx Hs; [lia|].
  destruct fx as [|fx]; [lia|]. cbn [r_octet_frag_loop x_frag] in *. rewrite r_len_unc_eq.
  revert Hs. destruct (N.ltb_spec n 16384) as [Hsm|Hbg]; intros Hs.
  - rewrite <- (x_len_first_short n Hsm) in Hs |- *.
    apply at_src_split in Hs. destruct Hs as [H1 H2].
    rewrite (r_len_unc_first _ _ _ H1). cbn [bind].
    unfold len_result, len_frag. rewrite frag_of_short by exact Hsm.
    rewrite alloc_ok by (unfold ALLOC_LIMIT; lia). cbn [bind].
    rewrite (r_bits_ok _ _ _ _ H2) by lia. cbn [bind]. unfold LENGTH_16K.
    destruct (N.ltb_spec n 16384); [|lia]. rewrite src_adv_adv, bl_app, Hl. reflexivity.
  - set (k := N.min (n / 16384) 4) in *. set (cnt := k * 16384) in *.
    assert (Hc : 16384 <= cnt <= n /\ cnt <= 65536) by lia.
    change (true :: true :: field 6 k ++ ?a ++ ?b) with ((true :: true :: field 6 k) ++ a ++ b) in *.
    unfold k in Hs |- *. rewrite <- (x_len_first_big n Hbg) in Hs |- *. fold k in Hs |- *. fold cnt in Hs |- *.
    apply at_src_split in Hs. destruct Hs as [H1 H2].
    apply at_src_split in H2. destruct H2 as [H2 H3].
    rewrite (r_len_unc_first _ _ _ H1). cbn [bind].
    unfold len_result, len_frag. rewrite frag_of_big by exact Hbg. fold k cnt.
    rewrite alloc_ok by (unfold ALLOC_LIMIT; lia). cbn [bind].
    assert (Hfl : bl (firstn (N.to_nat (cnt * 8)) body) = 8 * cnt) by (rewrite bl_firstn; lia).
    rewrite (r_bits_ok _ _ _ _ H2) by lia. cbn [bind]. unfold LENGTH_16K.
    destruct (N.ltb_spec cnt 16384); [lia|].
    rewrite src_adv_adv in H3 |- *. rewrite Hfl in H3.
    rewrite (IH fx (n - cnt) (skipn (N.to_nat (cnt * 8)) body) _ _ tail); [| |lia|lia|exact H3].
    + rewrite src_adv_adv, <- app_assoc, firstn_skipn, !bl_app. do 3 f_equal. lia.
    + rewrite bl_skipn. lia.
Qed.

Definition octet_rbody (m : mode) (byte_len : N) (frag : bool) (s : src) : res (bits * src) :=
  let! _ := alloc byte_len in
  let! (bs, s) := r_bits s (8 * byte_len) in
  if frag && (LENGTH_16K <=? byte_len) then
    r_octet_frag_loop (S (N.to_nat (s_len s - s_pos s))) m s bs
  else Ok (bs, s).

Lemma r_octetstring_eq m lb ub extensible s :
  r_octetstring m lb ub extensible s =
  (let upper := opt_or ub I64_MAX in
   let rest (s : src) :=
    if upper =? 0 then Ok ([], s)
    else if is_some lb && opt_n_eqb lb ub && (upper <? LENGTH_64K) then octet_rbody m upper false s
    else let! (l, s) := r_length_determinant m lb ub s in octet_rbody m l (negb (is_some lb) && negb (is_some ub)) s in
   if extensible then
    let! (ext, s) := r_bit s in
    if ext then let! (l, s) := r_length_determinant m None None s in octet_rbody m l true s
    else rest s
   else rest s).
Proof. reflexivity. Qed.

Lemma octet_rbody_plain m n frag s body tail :
  bl body = 8 * n -> n <= ALLOC_LIMIT -> frag = false \/ n < 16384 ->
  at_src s body tail ->
  octet_rbody m n frag s = Ok (body, src_adv s (8 * n) tail).
Proof.
  intros Hl Ha Hfr Hs. unfold octet_rbody. rewrite alloc_ok by exact Ha. cbn [bind].
  rewrite (r_bits_ok _ _ _ _ Hs) by lia. cbn [bind]. unfold LENGTH_16K.
  destruct Hfr as [->|Hn]; [reflexivity|].
  destruct (N.leb_spec 16384 n); [lia|]. rewrite andb_false_r. reflexivity.
Qed.

Lemma r_octet_unc m s n body tail : bl body = 8 * n -> n <= ALLOC_LIMIT ->
  at_src s (x_unconstrained_length_run 8 n body) tail ->
  (let! (l, s) := r_length_determinant m None None s in octet_rbody m l true s)
  = Ok (body, src_adv s (bl (x_unconstrained_length_run 8 n body)) tail).
Proof.
  intros Hl Ha. unfold x_unconstrained_length_run. cbn [x_frag]. rewrite r_len_unc_eq.
  destruct (N.ltb_spec n 16384) as [Hsm|Hbg]; intros Hs.
  - rewrite <- (x_len_first_short n Hsm) in Hs |- *.
    apply at_src_split in Hs. destruct Hs as [H1 H2].
    rewrite (r_len_unc_first _ _ _ H1). cbn [bind].
    unfold len_result, len_frag. rewrite frag_of_short by exact Hsm.
    rewrite (octet_rbody_plain m n true _ body tail) by (auto; lia).
    rewrite src_adv_adv, bl_app, Hl. reflexivity.
  - set (k := N.min (n / 16384) 4) in *. set (cnt := k * 16384) in *.
    assert (Hc : 16384 <= cnt <= n /\ cnt <= 65536) by lia.
    change (true :: true :: field 6 k ++ ?a ++ ?b) with ((true :: true :: field 6 k) ++ a ++ b) in *.
    unfold k in Hs |- *. rewrite <- (x_len_first_big n Hbg) in Hs |- *. fold k in Hs |- *. fold cnt in Hs |- *.
    apply at_src_split in Hs. destruct Hs as [H1 H2].
    apply at_src_split in H2. destruct H2 as [H2 H3].
    rewrite (r_len_unc_first _ _ _ H1). cbn [bind].
    unfold len_result, len_frag. rewrite frag_of_big by exact Hbg. fold k cnt.
    unfold octet_rbody. rewrite alloc_ok by (unfold ALLOC_LIMIT; lia). cbn [bind].
    assert (Hfl : bl (firstn (N.to_nat (cnt * 8)) body) = 8 * cnt) by (rewrite bl_firstn; lia).
    rewrite (r_bits_ok _ _ _ _ H2) by lia. cbn [bind andb]. unfold LENGTH_16K.
    destruct (N.leb_spec 16384 cnt); [|lia].
    rewrite src_adv_adv in H3 |- *. rewrite Hfl in H3.
    match type of H3 with at_src ?s3' _ _ => set (s3 := s3') in * end.
    assert (Hfu : (n - cnt) / 16384 < N.of_nat (N.to_nat (n / 16384))) by lia.
    pose proof (x_frag_len_ge 8 _ _ (skipn (N.to_nat (cnt * 8)) body) Hfu) as Hge.
    destruct H3 as (E3 & L3 & T3).
    rewrite (r_octet_loop_spec m _ (N.to_nat (n / 16384)) (n - cnt) (skipn (N.to_nat (cnt * 8)) body) s3 _ tail);
      [| rewrite bl_skipn; lia | lia | exact Hfu | repeat split; assumption].
    unfold s3. rewrite src_adv_adv, firstn_skipn, !bl_app. do 3 f_equal. lia.
Qed.

Lemma octetstring_read m lb ub extensible bytes bs s tail :
  blen bytes <= ALLOC_LIMIT -> ~ Known_C10_sized_length lb ub (blen bytes) ->
  x_octetstring lb ub extensible bytes = Some bs -> at_src s bs tail ->
  r_octetstring m lb ub extensible s = Ok (bits_of_bytes bytes, src_adv s (bl bs) tail).
Proof.
  intros Hn Hk Hx Hs. rewrite r_octetstring_eq. unfold x_octetstring in Hx. rewrite x_sized_run_eq in Hx.
  cbv zeta in *. fold (blen bytes) in Hx. set (n := blen bytes) in *. set (srcb := bits_of_bytes bytes) in *.
  assert (Hl : bl srcb = 8 * n) by apply bits_len8.
  assert (Hn63 : n < two63) by (unfold ALLOC_LIMIT, two63 in *; lia).
  set (lower := opt_or lb 0) in *. set (upper := opt_or ub I64_MAX).
  assert (Hup : (match ub with Some u => n <=? u | None => true end) = (n <=? upper)).
  { unfold upper. destruct ub as [u|]; cbn [opt_or]; [reflexivity|].
    symmetry. apply N.leb_le. unfold I64_MAX. lia. }
  rewrite Hup in Hx.
  assert (Hext : forall s' tl, at_src s' (x_unconstrained_length_run 8 n srcb) tl ->
      (let! (l, s0) := r_length_determinant m None None s' in octet_rbody m l true s0)
      = Ok (srcb, src_adv s' (bl (x_unconstrained_length_run 8 n srcb)) tl))
    by (intros; apply r_octet_unc; auto).
  destruct ((lower <=? n) && (n <=? upper)) eqn:Eroot.
  2:{ destruct extensible; [|discriminate]. injection Hx as E1. subst bs.
      apply at_src_cons in Hs. destruct Hs as [H1 H2].
      rewrite (r_bit_ok _ _ _ H1). cbn [bind].
      rewrite (Hext _ _ H2), src_adv_adv, bl_cons. reflexivity. }
  apply andb_true_iff in Eroot. destruct Eroot as [Hlo Hhi]. apply N.leb_le in Hlo, Hhi.
  assert (Hnk : ~ Known_C10_length_semi_or_large_bound lb ub).
  { intros K. apply Hk. split; [exact K|]. fold lower upper. lia. }
  (* strip the extension bit *)
  assert (Rest : forall s' bs', 
     match ub with
     | Some u =>
        if u =? 0 then Some []
        else if (lower =? u) && (u <? 65536) then Some srcb
        else if u <? 65536 then
          match x_constrained (Z.of_N lower) (Z.of_N u) (Z.of_N n) with
          | Some lenb => Some (lenb ++ srcb)
          | None => None
          end
        else Some (x_unconstrained_length_run 8 n srcb)
     | None => Some (x_unconstrained_length_run 8 n srcb)
     end = Some bs' -> at_src s' bs' tail ->
     (if upper =? 0 then Ok ([], s')
      else if is_some lb && opt_n_eqb lb ub && (upper <? LENGTH_64K) then octet_rbody m upper false s'
      else let! (l, s0) := r_length_determinant m lb ub s' in
           octet_rbody m l (negb (is_some lb) && negb (is_some ub)) s0)
     = Ok (srcb, src_adv s' (bl bs') tail)).
  { intros s' bs' Hx' Hs'.
    destruct (not_known_cases lb ub Hnk) as [(u & Eu & Hu)|[El Eu]].
    - subst ub. cbn [opt_or] in upper. subst upper.
      destruct (N.eqb_spec u 0) as [H0|H0].
      { injection Hx' as E1. subst bs'. assert (n = 0) by lia.
        assert (srcb = []) as -> by (destruct srcb; [reflexivity|unfold bl in Hl; cbn [length] in Hl; lia]).
        destruct Hs' as (E & _). cbn [app] in E. rewrite bl_nil, <- E, src_adv_0. reflexivity. }
      unfold LENGTH_64K. destruct (N.ltb_spec u 65536); [|lia]. rewrite andb_true_r in *.
      assert (Efix : is_some lb && opt_n_eqb lb (Some u) = (lower =? u)).
      { unfold lower. destruct lb as [l|]; cbn [is_some opt_n_eqb opt_or andb]; [reflexivity|].
        symmetry. apply N.eqb_neq. lia. }
      rewrite Efix. destruct (N.eqb_spec lower u) as [Hfx|Hfx].
      + injection Hx' as E1. subst bs'. assert (n = u) as <- by lia.
        rewrite (octet_rbody_plain m n false s' srcb tail) by auto. rewrite Hl. reflexivity.
      + assert (Hxl : x_length lb (Some u) n =
                   x_constrained (Z.of_N lower) (Z.of_N u) (Z.of_N n)) by (apply x_length_constrained; lia).
        destruct (x_constrained (Z.of_N lower) (Z.of_N u) (Z.of_N n)) as [lenb|] eqn:Ec; [|discriminate].
        injection Hx' as E1. subst bs'.
        apply at_src_split in Hs'. destruct Hs' as [H1 H2].
        rewrite (length_read m lb (Some u) n lenb s' _ Hnk Hxl H1). cbn [bind].
        change (len_result (Some u) n) with n.
        rewrite (octet_rbody_plain m n _ _ srcb tail); [|auto|auto|left; destruct lb; reflexivity|exact H2].
        rewrite src_adv_adv, bl_app, Hl. reflexivity.
    - subst lb ub. cbn [opt_or is_some andb negb] in *.
      destruct (N.eqb_spec upper 0) as [H0|H0]; [unfold upper, I64_MAX in H0; cbn in H0; lia|].
      injection Hx' as E1. subst bs'. apply Hext, Hs'. }
  destruct extensible.
  - assert (exists bs', bs = false :: bs' /\
      match ub with
      | Some u =>
        if u =? 0 then Some []
        else if (lower =? u) && (u <? 65536) then Some srcb
        else if u <? 65536 then
          match x_constrained (Z.of_N lower) (Z.of_N u) (Z.of_N n) with
          | Some lenb => Some (lenb ++ srcb)
          | None => None
          end
        else Some (x_unconstrained_length_run 8 n srcb)
      | None => Some (x_unconstrained_length_run 8 n srcb)
      end = Some bs') as (bs' & -> & Hx').
    { destruct ub as [u|]; [|injection Hx as <-; eauto].
      destruct (u =? 0); [injection Hx as <-; eauto|].
      destruct ((lower =? u) && (u <? 65536)); [injection Hx as <-; eauto|].
      destruct (u <? 65536); [|injection Hx as <-; eauto].
      destruct (x_constrained (Z.of_N lower) (Z.of_N u) (Z.of_N n)); [injection Hx as <-; eauto|discriminate]. }
    apply at_src_cons in Hs. destruct Hs as [H1 H2].
    rewrite (r_bit_ok _ _ _ H1). cbn [bind].
    rewrite (Rest _ bs' Hx' H2), src_adv_adv, bl_cons. reflexivity.
  - apply Rest; [|exact Hs]. cbn [app] in Hx.
    destruct ub as [u|]; [|exact Hx].
    destruct (u =? 0); [exact Hx|].
    destruct ((lower =? u) && (u <? 65536)); [exact Hx|].
    destruct (u <? 65536); [|exact Hx].
    destruct (x_constrained (Z.of_N lower) (Z.of_N u) (Z.of_N n)); exact Hx.
Qed.


(** ** BIT STRING writer *)
(* F10-2: 16K bits or more with the unconstrained length form (no usable upper bound below 64K,
   or out of the extension root): the code does not follow the fragmentation procedure *)
Definition Known_C10_bitstring_16k (lb ub : option N) (len : N) : Prop :=
  16384 <= len /\ ~ (exists u, ub = Some u /\ u < 65536 /\ opt_or lb 0 <= len <= u).

Lemma x_run_short unit n body : n < 16384 ->
  x_unconstrained_length_run unit n body = x_len_short n ++ body.
Proof.
  intros H. unfold x_unconstrained_length_run. cbn [x_frag].
  destruct (N.ltb_spec n 16384); [reflexivity|lia].
Qed.

Lemma bitstring_write m lb ub extensible bytes offset len :
  offset + len <= 8 * blen bytes -> len < two63 ->
  ~ Known_C10_sized_length lb ub len -> ~ Known_C10_bitstring_16k lb ub len ->
  w_bitstring m lb ub extensible bytes offset len =
  match x_bitstring lb ub extensible
          (firstn (N.to_nat len) (skipn (N.to_nat offset) (bits_of_bytes bytes))) with
  | Some bs => Ok bs | None => Err E_SIZE_RANGE end.
Proof.
  intros Hsrc Hn Hk H16. unfold w_bitstring, x_bitstring. rewrite x_sized_run_eq. cbv zeta.
  set (srcb := bits_of_bytes bytes).
  assert (Hl : bl srcb = 8 * blen bytes) by apply bits_len8.
  set (content := firstn (N.to_nat len) (skipn (N.to_nat offset) srcb)).
  assert (Hcl : N.of_nat (length content) = len).
  { unfold content. rewrite firstn_length, skipn_length. unfold bl in Hl. lia. }
  rewrite Hcl. set (n := len) in *.
  set (lower := opt_or lb 0). set (upper := opt_or ub I64_MAX).
  assert (Hup : (match ub with Some u => n <=? u | None => true end) = (n <=? upper)).
  { unfold upper. destruct ub as [u|]; cbn [opt_or]; [reflexivity|].
    symmetry. apply N.leb_le. unfold I64_MAX. lia. }
  rewrite Hup.
  assert (Hsmall : n <= 65536).
  { destruct (N.le_gt_cases n 65536) as [L|L]; [exact L|]. exfalso. apply H16. split; [lia|].
    intros (u & _ & Hu & _ & Hle). lia. }
  unfold MAX_FRAGMENTS_SIZE. destruct (N.ltb_spec 65536 n) as [L|_]; [lia|].
  replace (N.min 65536 n) with n by lia.
  assert (Hbody : w_bits_ol srcb offset n = Ok content) by (apply w_bits_ol_ok; lia).
  rewrite Hbody.
  assert (Hroot16 : n < lower \/ upper < n -> n < 16384).
  { intros Ho. destruct (N.lt_ge_cases n 16384) as [?|G]; [assumption|].
    exfalso. apply H16. split; [exact G|]. intros (u & Eu & _ & Hlo & Hhi). subst ub.
    fold lower in Hlo. cbn [opt_or] in upper. lia. }
  assert (Hout : n < lower \/ upper < n ->
     (let! hb := (if extensible then let! (hb, _) := w_length_determinant m None None n in Ok hb else Err E_SIZE_RANGE) in
      let! body := Ok content in Ok ((if extensible then [true] else []) ++ hb ++ body)) =
     (if extensible then Ok (true :: x_unconstrained_length_run 1 n content) else Err E_SIZE_RANGE)).
  { intros Ho. destruct extensible; [|reflexivity]. specialize (Hroot16 Ho).
    rewrite w_len_unc. cbn [bind].
    rewrite x_run_short, x_len_first_short by exact Hroot16. reflexivity. }
  destruct (N.ltb_spec n lower) as [Hlo|Hlo]; destruct (N.leb_spec lower n) as [Hlo'|Hlo']; try lia; cbn [orb andb].
  { refine (eq_trans (Hout _) _); [auto|destruct extensible; reflexivity]. }
  destruct (N.ltb_spec upper n) as [Hhi|Hhi]; destruct (N.leb_spec n upper) as [Hhi'|Hhi']; try lia.
  { refine (eq_trans (Hout _) _); [auto|destruct extensible; reflexivity]. }
  set (pre := if extensible then [false] else []).
  assert (Hnk : ~ Known_C10_length_semi_or_large_bound lb ub).
  { intros K. apply Hk. split; [exact K|]. fold lower upper. lia. }
  destruct (not_known_cases lb ub Hnk) as [(u & Eu & Hu)|[El Eu]].
  - subst ub. cbn [opt_or] in upper. subst upper.
    unfold LENGTH_64K. destruct (N.ltb_spec u 65536); [|lia]. rewrite andb_true_r.
    assert (Hx : x_length lb (Some u) n =
                 x_constrained (Z.of_N lower) (Z.of_N u) (Z.of_N n)) by (apply x_length_constrained; lia).
    assert (Efix : is_some lb && opt_n_eqb lb (Some u) = is_some lb && (lower =? u)).
    { unfold lower. destruct lb as [l|]; reflexivity. }
    rewrite Efix.
    destruct (N.eqb_spec u 0) as [H0|H0].
    + assert (n = 0) by lia. assert (content = []) as -> by (destruct content; [reflexivity|cbn [length] in Hcl; lia]).
      destruct (is_some lb && (lower =? u)); cbn [bind]; [rewrite app_nil_r; reflexivity|].
      rewrite (length_write m lb (Some u) n [] Hnk).
      * cbn [bind]. rewrite app_nil_r. reflexivity.
      * rewrite Hx, x_constrained_N. subst u.
        destruct (N.leb_spec lower n); [|lia]. destruct (N.leb_spec n 0); [|lia]. cbn [andb].
        replace (0 - lower) with 0 by lia. reflexivity.
    + destruct (N.eqb_spec lower u) as [Hfx|Hfx].
      * assert (is_some lb = true) as -> by (unfold lower in Hfx; destruct lb; [reflexivity|cbn [opt_or] in Hfx; lia]).
        cbn [andb bind]. reflexivity.
      * rewrite andb_false_r.
        destruct (x_constrained (Z.of_N lower) (Z.of_N u) (Z.of_N n)) as [lenb|] eqn:Ec.
        -- rewrite (length_write m lb (Some u) n lenb Hnk Hx). reflexivity.
        -- rewrite x_constrained_N in Ec.
           destruct (N.leb_spec lower n); [|lia]. destruct (N.leb_spec n u); [discriminate|lia].
  - subst lb ub. cbn [opt_or is_some andb] in *.
    assert (n < 16384).
    { destruct (N.lt_ge_cases n 16384) as [?|G]; [assumption|].
      exfalso; apply H16; split; [exact G|]. intros (u & Eu & _); discriminate. }
    rewrite w_len_unc. cbn [bind]. rewrite x_run_short, x_len_first_short by assumption. reflexivity.
Qed.

Lemma bitstring_reject m lb ub bytes offset len :
  len < opt_or lb 0 \/ opt_or ub I64_MAX < len ->
  w_bitstring m lb ub false bytes offset len = Err E_SIZE_RANGE.
Proof.
  intros H. unfold w_bitstring. cbv zeta.
  destruct (N.ltb_spec len (opt_or lb 0)); destruct (N.ltb_spec (opt_or ub I64_MAX) len);
    cbn [orb bind]; try reflexivity; lia.
Qed.

(* the reference encoding exists, the writer succeeds, and its output is 8 bits shorter
   (the final zero-length determinant of 11.9.3.8.3 is missing) *)
Definition bitstring_8_bits_short (m : mode) (lb ub : option N) (bytes : list N) (offset len : N) : bool :=
  match x_bitstring lb ub false (firstn (N.to_nat len) (skipn (N.to_nat offset) (bits_of_bytes bytes))),
        w_bitstring m lb ub false bytes offset len with
  | Some a, Ok b => Nat.eqb (length a) (length b + 8)
  | _, _ => false
  end.

Lemma refuted_bitstring_16k :
  exists m lb ub bytes offset len,
    Known_C10_bitstring_16k lb ub len /\ offset + len <= 8 * blen bytes /\
    bitstring_8_bits_short m lb ub bytes offset len = true.
Proof.
  exists dev_mode, None, None, (repeat 0 2048), 0, 16384.
  split; [split; [lia|intros (u & Eu & _); discriminate]|].
  split; [vm_compute; discriminate|]. vm_compute. reflexivity.
Qed.


(** ** no writer panics, for any arguments, in either profile *)
Definition np {A} (r : res A) : Prop := is_panic r = false.

Lemma np_bind {A B} (r : res A) (f : A -> res B) :
  np r -> (forall a, r = Ok a -> np (f a)) -> np (bind r f).
Proof. unfold np. destruct r; cbn; auto. Qed.

Lemma np_bind' {A B} (r : res A) (f : A -> res B) :
  np r -> (forall a, np (f a)) -> np (bind r f).
Proof. intros H1 H2. apply np_bind; auto. Qed.

Lemma w_bits_ol_np srcb off len : np (w_bits_ol srcb off len).
Proof. unfold w_bits_ol. destruct (_ <? _); reflexivity. Qed.

Lemma bounded_cases lb ub : (lb = None /\ ub = None) \/ nn_bounded lb ub.
Proof. destruct lb; [right; left; discriminate|]. destruct ub; [right; right; discriminate|auto]. Qed.

Lemma w_nnbi_np m lb ub v : np (w_nnbi m lb ub v).
Proof.
  destruct (bounded_cases lb ub) as [[-> ->]|Hb]; [reflexivity|].
  set (lower := opt_or lb 0). set (upper := opt_or ub I64_MAX).
  destruct (N.lt_ge_cases v lower) as [H|H]; [rewrite w_nnbi_reject by (auto; left; exact H); reflexivity|].
  destruct (N.lt_ge_cases upper v) as [H'|H']; [rewrite w_nnbi_reject by (auto; right; exact H'); reflexivity|].
  assert (E : w_nnbi m lb ub v =
    (if (v <? lower) || (upper <? v) then Err E_VALUE_RANGE else
     let! range := usub m upper lower in
     let offset_bits := lz64 range in
     let! x := usub m v lower in
     Ok (skipn (N.to_nat offset_bits) (bits64 x)))).
  { destruct lb, ub; try reflexivity. destruct Hb; congruence. }
  rewrite E. destruct (N.ltb_spec v lower); [lia|]. destruct (N.ltb_spec upper v); [lia|].
  cbn [orb]. rewrite !usub_ok by lia. reflexivity.
Qed.

Lemma w_length_np m lb ub v : np (w_length_determinant m lb ub v).
Proof.
  unfold w_length_determinant.
  repeat match goal with
  | |- np (if ?c then _ else _) => destruct c
  | |- np (bind _ _) => apply np_bind'; [apply w_nnbi_np|intros ?]
  | |- np (Ok _) => reflexivity
  | |- np (Err _) => reflexivity
  end.
Qed.

(* the fragment size reported by the length-determinant writer never exceeds the count *)
Lemma w_length_frag m lb ub v hb fs : w_length_determinant m lb ub v = Ok (hb, fs) ->
  fs = None \/ (16384 <= v /\ fs = Some (N.min (v / 16384) 4 * 16384)).
Proof.
  unfold w_length_determinant, LENGTH_127, LENGTH_16K, MAX_FRAGMENTS.
  repeat match goal with
  | |- (if ?c then _ else _) = _ -> _ => destruct c eqn:?
  | |- bind ?r _ = _ -> _ => destruct r; cbn [bind]
  end; intros H; try discriminate; injection H as _ <-; auto.
  right. split; [lia|reflexivity].
Qed.

Lemma w_twos_np m k v : np (w_2s_compliment m k v).
Proof.
  unfold w_2s_compliment. destruct (_ || _); [reflexivity|]. destruct (negb _); [reflexivity|]. apply w_bits_ol_np.
Qed.

Lemma w_constrained_np m lb ub v : np (w_constrained m lb ub v).
Proof.
  unfold w_constrained. destruct (_ || _)%bool; [reflexivity|]. destruct (0 <? _); [apply w_nnbi_np|reflexivity].
Qed.

Lemma w_normally_small_np m v : np (w_normally_small m v).
Proof.
  unfold w_normally_small. destruct (_ <=? _); (apply np_bind'; [apply w_nnbi_np|reflexivity]).
Qed.

Lemma w_semi_constrained_np m lb v : np (w_semi_constrained m lb v).
Proof. unfold w_semi_constrained. destruct (_ <? _)%Z; [reflexivity|apply w_nnbi_np]. Qed.

Lemma w_unconstrained_np m v : np (w_unconstrained m v).
Proof.
  unfold w_unconstrained. apply np_bind'; [apply w_length_np|intros [lb_ ?]].
  apply np_bind'; [apply w_twos_np|reflexivity].
Qed.

Lemma w_index_np m std ext i : np (w_enumeration_index m std ext i).
Proof.
  unfold w_enumeration_index. destruct (N.leb_spec std i) as [H|H].
  - destruct ext; [|reflexivity]. rewrite usub_ok by exact H. cbn [bind].
    apply np_bind'; [apply w_normally_small_np|reflexivity].
  - rewrite usub_ok by lia. cbn [bind]. apply np_bind'; [apply w_nnbi_np|reflexivity].
Qed.

Lemma octet_loop_np m srcb length : forall fuel written,
  (length - written) / 16384 < N.of_nat fuel -> np (w_octet_frag_loop fuel m srcb length written).
Proof.
  induction fuel as [|f IH]; intros written Hf; [lia|].
  cbn [w_octet_frag_loop]. rewrite w_len_unc. cbn [bind].
  apply np_bind'; [apply w_bits_ol_np|intros body]. unfold MIN_FRAGMENT_SIZE.
  destruct (N.ltb_spec (opt_or (frag_of (length - written)) (length - written)) 16384) as [Hs|Hb]; [reflexivity|].
  apply np_bind'; [|reflexivity]. apply IH.
  unfold frag_of in *. destruct (N.ltb_spec (length - written) 16384); cbn [opt_or] in *; lia.
Qed.

Lemma octet_cont_np m pre srcb n hb fs :
  fs = None \/ (16384 <= n /\ fs = Some (N.min (n / 16384) 4 * 16384)) ->
  np (octet_cont m pre srcb n hb fs).
Proof.
  intros [->|[Hn ->]]; unfold octet_cont; cbn [opt_or].
  - rewrite N.ltb_irrefl. apply np_bind'; [apply w_bits_ol_np|reflexivity].
  - destruct (N.ltb_spec n (N.min (n / 16384) 4 * 16384)); [lia|].
    apply np_bind'; [apply w_bits_ol_np|intros body].
    apply np_bind'; [|reflexivity]. apply octet_loop_np. unfold MIN_FRAGMENT_SIZE. lia.
Qed.

Lemma w_octetstring_np m lb ub extensible bytes : np (w_octetstring m lb ub extensible bytes).
Proof.
  rewrite w_octetstring_eq. cbv zeta.
  assert (C : forall pre lb' ub',
    np (let! (hb, fs) := w_length_determinant m lb' ub' (blen bytes) in
        octet_cont m pre (bits_of_bytes bytes) (blen bytes) hb fs)).
  { intros pre lb' ub'. apply np_bind; [apply w_length_np|]. intros [hb fs] E.
    apply octet_cont_np. eapply w_length_frag, E. }
  destruct (_ || _).
  - destruct extensible; [apply C|reflexivity].
  - destruct (_ =? 0); [reflexivity|].
    destruct (_ && _); [apply octet_cont_np; auto|apply C].
Qed.

Lemma bit_loop_np m srcb offset length : forall fuel written,
  (length - written) / 16384 < N.of_nat fuel -> np (w_bit_frag_loop fuel m srcb offset length written).
Proof.
  induction fuel as [|f IH]; intros written Hf; [lia|].
  cbn [w_bit_frag_loop]. unfold MAX_FRAGMENTS_SIZE, MIN_FRAGMENT_SIZE.
  set (fs0 := N.min (length - written) 65536). set (fsz := fs0 - fs0 mod 16384).
  apply np_bind'; [apply w_length_np|intros [hb ?]].
  apply np_bind'; [apply w_bits_ol_np|intros body].
  destruct (N.ltb_spec fsz 16384) as [Hs|Hb]; [reflexivity|].
  apply np_bind'; [|reflexivity]. apply IH. lia.
Qed.

Lemma w_bitstring_np m lb ub extensible bytes offset len : np (w_bitstring m lb ub extensible bytes offset len).
Proof.
  unfold w_bitstring. cbv zeta. apply np_bind'.
  - destruct (_ || _).
    + destruct extensible; [|reflexivity]. apply np_bind'; [apply w_length_np|intros [? ?]; reflexivity].
    + destruct (_ && _); [reflexivity|]. apply np_bind'; [apply w_length_np|intros [? ?]; reflexivity].
  - intros hb. apply np_bind'; [apply w_bits_ol_np|intros body].
    destruct (_ <? _); [|reflexivity]. apply np_bind'; [|reflexivity].
    apply bit_loop_np. unfold MIN_FRAGMENT_SIZE, MAX_FRAGMENTS_SIZE. lia.
Qed.

(** ** readers on arbitrary sources *)
Lemma r_bit_np s : np (r_bit s).
Proof. unfold r_bit. destruct (_ <? _); [|reflexivity]. destruct (s_rest s); reflexivity. Qed.

Lemma r_bits_into_np s d o n : np (r_bits_into s d o n).
Proof. unfold r_bits_into. repeat (destruct (_ <? _); [reflexivity|]). reflexivity. Qed.

Lemma r_bits_into_len s d o n bs s' : r_bits_into s d o n = Ok (bs, s') -> bl bs <= n.
Proof.
  unfold r_bits_into. repeat (destruct (_ <? _); [discriminate|]). intros H. injection H as <- _.
  unfold bl. rewrite firstn_length. lia.
Qed.

Lemma r_len_unc_np s : np (r_length_determinant_unc s).
Proof.
  unfold r_length_determinant_unc.
  apply np_bind'; [apply r_bit_np|intros [b1 s1]]. destruct (negb b1).
  - apply np_bind'; [apply r_bits_into_np|intros [? ?]; reflexivity].
  - apply np_bind'; [apply r_bit_np|intros [b2 s2]]. destruct (negb b2);
      (apply np_bind'; [apply r_bits_into_np|intros [? ?]; reflexivity]).
Qed.

Lemma r_nnbi_unbounded_np m s : np (r_nnbi m None None s).
Proof.
  cbn [r_nnbi]. apply np_bind'; [apply r_len_unc_np|intros [l s1]].
  destruct (_ <=? _); [|reflexivity]. apply np_bind'; [apply r_bits_into_np|intros [? ?]; reflexivity].
Qed.

(* bounded form: the sum lower + field cannot overflow when 2 * upper < 2^64 + lower,
   in particular for lower = 0 *)
Lemma r_nnbi_bounded_np m lb ub s : nn_bounded lb ub ->
  opt_or lb 0 + 2 ^ N.size (opt_or ub I64_MAX - opt_or lb 0) <= two64 ->
  np (r_nnbi m lb ub s).
Proof.
  intros Hb Hr.
  assert (E : r_nnbi m lb ub s =
    (let lower := opt_or lb 0 in let upper := opt_or ub I64_MAX in
      let range := upper - lower in
      let offset_bits := lz64 range in
      let! (bs, s) := r_bits_into s 64 offset_bits (64 - offset_bits) in
      let! v := uadd m lower (val_of_bits bs) in
      Ok (v, s))).
  { destruct lb, ub; try reflexivity. destruct Hb; congruence. }
  rewrite E. cbv zeta. clear E.
  set (lower := opt_or lb 0) in *. set (upper := opt_or ub I64_MAX) in *.
  apply np_bind; [apply r_bits_into_np|intros [bs s1] Er].
  apply r_bits_into_len in Er. pose proof (vob_lt bs) as Hv.
  assert (2 ^ bl bs <= 2 ^ N.size (upper - lower)).
  { apply N.pow_le_mono_r; [lia|]. unfold lz64 in Er. lia. }
  rewrite uadd_ok by lia. reflexivity.
Qed.

Lemma r_constrained_np m lb ub s : np (r_constrained m lb ub s).
Proof.
  unfold r_constrained. destruct (0 <? _); [|reflexivity].
  apply np_bind'; [|intros [? ?]; reflexivity].
  apply r_nnbi_bounded_np; [right; discriminate|]. cbn [opt_or]. rewrite N.sub_0_r, N.add_0_l.
  change two64 with (2 ^ 64). apply N.pow_le_mono_r; [lia|]. apply size_le64, u64_of_i64_lt.
Qed.

Lemma r_normally_small_np m s : np (r_normally_small m s).
Proof.
  unfold r_normally_small. apply np_bind'; [apply r_bit_np|intros [big s1]].
  destruct big; [apply r_nnbi_unbounded_np|].
  apply r_nnbi_bounded_np; [right; discriminate|]. vm_compute. discriminate.
Qed.

Lemma r_semi_constrained_np m lb s : np (r_semi_constrained m lb s).
Proof.
  unfold r_semi_constrained. apply np_bind'; [apply r_nnbi_unbounded_np|intros [? ?]; reflexivity].
Qed.

Lemma r_twos_np k s : np (r_2s_compliment k s).
Proof.
  unfold r_2s_compliment. destruct (_ || _); [reflexivity|].
  apply np_bind'; [apply r_bits_into_np|intros [? ?]; reflexivity].
Qed.

Lemma r_unconstrained_np m s : np (r_unconstrained m s).
Proof.
  unfold r_unconstrained. rewrite r_len_unc_eq.
  apply np_bind'; [apply r_len_unc_np|intros [? ?]; apply r_twos_np].
Qed.

Lemma r_length_np m lb ub s : opt_or lb 0 < two64 -> ~ Known_C10_length_semi_or_large_bound lb ub ->
  np (r_length_determinant m lb ub s).
Proof.
  intros Hl Hk. destruct (not_known_cases lb ub Hk) as [(u & -> & Hu)|[-> ->]].
  - rewrite r_len_constrained by exact Hu. apply r_nnbi_bounded_np; [right; discriminate|].
    cbn [opt_or]. set (l := opt_or lb 0) in *.
    destruct (N.le_gt_cases l u) as [Hle|Hgt].
    + assert (2 ^ N.size (u - l) <= 2 ^ 16).
      { apply N.pow_le_mono_r; [lia|]. apply size_le_of_lt. change (2 ^ 16) with 65536. lia. }
      change (2 ^ 16) with 65536 in *. unfold two64. lia.
    + replace (u - l) with 0 by lia. cbn [N.size N.pow]. lia.
  - rewrite r_len_unc_eq. apply r_len_unc_np.
Qed.

(* the index reader on an arbitrary source, extensible or not: the extension branch adds
   std_variants with a checked addition (an error, not a panic or a wrapped index) *)
Lemma r_index_np m std ext s : std < two64 -> np (r_enumeration_index m std ext s).
Proof.
  intros Hs. unfold r_enumeration_index.
  assert (Small : forall s1,
    np (if std =? 0 then Err E_INVALID_CHOICE else r_nnbi m None (Some (std - 1)) s1)).
  { intros s1. destruct (std =? 0); [reflexivity|].
    apply r_nnbi_bounded_np; [right; discriminate|]. cbn [opt_or]. rewrite N.sub_0_r, N.add_0_l.
    change two64 with (2 ^ 64). apply N.pow_le_mono_r; [lia|]. apply size_le64. lia. }
  destruct ext; [|apply Small].
  apply np_bind'; [apply r_bit_np|intros [e s1]]. destruct e; [|apply Small].
  apply np_bind'; [apply r_normally_small_np|intros [n s2]].
  destruct (_ <? _); reflexivity.
Qed.

(* the crafted input that used to overflow `index + std_variants`: extension bit, a "big"
   normally small number of 8 octets FF..FF; now an error in both profiles *)
Lemma index_read_overflow_is_error :
  let bytes := [194; 63; 255; 255; 255; 255; 255; 255; 255; 192] in
  forall m, r_enumeration_index m 3 true (src_of_bytes bytes (8 * blen bytes)) = Err E_INVALID_CHOICE.
Proof. intros bytes [[|] [|]]; vm_compute; reflexivity. Qed.

Lemma refuted_nnbi_read_overflow :
  exists lb ub bytes, lb < ub /\ ub < two64 /\
    r_nnbi dev_mode (Some lb) (Some ub) (src_of_bytes bytes (8 * blen bytes)) = Panic P_ARITH.
Proof.
  exists 4611686018427387904, 18446744073709551615, [255; 255; 255; 255; 255; 255; 255; 255].
  split; [lia|]. split; [unfold two64; lia|]. vm_compute. reflexivity.
Qed.


(** ** BIT STRING reader *)
Definition bit_rbody (m : mode) (bit_len : N) (frag : bool) (s : src) : res (bits * N * N * src) :=
  let byte_len := (bit_len + 7) / 8 in
  let! _ := alloc byte_len in
  let! (bs, s) := r_bits_into s (8 * byte_len) 0 bit_len in
  if frag && (LENGTH_16K <=? bit_len) then
    r_bit_frag_loop (S (N.to_nat (s_len s - s_pos s))) m s bs bit_len byte_len byte_len
  else Ok (bs, bit_len, byte_len, s).

Lemma r_bitstring_eq m lb ub extensible s :
  r_bitstring m lb ub extensible s =
  (let upper := opt_or ub I64_MAX in
   let rest (s : src) :=
    if is_some lb && opt_n_eqb lb ub && (upper <? LENGTH_64K) then bit_rbody m upper false s
    else let! (l, s) := r_length_determinant m lb ub s in bit_rbody m l (negb (is_some lb) && negb (is_some ub)) s in
   if extensible then
    let! (ext, s) := r_bit s in
    if ext then let! (l, s) := r_length_determinant m None None s in bit_rbody m l true s
    else rest s
   else rest s).
Proof. reflexivity. Qed.

Lemma bit_rbody_plain m n frag s body tail :
  bl body = n -> n <= ALLOC_LIMIT -> frag = false \/ n < 16384 ->
  at_src s body tail ->
  bit_rbody m n frag s = Ok (body, n, (n + 7) / 8, src_adv s n tail).
Proof.
  intros Hl Ha Hfr Hs. unfold bit_rbody. cbv zeta.
  rewrite alloc_ok by (unfold ALLOC_LIMIT in *; lia). cbn [bind].
  rewrite (r_bits_into_ok _ _ _ _ _ _ Hs) by lia. cbn [bind]. unfold LENGTH_16K.
  destruct Hfr as [->|Hn]; [reflexivity|].
  destruct (N.leb_spec 16384 n); [lia|]. rewrite andb_false_r. reflexivity.
Qed.

Lemma bitstring_read m lb ub extensible content bs s tail :
  bl content <= ALLOC_LIMIT ->
  ~ Known_C10_sized_length lb ub (bl content) -> ~ Known_C10_bitstring_16k lb ub (bl content) ->
  x_bitstring lb ub extensible content = Some bs -> at_src s bs tail ->
  r_bitstring m lb ub extensible s =
  Ok (content, bl content, (bl content + 7) / 8, src_adv s (bl bs) tail).
Proof.
  intros Hn Hk H16 Hx Hs. rewrite r_bitstring_eq. unfold x_bitstring in Hx. rewrite x_sized_run_eq in Hx.
  cbv zeta in *. fold (bl content) in Hx. set (n := bl content) in *.
  assert (Hn63 : n < two63) by (unfold ALLOC_LIMIT, two63 in *; lia).
  set (lower := opt_or lb 0) in *. set (upper := opt_or ub I64_MAX).
  assert (Hup : (match ub with Some u => n <=? u | None => true end) = (n <=? upper)).
  { unfold upper. destruct ub as [u|]; cbn [opt_or]; [reflexivity|].
    symmetry. apply N.leb_le. unfold I64_MAX. lia. }
  rewrite Hup in Hx.
  assert (Hroot16 : n < lower \/ upper < n -> n < 16384).
  { intros Ho. destruct (N.lt_ge_cases n 16384) as [?|G]; [assumption|].
    exfalso. apply H16. split; [exact G|]. intros (u & Eu & _ & Hlo & Hhi). subst ub.
    fold lower in Hlo. cbn [opt_or] in upper. lia. }
  assert (Hext : forall s' tl, n < 16384 -> at_src s' (x_unconstrained_length_run 1 n content) tl ->
      (let! (l, s0) := r_length_determinant m None None s' in bit_rbody m l true s0)
      = Ok (content, n, (n + 7) / 8, src_adv s' (bl (x_unconstrained_length_run 1 n content)) tl)).
  { intros s' tl Hsm. rewrite x_run_short, <- x_len_first_short by exact Hsm. intros H'.
    apply at_src_split in H'. destruct H' as [H1 H2].
    rewrite r_len_unc_eq, (r_len_unc_first _ _ _ H1). cbn [bind].
    unfold len_result, len_frag. rewrite frag_of_short by exact Hsm.
    rewrite (bit_rbody_plain m n true _ content tl) by (auto; lia).
    rewrite src_adv_adv, bl_app. reflexivity. }
  destruct ((lower <=? n) && (n <=? upper)) eqn:Eroot.
  2:{ apply andb_false_iff in Eroot. rewrite !N.leb_gt in Eroot.
      destruct extensible; [|discriminate]. injection Hx as E1. subst bs.
      apply at_src_cons in Hs. destruct Hs as [H1 H2].
      rewrite (r_bit_ok _ _ _ H1). cbn [bind].
      rewrite (Hext _ _ (Hroot16 Eroot) H2), src_adv_adv, bl_cons. reflexivity. }
  apply andb_true_iff in Eroot. destruct Eroot as [Hlo Hhi]. apply N.leb_le in Hlo, Hhi.
  assert (Hnk : ~ Known_C10_length_semi_or_large_bound lb ub).
  { intros K. apply Hk. split; [exact K|]. fold lower upper. lia. }
  assert (Rest : forall s' bs',
     match ub with
     | Some u =>
        if u =? 0 then Some []
        else if (lower =? u) && (u <? 65536) then Some content
        else if u <? 65536 then
          match x_constrained (Z.of_N lower) (Z.of_N u) (Z.of_N n) with
          | Some lenb => Some (lenb ++ content)
          | None => None
          end
        else Some (x_unconstrained_length_run 1 n content)
     | None => Some (x_unconstrained_length_run 1 n content)
     end = Some bs' -> at_src s' bs' tail ->
     (if is_some lb && opt_n_eqb lb ub && (upper <? LENGTH_64K) then bit_rbody m upper false s'
      else let! (l, s0) := r_length_determinant m lb ub s' in
           bit_rbody m l (negb (is_some lb) && negb (is_some ub)) s0)
     = Ok (content, n, (n + 7) / 8, src_adv s' (bl bs') tail)).
  { intros s' bs' Hx' Hs'.
    destruct (not_known_cases lb ub Hnk) as [(u & Eu & Hu)|[El Eu]].
    - subst ub. cbn [opt_or] in upper. subst upper.
      unfold LENGTH_64K. destruct (N.ltb_spec u 65536); [|lia]. rewrite andb_true_r in *.
      assert (Hxl : x_length lb (Some u) n =
                   x_constrained (Z.of_N lower) (Z.of_N u) (Z.of_N n)) by (apply x_length_constrained; lia).
      assert (Fix : forall s1, n = u -> at_src s1 content tail ->
                bit_rbody m u false s1 = Ok (content, n, (n + 7) / 8, src_adv s1 (bl content) tail)).
      { intros s1 <- H1. apply bit_rbody_plain; auto. }
      assert (Con : forall lenb, x_constrained (Z.of_N lower) (Z.of_N u) (Z.of_N n) = Some lenb ->
                at_src s' (lenb ++ content) tail ->
                (let! (l, s0) := r_length_determinant m lb (Some u) s' in
                 bit_rbody m l (negb (is_some lb) && negb (is_some (Some u))) s0)
                = Ok (content, n, (n + 7) / 8, src_adv s' (bl (lenb ++ content)) tail)).
      { intros lenb Ec H'. rewrite <- Hxl in Ec.
        apply at_src_split in H'. destruct H' as [H1 H2].
        rewrite (length_read m lb (Some u) n lenb s' _ Hnk Ec H1). cbn [bind].
        change (len_result (Some u) n) with n.
        rewrite (bit_rbody_plain m n _ _ content tail); [|auto|auto|left; destruct lb; reflexivity|exact H2].
        rewrite src_adv_adv, bl_app. reflexivity. }
      assert (Efix : is_some lb && opt_n_eqb lb (Some u) = is_some lb && (lower =? u)).
      { unfold lower. destruct lb as [l|]; reflexivity. }
      rewrite Efix.
      destruct (N.eqb_spec u 0) as [H0|H0].
      + injection Hx' as E1. subst bs'. assert (Hn0 : n = 0) by lia.
        assert (content = []) as Ec0 by (destruct content; [reflexivity|unfold n, bl in Hn0; cbn [length] in Hn0; lia]).
        destruct (is_some lb && (lower =? u)).
        * rewrite Fix; [rewrite Ec0; reflexivity|lia|rewrite Ec0; exact Hs'].
        * rewrite (Con []); [rewrite Ec0; reflexivity| |rewrite Ec0; exact Hs'].
          rewrite x_constrained_N. destruct (N.leb_spec lower n); [|lia]. destruct (N.leb_spec n u); [|lia].
          cbn [andb]. replace (u - lower) with 0 by lia. reflexivity.
      + destruct (N.eqb_spec lower u) as [Hfx|Hfx].
        * assert (is_some lb = true) as -> by (unfold lower in Hfx; destruct lb; [reflexivity|cbn [opt_or] in Hfx; lia]).
          cbn [andb] in *. injection Hx' as E1. subst bs'. apply Fix; [lia|exact Hs'].
        * rewrite andb_false_r. cbn [andb] in Hx'.
          destruct (x_constrained (Z.of_N lower) (Z.of_N u) (Z.of_N n)) as [lenb|] eqn:Ec; [|discriminate].
          injection Hx' as E1. subst bs'. apply Con; [reflexivity|exact Hs'].
    - subst lb ub. cbn [opt_or is_some andb negb] in *.
      injection Hx' as E1. subst bs'. apply Hext; [|exact Hs'].
      destruct (N.lt_ge_cases n 16384) as [?|G]; [assumption|].
      exfalso; apply H16; split; [exact G|]. intros (u & Eu & _); discriminate. }
  destruct extensible.
  - assert (exists bs', bs = false :: bs' /\
      match ub with
      | Some u =>
        if u =? 0 then Some []
        else if (lower =? u) && (u <? 65536) then Some content
        else if u <? 65536 then
          match x_constrained (Z.of_N lower) (Z.of_N u) (Z.of_N n) with
          | Some lenb => Some (lenb ++ content)
          | None => None
          end
        else Some (x_unconstrained_length_run 1 n content)
      | None => Some (x_unconstrained_length_run 1 n content)
      end = Some bs') as (bs' & -> & Hx').
    { destruct ub as [u|]; [|injection Hx as <-; eauto].
      destruct (u =? 0); [injection Hx as <-; eauto|].
      destruct ((lower =? u) && (u <? 65536)); [injection Hx as <-; eauto|].
      destruct (u <? 65536); [|injection Hx as <-; eauto].
      destruct (x_constrained (Z.of_N lower) (Z.of_N u) (Z.of_N n)); [injection Hx as <-; eauto|discriminate]. }
    apply at_src_cons in Hs. destruct Hs as [H1 H2].
    rewrite (r_bit_ok _ _ _ H1). cbn [bind].
    rewrite (Rest _ bs' Hx' H2), src_adv_adv, bl_cons. reflexivity.
  - apply Rest; [|exact Hs]. cbn [app] in Hx.
    destruct ub as [u|]; [|exact Hx].
    destruct (u =? 0); [exact Hx|].
    destruct ((lower =? u) && (u <? 65536)); [exact Hx|].
    destruct (u <? 65536); [|exact Hx].
    destruct (x_constrained (Z.of_N lower) (Z.of_N u) (Z.of_N n)); exact Hx.
Qed.

(** ** packaged statements *)
Lemma length_fragment v :
  len_frag None v = (if v <? 16384 then None else Some (N.min (v / 16384) 4 * 16384))
  /\ forall u, len_frag (Some u) v = None.
Proof. split; reflexivity. Qed.

Lemma twos_octets_eq o v : twos_bits (8 * o) v = twos_field o v.
Proof. reflexivity. Qed.

Lemma no_panic_writers m :
  (forall lb ub v, np (w_nnbi m lb ub v)) /\
  (forall lb ub v, np (w_length_determinant m lb ub v)) /\
  (forall k v, np (w_2s_compliment m k v)) /\
  (forall lb ub v, np (w_constrained m lb ub v)) /\
  (forall v, np (w_normally_small m v)) /\
  (forall lb v, np (w_semi_constrained m lb v)) /\
  (forall v, np (w_unconstrained m v)) /\
  (forall std ext i, np (w_enumeration_index m std ext i)) /\
  (forall lb ub ext bytes, np (w_octetstring m lb ub ext bytes)) /\
  (forall lb ub ext bytes offset len, np (w_bitstring m lb ub ext bytes offset len)).
Proof.
  repeat split; intros.
  - apply w_nnbi_np. - apply w_length_np. - apply w_twos_np. - apply w_constrained_np.
  - apply w_normally_small_np. - apply w_semi_constrained_np. - apply w_unconstrained_np.
  - apply w_index_np. - apply w_octetstring_np. - apply w_bitstring_np.
Qed.

Lemma no_panic_readers m s :
  np (r_nnbi m None None s) /\
  (forall lb ub, nn_bounded lb ub ->
     opt_or lb 0 + 2 ^ N.size (opt_or ub I64_MAX - opt_or lb 0) <= two64 -> np (r_nnbi m lb ub s)) /\
  (forall lb ub, opt_or lb 0 < two64 -> ~ Known_C10_length_semi_or_large_bound lb ub ->
     np (r_length_determinant m lb ub s)) /\
  (forall k, np (r_2s_compliment k s)) /\
  (forall lb ub, np (r_constrained m lb ub s)) /\
  np (r_normally_small m s) /\
  (forall lb, np (r_semi_constrained m lb s)) /\
  np (r_unconstrained m s) /\
  (forall std ext, std < two64 -> np (r_enumeration_index m std ext s)).
Proof.
  repeat split; intros.
  - apply r_nnbi_unbounded_np. - apply r_nnbi_bounded_np; assumption. - apply r_length_np; assumption.
  - apply r_twos_np. - apply r_constrained_np. - apply r_normally_small_np.
  - apply r_semi_constrained_np. - apply r_unconstrained_np. - apply r_index_np; assumption.
Qed.


(** ** OCTET STRING / BIT STRING readers on arbitrary sources *)
(* bits still readable under the declared length *)
Definition rem (s : src) : N := s_len s - s_pos s.

Lemma r_bit_rem s b s' : r_bit s = Ok (b, s') -> rem s' + 1 = rem s.
Proof.
  unfold r_bit, rem. destruct (N.ltb_spec (s_pos s) (s_len s)) as [L|L]; [|discriminate].
  destruct (s_rest s); [discriminate|]. intros E. injection E as _ <-. unfold src_adv. cbn [s_len s_pos]. lia.
Qed.

Lemma r_bits_into_rem s d o n bs s' : r_bits_into s d o n = Ok (bs, s') -> rem s' + n = rem s.
Proof.
  unfold r_bits_into, rem. destruct (N.ltb_spec (s_len s - s_pos s) n) as [L|L]; [discriminate|].
  repeat (destruct (_ <? _); [discriminate|]). intros E. injection E as _ <-.
  unfold src_adv. cbn [s_len s_pos]. lia.
Qed.

Lemma r_len_unc_bound s l s' : r_length_determinant_unc s = Ok (l, s') ->
  l <= 65536 /\ rem s' < rem s.
Proof.
  unfold r_length_determinant_unc.
  destruct (r_bit s) as [[b1 s1]| |] eqn:E1; cbn [bind]; try discriminate.
  apply r_bit_rem in E1. destruct (negb b1).
  - destruct (r_bits_into s1 64 57 7) as [[bs s2]| |] eqn:E2; cbn [bind]; try discriminate.
    intros H. injection H as <- <-. pose proof (r_bits_into_len _ _ _ _ _ _ E2) as Hl.
    apply r_bits_into_rem in E2. pose proof (vob_lt bs) as Hv.
    assert (2 ^ bl bs <= 2 ^ 7) by (apply N.pow_le_mono_r; lia). change (2 ^ 7) with 128 in *. lia.
  - destruct (r_bit s1) as [[b2 s2]| |] eqn:E2; cbn [bind]; try discriminate.
    apply r_bit_rem in E2. destruct (negb b2).
    + destruct (r_bits_into s2 64 50 14) as [[bs s3]| |] eqn:E3; cbn [bind]; try discriminate.
      intros H. injection H as <- <-. pose proof (r_bits_into_len _ _ _ _ _ _ E3) as Hl.
      apply r_bits_into_rem in E3. pose proof (vob_lt bs) as Hv.
      assert (2 ^ bl bs <= 2 ^ 14) by (apply N.pow_le_mono_r; lia). change (2 ^ 14) with 16384 in *. lia.
    + destruct (r_bits_into s2 8 2 6) as [[bs s3]| |] eqn:E3; cbn [bind]; try discriminate.
      intros H.
      assert (l = LENGTH_16K * N.min (val_of_bits bs) MAX_FRAGMENTS /\ s' = s3) as [-> ->] by (split; congruence).
      apply r_bits_into_rem in E3. unfold LENGTH_16K, MAX_FRAGMENTS. lia.
Qed.

Lemma r_octet_loop_np m : forall fuel s acc, rem s < N.of_nat fuel -> np (r_octet_frag_loop fuel m s acc).
Proof.
  induction fuel as [|f IH]; intros s acc Hf; [lia|].
  cbn [r_octet_frag_loop]. rewrite r_len_unc_eq.
  apply np_bind; [apply r_len_unc_np|intros [ext s1] E1].
  apply r_len_unc_bound in E1. destruct E1 as [Hl Hr].
  rewrite alloc_ok by (unfold ALLOC_LIMIT; lia). cbn [bind].
  apply np_bind; [apply r_bits_into_np|intros [bs s2] E2]. apply r_bits_into_rem in E2.
  destruct (_ <? _); [reflexivity|]. apply IH. lia.
Qed.

Lemma octet_rbody_np m n frag s : n <= ALLOC_LIMIT -> np (octet_rbody m n frag s).
Proof.
  intros Hn. unfold octet_rbody. rewrite alloc_ok by exact Hn. cbn [bind].
  apply np_bind'; [apply r_bits_into_np|intros [bs s1]].
  destruct (_ && _); [|reflexivity]. apply r_octet_loop_np. unfold rem. lia.
Qed.

(* the count decoded by the length-determinant reader is small outside F10-1 *)
Lemma r_length_bound m lb ub s l s' :
  ~ Known_C10_length_semi_or_large_bound lb ub -> opt_or lb 0 <= opt_or ub I64_MAX ->
  r_length_determinant m lb ub s = Ok (l, s') -> l <= 131072.
Proof.
  intros Hk Hwf. destruct (not_known_cases lb ub Hk) as [(u & -> & Hu)|[-> ->]].
  - rewrite r_len_constrained by exact Hu. cbn [opt_or] in Hwf. set (lo := opt_or lb 0) in *.
    assert (E : r_nnbi m lb (Some u) s =
      (let range := u - lo in
       let offset_bits := lz64 range in
       let! (bs, s) := r_bits_into s 64 offset_bits (64 - offset_bits) in
       let! v := uadd m lo (val_of_bits bs) in
       Ok (v, s))) by (unfold lo; destruct lb; reflexivity).
    rewrite E. cbv zeta. clear E.
    destruct (r_bits_into s 64 _ _) as [[bs s1]| |] eqn:E1; cbn [bind]; try discriminate.
    apply r_bits_into_len in E1. pose proof (vob_lt bs) as Hv.
    assert (N.size (u - lo) <= 16) by (apply size_le_of_lt; change (2 ^ 16) with 65536; lia).
    assert (2 ^ bl bs <= 2 ^ 16) by (apply N.pow_le_mono_r; unfold lz64 in E1; lia).
    change (2 ^ 16) with 65536 in *.
    rewrite uadd_ok by (unfold two64; lia). cbn [bind]. intros H'. injection H' as <- _. lia.
  - rewrite r_len_unc_eq. intros H. apply r_len_unc_bound in H. lia.
Qed.

Lemma r_octetstring_np m lb ub extensible s :
  ~ Known_C10_length_semi_or_large_bound lb ub -> opt_or lb 0 <= opt_or ub I64_MAX ->
  np (r_octetstring m lb ub extensible s).
Proof.
  intros Hk Hwf. rewrite r_octetstring_eq. cbv zeta.
  assert (Hl64 : opt_or lb 0 < two64).
  { destruct (not_known_cases lb ub Hk) as [(u & -> & Hu)|[-> ->]]; cbn [opt_or] in *; unfold two64; lia. }
  assert (Rest : forall s1,
    np (if opt_or ub I64_MAX =? 0 then Ok ([], s1)
        else if is_some lb && opt_n_eqb lb ub && (opt_or ub I64_MAX <? LENGTH_64K)
             then octet_rbody m (opt_or ub I64_MAX) false s1
             else let! (l, s2) := r_length_determinant m lb ub s1 in
                  octet_rbody m l (negb (is_some lb) && negb (is_some ub)) s2)).
  { intros s1. destruct (_ =? 0); [reflexivity|].
    destruct (is_some lb && opt_n_eqb lb ub && (opt_or ub I64_MAX <? LENGTH_64K)) eqn:Ef.
    - apply andb_true_iff in Ef. destruct Ef as [_ Ef]. apply N.ltb_lt in Ef.
      apply octet_rbody_np. unfold LENGTH_64K, ALLOC_LIMIT in *. lia.
    - apply np_bind; [apply r_length_np; assumption|intros [l s2] E].
      apply r_length_bound in E; [|assumption|assumption].
      apply octet_rbody_np. unfold ALLOC_LIMIT. lia. }
  destruct extensible; [|apply Rest].
  apply np_bind'; [apply r_bit_np|intros [ext s1]]. destruct ext; [|apply Rest].
  rewrite r_len_unc_eq. apply np_bind; [apply r_len_unc_np|intros [l s2] E].
  apply r_len_unc_bound in E. apply octet_rbody_np. unfold ALLOC_LIMIT. lia.
Qed.

(* F10-3: in the F10-1 class the decoded count is a 63-bit number and the allocation panics *)
Lemma refuted_octetstring_alloc :
  exists m lb bytes, r_octetstring m (Some lb) None false (src_of_bytes bytes (8 * blen bytes)) = Panic P_CAPACITY.
Proof. exists release_mode, 1, [255; 255; 255; 255; 255; 255; 255; 255]. vm_compute. reflexivity. Qed.

Lemma bit_rbody_np m n s : n <= 8 * ALLOC_LIMIT -> np (bit_rbody m n false s).
Proof.
  intros Hn. unfold bit_rbody. cbv zeta. rewrite alloc_ok by (unfold ALLOC_LIMIT in *; lia). cbn [bind].
  apply np_bind'; [apply r_bits_into_np|intros [bs s1]]. reflexivity.
Qed.

(* BIT STRING reader with an upper bound below 64K in the root and no extension marker: no
   fragment loop is entered *)
Lemma r_bitstring_np m lb u s : u < 65536 -> opt_or lb 0 <= u ->
  np (r_bitstring m lb (Some u) false s).
Proof.
  intros Hu Hwf. rewrite r_bitstring_eq. cbv zeta. cbn [opt_or].
  assert (Hk : ~ Known_C10_length_semi_or_large_bound lb (Some u)) by (cbn; lia).
  destruct (_ && _); [apply bit_rbody_np; unfold ALLOC_LIMIT; lia|].
  apply np_bind; [apply r_length_np; [unfold two64; lia|exact Hk]|intros [l s2] E].
  apply r_length_bound in E; [|exact Hk|exact Hwf].
  replace (negb (is_some lb) && negb (is_some (Some u))) with false by (destruct lb; reflexivity).
  apply bit_rbody_np. unfold ALLOC_LIMIT. lia.
Qed.

(* F10-2 on the read side: a second fragment after a 16K-bit first fragment underflows *)
Lemma refuted_bitstring_read_16k :
  exists bytes, r_bitstring dev_mode None None false (src_of_bytes bytes (8 * blen bytes)) = Panic P_ARITH.
Proof. exists ([193] ++ repeat 0 2048 ++ [1; 128]). vm_compute. reflexivity. Qed.


(** ** corollaries *)
(* out of the extension root of an extensible size constraint: any bounds, F10-1 included *)
Lemma octetstring_write_ext m lb ub bytes :
  blen bytes < two63 -> blen bytes < opt_or lb 0 \/ opt_or ub I64_MAX < blen bytes ->
  let bs := true :: x_unconstrained_length_run 8 (blen bytes) (bits_of_bytes bytes) in
  w_octetstring m lb ub true bytes = Ok bs /\ x_octetstring lb ub true bytes = Some bs.
Proof.
  intros Hn Ho bs.
  assert (Hx : x_octetstring lb ub true bytes = Some bs).
  { unfold x_octetstring. rewrite x_sized_run_eq. cbv zeta. fold (blen bytes).
    destruct (N.leb_spec (opt_or lb 0) (blen bytes)) as [L|L]; [|reflexivity].
    destruct ub as [u|]; cbn [opt_or andb] in *.
    - destruct (N.leb_spec (blen bytes) u); [lia|reflexivity].
    - unfold I64_MAX in Ho. lia. }
  split; [|exact Hx].
  rewrite octetstring_write, Hx; [reflexivity|exact Hn|]. intros [_ R]. lia.
Qed.

Lemma refuted_octetstring_sized_length :
  exists m lb ub bytes bs, Known_C10_sized_length lb ub (blen bytes) /\
    x_octetstring lb ub false bytes = Some bs /\ w_octetstring m lb ub false bytes <> Ok bs
    /\ is_ok (w_octetstring m lb ub false bytes) = true.
Proof.
  exists dev_mode, (Some 1), None, [1; 2; 3], (bits_of_bytes [3; 1; 2; 3]).
  split; [split; [discriminate|vm_compute; split; discriminate]|].
  split; [reflexivity|]. split; [vm_compute; discriminate|reflexivity].
Qed.

