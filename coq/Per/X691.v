(* Per/X691.v -- stub, to be filled *)
