(* Reference encodings of the X.691 (08/2015) UNALIGNED-variant primitives, written
   clause by clause from the standard and independently of Per/Prim.v (shared: [bits]
   only).  [None] = the arguments are inadmissible (nothing to encode). *)
From A1 Require Export Bits.Naive.
Local Open Scope N_scope.

(* the k low-order bits of v, most significant first: a "bit-field of length k" (11.3) *)
Definition field (k : N) (v : N) : bits := bits_of_val (N.to_nat k) v.

(* 11.3 non-negative-binary-integer in the minimum number of bits (at least [minbits]) *)
Definition nbits (v : N) : N := N.size v.        (* 0 for v = 0 *)
(* minimum number of octets holding v as a non-negative-binary-integer (at least one) *)
Definition noctets (v : N) : N := N.max 1 ((nbits v + 7) / 8).

(* 11.4 2's-complement-binary-integer: minimum number of octets *)
Definition twos_octets (v : Z) : N :=
  if (0 <=? v)%Z then N.max 1 ((nbits (Z.to_N v) + 1 + 7) / 8)
  else N.max 1 ((nbits (Z.to_N (- v - 1)) + 1 + 7) / 8).
Definition twos_field (octets : N) (v : Z) : bits :=
  field (8 * octets) (Z.to_N (v mod 2 ^ Z.of_N (8 * octets))).

(* 11.5.7 (UNALIGNED, 11.5.6): constrained whole number, range = ub - lb + 1:
   a bit-field of the minimum length holding range - 1; empty when range = 1 *)
Definition x_constrained (lb ub v : Z) : option bits :=
  if ((lb <=? v) && (v <=? ub))%Z then
    let range1 := Z.to_N (ub - lb) in   (* range - 1 *)
    Some (field (nbits range1) (Z.to_N (v - lb)))
  else None.

(* 11.9.3.5 - 11.9.3.8 (UNALIGNED: no alignment): unconstrained length determinant for a value
   below 16K; fragmentation is handled by the callers ([x_frag]) *)
Definition x_len_short (n : N) : bits :=
  if n <=? 127 then false :: field 7 n
  else true :: false :: field 14 n.

(* 11.9.3.8: a run of [n] items (each [unit] bits wide in [body]) with 16K fragmentation:
   blocks of m*16K items (m = 1..4, the largest possible first), each preceded by 11 + 6-bit m,
   followed by a final length below 16K (possibly 0) and the remaining items *)
Fixpoint x_frag (fuel : nat) (unit : N) (n : N) (body : bits) : bits :=
  match fuel with
  | O => []
  | S f =>
      if n <? 16384 then x_len_short n ++ body
      else
        let m := N.min (n / 16384) 4 in
        let cnt := m * 16384 in
        true :: true :: field 6 m ++ firstn (N.to_nat (cnt * unit)) body
          ++ x_frag f unit (n - cnt) (skipn (N.to_nat (cnt * unit)) body)
  end.
Definition x_unconstrained_length_run (unit n : N) (body : bits) : bits :=
  x_frag (S (N.to_nat (n / 16384))) unit n body.

(* 11.7: semi-constrained whole number: (v - lb) as non-negative-binary-integer in the minimum
   number of octets, preceded by an unconstrained length determinant counting the octets *)
Definition x_semi_constrained (lb v : Z) : option bits :=
  if (lb <=? v)%Z then
    let d := Z.to_N (v - lb) in
    Some (x_len_short (noctets d) ++ field (8 * noctets d) d)
  else None.

(* 11.8: unconstrained whole number: 2's complement in the minimum number of octets with length *)
Definition x_unconstrained (v : Z) : bits :=
  x_len_short (twos_octets v) ++ twos_field (twos_octets v) v.

(* 11.6: normally small non-negative whole number *)
Definition x_normally_small (n : N) : bits :=
  if n <=? 63 then false :: field 6 n
  else true :: x_len_short (noctets n) ++ field (8 * noctets n) n.

(* the first length determinant of a possibly fragmented run: 11.9.3.8 header for n >= 16K *)
Definition x_len_first (n : N) : bits :=
  if n <? 16384 then x_len_short n else true :: true :: field 6 (N.min (n / 16384) 4).

(* 11.9.4 (UNALIGNED) length determinant for a count n with optional bounds, n below 16K in the
   unconstrained form (callers fragment otherwise):
   11.9.4.1: ub defined and below 64K -> constrained whole number (lb, ub);
   11.9.4.2: otherwise the unconstrained form 11.9.3.5-8 *)
Definition x_length (lb ub : option N) (n : N) : option bits :=
  let l := match lb with Some l => l | None => 0 end in
  match ub with
  | Some u =>
      if u <? 65536 then x_constrained (Z.of_N l) (Z.of_N u) (Z.of_N n)
      else if (l <=? n) && (n <=? u) then Some (x_len_first n) else None
  | None => if l <=? n then Some (x_len_first n) else None
  end.

(* 14 / 23: enumeration or choice index: [std] root items, [extensible], chosen [index] *)
Definition x_index (std : N) (extensible : bool) (index : N) : option bits :=
  if index <? std then
    match x_constrained 0 (Z.of_N std - 1) (Z.of_N index) with
    | Some b => Some (if extensible then false :: b else b)
    | None => None
    end
  else if extensible then Some (true :: x_normally_small (index - std))
  else None.

(* 17: OCTET STRING of [n] octets [body] (8 bits each) with SIZE (lb..ub[, ...]) *)
Definition x_sized_run (unit : N) (lb ub : option N) (extensible : bool) (n : N) (body : bits) : option bits :=
  let l := match lb with Some l => l | None => 0 end in
  let in_root := (l <=? n) && (match ub with Some u => n <=? u | None => true end) in
  if in_root then
    let pre := if extensible then [false] else [] in
    match ub with
    | Some u =>
        if u =? 0 then Some pre                                   (* 17.5 / 16.8 *)
        else if (l =? u) && (u <? 65536) then Some (pre ++ body)  (* 17.6-17.7 / 16.9-16.10: no length *)
        else if u <? 65536 then
          match x_constrained (Z.of_N l) (Z.of_N u) (Z.of_N n) with
          | Some lenb => Some (pre ++ lenb ++ body)
          | None => None
          end
        else Some (pre ++ x_unconstrained_length_run unit n body)
    | None => Some (pre ++ x_unconstrained_length_run unit n body)
    end
  else if extensible then Some (true :: x_unconstrained_length_run unit n body)   (* 17.3 / 16.6 *)
  else None.

Definition x_octetstring (lb ub : option N) (extensible : bool) (octets : list N) : option bits :=
  x_sized_run 8 lb ub extensible (N.of_nat (length octets)) (bits_of_bytes octets).

Definition x_bitstring (lb ub : option N) (extensible : bool) (content : bits) : option bits :=
  x_sized_run 1 lb ub extensible (N.of_nat (length content)) content.
