(* L1: model of src/protocol/per/unaligned/mod.rs — every PackedWrite / PackedRead
   method — over the abstract bit carriers justified by C11:
     - writers return the bits they append to the BitBuffer ([res bits]);
     - readers run on a source [src] = (whole slice as bits, cursor, declared length),
       consulting the declared length exactly where buffer.rs::Bits does.
   Rust's u64/i64/usize arithmetic is explicit per cargo profile ([mode]). *)
From A1 Require Export Bits.Naive Bits.Copy.
Local Open Scope N_scope.

(* per::ErrorKind codes *)
Definition E_UTF8 : N := 1.
Definition E_INVALID_STRING : N := 2.
Definition E_UNSUPPORTED : N := 3.
Definition E_LENGTH_EXCEEDS : N := 6.
Definition E_INVALID_CHOICE : N := 7.
Definition E_EXT_INCONSISTENT : N := 8.
Definition E_VALUE_RANGE : N := 9.
Definition E_SIZE_RANGE : N := 12.
Definition E_BITLEN_RANGE : N := 13.

Definition I64_MAX : N := two63 - 1.
Definition I64_MAXz : Z := Z.of_N two63 - 1.
Definition I64_MINz : Z := - Z.of_N two63.

(* i64 arithmetic per profile *)
Definition iwrap (z : Z) : Z := i64_of_u64 (u64_of_i64 z).
Definition ichk (m : mode) (z : Z) : res Z :=
  if is_i64b z then Ok z else if overflow_checks m then Panic P_ARITH else Ok (iwrap z).
Definition iadd m a b := ichk m (a + b)%Z.
Definition isub m a b := ichk m (a - b)%Z.

Definition opt_or {A} (o : option A) (d : A) : A := match o with Some a => a | None => d end.
Definition is_some {A} (o : option A) : bool := match o with Some _ => true | None => false end.
Definition opt_n_eqb (a b : option N) : bool :=
  match a, b with Some x, Some y => x =? y | None, None => true | _, _ => false end.

(** ** bit sources (reader side) *)
Record src := { s_all : bits; s_total : N; s_rest : bits; s_pos : N; s_len : N }.

Definition src_of_bits (all : bits) (len : N) : src :=
  {| s_all := all; s_total := N.of_nat (length all); s_rest := all; s_pos := 0; s_len := len |}.
Definition src_of_bytes (bs : list N) (len : N) : src := src_of_bits (bits_of_bytes bs) len.

Definition src_adv (s : src) (n : N) (rest : bits) : src :=
  {| s_all := s_all s; s_total := s_total s; s_rest := rest; s_pos := s_pos s + n; s_len := s_len s |}.

(* ScopedBitRead::set_pos (clamped to len) *)
Definition src_set_pos (s : src) (p : N) : src :=
  let p' := N.min p (s_len s) in
  {| s_all := s_all s; s_total := s_total s; s_rest := skipn (N.to_nat p') (s_all s); s_pos := p'; s_len := s_len s |}.
Definition src_remaining (m : mode) (s : src) : res N := usub m (s_len s) (s_pos s).

(* Bits::read_bit *)
Definition r_bit (s : src) : res (bool * src) :=
  if s_pos s <? s_len s then
    match s_rest s with
    | b :: rest => Ok (b, src_adv s 1 rest)
    | [] => Err E_END_OF_STREAM
    end
  else Err E_END_OF_STREAM.

(* Bits::read_bits_with_offset_len into a destination of [dst_bits] bits at [doff]:
   declared-length guard, then the destination check, then the source check of bit_string_copy *)
Definition r_bits_into (s : src) (dst_bits doff n : N) : res (bits * src) :=
  if s_len s - s_pos s <? n then Err E_END_OF_STREAM else
  if dst_bits <? doff + n then Err E_INSUFFICIENT_DST else
  if s_total s - s_pos s <? n then Err E_INSUFFICIENT_SRC else
  Ok (firstn (N.to_nat n) (s_rest s), src_adv s n (skipn (N.to_nat n) (s_rest s))).
Definition r_bits (s : src) (n : N) : res (bits * src) := r_bits_into s n 0 n.

(* read bit at an absolute position: with_read_position_at(pos, read_bit) *)
Definition r_bit_at (s : src) (p : N) : res bool :=
  let s' := src_set_pos s p in
  let! (b, _) := r_bit s' in Ok b.

(** ** allocation model: vec![0; n] / Vec::with_capacity(n) / extend by n zero bytes *)
Definition ALLOC_LIMIT : N := 4294967296.
Definition alloc (n : N) : res unit :=
  if I64_MAX <? n then Panic P_CAPACITY
  else if ALLOC_LIMIT <? n then Panic P_UNBOUNDED
  else Ok tt.

(** ** writers *)
Definition bits64 (x : N) : bits := bits_of_val 64 x.

(* BitBuffer::write_bits_with_offset_len(src, off, len) as an append of source bits *)
Definition w_bits_ol (srcb : bits) (off len : N) : res bits :=
  if N.of_nat (length srcb) <? off + len then Err E_INSUFFICIENT_SRC
  else Ok (firstn (N.to_nat len) (skipn (N.to_nat off) srcb)).

Definition w_nnbi (m : mode) (lb ub : option N) (v : N) : res bits :=
  match lb, ub with
  | None, None =>
      let offset := N.min (lz64 v / 8) 7 in
      let len := 8 - offset in
      (* write_length_determinant(None, None, len) with len <= 8: the one-octet form *)
      Ok ([false] ++ skipn 57 (bits64 len) ++ skipn (N.to_nat (8 * offset)) (bits64 v))
  | _, _ =>
      let lower := opt_or lb 0 in
      let upper := opt_or ub I64_MAX in
      if (v <? lower) || (upper <? v) then Err E_VALUE_RANGE else
      let! range := usub m upper lower in
      let offset_bits := lz64 range in
      let! x := usub m v lower in
      Ok (skipn (N.to_nat offset_bits) (bits64 x))
  end.

(* returns the appended bits and the fragment size Option<u64> *)
Definition w_length_determinant (m : mode) (lb ub : option N) (v : N) : res (bits * option N) :=
  let lbu := opt_or lb 0 in
  let ubu := opt_or ub I64_MAX in
  if (is_some lb || is_some ub) && (LENGTH_64K <=? ubu) then
    if opt_n_eqb lb ub then Ok ([], None)
    else if v <? lbu then Err E_VALUE_RANGE
    else let! b := w_nnbi m lb ub (v - lbu) in Ok (b, None)
  else if is_some ub && (ubu <=? LENGTH_64K) then
    let! b := w_nnbi m lb ub v in Ok (b, None)
  else if v <=? LENGTH_127 then
    let! b := w_nnbi m None (Some LENGTH_127) v in Ok (false :: b, None)
  else if v <? LENGTH_16K then
    let! b := w_nnbi m None (Some (LENGTH_16K - 1)) v in Ok (true :: false :: b, None)
  else
    let multiple := N.min (v / LENGTH_16K) MAX_FRAGMENTS in
    Ok (true :: true :: skipn 2 (byte_bits multiple), Some (multiple * LENGTH_16K)).

Definition w_2s_compliment (m : mode) (bit_len : N) (v : Z) : res bits :=
  if (bit_len =? 0) || (64 <? bit_len) then Err E_BITLEN_RANGE else
  (* (value << shift) >> shift != value  <->  value is not representable in bit_len bits *)
  if negb ((- 2 ^ (Z.of_N bit_len - 1) <=? v) && (v <? 2 ^ (Z.of_N bit_len - 1)))%Z then Err E_VALUE_RANGE else
  w_bits_ol (bits64 (u64_of_i64 v)) (64 - bit_len) bit_len.

Definition w_constrained (m : mode) (lb ub v : Z) : res bits :=
  if ((v <? lb) || (ub <? v))%Z then Err E_VALUE_RANGE else
  (* upper.wrapping_sub(lower) as u64: exact because lb <= v <= ub here *)
  let range := u64_of_i64 (ub - lb) in
  if 0 <? range then w_nnbi m None (Some range) (u64_of_i64 (v - lb))
  else Ok [].

Definition w_normally_small (m : mode) (v : N) : res bits :=
  if SMALL_NON_NEGATIVE_NUMBER <=? v then
    let! b := w_nnbi m None None v in Ok (true :: b)
  else
    let! b := w_nnbi m None (Some (SMALL_NON_NEGATIVE_NUMBER - 1)) v in Ok (false :: b).

Definition w_semi_constrained (m : mode) (lb v : Z) : res bits :=
  if (v <? lb)%Z then Err E_VALUE_RANGE
  else w_nnbi m None None (u64_of_i64 (v - lb)).      (* wrapping_sub as u64 *)

(* i64::leading_ones / leading_zeros on the bit pattern *)
Definition lo64 (x : N) : N := lz64 (two64 - 1 - x).

Definition w_unconstrained (m : mode) (v : Z) : res bits :=
  let x := u64_of_i64 v in
  let lead := if (v <? 0)%Z then lo64 x else lz64 x in
  let prefix_len := (lead - 1) / 8 in
  let octet_len := 8 - prefix_len in
  let! (lb_, _) := w_length_determinant m None None octet_len in
  let! b := w_2s_compliment m (octet_len * 8) v in
  Ok (lb_ ++ b).

Definition w_enumeration_index (m : mode) (std_variants : N) (extensible : bool) (index : N) : res bits :=
  let out_of_range := std_variants <=? index in
  let pre := if extensible then [out_of_range] else [] in
  if out_of_range then
    if extensible then
      let! d := usub m index std_variants in
      let! b := w_normally_small m d in Ok (pre ++ b)
    else Err E_INVALID_CHOICE
  else
    let! u := usub m std_variants 1 in
    let! b := w_nnbi m None (Some u) index in Ok (pre ++ b).

(* write_octetstring: [srcb] are the bits of the source bytes, [length] = src.len() *)
Fixpoint w_octet_frag_loop (fuel : nat) (m : mode) (srcb : bits) (length written : N) : res bits :=
  match fuel with
  | O => Panic P_UNBOUNDED
  | S f =>
      let remaining := length - written in
      let! (hb, fs) := w_length_determinant m None None remaining in
      let fragment_size := opt_or fs remaining in
      (* &src[written..written+fragment_size] is in range because fragment_size <= remaining *)
      let! body := w_bits_ol srcb (8 * written) (8 * fragment_size) in
      if fragment_size <? MIN_FRAGMENT_SIZE then Ok (hb ++ body)
      else let! more := w_octet_frag_loop f m srcb length (written + fragment_size) in
           Ok (hb ++ body ++ more)
  end.

Definition w_octetstring (m : mode) (lb ub : option N) (extensible : bool) (srcbytes : list N) : res bits :=
  let lower := opt_or lb 0 in
  let upper := opt_or ub I64_MAX in
  let length := blen srcbytes in
  let srcb := bits_of_bytes srcbytes in
  let out_of_range := (length <? lower) || (upper <? length) in
  let pre := if extensible then [out_of_range] else [] in
  let cont (hb : bits) (fs : option N) : res bits :=
    let first := opt_or fs length in
    (* &src[..first]: slice-range panic if first > length *)
    if length <? first then Panic P_SLICE_RANGE else
    let! body := w_bits_ol srcb 0 (8 * first) in
    match fs with
    | None => Ok (pre ++ hb ++ body)
    | Some written =>
        let! more := w_octet_frag_loop (S (N.to_nat (length / MIN_FRAGMENT_SIZE) + 1)) m srcb length written in
        Ok (pre ++ hb ++ body ++ more)
    end in
  if out_of_range then
    if extensible then
      let! (hb, fs) := w_length_determinant m None None length in cont hb fs
    else Err E_SIZE_RANGE
  else if upper =? 0 then Ok pre
  else if is_some lb && opt_n_eqb lb ub && (upper <? LENGTH_64K) then cont [] None
  else let! (hb, fs) := w_length_determinant m lb ub length in cont hb fs.

(* write_bitstring(lb, ub, ext, src, offset, len): [srcb] bits of src *)
Fixpoint w_bit_frag_loop (fuel : nat) (m : mode) (srcb : bits) (offset length written : N) : res bits :=
  match fuel with
  | O => Panic P_UNBOUNDED
  | S f =>
      let fs0 := N.min (length - written) MAX_FRAGMENTS_SIZE in
      let fragment_size := fs0 - fs0 mod MIN_FRAGMENT_SIZE in
      let! (hb, _) := w_length_determinant m None None fragment_size in
      let! body := w_bits_ol srcb (offset + written) fragment_size in
      if fragment_size <? MIN_FRAGMENT_SIZE then Ok (hb ++ body)
      else let! more := w_bit_frag_loop f m srcb offset length (written + fragment_size) in
           Ok (hb ++ body ++ more)
  end.

Definition w_bitstring (m : mode) (lb ub : option N) (extensible : bool) (srcbytes : list N) (offset len : N) : res bits :=
  let lower := opt_or lb 0 in
  let upper := opt_or ub I64_MAX in
  let length := len in
  let srcb := bits_of_bytes srcbytes in
  let fragmented := MAX_FRAGMENTS_SIZE <? length in
  let out_of_range := (length <? lower) || (upper <? length) in
  let pre := if extensible then [out_of_range] else [] in
  let! hb :=
    (if out_of_range then
       if extensible then let! (hb, _) := w_length_determinant m None None length in Ok hb
       else Err E_SIZE_RANGE
     else if is_some lb && opt_n_eqb lb ub && (upper <? LENGTH_64K) then Ok []
     else let! (hb, _) := w_length_determinant m lb ub length in Ok hb) in
  let! body := w_bits_ol srcb offset (N.min MAX_FRAGMENTS_SIZE length) in
  if fragmented then
    let! more := w_bit_frag_loop (S (N.to_nat (length / MIN_FRAGMENT_SIZE) + 1)) m srcb offset length MAX_FRAGMENTS_SIZE in
    Ok (pre ++ hb ++ body ++ more)
  else Ok (pre ++ hb ++ body).

(** ** readers *)

Definition r_length_determinant_unc (s : src) : res (N * src) :=
  (* the (None, None) form: 11.9.3.5 - 11.9.3.8 *)
  let! (b1, s) := r_bit s in
  if negb b1 then
    let! (bs, s) := r_bits_into s 64 57 7 in Ok (val_of_bits bs, s)
  else
    let! (b2, s) := r_bit s in
    if negb b2 then
      let! (bs, s) := r_bits_into s 64 50 14 in Ok (val_of_bits bs, s)
    else
      let! (bs, s) := r_bits_into s 8 2 6 in
      Ok (LENGTH_16K * N.min (val_of_bits bs) MAX_FRAGMENTS, s).

Definition r_nnbi (m : mode) (lb ub : option N) (s : src) : res (N * src) :=
  match lb, ub with
  | None, None =>
      let! (length, s) := r_length_determinant_unc s in
      if length <=? 8 then
        let! (bs, s) := r_bits s (8 * length) in Ok (val_of_bits bs, s)
      else Err E_LENGTH_EXCEEDS
  | _, _ =>
      let lower := opt_or lb 0 in
      let upper := opt_or ub I64_MAX in
      let range := upper - lower in   (* saturating_sub *)
      let offset_bits := lz64 range in
      let! (bs, s) := r_bits_into s 64 offset_bits (64 - offset_bits) in
      let! v := uadd m lower (val_of_bits bs) in
      Ok (v, s)
  end.

Definition r_length_determinant (m : mode) (lb ub : option N) (s : src) : res (N * src) :=
  let lbu := opt_or lb 0 in
  let ubu := opt_or ub I64_MAX in
  if (is_some lb || is_some ub) && (LENGTH_64K <=? ubu) then
    if opt_n_eqb lb ub then Ok (lbu, s)
    else let! (v, s) := r_nnbi m lb ub s in
         let! r := uadd m lbu v in Ok (r, s)
  else if is_some ub && (ubu <=? LENGTH_64K) then r_nnbi m lb ub s
  else r_length_determinant_unc s.

Definition r_2s_compliment (bit_len : N) (s : src) : res (Z * src) :=
  if (bit_len =? 0) || (64 <? bit_len) then Err E_BITLEN_RANGE else
  let! (bs, s) := r_bits_into s 64 (64 - bit_len) bit_len in
  let v := val_of_bits bs in
  let neg := hd false bs in
  Ok ((if neg then Z.of_N v - 2 ^ Z.of_N bit_len else Z.of_N v)%Z, s).

Definition r_constrained (m : mode) (lb ub : Z) (s : src) : res (Z * src) :=
  let range := u64_of_i64 (ub - lb) in
  if 0 <? range then
    let! (n, s) := r_nnbi m None (Some range) s in
    Ok (iwrap (lb + i64_of_u64 n), s)      (* wrapping_add *)
  else Ok (lb, s).

Definition r_normally_small (m : mode) (s : src) : res (N * src) :=
  let! (big, s) := r_bit s in
  if big then r_nnbi m None None s
  else r_nnbi m None (Some (SMALL_NON_NEGATIVE_NUMBER - 1)) s.

Definition r_semi_constrained (m : mode) (lb : Z) (s : src) : res (Z * src) :=
  let! (n, s) := r_nnbi m None None s in
  Ok (iwrap (i64_of_u64 n + lb), s).                  (* wrapping_add *)

Definition r_unconstrained (m : mode) (s : src) : res (Z * src) :=
  let! (octet_len, s) := r_length_determinant m None None s in
  r_2s_compliment (octet_len * 8) s.

Definition r_enumeration_index (m : mode) (std_variants : N) (extensible : bool) (s : src) : res (N * src) :=
  let small (s : src) :=
    if std_variants =? 0 then Err E_INVALID_CHOICE else
    r_nnbi m None (Some (std_variants - 1)) s in
  if extensible then
    let! (ext, s) := r_bit s in
    if ext then
      let! (n, s) := r_normally_small m s in
      (* checked_add *)
      if n + std_variants <? two64 then Ok (n + std_variants, s) else Err E_INVALID_CHOICE
    else small s
  else small s.

(* read_octetstring: returns the bytes read (as bits, 8 per byte) *)
Fixpoint r_octet_frag_loop (fuel : nat) (m : mode) (s : src) (acc : bits) : res (bits * src) :=
  match fuel with
  | O => Panic P_UNBOUNDED
  | S f =>
      let! (ext, s) := r_length_determinant m None None s in
      let! _ := alloc ext in
      let! (bs, s) := r_bits s (8 * ext) in
      if ext <? LENGTH_16K then Ok (acc ++ bs, s)
      else r_octet_frag_loop f m s (acc ++ bs)
  end.

Definition r_octetstring (m : mode) (lb ub : option N) (extensible : bool) (s : src) : res (bits * src) :=
  let upper := opt_or ub I64_MAX in
  let body (byte_len : N) (frag : bool) (s : src) : res (bits * src) :=
    let! _ := alloc byte_len in
    let! (bs, s) := r_bits s (8 * byte_len) in
    if frag && (LENGTH_16K <=? byte_len) then
      r_octet_frag_loop (S (N.to_nat (s_len s - s_pos s))) m s bs
    else Ok (bs, s) in
  let rest (s : src) :=
    if upper =? 0 then Ok ([], s)
    else if is_some lb && opt_n_eqb lb ub && (upper <? LENGTH_64K) then body upper false s
    else let! (l, s) := r_length_determinant m lb ub s in body l (negb (is_some lb) && negb (is_some ub)) s in
  if extensible then
    let! (ext, s) := r_bit s in
    if ext then let! (l, s) := r_length_determinant m None None s in body l true s
    else rest s
  else rest s.

(* read_bitstring: returns (content bits, bit_len, buffer byte length) *)
Fixpoint r_bit_frag_loop (fuel : nat) (m : mode) (s : src) (acc : bits) (bit_len byte_len buf_len : N)
  : res (bits * N * N * src) :=
  match fuel with
  | O => Panic P_UNBOUNDED
  | S f =>
      let! (ext_bit_len, s) := r_length_determinant m None None s in
      let! t := uadd m bit_len ext_bit_len in
      let! t7 := uadd m t 7 in
      let! ext_byte_len := usub m byte_len (t7 / 8) in
      let! _ := alloc ext_byte_len in
      let buf_len' := buf_len + ext_byte_len in
      let! (bs, s) := r_bits_into s (8 * buf_len') bit_len ext_bit_len in
      let! bit_len' := uadd m bit_len ext_bit_len in
      let! byte_len' := uadd m byte_len ext_bit_len in
      if ext_bit_len <? LENGTH_16K then Ok (acc ++ bs, bit_len', buf_len', s)
      else r_bit_frag_loop f m s (acc ++ bs) bit_len' byte_len' buf_len'
  end.

Definition r_bitstring (m : mode) (lb ub : option N) (extensible : bool) (s : src) : res (bits * N * N * src) :=
  let upper := opt_or ub I64_MAX in
  let body (bit_len : N) (frag : bool) (s : src) : res (bits * N * N * src) :=
    let byte_len := (bit_len + 7) / 8 in
    let! _ := alloc byte_len in
    let! (bs, s) := r_bits_into s (8 * byte_len) 0 bit_len in
    if frag && (LENGTH_16K <=? bit_len) then
      r_bit_frag_loop (S (N.to_nat (s_len s - s_pos s))) m s bs bit_len byte_len byte_len
    else Ok (bs, bit_len, byte_len, s) in
  let rest (s : src) :=
    if is_some lb && opt_n_eqb lb ub && (upper <? LENGTH_64K) then body upper false s
    else let! (l, s) := r_length_determinant m lb ub s in body l (negb (is_some lb) && negb (is_some ub)) s in
  if extensible then
    let! (ext, s) := r_bit s in
    if ext then let! (l, s) := r_length_determinant m None None s in body l true s
    else rest s
  else rest s.
