(* Front/CodegenProofs.v -- stub, to be filled *)
