(* Front/CodegenProofs.v -- facts about the name mangling of Front/Codegen.v used by Props/C09.v *)
From A1 Require Import Base.Res Gen.Keywords Front.Codegen.
From Coq Require Import ZifyBool ZifyNat ZifyN String.
Local Open Scope N_scope.

(* ------------------------------------------------------------------ characters *)
Definition okc (c : N) : bool := is_lower c || is_digit c || (c =? USCORE).
Definition alnum (c : N) : bool := is_alpha c || is_digit c.

Ltac unf := unfold okc, alnum, ident_continue, asn_char, to_lower, to_upper, is_sep, is_alpha, is_upper, is_lower, is_digit, HYPHEN, USCORE in *.

Lemma lower_not_upper c : is_lower c = true -> is_upper c = false.  Proof. unf. lia. Qed.
Lemma lower_not_sep c : is_lower c = true -> is_sep c = false.      Proof. unf. lia. Qed.
Lemma upper_not_sep c : is_upper c = true -> is_sep c = false.      Proof. unf. lia. Qed.
Lemma lower_alpha c : is_lower c = true -> is_alpha c = true.        Proof. unf. lia. Qed.
Lemma upper_alpha c : is_upper c = true -> is_alpha c = true.        Proof. unf. lia. Qed.
Lemma okc_uscore : okc USCORE = true.                                Proof. reflexivity. Qed.
Lemma okc_to_lower c : is_upper c = true -> okc (to_lower c) = true.
Proof. unf. intros H. rewrite H. lia. Qed.
Lemma okc_plain c : asn_char c = true -> is_upper c = false -> is_sep c = false -> okc c = true.
Proof. unf. lia. Qed.
Lemma okc_continue c : okc c = true -> ident_continue c = true.     Proof. unf. lia. Qed.
Lemma okc_not_hyphen c : okc c = true -> (c =? HYPHEN) = false.      Proof. unf. lia. Qed.
Lemma alnum_continue c : alnum c = true -> ident_continue c = true.  Proof. unf. lia. Qed.
Lemma alnum_not_sep c : alnum c = true -> is_sep c = false.          Proof. unf. lia. Qed.
Lemma alnum_of_asn c : asn_char c = true -> is_sep c = false -> alnum c = true.
Proof. unf. lia. Qed.
Lemma alnum_to_upper c : alnum c = true -> alnum (to_upper c) = true.
Proof. unf. destruct ((97 <=? c) && (c <=? 122)) eqn:E; lia. Qed.
Lemma alnum_to_lower c : alnum c = true -> alnum (to_lower c) = true.
Proof. unf. destruct ((65 <=? c) && (c <=? 90)) eqn:E; lia. Qed.
Lemma to_upper_of_lower c : is_lower c = true -> is_upper (to_upper c) = true.
Proof. unf. intros H. rewrite H. lia. Qed.
Lemma to_upper_of_upper c : is_upper c = true -> to_upper c = c.
Proof. unf. intros H. destruct ((97 <=? c) && (c <=? 122)) eqn:E; [lia | reflexivity]. Qed.

Lemma forallb_Forall {A} (f : A -> bool) l : forallb f l = true <-> Forall (fun x => f x = true) l.
Proof. rewrite forallb_forall, Forall_forall. reflexivity. Qed.

(* ------------------------------------------------------------------ rust_module_name *)
Lemma pad_step_cases pad c o pa : pad_step pad c o pa = USCORE :: o \/ pad_step pad c o pa = o.
Proof. unfold pad_step. destruct (_ && _); auto. Qed.

Lemma upper_step_cases o pl pa rest : upper_step o pl pa rest = USCORE :: o \/ upper_step o pl pa rest = o.
Proof.
  unfold upper_step. destruct (_ && _); auto. destruct (negb pl); auto.
  destruct rest as [|n r]; auto. destruct (is_lower n); auto.
Qed.

Lemma pad_step_nil pad c pa : pad_step pad c [] pa = [].
Proof. unfold pad_step. cbn [is_nil negb]. rewrite !andb_false_r. reflexivity. Qed.

Lemma module_go_inv (P : N -> Prop) pad :
  P USCORE ->
  (forall c, asn_char c = true -> is_upper c = true -> P (to_lower c)) ->
  (forall c, asn_char c = true -> is_upper c = false -> is_sep c = false -> P c) ->
  forall s o pl pa, Forall P o -> forallb asn_char s = true -> Forall P (module_go pad s o pl pa).
Proof.
  intros HU HL HP. induction s as [|c rest IH]; intros o pl pa Ho Hs; cbn [module_go].
  - apply Forall_rev. exact Ho.
  - cbn [forallb] in Hs. apply andb_true_iff in Hs. destruct Hs as [Hc Hrest].
    assert (Ho1 : Forall P (pad_step pad c o pa)).
    { destruct (pad_step_cases pad c o pa) as [E|E]; rewrite E; auto. }
    destruct (is_upper c) eqn:Eu.
    + apply IH; [|exact Hrest]. constructor; [apply HL; assumption|].
      destruct (upper_step_cases (pad_step pad c o pa) pl pa rest) as [E|E]; rewrite E; auto.
    + destruct (is_sep c) eqn:Es; apply IH; try exact Hrest; constructor; auto.
Qed.

Lemma module_go_prefix pad : forall s o pl pa, exists t, module_go pad s o pl pa = rev o ++ t.
Proof.
  induction s as [|c rest IH]; intros o pl pa; cbn [module_go].
  - exists []. rewrite app_nil_r. reflexivity.
  - assert (Hp : exists u, rev (pad_step pad c o pa) = rev o ++ u).
    { destruct (pad_step_cases pad c o pa) as [E|E]; rewrite E; cbn [rev]; [exists [USCORE] | exists []; rewrite app_nil_r]; reflexivity. }
    destruct Hp as [u Hu].
    destruct (is_upper c).
    + destruct (IH (to_lower c :: upper_step (pad_step pad c o pa) pl pa rest) true (is_alpha c)) as [t Ht].
      rewrite Ht. cbn [rev].
      destruct (upper_step_cases (pad_step pad c o pa) pl pa rest) as [E|E]; rewrite E; cbn [rev]; rewrite Hu, <- !app_assoc; eexists; reflexivity.
    + destruct (is_sep c).
      * destruct (IH (USCORE :: pad_step pad c o pa) false (is_alpha c)) as [t Ht]. rewrite Ht. cbn [rev]. rewrite Hu, <- !app_assoc. eexists; reflexivity.
      * destruct (IH (c :: pad_step pad c o pa) false (is_alpha c)) as [t Ht]. rewrite Ht. cbn [rev]. rewrite Hu, <- !app_assoc. eexists; reflexivity.
Qed.

(* the shape of the mangled name of an ASN.1 identifier: its first letter, then [a-z0-9_]* *)
Lemma field_name_shape s :
  asn_identifier s = true ->
  exists c t, rust_field_name s = c :: t /\ is_lower c = true /\ Forall (fun x => okc x = true) t.
Proof.
  destruct s as [|c rest]; [discriminate|]. unfold asn_identifier. intros H.
  apply andb_true_iff in H. destruct H as [H _]. apply andb_true_iff in H. destruct H as [Hc Hrest].
  unfold rust_field_name, rust_module_name. cbn [module_go].
  rewrite pad_step_nil, (lower_not_upper c Hc), (lower_not_sep c Hc).
  destruct (module_go_prefix false rest [c] false (is_alpha c)) as [t Ht].
  exists c, t. split; [rewrite Ht; reflexivity|]. split; [exact Hc|].
  assert (HF : Forall (fun x => okc x = true) (module_go false rest [c] false (is_alpha c))).
  { apply module_go_inv; auto using okc_to_lower, okc_plain.
    constructor; [|constructor]. unf. lia. }
  rewrite Ht in HF. cbn [rev app] in HF. inversion HF; assumption.
Qed.

Lemma replace_hyphen_id l : Forall (fun x => okc x = true) l -> map (fun c => if c =? HYPHEN then USCORE else c) l = l.
Proof.
  induction 1 as [|x l Hx _ IH]; [reflexivity|]. cbn [map]. rewrite (okc_not_hyphen x Hx), IH. reflexivity.
Qed.

Lemma mem_str_In s l : mem_str s l = true -> In s l.
Proof.
  unfold mem_str. intros H. apply existsb_exists in H. destruct H as [k [Hin Hk]].
  apply str_eqb_eq in Hk. subst. exact Hin.
Qed.

(* an escaped name is never a keyword again (finite check over Gen/Keywords.v) *)
Lemma escaped_not_keyword : forallb (fun k => negb (is_keyword (k ++ [USCORE]))) KEYWORDS = true.
Proof. vm_compute. reflexivity. Qed.

(* KEYWORDS (Gen/Keywords.v, generated from generate/rust.rs) contains every keyword of the transcribed Rust-reference
   table that starts with a lower-case letter -- the only ones a mangled component name can be.  Finite check against the
   generated list: removing an entry from the crate's array breaks this proof. *)
Lemma keywords_complete_b :
  forallb (fun k => match k with c :: _ => implb (is_lower c) (mem_str k KEYWORDS) | [] => true end) RUST_KEYWORDS = true.
Proof. vm_compute. reflexivity. Qed.

Lemma keywords_complete k :
  In k RUST_KEYWORDS -> (exists c t, k = c :: t /\ is_lower c = true) -> mem_str k KEYWORDS = true.
Proof.
  intros Hin [c [t [E Hc]]]. pose proof keywords_complete_b as Hf. rewrite forallb_forall in Hf.
  specialize (Hf _ Hin). subst k. cbn beta iota in Hf. rewrite Hc in Hf. exact Hf.
Qed.

Lemma keywords_complete_identifier k :
  In k RUST_KEYWORDS -> asn_identifier k = true -> mem_str k KEYWORDS = true.
Proof.
  intros Hin Ha. apply keywords_complete; [exact Hin|]. destruct k as [|c t]; [discriminate|].
  exists c, t. split; [reflexivity|]. unfold asn_identifier in Ha.
  apply andb_true_iff in Ha. destruct Ha as [Ha _]. apply andb_true_iff in Ha. destruct Ha as [Ha _]. exact Ha.
Qed.

Lemma field_idents_legal s :
  asn_identifier s = true ->
  is_rust_ident (emit_field s) = true /\ is_keyword (emit_field s) = false.
Proof.
  intros Hs. destruct (field_name_shape s Hs) as [c [t [E [Hc Ht]]]].
  unfold emit_field, gen_field_name. rewrite E.
  assert (Hall : Forall (fun x => okc x = true) (c :: t)). { constructor; [unf; lia | exact Ht]. }
  rewrite (replace_hyphen_id (c :: t) Hall). cbn [andb].
  assert (Hcont : forallb ident_continue t = true).
  { apply forallb_Forall. eapply Forall_impl; [|exact Ht]. apply okc_continue. }
  destruct (mem_str (c :: t) KEYWORDS) eqn:Em.
  - split.
    + cbn [app is_rust_ident]. rewrite (lower_alpha c Hc). rewrite forallb_app, Hcont. reflexivity.
    + apply mem_str_In in Em. pose proof escaped_not_keyword as Hf. rewrite forallb_forall in Hf.
      apply Hf in Em. apply negb_true_iff in Em. exact Em.
  - split.
    + cbn [is_rust_ident]. rewrite (lower_alpha c Hc). exact Hcont.
    + destruct (is_keyword (c :: t)) eqn:Ek; [|reflexivity]. exfalso.
      apply mem_str_In in Ek. rewrite (keywords_complete (c :: t) Ek) in Em; [discriminate|].
      exists c, t. split; [reflexivity | exact Hc].
Qed.

(* ------------------------------------------------------------------ rust_variant_name *)
Lemma variant_go_chars : forall s nu pu, forallb asn_char s = true -> Forall (fun x => alnum x = true) (variant_go s nu pu).
Proof.
  induction s as [|c rest IH]; intros nu pu Hs; cbn [variant_go]; [constructor|].
  cbn [forallb] in Hs. apply andb_true_iff in Hs. destruct Hs as [Hc Hrest].
  destruct (is_sep c) eqn:Es; [apply IH; exact Hrest|].
  pose proof (alnum_of_asn c Hc Es) as Ha.
  destruct (nu && negb pu).
  - constructor; [apply alnum_to_upper; exact Ha | apply IH; exact Hrest].
  - constructor; [|apply IH; exact Hrest].
    destruct (pu && negb _); [apply alnum_to_lower|]; exact Ha.
Qed.

Lemma gen_variant_id : forall t, Forall (fun x => alnum x = true) t -> gen_variant_go t false = t.
Proof.
  induction 1 as [|x t Hx _ IH]; [reflexivity|]. cbn [gen_variant_go]. rewrite (alnum_not_sep x Hx), IH. reflexivity.
Qed.

(* an identifier or a typereference both give: an upper-case letter, then letters and digits; the generator keeps it *)
Lemma variant_name_shape s :
  (asn_identifier s = true \/ asn_typereference s = true) ->
  exists u t, rust_variant_name s = u :: t /\ is_upper u = true /\ Forall (fun x => alnum x = true) t
              /\ emit_variant s = u :: t.
Proof.
  intros H. destruct s as [|c rest]; [destruct H; discriminate|].
  assert (Hc : (is_lower c = true \/ is_upper c = true) /\ forallb asn_char rest = true).
  { unfold asn_identifier, asn_typereference in H. destruct H as [H|H];
      apply andb_true_iff in H; destruct H as [H _]; apply andb_true_iff in H; destruct H; auto. }
  destruct Hc as [Hc Hrest].
  assert (Hsep : is_sep c = false). { destruct Hc; [apply lower_not_sep | apply upper_not_sep]; assumption. }
  unfold emit_variant, rust_variant_name. cbn [variant_go]. rewrite Hsep. cbn [andb negb].
  pose proof (variant_go_chars rest false true Hrest) as Ht.
  assert (Hu : is_upper (to_upper c) = true).
  { destruct Hc as [Hc|Hc]; [apply to_upper_of_lower; exact Hc | rewrite (to_upper_of_upper c Hc); exact Hc]. }
  exists (to_upper c), (variant_go rest false true). repeat split; auto.
  unfold gen_variant_name. cbn [gen_variant_go]. rewrite (to_upper_of_upper _ Hu), (gen_variant_id _ Ht). reflexivity.
Qed.

Definition SELF_TYPE : list N := codes "Self".

(* the only keyword that starts with an upper-case letter is `Self` *)
Lemma upper_keyword_is_Self :
  forallb (fun k => match k with c :: _ => implb (is_upper c) (str_eqb k SELF_TYPE) | [] => true end) RUST_KEYWORDS = true.
Proof. vm_compute. reflexivity. Qed.

Definition Known_C09_variant (s : list N) : Prop := rust_variant_name s = SELF_TYPE.

Lemma variant_idents_legal s :
  (asn_identifier s = true \/ asn_typereference s = true) -> ~ Known_C09_variant s ->
  is_rust_ident (emit_variant s) = true /\ is_keyword (emit_variant s) = false.
Proof.
  intros Hs Hk. destruct (variant_name_shape s Hs) as [u [t [E [Hu [Ht Ee]]]]]. rewrite Ee. split.
  - cbn [is_rust_ident]. rewrite (upper_alpha u Hu). apply forallb_Forall.
    eapply Forall_impl; [|exact Ht]. apply alnum_continue.
  - destruct (is_keyword (u :: t)) eqn:Ek; [|reflexivity]. exfalso. apply Hk.
    apply mem_str_In in Ek. pose proof upper_keyword_is_Self as Hf. rewrite forallb_forall in Hf.
    specialize (Hf _ Ek). cbn beta iota in Hf. rewrite Hu in Hf. cbn [implb] in Hf. apply str_eqb_eq in Hf.
    unfold Known_C09_variant. rewrite E. exact Hf.
Qed.

(* type names: rust_struct_or_enum_name is rust_variant_name, and the generator prints the name as it is *)
Lemma type_idents_legal s :
  asn_typereference s = true -> ~ Known_C09_variant s ->
  is_rust_ident (emit_type s) = true /\ is_keyword (emit_type s) = false.
Proof.
  intros Hs Hk. destruct (variant_name_shape s (or_intror Hs)) as [u [t [E [Hu [Ht Ee]]]]].
  pose proof (variant_idents_legal s (or_intror Hs) Hk) as H. rewrite Ee in H.
  unfold emit_type, rust_struct_or_enum_name. rewrite E. exact H.
Qed.

(* ================================================================== the attribute sub-language (Front/Attr.v) *)
From A1 Require Import Front.Attr.

Definition wf_size (sz : size) : Prop :=
  match sz with
  | SAny => True
  | SFix n _ => n <= USIZE_MAX
  | SRange a b _ => a <= USIZE_MAX /\ b <= USIZE_MAX /\ a <> b      (* Size::reconsider_constraints: a range of one value is Fix *)
  end.
Definition tag_number (g : tag) : N :=
  match g with TUniversal n | TApplication n | TContext n | TPrivate n => n end.
Definition wf_name (s : list N) : Prop := is_rust_ident s = true /\ is_keyword s = false.
(* LStr: the lexing of the printed string literal is trusted (no escapes are printed: see Known_C08 classes in Props/C08.v);
   LOct is never re-parsed (refuted below); LEnum names are printed mangled, so only mangled names come back unchanged *)
Definition wf_lit (l : lit) : Prop :=
  match l with
  | LBool _ | LStr _ => True
  | LInt z => in_i64 z = true
  | LOct _ => False
  | LEnum t v => rust_struct_or_enum_name t = t /\ rust_variant_name v = v /\ wf_name t /\ wf_name v
  end.
Fixpoint wf_aty (t : aty) : Prop :=
  match t with
  | ABool | ANull => True
  | AInt (Some a) (Some b) _ => in_i64 a = true /\ in_i64 b = true
  | AInt None None _ => True
  | AInt _ _ _ => False                        (* half-open ranges do not survive: refuted below *)
  | AStr sz _ | AOct sz | ABits sz => wf_size sz
  | AOpt t' => wf_aty t'
  | ADef t' l => wf_aty t' /\ wf_lit l
  | ASeqOf t' sz | ASetOf t' sz => wf_aty t' /\ wf_size sz
  | ARef name (Some g) => wf_name name /\ tag_number g <= USIZE_MAX
  | ARef _ None => False                       (* complex(Name) without tag is refused by the parser: refuted below *)
  end.

Definition rest_ok (r : list tok) : Prop := match r with [] => True | TPunct _ :: _ => True | _ => False end.

Lemma with_params1 n p : with_params n [p] = [TIdent n; TParen p].
Proof. unfold with_params. cbn [flat_map]. rewrite app_nil_r. reflexivity. Qed.
Lemma with_params2 n p q : with_params n [p; q] = [TIdent n; TParen (p ++ TPunct COMMA :: q)].
Proof. unfold with_params. cbn [flat_map]. rewrite app_nil_r. reflexivity. Qed.

Lemma take_int_print_z z r : take_int (print_z z ++ r) = Some (z, r).
Proof.
  unfold print_z. destruct (z <? 0)%Z eqn:E; cbn [app take_int].
  - rewrite N.eqb_refl. f_equal. f_equal. rewrite N2Z.inj_abs_N. lia.
  - f_equal. f_equal. rewrite Z2N.id; lia.
Qed.

Lemma parse_mmv_value z r : in_i64 z = true -> parse_mmv (print_z z ++ r) = Ok (Value z, r).
Proof. intros H. unfold parse_mmv. rewrite take_int_print_z, H. reflexivity. Qed.

Lemma parse_ext_eof_ok e : parse_ext_eof (ext_toks e) = Ok e.
Proof. destruct e; reflexivity. Qed.

Lemma take_punct_same c r : take_punct c (TPunct c :: r) = Ok r.
Proof. unfold take_punct. rewrite N.eqb_refl. reflexivity. Qed.

Lemma parse_int_range_some a b e :
  in_i64 a = true -> in_i64 b = true ->
  parse_int_range (print_bound (Some a) S_min ++ [TPunct DOT; TPunct DOT] ++ print_bound (Some b) S_max ++ ext_toks e) = Ok (Some a, Some b, e).
Proof.
  intros Ha Hb. unfold parse_int_range, print_bound.
  rewrite (parse_mmv_value a _ Ha). cbn [bind app]. rewrite take_punct_same. cbn [bind]. rewrite take_punct_same. cbn [bind].
  rewrite (parse_mmv_value b _ Hb). cbn [bind]. rewrite parse_ext_eof_ok. reflexivity.
Qed.

Lemma parse_int_range_none e :
  parse_int_range (print_bound None S_min ++ [TPunct DOT; TPunct DOT] ++ print_bound None S_max ++ ext_toks e) = Ok (None, None, e).
Proof. destruct e; reflexivity. Qed.

Lemma parse_size_value_num n r : n <= USIZE_MAX -> parse_size_value (TNum n :: r) = Ok (n, r).
Proof.
  intros H. unfold parse_size_value. cbn [take_int].
  replace (in_usize (Z.of_N n)) with true by (unfold in_usize, USIZE_MAX in *; lia).
  rewrite N2Z.id. reflexivity.
Qed.

Lemma parse_size_ok sz p :
  wf_size sz -> size_param sz = Some p -> exists inner, p = [TIdent S_size; TParen inner] /\ parse_size inner = Ok sz.
Proof.
  destruct sz as [|n e|a b e]; cbn [wf_size size_param]; intros Hw Hp; inversion Hp; subst; clear Hp.
  - eexists; split; [reflexivity|]. unfold parse_size. rewrite (parse_size_value_num n _ Hw). cbn [bind].
    destruct e; reflexivity.
  - destruct Hw as [Ha [Hb Hab]]. eexists; split; [reflexivity|]. unfold parse_size. cbn [app].
    rewrite (parse_size_value_num a _ Ha). cbn [bind peek_punct]. replace (DOT =? COMMA) with false by reflexivity.
    rewrite take_punct_same. cbn [bind]. rewrite take_punct_same. cbn [bind]. rewrite (parse_size_value_num b _ Hb). cbn [bind].
    apply N.eqb_neq in Hab. destruct e; cbn; rewrite Hab; reflexivity.
Qed.

Lemma parse_opt_size_ok sz rest :
  wf_size sz -> rest_ok rest ->
  parse_opt_size (match size_param sz with Some p => [TParen p] | None => [] end ++ rest) = Ok (sz, rest).
Proof.
  intros Hw Hr. destruct (size_param sz) as [p|] eqn:Ep.
  - destruct (parse_size_ok sz p Hw Ep) as [inner [E1 E2]]. subst p. cbn [app parse_opt_size].
    replace (str_eqb (lower_str S_size) S_size) with true by reflexivity. rewrite E2. reflexivity.
  - destruct sz; try discriminate. cbn [app]. destruct rest as [|[] rest']; cbn in Hr; try contradiction; reflexivity.
Qed.

Lemma parse_tag_ok g r : tag_number g <= USIZE_MAX -> parse_tag_group (tl (print_tag g) ++ r) = Ok (g, r).
Proof.
  intros H. assert (Hn : N.leb (tag_number g) USIZE_MAX = true) by (apply N.leb_le; exact H).
  destruct g; cbn [print_tag tl app parse_tag_group tag_number] in *; rewrite Hn; reflexivity.
Qed.

Lemma parse_lit_ok l : wf_lit l -> parse_lit (print_lit l) = Ok l.
Proof.
  destruct l as [b|s|z|bs|t v]; cbn [wf_lit print_lit]; intros H.
  - destruct b; reflexivity.
  - reflexivity.
  - unfold parse_lit, print_z. destruct (z <? 0)%Z eqn:E.
    + cbn [take_int]. rewrite N.eqb_refl. replace (- Z.of_N (Z.abs_N z))%Z with z by (rewrite N2Z.inj_abs_N; lia). rewrite H. reflexivity.
    + cbn [take_int]. rewrite Z2N.id by lia. rewrite H. reflexivity.
  - contradiction.
  - destruct H as [Ht [Hv [[Ht1 Ht2] [Hv1 Hv2]]]]. rewrite Ht, Hv. unfold parse_lit.
    rewrite !N.eqb_refl, Ht1, Ht2, Hv1, Hv2. reflexivity.
Qed.

(* every production of the printed sub-language is read back as itself *)
Lemma reparse_ty : forall t, wf_aty t -> forall f rest, (depth t < f)%nat -> rest_ok rest ->
  parse_ty f (print_ty t ++ rest) = Ok (t, rest).
Proof.
  induction t as [| |mn mx e|sz cs|sz|sz|t IH|t IH l|t IH sz|t IH sz|name tg]; intros Hw f rest Hf Hr;
    (destruct f as [|f]; [inversion Hf|]); cbn [print_ty].
  - (* boolean *) reflexivity.
  - (* null *) reflexivity.
  - (* integer *)
    rewrite with_params1. change ([TIdent S_integer; TParen ?x] ++ rest) with (TIdent S_integer :: TParen x :: rest).
    cbn [parse_ty]. replace (ident_kind (lower_str S_integer)) with KInteger by reflexivity.
    destruct mn as [a|], mx as [b|]; cbn [wf_aty] in Hw; try contradiction.
    + destruct Hw as [Ha Hb]. rewrite (parse_int_range_some a b e Ha Hb).
      unfold print_bound, print_z. destruct (a <? 0)%Z; reflexivity.
    + rewrite parse_int_range_none. reflexivity.
  - (* character strings *)
    cbn [wf_aty] in Hw. unfold with_params, opt_list.
    assert (E : forall n, (match match size_param sz with Some a => [a] | None => [] end with
                           | [] => [TIdent n]
                           | p :: ps => [TIdent n; TParen (p ++ flat_map (fun q => TPunct COMMA :: q) ps)]
                           end) = TIdent n :: match size_param sz with Some p => [TParen p] | None => [] end).
    { intros n. destruct (size_param sz); cbn [flat_map]; [rewrite app_nil_r|]; reflexivity. }
    rewrite E. cbn [app parse_ty].
    replace (ident_kind (lower_str (charset_name cs))) with (KString cs) by (destruct cs; reflexivity).
    rewrite (parse_opt_size_ok sz rest Hw Hr). reflexivity.
  - (* octet_string *)
    cbn [wf_aty] in Hw. unfold with_params, opt_list.
    assert (E : (match match size_param sz with Some a => [a] | None => [] end with
                 | [] => [TIdent S_octet_string]
                 | p :: ps => [TIdent S_octet_string; TParen (p ++ flat_map (fun q => TPunct COMMA :: q) ps)]
                 end) = TIdent S_octet_string :: match size_param sz with Some p => [TParen p] | None => [] end).
    { destruct (size_param sz); cbn [flat_map]; [rewrite app_nil_r|]; reflexivity. }
    rewrite E. cbn [app parse_ty]. replace (ident_kind (lower_str S_octet_string)) with KOctet by reflexivity.
    rewrite (parse_opt_size_ok sz rest Hw Hr). reflexivity.
  - (* bit_string: always a parenthesis, empty without size *)
    cbn [wf_aty] in Hw. rewrite with_params1. cbn [app parse_ty]. replace (ident_kind (lower_str S_bit_string)) with KBits by reflexivity.
    destruct (size_param sz) as [p|] eqn:Ep.
    + destruct (parse_size_ok sz p Hw Ep) as [inner [E1 E2]]. subst p. cbn [parse_opt_size].
      replace (str_eqb (lower_str S_size) S_size) with true by reflexivity. rewrite E2. reflexivity.
    + destruct sz; try discriminate. reflexivity.
  - (* optional *)
    cbn [wf_aty depth] in *. rewrite with_params1. cbn [app parse_ty]. replace (ident_kind (lower_str S_optional)) with KOptional by reflexivity.
    rewrite <- (app_nil_r (print_ty t)). rewrite (IH Hw f [] ltac:(lia) I). reflexivity.
  - (* default *)
    cbn [wf_aty depth] in *. destruct Hw as [Hw Hl]. rewrite with_params2. cbn [app parse_ty].
    replace (ident_kind (lower_str S_default)) with KDefault by reflexivity.
    rewrite (IH Hw f (TPunct COMMA :: print_lit l) ltac:(lia) I). cbn [bind]. rewrite take_punct_same. cbn [bind].
    rewrite (parse_lit_ok l Hl). reflexivity.
  - (* sequence_of *)
    cbn [wf_aty depth] in *. destruct Hw as [Hw Hs]. destruct (size_param sz) as [p|] eqn:Ep; cbn [opt_list app].
    + rewrite with_params2. destruct (parse_size_ok sz p Hs Ep) as [inner [E1 E2]]. subst p. cbn [app parse_ty].
      replace (ident_kind (lower_str S_sequence_of)) with KSeqOf by reflexivity.
      replace (str_eqb (lower_str S_size) S_size) with true by reflexivity. rewrite E2. cbn [bind]. rewrite take_punct_same. cbn [bind].
      rewrite <- (app_nil_r (print_ty t)). rewrite (IH Hw f [] ltac:(lia) I). reflexivity.
    + destruct sz; try discriminate. rewrite with_params1. cbn [app parse_ty].
      replace (ident_kind (lower_str S_sequence_of)) with KSeqOf by reflexivity.
      assert (Hhd : exists id r0, print_ty t = TIdent id :: r0 /\ (forall szt r1, r0 = TParen szt :: r1 -> str_eqb (lower_str id) S_size = false)).
      { destruct t; cbn [print_ty]; try (unfold with_params; cbn; eexists; eexists; split; [reflexivity|]; intros; reflexivity).
        - unfold with_params. destruct (opt_list (size_param sz)); eexists; eexists; (split; [reflexivity|]); intros; destruct cs; reflexivity.
        - unfold with_params. destruct (opt_list (size_param sz)); eexists; eexists; (split; [reflexivity|]); intros; reflexivity.
        - unfold with_params. destruct (opt_list (size_param sz) ++ [print_ty t]); eexists; eexists; (split; [reflexivity|]); intros; reflexivity.
        - unfold with_params. destruct (opt_list (size_param sz) ++ [print_ty t]); eexists; eexists; (split; [reflexivity|]); intros; reflexivity. }
      destruct Hhd as [id [r0 [Eh Hne]]].
      assert (Esel : (match print_ty t with
                      | TIdent i :: TParen szt :: rest0 =>
                        if str_eqb (lower_str i) S_size
                        then let! s := parse_size szt in let! rest1 := take_punct COMMA rest0 in Ok (s, rest1)
                        else Ok (SAny, print_ty t)
                      | _ => Ok (SAny, print_ty t)
                      end) = Ok (SAny, print_ty t)).
      { rewrite Eh. destruct r0 as [|[] r1]; try reflexivity. rewrite (Hne _ _ eq_refl). reflexivity. }
      rewrite Esel. cbn [bind]. rewrite <- (app_nil_r (print_ty t)). rewrite (IH Hw f [] ltac:(lia) I). reflexivity.
  - (* set_of *)
    cbn [wf_aty depth] in *. destruct Hw as [Hw Hs]. destruct (size_param sz) as [p|] eqn:Ep; cbn [opt_list app].
    + rewrite with_params2. destruct (parse_size_ok sz p Hs Ep) as [inner [E1 E2]]. subst p. cbn [app parse_ty].
      replace (ident_kind (lower_str S_set_of)) with KSetOf by reflexivity.
      replace (str_eqb (lower_str S_size) S_size) with true by reflexivity. rewrite E2. cbn [bind]. rewrite take_punct_same. cbn [bind].
      rewrite <- (app_nil_r (print_ty t)). rewrite (IH Hw f [] ltac:(lia) I). reflexivity.
    + destruct sz; try discriminate. rewrite with_params1. cbn [app parse_ty].
      replace (ident_kind (lower_str S_set_of)) with KSetOf by reflexivity.
      assert (Hhd : exists id r0, print_ty t = TIdent id :: r0 /\ (forall szt r1, r0 = TParen szt :: r1 -> str_eqb (lower_str id) S_size = false)).
      { destruct t; cbn [print_ty]; try (unfold with_params; cbn; eexists; eexists; split; [reflexivity|]; intros; reflexivity).
        - unfold with_params. destruct (opt_list (size_param sz)); eexists; eexists; (split; [reflexivity|]); intros; destruct cs; reflexivity.
        - unfold with_params. destruct (opt_list (size_param sz)); eexists; eexists; (split; [reflexivity|]); intros; reflexivity.
        - unfold with_params. destruct (opt_list (size_param sz) ++ [print_ty t]); eexists; eexists; (split; [reflexivity|]); intros; reflexivity.
        - unfold with_params. destruct (opt_list (size_param sz) ++ [print_ty t]); eexists; eexists; (split; [reflexivity|]); intros; reflexivity. }
      destruct Hhd as [id [r0 [Eh Hne]]].
      assert (Esel : (match print_ty t with
                      | TIdent i :: TParen szt :: rest0 =>
                        if str_eqb (lower_str i) S_size
                        then let! s := parse_size szt in let! rest1 := take_punct COMMA rest0 in Ok (s, rest1)
                        else Ok (SAny, print_ty t)
                      | _ => Ok (SAny, print_ty t)
                      end) = Ok (SAny, print_ty t)).
      { rewrite Eh. destruct r0 as [|[] r1]; try reflexivity. rewrite (Hne _ _ eq_refl). reflexivity. }
      rewrite Esel. cbn [bind]. rewrite <- (app_nil_r (print_ty t)). rewrite (IH Hw f [] ltac:(lia) I). reflexivity.
  - (* complex *)
    destruct tg as [g|]; cbn [wf_aty] in Hw; [|contradiction]. destruct Hw as [[Hn1 Hn2] Hg].
    cbn [option_map opt_list]. rewrite with_params2. cbn [app parse_ty].
    replace (ident_kind (lower_str S_complex)) with KComplex by reflexivity.
    unfold print_tag at 1. cbn [app]. rewrite N.eqb_refl, Hn1, Hn2. cbn [negb orb].
    replace (is_rust_ident S_tag) with true by reflexivity. replace (is_keyword S_tag) with false by reflexivity.
    replace (str_eqb (lower_str S_tag) S_tag) with true by reflexivity. cbn [negb orb].
    pose proof (parse_tag_ok g [] Hg) as Ht. unfold print_tag in Ht. cbn [tl app] in Ht. rewrite Ht. reflexivity.
Qed.

Lemma reparse_type t : wf_aty t -> parse_attr_type (S (depth t)) (print_ty t) = Ok t.
Proof.
  intros Hw. unfold parse_attr_type. rewrite <- (app_nil_r (print_ty t)).
  rewrite (reparse_ty t Hw (S (depth t)) [] ltac:(lia) I). reflexivity.
Qed.
