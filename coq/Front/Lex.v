(* Front/Lex.v -- layer F0: executable model of asn1rs-model/src/parse/tokenizer.rs
   (`Tokenizer::parse`), `Token::append` (parse/token.rs) and `Location` (parse/location.rs).

   Characters are `N` code points.  The only `char` predicate the tokenizer uses is
   `char::is_control` (Unicode general category Cc = U+0000..U+001F, U+007F..U+009F), so the
   model is exact for every Unicode scalar value, not only for ASCII.  Columns count `char`s
   (`line.chars().enumerate()`), not bytes.

   Rust shape                                   model
   ------------------------------------------   -------------------------------------------
   asn.lines()  (std, rustc >= 1.70: split at   lines_of
     '\n', strip the '\n' and then one '\r'
     only if the '\n' was there)
   Token::{Text,Separator}(Location, ..)        token
   Token::append                                token_append
   body of `while let Some((column_0, char))`   step   (one iteration: char + peeked char)
   the while loop over one line                 line_loop
   `for (line_0, line) in asn.lines()...`       lines_loop
   Tokenizer::parse                             tokenize
   `tokens.push(t)` (the Vec is only pushed to) emitted token lists, concatenated in order
   `nest_lvl` (i32 by inference)                Z with the i32 overflow of `+= 1` explicit
   line_0 + 1, column_0 + 1 (usize)             N, no overflow (64-bit usize, text < 2^64 chars)
   eprintln!("Ignoring unexpected character")   no effect on the result
   explicit panic!("... unclosed comment ...")  Panic P_OTHER                                  *)
From A1 Require Export Base.Res.
Local Open Scope N_scope.

(* ---------- tokens ---------- *)

Inductive token : Type :=
| Text (line column : N) (s : list N)
| Separator (line column : N) (c : N).

(* Token::append *)
Definition token_append (a b : token) : token * option token :=
  match a, b with
  | Text l c text, Text _ _ other => (Text l c (text ++ other), None)
  | a, b => (a, Some b)
  end.

(* ---------- chars ---------- *)

Definition is_control (c : N) : bool := (c <? 32) || ((127 <=? c) && (c <? 160)).

(* the thirteen separator characters  : ; = ( ) { } . , [ ]  apostrophe(39)  quotation-mark(34) *)
Definition is_sep_char (c : N) : bool :=
  (c =? 58) || (c =? 59) || (c =? 61) || (c =? 40) || (c =? 41) || (c =? 123) || (c =? 125)
  || (c =? 46) || (c =? 44) || (c =? 91) || (c =? 93) || (c =? 39) || (c =? 34).

Definition opt_eqb (o : option N) (c : N) : bool :=
  match o with Some x => x =? c | None => false end.

Definition is_none {A} (o : option A) : bool := match o with None => true | Some _ => false end.

(* ---------- str::lines ---------- *)

Definition as_lines (r : list N * list (list N)) : list (list N) := fst r :: snd r.

(* first line of a non-empty text (terminator "\n" or "\r\n" removed) and the lines after it *)
Fixpoint split_lines (s : list N) : list N * list (list N) :=
  match s with
  | [] => ([], [])
  | c :: t =>
      if c =? 10 then
        ([], match t with [] => [] | _ :: _ => as_lines (split_lines t) end)
      else
        match t with
        | [] => ([c], [])
        | c2 :: t2 =>
            if (c =? 13) && (c2 =? 10) then
              ([], match t2 with [] => [] | _ :: _ => as_lines (split_lines t2) end)
            else let r := split_lines t in (c :: fst r, snd r)
        end
  end.

Definition lines_of (s : list N) : list (list N) :=
  match s with [] => [] | _ :: _ => as_lines (split_lines s) end.

(* ---------- one iteration of the character loop ---------- *)

Definition I32_MAX : Z := 2147483647.
Definition I32_MIN : Z := (-2147483648)%Z.

(* nest_lvl += 1 *)
Definition nest_incr (m : mode) (n : Z) : res Z :=
  if (n =? I32_MAX)%Z then (if overflow_checks m then Panic P_ARITH else Ok I32_MIN)
  else Ok (n + 1)%Z.

Inductive action : Type :=
| Continue (skip_peeked : bool) (previous : option token) (nest_lvl : Z) (pushed : list token)
| Break
| Fail (p : N).

Definition push_opt (p : option token) : list token :=
  match p with Some t => [t] | None => [] end.

(* `if let Some(token) = token.take() { previous = match previous {...} }` *)
Definition merge (previous : option token) (tok : token) : option token * list token :=
  match previous with
  | None => (Some tok, [])
  | Some current =>
      match token_append current tok with
      | (t, None) => (Some t, [])
      | (t, Some next) => (Some next, [t])
      end
  end.

Definition step (m : mode) (last_line : bool) (line_0 column_0 : N)
           (previous : option token) (nest_lvl : Z) (c : N) (peek : option N) : action :=
  if (0 <? nest_lvl)%Z then
    if c =? 42 then                                   (* '*' *)
      if opt_eqb peek 47 then Continue true previous (nest_lvl - 1)%Z []
      else Continue false previous nest_lvl []
    else if c =? 47 then                              (* '/' *)
      if opt_eqb peek 42 then
        match nest_incr m nest_lvl with
        | Ok n => Continue true previous n []
        | Err _ => Fail P_OTHER
        | Panic p => Fail p
        end
      else Continue false previous nest_lvl []
    else
      if is_none peek && last_line then Fail P_OTHER  (* panic!("The file has unclosed comment blocks...") *)
      else Continue false previous nest_lvl []
  else if (nest_lvl =? 0)%Z && (c =? 45) && opt_eqb peek 45 then Break
  else if (c =? 47) && opt_eqb peek 42 then
    (* nest_lvl += 1; then (repair 58b7ab0) `if let Some(token) = previous.take() { tokens.push(token) }`:
       a comment separates lexical items *)
    match nest_incr m nest_lvl with
    | Ok n => Continue true None n (push_opt previous)
    | Err _ => Fail P_OTHER
    | Panic p => Fail p
    end
  else if is_sep_char c then
    let (p, out) := merge previous (Separator (line_0 + 1) (column_0 + 1) c) in
    Continue false p nest_lvl out
  else if negb (is_control c) && negb (c =? 32) then
    let (p, out) := merge previous (Text (line_0 + 1) (column_0 + 1) [c]) in
    Continue false p nest_lvl out
  else if (c =? 32) || (c =? 13) || (c =? 10) || (c =? 9) then
    Continue false None nest_lvl (push_opt previous)
  else Continue false previous nest_lvl [].          (* eprintln!("Ignoring unexpected character") *)

(* result of a loop: (previous, nest_lvl, tokens pushed) *)
Definition lstate : Type := option token * Z * list token.

Definition emit (out : list token) (r : res lstate) : res lstate :=
  match r with
  | Ok (p, n, o) => Ok (p, n, out ++ o)
  | Err e => Err e
  | Panic p => Panic p
  end.

(* `while let Some((column_0, char)) = content_iterator.next()` over one line *)
Fixpoint line_loop (m : mode) (last_line : bool) (line_0 column_0 : N)
         (previous : option token) (nest_lvl : Z) (cs : list N) {struct cs} : res lstate :=
  match cs with
  | [] => Ok (previous, nest_lvl, [])
  | c :: rest =>
      match step m last_line line_0 column_0 previous nest_lvl c (hd_error rest) with
      | Fail p => Panic p
      | Break => Ok (previous, nest_lvl, [])
      | Continue sk p n out =>
          emit out
            (if sk then
               match rest with
               | _ :: rest' => line_loop m last_line line_0 (column_0 + 2) p n rest'
               | [] => Ok (p, n, [])      (* not reachable: sk only when a char was peeked *)
               end
             else line_loop m last_line line_0 (column_0 + 1) p n rest)
      end
  end.

(* `for (line_0, line) in asn.lines().enumerate()`; count = asn.lines().count() *)
Fixpoint lines_loop (m : mode) (count : N) (line_0 : N) (previous : option token) (nest_lvl : Z)
         (ls : list (list N)) {struct ls} : res lstate :=
  match ls with
  | [] => Ok (previous, nest_lvl, [])
  | l :: ls' =>
      match line_loop m (line_0 =? count - 1) line_0 0 previous nest_lvl l with
      | Ok (p, n, out) =>
          (* if let Some(token) = previous.take() { tokens.push(token); } *)
          emit (out ++ push_opt p) (lines_loop m count (line_0 + 1) None n ls')
      | Err e => Err e
      | Panic p => Panic p
      end
  end.

(* Tokenizer::parse *)
Definition tokenize (m : mode) (asn : list N) : res (list token) :=
  let ls := lines_of asn in
  match lines_loop m (N.of_nat (length ls)) 0 None 0%Z ls with
  | Ok (p, _, out) => Ok (out ++ push_opt p)     (* if let Some(token) = previous { push } *)
  | Err e => Err e
  | Panic p => Panic p
  end.

(* ---------- accessors ---------- *)

Definition tok_line (t : token) : N := match t with Text l _ _ => l | Separator l _ _ => l end.
Definition tok_column (t : token) : N := match t with Text _ c _ => c | Separator _ c _ => c end.

(* sanity: str::lines on the documented examples *)
Example lines_of_ex1 :
  lines_of [97; 13; 10; 98; 10; 10; 99; 13] = [[97]; [98]; []; [99; 13]].
Proof. reflexivity. Qed.
Example lines_of_ex2 : lines_of [97; 10] = [[97]] /\ lines_of [10] = [[]] /\ lines_of [13; 13; 10; 13] = [[13]; [13]].
Proof. repeat split. Qed.
