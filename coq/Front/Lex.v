(* Front/Lex.v -- stub, to be filled *)
