(* Front/Parse.v -- layer F1: executable model of the recursive-descent parser
   asn1rs-model/src/asn/{model,peekable,integer,size,components,choice,enumerated,bit_string,tag,
   inner_type_constraints}.rs and LiteralValue::try_from_asn_str (asn/mod.rs), function for function, over
   `list token` (the `Peekable<IntoIter<Token>>` of the Rust code is the list of tokens not yet consumed).

   Rust                                              model
   -----------------------------------------------   ------------------------------------------------
   PeekableTokens::*                                 next_or_err, next_text_or_err, next_sep_or_err, next_is_sep, ...
   str::parse::<i64 / usize / u64>                   parse_i64 / parse_u64 (usize = u64: 64-bit target)
   Model::try_from                                   parse_module
   read_oid / maybe_read_oid / read_imports          read_oid_loop / maybe_read_oid / read_imports_loop
   Tag::try_from, next_with_opt_tag                  read_tag, next_with_opt_tag
   Size::try_from, maybe_read_size                   read_size, maybe_read_size
   Integer::try_from, maybe_read_constants           read_integer, maybe_read_constants
   Enumerated::try_from                              read_enumerated
   InnerTypeConstraints / ValueConstraint /          read_inner_type_constraints (result dropped, as in
     PresenceConstraint ::try_from                     read_role_given_text: `let _ = ...`)
   read_literal, read_string_literal,                read_literal, read_string_literal, read_hex_or_bit_string_literal,
     read_hex_or_bit_string_literal,                   literal_of_asn_str
     LiteralValue::try_from_asn_str
   read_role_given_text, read_role,                  the mutual fixpoint read_role_given_text / read_components /
     read_sequence_or_sequence_of, read_set_or_set_of,  read_field / read_choice (one unit of fuel per call; loops
     ComponentTypeList::try_from, read_field,           one unit per iteration)
     Choice::try_from
   make_names_nice                                   make_name_nice

   Loops that consume a token per iteration run on fuel `S (length tokens)`; the type grammar runs on the fuel
   given to parse_module.  Fuel exhaustion is POutOfFuel, never a value.
   `char::is_numeric` (read_oid) is modelled on ASCII only; non-ASCII text is outside the model (DESIGN 2.3). *)
From Coq Require Import String Ascii.
From A1 Require Export Front.Ast.
Local Open Scope N_scope.

Fixpoint s2n (s : string) : str :=
  match s with
  | EmptyString => []
  | String a r => N_of_ascii a :: s2n r
  end.

Definition toks : Type := list token.

(* ---------- numbers ---------- *)

Fixpoint digits_val (s : str) (acc : N) : option N :=
  match s with
  | [] => Some acc
  | c :: s' => if is_ascii_digit c then digits_val s' (acc * 10 + (c - 48)) else None
  end.

Definition U64_MAX : N := 18446744073709551615.
Definition I64_MAX_N : N := 9223372036854775807.
Definition I64_MAX_Z : Z := 9223372036854775807%Z.

Definition strip_plus (s : str) : str :=
  match s with c :: r => if c =? 43 then r else s | [] => [] end.

(* <u64 as FromStr>::from_str: optional '+', at least one digit, no overflow *)
Definition parse_u64 (s : str) : option N :=
  let body := strip_plus s in
  match body with
  | [] => None
  | _ => match digits_val body 0 with
         | Some v => if v <=? U64_MAX then Some v else None
         | None => None
         end
  end.

(* <i64 as FromStr>::from_str *)
Definition parse_i64 (s : str) : option Z :=
  match s with
  | [] => None
  | c :: r =>
      if c =? 45 then
        match r with
        | [] => None
        | _ => match digits_val r 0 with
               | Some v => if v <=? I64_MAX_N + 1 then Some (- Z.of_N v)%Z else None
               | None => None
               end
        end
      else
        let body := strip_plus s in
        match body with
        | [] => None
        | _ => match digits_val body 0 with
               | Some v => if v <=? I64_MAX_N then Some (Z.of_N v) else None
               | None => None
               end
        end
  end.

(* ---------- Token accessors ---------- *)

Definition tok_text (t : token) : option str := match t with Text _ _ s => Some s | Separator _ _ _ => None end.
Definition eq_separator (t : token) (c : N) : bool := match t with Separator _ _ x => x =? c | Text _ _ _ => false end.
Definition eq_text_ic (t : token) (kw : str) : bool := match t with Text _ _ s => eq_ignore_case s kw | Separator _ _ _ => false end.
Definition is_text (t : token) : bool := match t with Text _ _ _ => true | Separator _ _ _ => false end.

(* ---------- PeekableTokens ---------- *)

Definition next_or_err (ts : toks) : pres (token * toks) :=
  match ts with [] => PErr E_END_OF_STREAM None | t :: r => POk (t, r) end.

Definition next_text_or_err (ts : toks) : pres (str * toks) :=
  match ts with
  | [] => PErr E_END_OF_STREAM None
  | Text _ _ s :: r => POk (s, r)
  | t :: _ => PErr E_EXPECTED_TEXT (Some t)
  end.

Definition next_text_eq_ic_or_err (kw : str) (ts : toks) : pres (token * toks) :=
  match ts with
  | [] => PErr E_END_OF_STREAM None
  | t :: r => if eq_text_ic t kw then POk (t, r) else PErr E_EXPECTED_TEXT_GOT (Some t)
  end.

Definition next_text_eq_any_ic_or_err (kws : list str) (ts : toks) : pres (token * toks) :=
  match ts with
  | [] => PErr E_END_OF_STREAM None
  | t :: r => if existsb (eq_text_ic t) kws then POk (t, r) else PErr E_UNEXPECTED_TOKEN (Some t)
  end.

Definition next_if_sep (c : N) (ts : toks) : pres (token * toks) :=
  match ts with
  | [] => PErr E_END_OF_STREAM None
  | t :: r => if eq_separator t c then POk (t, r) else PErr E_EXPECTED_SEPARATOR_GOT (Some t)
  end.

Definition next_sep_or_err (c : N) (ts : toks) : pres toks :=
  let? (_, r) := next_if_sep c ts in POk r.

(* next_is_separator_and_eq: consumes the token only when it matches *)
Definition next_is_sep (c : N) (ts : toks) : bool * toks :=
  match ts with
  | t :: r => if eq_separator t c then (true, r) else (false, ts)
  | [] => (false, [])
  end.

Definition next_is_text_ic (kw : str) (ts : toks) : bool * toks :=
  match ts with
  | t :: r => if eq_text_ic t kw then (true, r) else (false, ts)
  | [] => (false, [])
  end.

Definition peek_is_sep (c : N) (ts : toks) : bool :=
  match ts with t :: _ => eq_separator t c | [] => false end.

Definition peek_is_text_ic (kw : str) (ts : toks) : bool :=
  match ts with t :: _ => eq_text_ic t kw | [] => false end.

(* separator characters *)
Definition C_LBRACE : N := 123.  Definition C_RBRACE : N := 125.
Definition C_LPAREN : N := 40.   Definition C_RPAREN : N := 41.
Definition C_LBRACKET : N := 91. Definition C_RBRACKET : N := 93.
Definition C_COMMA : N := 44.    Definition C_DOT : N := 46.
Definition C_COLON : N := 58.    Definition C_SEMI : N := 59.
Definition C_EQ : N := 61.       Definition C_QUOTE : N := 34.   Definition C_APOS : N := 39.

(* keywords *)
Definition KW (s : string) : str := s2n s.

(* loop_ctrl_separator!: Some true = continue, Some false = break *)
Definition loop_ctrl (t : token) : pres bool :=
  if eq_separator t C_COMMA then POk true
  else if eq_separator t C_RBRACE then POk false
  else PErr E_UNEXPECTED_TOKEN (Some t).

(* ---------- object identifiers, imports ---------- *)

Definition is_numeric (c : N) : bool := is_ascii_digit c.     (* ASCII only, see header *)

Fixpoint read_oid_loop (fuel : nat) (ts : toks) (acc : list oidc) : pres (list oidc * toks) :=
  match fuel with
  | O => POutOfFuel
  | S fuel' =>
      match ts with
      | [] => POk (rev acc, [])
      | t :: r =>
          if eq_separator t C_RBRACE then POk (rev acc, r)
          else match t with
               | Text _ _ ident =>
                   if forallb is_numeric ident then
                     match parse_u64 ident with
                     | Some v => read_oid_loop fuel' r (NumberForm v :: acc)
                     | None => PErr E_INVALID_INT_TEXT (Some t)
                     end
                   else
                     let (b, r1) := next_is_sep C_LPAREN r in
                     if b then
                       let? (txt, r2) := next_text_or_err r1 in
                       match parse_u64 txt with
                       | Some v => let? r3 := next_sep_or_err C_RPAREN r2 in
                                   read_oid_loop fuel' r3 (NameAndNumberForm ident v :: acc)
                       | None => PErr E_INVALID_INT_TEXT (Some t)
                       end
                     else read_oid_loop fuel' r1 (NameForm ident :: acc)
               | Separator _ _ _ => PErr E_UNEXPECTED_TOKEN (Some t)
               end
      end
  end.

Definition read_oid (ts : toks) : pres (list oidc * toks) := read_oid_loop (S (length ts)) ts [].

Definition maybe_read_oid (ts : toks) : pres (option (list oidc) * toks) :=
  let (b, r) := next_is_sep C_LBRACE ts in
  if b then let? (o, r') := read_oid r in POk (Some o, r') else POk (None, r).

Fixpoint read_imports_loop (fuel : nat) (ts : toks) (what : list str) (acc : list import)
  : pres (list import * toks) :=
  match fuel with
  | O => POutOfFuel
  | S fuel' =>
      match ts with
      | [] => PErr E_END_OF_STREAM None
      | t :: r =>
          if eq_separator t C_SEMI then POk (rev acc, r)
          else match t with
               | Separator _ _ _ => PErr E_UNEXPECTED_TOKEN (Some t)
               | Text _ _ text =>
                   let what' := what ++ [text] in
                   let? (t2, r2) := next_or_err r in
                   if eq_separator t2 C_COMMA then read_imports_loop fuel' r2 what' acc
                   else if eq_text_ic t2 (KW "FROM") then
                     let? (from, r3) := next_text_or_err r2 in
                     let? (oid, r4) := maybe_read_oid r3 in
                     read_imports_loop fuel' r4 []
                       ({| i_what := what'; i_from := from; i_from_oid := oid |} :: acc)
                   else read_imports_loop fuel' r2 what' acc
               end
      end
  end.

Definition read_imports (ts : toks) : pres (list import * toks) := read_imports_loop (S (length ts)) ts [] [].

(* ---------- tags ---------- *)

Definition parse_tag_number (t : token) : pres N :=
  match tok_text t with
  | Some s => match parse_u64 s with Some v => POk v | None => PErr E_INVALID_TAG (Some t) end
  | None => PErr E_INVALID_TAG (Some t)
  end.

Definition read_tag (ts : toks) : pres (atag * toks) :=
  let? (t, r) := next_or_err ts in
  if eq_text_ic t (KW "UNIVERSAL") then
    let? (n, r') := next_or_err r in let? v := parse_tag_number n in POk (TagUniversal v, r')
  else if eq_text_ic t (KW "APPLICATION") then
    let? (n, r') := next_or_err r in let? v := parse_tag_number n in POk (TagApplication v, r')
  else if eq_text_ic t (KW "PRIVATE") then
    let? (n, r') := next_or_err r in let? v := parse_tag_number n in POk (TagPrivate v, r')
  else if is_text t then
    let? v := parse_tag_number t in POk (TagContext v, r)
  else PErr E_EXPECTED_TEXT (Some t).

Definition next_with_opt_tag (ts : toks) : pres (token * option atag * toks) :=
  let? (t, r) := next_or_err ts in
  if eq_separator t C_LBRACKET then
    let? (tag, r1) := read_tag r in
    let? r2 := next_sep_or_err C_RBRACKET r1 in
    let? (t', r3) := next_or_err r2 in
    POk (t', Some tag, r3)
  else POk (t, None, r).

(* ---------- SIZE ---------- *)

Definition lor_n_eqb (a b : lit_or_ref N) : bool :=
  match a, b with
  | Lit x, Lit y => x =? y
  | Ref s, Ref t => str_eqb s t
  | _, _ => false
  end.

Definition size_bound (skip_kw : str) (skip_val : N) (t : token) : option (lit_or_ref N) :=
  match tok_text t with
  | None => None
  | Some s =>
      if eq_ignore_case s skip_kw then None
      else let v := match parse_u64 s with Some n => Lit n | None => Ref s end in
           if lor_n_eqb (Lit skip_val) v then None else Some v
  end.

Definition three_dots (ts : toks) : pres toks :=
  let? r1 := next_sep_or_err C_DOT ts in
  let? r2 := next_sep_or_err C_DOT r1 in
  next_sep_or_err C_DOT r2.

Definition opt_default (o : option (lit_or_ref N)) (d : lit_or_ref N) : lit_or_ref N :=
  match o with Some v => v | None => d end.

(* Size::try_from *)
Definition read_size (ts : toks) : pres (size (lit_or_ref N) * toks) :=
  let? (_, r0) := next_text_eq_ic_or_err (KW "SIZE") ts in
  let? r1 := next_sep_or_err C_LPAREN r0 in
  let? (st, r2) := next_or_err r1 in
  let start := size_bound (KW "MIN") 0 st in
  if negb (peek_is_sep C_DOT r2) then
    let? (t, r3) := next_or_err r2 in
    if eq_separator t C_RPAREN then POk (SFix (opt_default start (Lit 0)) false, r3)
    else if eq_separator t C_COMMA then
      let? r4 := three_dots r3 in
      let? r5 := next_sep_or_err C_RPAREN r4 in
      POk (SFix (opt_default start (Lit 0)) true, r5)
    else PErr E_UNEXPECTED_TOKEN (Some t)
  else
    let? r3 := next_sep_or_err C_DOT r2 in
    let? r4 := next_sep_or_err C_DOT r3 in
    let? (en, r5) := next_or_err r4 in
    let end_ := size_bound (KW "MAX") I64_MAX_N en in
    match start, end_ with
    | None, None =>
        let? r6 := next_sep_or_err C_RPAREN r5 in POk (SAny, r6)
    | _, _ =>
        let s := opt_default start (Lit 0) in
        let e := opt_default end_ (Lit I64_MAX_N) in
        let (b, r6) := next_is_sep C_COMMA r5 in
        let? r7 := (if b then three_dots r6 else POk r6) in
        let? r8 := next_sep_or_err C_RPAREN r7 in
        if lor_n_eqb s e then POk (SFix s b, r8) else POk (SRange s e b, r8)
    end.

(* Model::maybe_read_size *)
Definition maybe_read_size (ts : toks) : pres (size (lit_or_ref N) * toks) :=
  let (b, r) := next_is_sep C_LPAREN ts in
  if b then
    let? (s, r1) := read_size r in
    let? r2 := next_sep_or_err C_RPAREN r1 in POk (s, r2)
  else if peek_is_text_ic (KW "SIZE") ts then read_size ts
  else POk (SAny, ts).

(* ---------- named numbers, INTEGER ---------- *)

Section Constants.
  Variable V : Type.
  Variable parser : token -> pres V.

  (* Model::read_constant *)
  Definition read_constant (ts : toks) : pres (str * V * toks) :=
    let? (name, r1) := next_text_or_err ts in
    let? r2 := next_sep_or_err C_LPAREN r1 in
    let? (value, r3) := next_or_err r2 in
    let? r4 := next_sep_or_err C_RPAREN r3 in
    let? v := parser value in
    POk (name, v, r4).

  Fixpoint read_constants_loop (fuel : nat) (ts : toks) (acc : list (str * V)) : pres (list (str * V) * toks) :=
    match fuel with
    | O => POutOfFuel
    | S fuel' =>
        let? (name, v, r) := read_constant ts in
        let? (t, r') := next_or_err r in
        let? cont := loop_ctrl t in
        if cont then read_constants_loop fuel' r' ((name, v) :: acc)
        else POk (rev ((name, v) :: acc), r')
    end.

  (* Model::maybe_read_constants *)
  Definition maybe_read_constants (ts : toks) : pres (list (str * V) * toks) :=
    let (b, r) := next_is_sep C_LBRACE ts in
    if b then read_constants_loop (S (length r)) r [] else POk ([], r).
End Constants.

Definition constant_i64_parser (t : token) : pres Z :=
  match tok_text t with
  | Some s => match parse_i64 s with Some v => POk v | None => PErr E_INVALID_VALUE_FOR_CONSTANT (Some t) end
  | None => PErr E_INVALID_VALUE_FOR_CONSTANT (Some t)
  end.

Definition constant_u64_parser (t : token) : pres N :=
  match tok_text t with
  | Some s => match parse_u64 s with Some v => POk v | None => PErr E_INVALID_VALUE_FOR_CONSTANT (Some t) end
  | None => PErr E_INVALID_VALUE_FOR_CONSTANT (Some t)
  end.

Definition range_bound (skip_kw : str) (t : token) : option (lit_or_ref Z) :=
  match tok_text t with
  | None => None
  | Some s =>
      if eq_ignore_case s skip_kw then None
      else Some (match parse_i64 s with Some v => Lit v | None => Ref s end)
  end.

(* Integer::try_from *)
Definition read_integer (ts : toks) : pres (arange (lit_or_ref Z) * list (str * Z) * toks) :=
  let? (consts, r0) := maybe_read_constants Z constant_i64_parser ts in
  let (b, r1) := next_is_sep C_LPAREN r0 in
  if b then
    let? (st, r2) := next_or_err r1 in
    let? r3 := next_sep_or_err C_DOT r2 in
    let? r4 := next_sep_or_err C_DOT r3 in
    let? (en, r5) := next_or_err r4 in
    let (e, r6) := next_is_sep C_COMMA r5 in
    let? r7 := (if e then three_dots r6 else POk r6) in
    let? r8 := next_sep_or_err C_RPAREN r7 in
    let start := range_bound (KW "MIN") st in
    let end_ := range_bound (KW "MAX") en in
    match start, end_ with
    | Some (Lit 0%Z), None => POk ((None, None, e), consts, r8)
    | None, Some (Lit v) =>
        if (v =? I64_MAX_Z)%Z then POk ((None, None, e), consts, r8) else POk ((start, end_, e), consts, r8)
    | _, _ => POk ((start, end_, e), consts, r8)
    end
  else POk ((None, None, false), consts, r1).

(* ---------- ENUMERATED ---------- *)

Definition is_none_N (o : option N) : bool := match o with None => true | Some _ => false end.

Fixpoint read_enumerated_loop (fuel : nat) (ts : toks) (acc : list (str * option N)) (ext : option N)
  : pres (list (str * option N) * option N * toks) :=
  match fuel with
  | O => POutOfFuel
  | S fuel' =>
      let finish (cont : bool) (r : toks) (acc' : list (str * option N)) (ext' : option N) :=
        if cont then read_enumerated_loop fuel' r acc' ext' else POk (rev acc', ext', r) in
      match next_if_sep C_DOT ts with
      | POk (marker, r) =>
          match acc with
          | [] => PErr E_INVALID_POSITION_FOR_EXTENSION_MARKER (Some marker)
          | _ :: _ =>
              if negb (is_none_N ext) then PErr E_INVALID_POSITION_FOR_EXTENSION_MARKER (Some marker)
              else
                let? r1 := next_sep_or_err C_DOT r in
                let? r2 := next_sep_or_err C_DOT r1 in
                let? (t, r3) := next_or_err r2 in
                let? cont := loop_ctrl t in
                finish cont r3 acc (Some (N.of_nat (length acc) - 1))
          end
      | _ =>
          let? (name, r) := next_text_or_err ts in
          let? (t, r1) := next_or_err r in
          if eq_separator t C_COMMA || eq_separator t C_RBRACE then
            let? cont := loop_ctrl t in finish cont r1 ((name, None) :: acc) ext
          else if eq_separator t C_LPAREN then
            let? (nt, r2) := next_or_err r1 in
            match match tok_text nt with Some s => parse_u64 s | None => None end with
            | None => PErr E_INVALID_NUMBER_FOR_ENUM_VARIANT (Some nt)
            | Some number =>
                let? r3 := next_sep_or_err C_RPAREN r2 in
                let? (t', r4) := next_or_err r3 in
                let? cont := loop_ctrl t' in
                finish cont r4 ((name, Some number) :: acc) ext
            end
          else let? cont := loop_ctrl t in finish cont r1 acc ext
      end
  end.

(* Enumerated::try_from *)
Definition read_enumerated (ts : toks) : pres (list (str * option N) * option N * toks) :=
  let? r := next_sep_or_err C_LBRACE ts in
  read_enumerated_loop (S (length r)) r [] None.

(* ---------- WITH COMPONENTS (parsed, result dropped) ---------- *)

Fixpoint read_value_constraint (fuel : nat) (level : N) (ts : toks) : pres toks :=
  match fuel with
  | O => POutOfFuel
  | S fuel' =>
      if (level =? 0) && peek_is_sep C_RPAREN ts then POk ts
      else
        let? (t, r) := next_or_err ts in
        match t with
        | Text _ _ _ => read_value_constraint fuel' level r
        | Separator _ _ c =>
            if c =? C_LPAREN then read_value_constraint fuel' (level + 1) r
            else if c =? C_RPAREN then read_value_constraint fuel' (level - 1) r
            else read_value_constraint fuel' level r
        end
  end.

Definition read_presence_constraint (ts : toks) : pres toks :=
  let? (t, r) := next_or_err ts in
  if eq_text_ic t (KW "PRESENT") || eq_text_ic t (KW "ABSENT") || eq_text_ic t (KW "OPTIONAL") then POk r
  else PErr E_UNEXPECTED_TOKEN (Some t).

Fixpoint read_itc_entries (fuel : nat) (ts : toks) : pres toks :=
  match fuel with
  | O => POutOfFuel
  | S fuel' =>
      if peek_is_sep C_RBRACE ts then POk ts
      else
        let? (_, r) := next_text_or_err ts in
        let? r1 := (if peek_is_sep C_LPAREN r then
                      let? a := next_sep_or_err C_LPAREN r in
                      let? b := read_value_constraint (S (length a)) 0 a in
                      next_sep_or_err C_RPAREN b
                    else POk r) in
        let? r2 := (match r1 with
                    | [] => PErr E_END_OF_STREAM None
                    | t :: _ => if is_text t then read_presence_constraint r1 else POk r1
                    end) in
        if peek_is_sep C_COMMA r2 then
          let? r3 := next_sep_or_err C_COMMA r2 in read_itc_entries fuel' r3
        else POk r2
  end.

(* InnerTypeConstraints::try_from *)
Definition read_inner_type_constraints (ts : toks) : pres toks :=
  let? (_, r0) := next_text_eq_ic_or_err (KW "WITH") ts in
  let? (_, r1) := next_text_eq_ic_or_err (KW "COMPONENTS") r0 in
  let? r2 := next_sep_or_err C_LBRACE r1 in
  let? r3 := (if peek_is_sep C_DOT r2 then
                let? a := three_dots r2 in
                if peek_is_sep C_COMMA a then next_sep_or_err C_COMMA a else POk a
              else POk r2) in
  let? r4 := read_itc_entries (S (length r3)) r3 in
  next_sep_or_err C_RBRACE r4.

(* Model::maybe_read_with_components_constraint *)
Definition maybe_read_with_components (ts : toks) : pres toks :=
  let (b, r) := next_is_sep C_LPAREN ts in
  if b then let? r1 := read_inner_type_constraints r in next_sep_or_err C_RPAREN r1
  else POk r.

(* ---------- literals ---------- *)

Definition is_hexdigit (c : N) : bool :=
  is_ascii_digit c || ((65 <=? c) && (c <=? 70)) || ((97 <=? c) && (c <=? 102)).

Definition hex_val (c : N) : N :=
  if is_ascii_digit c then c - 48 else if (65 <=? c) && (c <=? 70) then c - 55 else c - 87.

Fixpoint hex_pairs (s : str) : list N :=
  match s with
  | a :: b :: r => (hex_val a * 16 + hex_val b) :: hex_pairs r
  | _ => []
  end.

Definition hex_bytes (s : str) : list N :=
  if N.odd (N.of_nat (length s)) then
    match s with c :: r => hex_val c :: hex_pairs r | [] => [] end
  else hex_pairs s.

Fixpoint bits_val (s : str) (acc : N) : N :=
  match s with [] => acc | c :: r => bits_val r (2 * acc + (c - 48)) end.

Fixpoint chunks8 (fuel : nat) (s : str) : list N :=
  match fuel with
  | O => []
  | S f => match s with [] => [] | _ => bits_val (firstn 8 s) 0 :: chunks8 f (skipn 8 s) end
  end.

(* the octets of a bstring: right-aligned (vec[len-1-i/8] += 2^(i%8) for the i-th character from the right) *)
Definition bit_bytes (s : str) : list N :=
  let n := length s in
  let pad := Nat.modulo (8 - Nat.modulo n 8) 8 in
  chunks8 (S n) (repeat 48 pad ++ s)%list.

Definition is_int_text (s : str) : bool :=
  forallb is_ascii_digit s
  || match s with 45 :: (_ :: _) as r => forallb is_ascii_digit r | _ => false end.

(* LiteralValue::try_from_asn_str; the two slicings `slice[1..len-1]`, `slice[1..len-2]` panic when the
   slice is shorter than its delimiters *)
Definition literal_of_asn_str (s : str) : pres (option literal) :=
  if eq_ignore_case s (KW "true") then POk (Some (LBool true))
  else if eq_ignore_case s (KW "false") then POk (Some (LBool false))
  else if match s with 34 :: _ => true | _ => false end && ends_with s [34] then
    match s with
    | _ :: ((_ :: _) as r) => POk (Some (LString (removelast r)))
    | _ => PPanic P_SLICE_RANGE
    end
  else if is_int_text s then
    POk (match parse_i64 s with Some v => Some (LInteger v) | None => None end)
  else if match s with 39 :: _ => true | _ => false end && (ends_with s [39; 104] || ends_with s [39; 72]) then
    match s with
    | _ :: ((_ :: _ :: _) as r) =>
        let hex := removelast (removelast r) in
        if forallb is_hexdigit hex then POk (Some (LOctets (hex_bytes hex))) else POk None
    | _ => PPanic P_SLICE_RANGE
    end
  else if match s with 39 :: _ => true | _ => false end && (ends_with s [39; 98] || ends_with s [39; 66]) then
    match s with
    | _ :: ((_ :: _ :: _) as r) =>
        let bits := removelast (removelast r) in
        if forallb (fun c => (c =? 48) || (c =? 49)) bits then POk (Some (LOctets (bit_bytes bits))) else POk None
    | _ => PPanic P_SLICE_RANGE
    end
  else POk None.

Definition spaces (from to : N) : str := repeat 32 (N.to_nat (to - from)).

Fixpoint read_string_loop (fuel : nat) (delim : N) (ts : toks) (acc : str) (prev_col : N) : pres (str * toks) :=
  match fuel with
  | O => POutOfFuel
  | S fuel' =>
      let? (t, r) := next_or_err ts in
      if eq_separator t delim then POk ((acc ++ [delim])%list, r)
      else match t with
           | Text _ c s =>
               read_string_loop fuel' delim r (acc ++ spaces prev_col c ++ s)%list (c + N.of_nat (length s))
           | Separator _ c ch =>
               read_string_loop fuel' delim r (acc ++ spaces prev_col c ++ [ch])%list (c + 1)
           end
  end.

(* Model::read_string_literal *)
Definition read_string_literal (delim : N) (ts : toks) : pres (str * toks) :=
  let? r0 := next_sep_or_err delim ts in
  let? (t, r1) := next_or_err r0 in
  let first_text := match tok_text t with Some s => s | None => [] end in
  read_string_loop (S (length r1)) delim r1 (delim :: first_text) (tok_column t + N.of_nat (length first_text)).

(* Model::read_hex_or_bit_string_literal *)
Definition read_hex_or_bit_string_literal (ts : toks) : pres (str * toks) :=
  let? (s, r) := read_string_literal C_APOS ts in
  let? (t, r') := next_text_eq_any_ic_or_err [KW "H"; KW "B"] r in
  match t with
  | Text _ _ suffix => POk ((s ++ suffix)%list, r')
  | Separator _ _ _ => PErr E_UNEXPECTED_TOKEN (Some t)
  end.

(* Model::read_literal *)
Definition read_literal (ts : toks) : pres (literal * toks) :=
  match ts with
  | [] => PErr E_END_OF_STREAM None
  | p :: _ =>
      let? (s, r) :=
        (if peek_is_text_ic (KW "true") ts || peek_is_text_ic (KW "false") ts
            || match tok_text p with Some s => is_int_text s | None => false end
         then next_text_or_err ts
         else if peek_is_sep C_QUOTE ts then read_string_literal C_QUOTE ts
         else if peek_is_sep C_APOS ts then read_hex_or_bit_string_literal ts
         else PErr E_UNSUPPORTED_LITERAL (Some p)) in
      let? l := literal_of_asn_str s in
      match l with
      | Some v => POk (v, r)
      | None => PErr E_INVALID_LITERAL (Some (Text (tok_line p) (tok_column p) s))
      end
  end.

(* ---------- the type grammar ---------- *)

Definition ufield : Type := afield (lit_or_ref N) (lit_or_ref Z) (lit_or_ref literal).

Definition charset_of (lower : str) : option charset :=
  if str_eqb lower (KW "utf8string") then Some Utf8
  else if str_eqb lower (KW "ia5string") then Some Ia5
  else if str_eqb lower (KW "numericstring") then Some Numeric
  else if str_eqb lower (KW "printablestring") then Some Printable
  else if str_eqb lower (KW "visiblestring") then Some Visible
  else None.

Definition into_text_or (kind : N) (t : token) : pres str :=
  match t with Text _ _ s => POk s | Separator _ _ _ => PErr kind (Some t) end.

Fixpoint read_role_given_text (fuel : nat) (text : str) (ts : toks) {struct fuel} : pres (uty * toks) :=
  match fuel with
  | O => POutOfFuel
  | S fuel' =>
      let lower := map to_ascii_lower text in
      if str_eqb lower (KW "integer") then
        let? (r, c, ts') := read_integer ts in POk (TInteger r c, ts')
      else if str_eqb lower (KW "boolean") then POk (TBoolean, ts)
      else if str_eqb lower (KW "null") then POk (TNull, ts)
      else match charset_of lower with
      | Some cs => let? (s, ts') := maybe_read_size ts in POk (TString s cs, ts')
      | None =>
      if str_eqb lower (KW "octet") then
        let? (_, r) := next_text_eq_ic_or_err (KW "STRING") ts in
        let? (s, ts') := maybe_read_size r in POk (TOctetString s, ts')
      else if str_eqb lower (KW "bit") then
        let? (_, r) := next_text_eq_ic_or_err (KW "STRING") ts in
        let? (c, r1) := maybe_read_constants N constant_u64_parser r in
        let? (s, ts') := maybe_read_size r1 in POk (TBitString s c, ts')
      else if str_eqb lower (KW "enumerated") then
        let? (v, e, ts') := read_enumerated ts in POk (TEnumerated v e, ts')
      else if str_eqb lower (KW "choice") then
        let? (v, e, ts') := read_choice fuel' ts in POk (TChoice v e, ts')
      else if str_eqb lower (KW "sequence") then
        (* read_sequence_or_sequence_of *)
        let? (size, r) := maybe_read_size ts in
        let (b, r1) := next_is_text_ic (KW "OF") r in
        if b then
          let? (text', r2) := next_text_or_err r1 in
          let? (inner, ts') := read_role_given_text fuel' text' r2 in POk (TSequenceOf inner size, ts')
        else let? (f, e, ts') := read_components fuel' r1 in POk (TSequence f e, ts')
      else if str_eqb lower (KW "set") then
        let? (size, r) := maybe_read_size ts in
        let (b, r1) := next_is_text_ic (KW "OF") r in
        if b then
          let? (text', r2) := next_text_or_err r1 in
          let? (inner, ts') := read_role_given_text fuel' text' r2 in POk (TSetOf inner size, ts')
        else let? (f, e, ts') := read_components fuel' r1 in POk (TSet f e, ts')
      else
        let? ts' := maybe_read_with_components ts in POk (TRef text None, ts')
      end
  end

(* ComponentTypeList::try_from *)
with read_components (fuel : nat) (ts : toks) {struct fuel} : pres (list ufield * option N * toks) :=
  match fuel with
  | O => POutOfFuel
  | S fuel' =>
      let? r := next_sep_or_err C_LBRACE ts in
      components_loop fuel' r [] None
  end

with components_loop (fuel : nat) (ts : toks) (acc : list ufield) (ext : option N) {struct fuel}
  : pres (list ufield * option N * toks) :=
  match fuel with
  | O => POutOfFuel
  | S fuel' =>
      let (b, r) := next_is_sep C_RBRACE ts in
      if b then POk (rev acc, ext, r)
      else
        let (d, r1) := next_is_sep C_DOT r in
        if d then
          let? r2 := next_sep_or_err C_DOT r1 in
          let? r3 := next_sep_or_err C_DOT r2 in
          let ext' := Some (N.of_nat (length acc) - 1) in          (* field_len.saturating_sub(1) *)
          let? (t, r4) := next_or_err r3 in
          if eq_separator t C_COMMA then components_loop fuel' r4 acc ext'
          else if eq_separator t C_RBRACE then POk (rev acc, ext', r4)
          else PErr E_UNEXPECTED_TOKEN (Some t)
        else
          let? (f, continues, r2) := read_field fuel' r1 in
          if continues then components_loop fuel' r2 (f :: acc) ext
          else POk (rev (f :: acc), ext, r2)
  end

(* Model::read_field *)
with read_field (fuel : nat) (ts : toks) {struct fuel} : pres (ufield * bool * toks) :=
  match fuel with
  | O => POutOfFuel
  | S fuel' =>
      let? (name, r0) := next_text_or_err ts in
      let? (t, tag, r1) := next_with_opt_tag r0 in
      let? text := into_text_or E_EXPECTED_TEXT t in
      let? (ty0, r2) := read_role_given_text fuel' text r1 in
      let? (t1, r3) := next_or_err r2 in
      let? (ty1, dflt, t2, r4) :=
        (if eq_text_ic t1 (KW "OPTIONAL") then
           let? (t', r') := next_or_err r3 in POk (TOptional ty0, None, t', r')
         else if eq_text_ic t1 (KW "DEFAULT") then
           let? (d, r') :=
             (match read_literal r3 with
              | POk (v, r') => POk (Lit v, r')
              | PErr k (Some tk) =>
                  if (k =? E_UNSUPPORTED_LITERAL) && is_text tk then
                    let? (s, r') := next_text_or_err r3 in POk (Ref s, r')
                  else PErr k (Some tk)
              | PErr k None => PErr k None
              | PPanic p => PPanic p
              | POutOfFuel => POutOfFuel
              end) in
           let? (t', r'') := next_or_err r' in POk (ty0, Some d, t', r'')
         else POk (ty0, None, t1, r3)) in
      if eq_separator t2 C_COMMA then POk ((name, (tag, ty1, dflt)), true, r4)
      else if eq_separator t2 C_RBRACE then POk ((name, (tag, ty1, dflt)), false, r4)
      else PErr E_UNEXPECTED_TOKEN (Some t2)
  end

(* Choice::try_from *)
with read_choice (fuel : nat) (ts : toks) {struct fuel}
  : pres (list (str * option atag * uty) * option N * toks) :=
  match fuel with
  | O => POutOfFuel
  | S fuel' =>
      let? r := next_sep_or_err C_LBRACE ts in
      choice_loop fuel' r [] None
  end

with choice_loop (fuel : nat) (ts : toks) (acc : list (str * option atag * uty)) (ext : option N) {struct fuel}
  : pres (list (str * option atag * uty) * option N * toks) :=
  match fuel with
  | O => POutOfFuel
  | S fuel' =>
      let? (acc', ext', r) :=
        (match next_if_sep C_DOT ts with
         | POk (marker, r) =>
             match acc with
             | [] => PErr E_INVALID_POSITION_FOR_EXTENSION_MARKER (Some marker)
             | _ :: _ =>
                 if negb (is_none_N ext) then PErr E_INVALID_POSITION_FOR_EXTENSION_MARKER (Some marker)
                 else
                   let? r1 := next_sep_or_err C_DOT r in
                   let? r2 := next_sep_or_err C_DOT r1 in
                   POk (acc, Some (N.of_nat (length acc) - 1), r2)
             end
         | _ =>
             let? (name, r0) := next_text_or_err ts in
             let? (t, tag, r1) := next_with_opt_tag r0 in
             let? text := into_text_or E_EXPECTED_TEXT t in
             let? (ty0, r2) := read_role_given_text fuel' text r1 in
             POk ((name, tag, ty0) :: acc, ext, r2)
         end) in
      let? (t, r') := next_or_err r in
      let? cont := loop_ctrl t in
      if cont then choice_loop fuel' r' acc' ext' else POk (rev acc', ext', r')
  end.

(* Model::read_role *)
Definition read_role (fuel : nat) (ts : toks) : pres (uty * toks) :=
  let? (text, r) := next_text_or_err ts in read_role_given_text fuel text r.

Definition definition_sep (ts : toks) : pres toks :=
  let? r1 := next_sep_or_err C_COLON ts in
  let? r2 := next_sep_or_err C_COLON r1 in
  next_sep_or_err C_EQ r2.

(* Model::read_definition (after the name) *)
Definition read_definition (fuel : nat) (ts : toks) : pres (uasn * toks) :=
  let? r := definition_sep ts in
  let? (t, tag, r1) := next_with_opt_tag r in
  (* the SEQUENCE / SET / ENUMERATED / CHOICE arms do what read_role_given_text does for these words *)
  match t with
  | Text _ _ text =>
      let? (ty0, r2) := read_role_given_text fuel text r1 in POk ((tag, ty0, None), r2)
  | Separator _ _ _ => PErr E_UNEXPECTED_TOKEN (Some t)
  end.

(* Model::read_value_reference (after the name) *)
Definition read_value_reference (fuel : nat) (ts : toks) : pres (uasn * literal * toks) :=
  let? (ty0, r) := read_role fuel ts in
  let? r1 := definition_sep r in
  let? (l, r2) := read_literal r1 in
  POk ((None, ty0, None), l, r2).

(* ---------- the module ---------- *)

Definition strip_suffix (name suffix : str) : str :=
  if ends_with name suffix then firstn (length name - length suffix) name else name.

(* Model::make_name_nice *)
Definition make_name_nice (name : str) : str :=
  strip_suffix (strip_suffix name (KW "_Module")) (KW "Module").

Fixpoint skip_until_after (kw : str) (ts : toks) : pres toks :=
  match ts with
  | [] => PErr E_END_OF_STREAM None
  | t :: r => if eq_text_ic t kw then POk r else skip_until_after kw r
  end.

Definition umodel : Type := amodel uasn.

Fixpoint module_loop (fuel : nat) (tfuel : nat) (ts : toks) (name : str) (oid : option (list oidc))
         (imports : list import) (defs : list (str * uasn)) (vals : list (str * uasn * literal)) : pres umodel :=
  match fuel with
  | O => POutOfFuel
  | S fuel' =>
      match ts with
      | [] => PErr E_END_OF_STREAM None
      | t :: r =>
          if eq_text_ic t (KW "END") then
            POk {| m_name := make_name_nice name; m_oid := oid;
                   m_imports := map (fun i => {| i_what := i_what i; i_from := make_name_nice (i_from i);
                                                 i_from_oid := i_from_oid i |}) imports;
                   m_definitions := rev defs; m_value_references := rev vals |}
          else if eq_text_ic t (KW "IMPORTS") then
            let? (is, r') := read_imports r in
            module_loop fuel' tfuel r' name oid (imports ++ is) defs vals
          else if peek_is_sep C_COLON r then
            let? dname := into_text_or E_UNEXPECTED_TOKEN t in
            let? (a, r') := read_definition tfuel r in
            module_loop fuel' tfuel r' name oid imports ((dname, a) :: defs) vals
          else
            let? vname := into_text_or E_UNEXPECTED_TOKEN t in
            let? (a, l, r') := read_value_reference tfuel r in
            module_loop fuel' tfuel r' name oid imports defs ((vname, a, l) :: vals)
      end
  end.

(* Model::try_from *)
Definition parse_module (fuel : nat) (ts : toks) : pres umodel :=
  match ts with
  | Text _ _ name :: r =>
      let? (oid, r1) := maybe_read_oid r in
      let? r2 := skip_until_after (KW "BEGIN") r1 in
      module_loop (S (length r2)) fuel r2 name oid [] [] []
  | _ => PErr E_MISSING_MODULE_NAME None
  end.

(* fuel that is always enough for the type grammar: every unit of fuel spent without consuming a token is
   followed, within three calls, by one that consumes a token (see ParseProofs) *)
Definition parse_fuel (ts : toks) : nat := 4 * length ts + 16.

Definition parse (ts : toks) : pres umodel := parse_module (parse_fuel ts) ts.
