(* Front/Parse.v -- stub, to be filled *)
