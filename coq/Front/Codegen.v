(* Front/Codegen.v -- name mangling of the code generator (layers F3/F4, properties C08/C09).

   Models, function for function, on strings as lists of char codes (N):
     asn1rs-model/src/rust.rs          rust_variant_name, rust_struct_or_enum_name, rust_module_name (both flags),
                                       rust_field_name, rust_constant_name
     asn1rs-model/src/generate/rust.rs RustCodeGenerator::{rust_field_name (with the KEYWORDS of Gen/Keywords.v),
                                       rust_variant_name, rust_module_name}
   and the Rust lexical facts the property C09 talks about (identifier grammar, keyword tables of the 2021 edition,
   transcribed from the Rust Reference), plus the ASN.1 identifier / typereference grammar of X.680 12.2, 12.3.

   char predicates (is_uppercase, is_lowercase, is_alphabetic, to_lowercase, to_uppercase, to_ascii_xxx) are exact on
   ASCII and DECLARED OUT OF MODEL above U+007F (DESIGN.md 2.3): the executable interface refuses such input. *)
From A1 Require Export Base.Res.
From A1 Require Import Gen.Keywords.
From Coq Require Import String Ascii.
Local Open Scope N_scope.

(* ------------------------------------------------------------------ characters *)
Definition HYPHEN : N := 45.
Definition USCORE : N := 95.
Definition is_upper (c : N) : bool := (65 <=? c) && (c <=? 90).
Definition is_lower (c : N) : bool := (97 <=? c) && (c <=? 122).
Definition is_digit (c : N) : bool := (48 <=? c) && (c <=? 57).
Definition is_alpha (c : N) : bool := is_upper c || is_lower c.
Definition to_lower (c : N) : N := if is_upper c then c + 32 else c.
Definition to_upper (c : N) : N := if is_lower c then c - 32 else c.
Definition is_sep (c : N) : bool := (c =? HYPHEN) || (c =? USCORE).

Fixpoint str_eqb (a b : list N) : bool :=
  match a, b with
  | [], [] => true
  | x :: a', y :: b' => (x =? y) && str_eqb a' b'
  | _, _ => false
  end.

Lemma str_eqb_eq : forall a b, str_eqb a b = true <-> a = b.
Proof.
  induction a as [|x a IH]; destruct b as [|y b]; simpl; split; intros H; try discriminate; try reflexivity.
  - apply andb_true_iff in H. destruct H as [H1 H2]. apply N.eqb_eq in H1. apply IH in H2. subst. reflexivity.
  - inversion H; subst. rewrite N.eqb_refl. simpl. apply IH. reflexivity.
Qed.

Definition mem_str (s : list N) (l : list (list N)) : bool := existsb (str_eqb s) l.

Fixpoint codes (s : string) : list N :=
  match s with
  | EmptyString => []
  | String a r => N_of_ascii a :: codes r
  end.

(* ------------------------------------------------------------------ rust.rs: rust_variant_name *)
(* state: (next_upper, prev_upper); `chars.peek()` is the head of the rest *)
Fixpoint variant_go (s : list N) (next_upper prev_upper : bool) : list N :=
  match s with
  | [] => []
  | c :: rest =>
    if is_sep c then variant_go rest true false
    else if next_upper && negb prev_upper then to_upper c :: variant_go rest false true
    else
      let peek_lower := match rest with n :: _ => is_lower n | [] => false end in
      (if prev_upper && negb peek_lower then to_lower c else c) :: variant_go rest next_upper (is_upper c)
  end.

Definition rust_variant_name (s : list N) : list N := variant_go s true false.
Definition rust_struct_or_enum_name (s : list N) : list N := rust_variant_name s.

(* ------------------------------------------------------------------ rust.rs: rust_module_name *)
Definition is_nil {A} (l : list A) : bool := match l with [] => true | _ => false end.
Definition ends_uscore (out_rev : list N) : bool := match out_rev with c :: _ => c =? USCORE | [] => false end.

(* `out` is kept reversed: the Rust code inspects out.is_empty() and out.ends_with('_') while building it *)
Definition pad_step (pad : bool) (c : N) (out_rev : list N) (prev_alpha : bool) : list N :=
  if pad && negb (Bool.eqb prev_alpha (is_alpha c)) && negb (c =? HYPHEN) && negb (c =? USCORE)
     && negb (is_nil out_rev) && negb (ends_uscore out_rev)
  then USCORE :: out_rev else out_rev.

Definition upper_step (o1 : list N) (prev_lowered prev_alpha : bool) (rest : list N) : list N :=
  if negb (is_nil o1) && prev_alpha then
    (if negb prev_lowered then USCORE :: o1
     else match rest with
          | n :: _ => if is_lower n then USCORE :: o1 else o1
          | [] => o1
          end)
  else o1.

Fixpoint module_go (pad : bool) (s : list N) (out_rev : list N) (prev_lowered prev_alpha : bool) : list N :=
  match s with
  | [] => rev out_rev
  | c :: rest =>
    let o1 := pad_step pad c out_rev prev_alpha in
    if is_upper c then module_go pad rest (to_lower c :: upper_step o1 prev_lowered prev_alpha rest) true (is_alpha c)
    else if is_sep c then module_go pad rest (USCORE :: o1) false (is_alpha c)
    else module_go pad rest (c :: o1) false (is_alpha c)
  end.

Definition rust_module_name (s : list N) (pad : bool) : list N := module_go pad s [] false false.
Definition rust_field_name (s : list N) : list N := rust_module_name s false.
Definition rust_constant_name (s : list N) : list N := map to_upper (rust_module_name s true).

(* ------------------------------------------------------------------ generate/rust.rs *)
Definition gen_field_name (s : list N) (check_for_keywords : bool) : list N :=
  let name := map (fun c => if c =? HYPHEN then USCORE else c) s in
  if check_for_keywords && mem_str name KEYWORDS then name ++ [USCORE] else name.

Fixpoint gen_variant_go (s : list N) (next_upper : bool) : list N :=
  match s with
  | [] => []
  | c :: rest =>
    if next_upper then to_upper c :: gen_variant_go rest false
    else if is_sep c then gen_variant_go rest true
    else c :: gen_variant_go rest false
  end.
Definition gen_variant_name (s : list N) : list N := gen_variant_go s true.

Fixpoint gen_module_go (s : list N) (out_rev : list N) (prev_lowered : bool) : list N :=
  match s with
  | [] => rev out_rev
  | c :: rest =>
    if is_upper c then
      let o := if negb (is_nil out_rev) then
                 (if negb prev_lowered then USCORE :: out_rev
                  else match rest with
                       | n :: _ => if is_lower n then USCORE :: out_rev else out_rev
                       | [] => out_rev
                       end)
               else out_rev in
      gen_module_go rest (to_lower c :: o) true
    else if c =? HYPHEN then gen_module_go rest (USCORE :: out_rev) false
    else gen_module_go rest (c :: out_rev) false
  end.
Definition gen_module_name (s : list N) : list N := gen_module_go s [] false.

(* what ends up in the generated file for an ASN.1 component / alternative / item name *)
Definition emit_field (s : list N) : list N := gen_field_name (rust_field_name s) true.
Definition emit_variant (s : list N) : list N := gen_variant_name (rust_variant_name s).
Definition emit_type (s : list N) : list N := rust_struct_or_enum_name s.

(* ------------------------------------------------------------------ Rust lexical facts (The Rust Reference) *)
(* "Keywords": strict keywords incl. the 2018+ ones, and reserved keywords incl. `try` (2018+) *)
Definition RUST_STRICT : list (list N) := map codes
  ["as"; "break"; "const"; "continue"; "crate"; "else"; "enum"; "extern"; "false"; "fn"; "for"; "if"; "impl"; "in";
   "let"; "loop"; "match"; "mod"; "move"; "mut"; "pub"; "ref"; "return"; "self"; "Self"; "static"; "struct"; "super";
   "trait"; "true"; "type"; "unsafe"; "use"; "where"; "while"; "async"; "await"; "dyn"]%string.
Definition RUST_RESERVED : list (list N) := map codes
  ["abstract"; "become"; "box"; "do"; "final"; "macro"; "override"; "priv"; "typeof"; "unsized"; "virtual"; "yield"; "try"]%string.
Definition RUST_KEYWORDS : list (list N) := RUST_STRICT ++ RUST_RESERVED.
Definition is_keyword (s : list N) : bool := mem_str s RUST_KEYWORDS.

(* "Identifiers" restricted to ASCII: XID_Start XID_Continue* | _ XID_Continue+ *)
Definition ident_continue (c : N) : bool := is_alpha c || is_digit c || (c =? USCORE).
Definition is_rust_ident (s : list N) : bool :=
  match s with
  | [] => false
  | c :: rest =>
    if is_alpha c then forallb ident_continue rest
    else if c =? USCORE then negb (is_nil rest) && forallb ident_continue rest
    else false
  end.

(* ------------------------------------------------------------------ ASN.1 names (X.680 12.2 typereference, 12.3 identifier) *)
Definition asn_char (c : N) : bool := is_alpha c || is_digit c || (c =? HYPHEN).
(* no hyphen at the end, no two hyphens in a row *)
Fixpoint hyphens_ok (s : list N) : bool :=
  match s with
  | [] => true
  | c :: rest =>
    (if c =? HYPHEN then match rest with [] => false | n :: _ => negb (n =? HYPHEN) end else true) && hyphens_ok rest
  end.
Definition asn_identifier (s : list N) : bool :=
  match s with
  | c :: rest => is_lower c && forallb asn_char rest && hyphens_ok s
  | [] => false
  end.
Definition asn_typereference (s : list N) : bool :=
  match s with
  | c :: rest => is_upper c && forallb asn_char rest && hyphens_ok s
  | [] => false
  end.
