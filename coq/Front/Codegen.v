(* Front/Codegen.v -- stub, to be filled *)
