(* Front/DescrProofs.v -- what the descriptor constants of Front/Descr.v say about the definition (Props/C08.v) *)
From A1 Require Import Base.Res Front.IntTy Front.Codegen Front.Attr Front.Descr.
From Coq Require Import ZifyBool ZifyNat ZifyN.
Local Open Scope N_scope.

Definition optb (f : rfield) : bool := is_optional (rf_ty f).
Definition cnt (bs : list bool) : N := N.of_nat (length (filter (fun b => b) bs)).
(* number of OPTIONAL / DEFAULT fields *)
Definition count_opt (fs : list rfield) : N := cnt (map optb fs).
(* the fields up to and including the one the extension marker follows (all of them without a marker) *)
Definition root_fields (ext : option N) (fs : list rfield) : list rfield :=
  match ext with Some e => firstn (S (N.to_nat e)) fs | None => fs end.

Lemma cnt_cons b bs : cnt (b :: bs) = (if b then 1 else 0) + cnt bs.
Proof. unfold cnt. cbn [filter]. destruct b; cbn [length]; lia. Qed.

Lemma cnt_app a b : cnt (a ++ b) = cnt a + cnt b.
Proof. unfold cnt. rewrite filter_app, app_length. lia. Qed.

(* ------------------------------------------------------------------ the take_while / filter / count loop *)
Lemma opt_count_from_spec : forall fs i limit,
  opt_count_from i limit fs = count_opt (firstn (N.to_nat (limit + 1 - i)) fs).
Proof.
  unfold count_opt. induction fs as [|f r IH]; intros i limit; cbn [opt_count_from].
  - rewrite firstn_nil. reflexivity.
  - destruct (i <=? limit) eqn:E.
    + replace (N.to_nat (limit + 1 - i)) with (S (N.to_nat (limit + 1 - (i + 1)))) by lia.
      cbn [firstn map]. rewrite cnt_cons, IH. reflexivity.
    + replace (N.to_nat (limit + 1 - i)) with O by lia. reflexivity.
Qed.

Lemma opt_count_root ext fs :
  N.of_nat (length fs) <= USIZE_MAX ->
  opt_count_from 0 (ext_limit ext) fs = count_opt (root_fields ext fs).
Proof.
  intros Hlen. rewrite opt_count_from_spec. unfold root_fields, ext_limit. destruct ext as [e|].
  - replace (N.to_nat (e + 1 - 0)) with (S (N.to_nat e)) by lia. reflexivity.
  - rewrite firstn_all2; [reflexivity|]. unfold USIZE_MAX in *. lia.
Qed.

(* ------------------------------------------------------------------ the canonical sort keeps the count over the root *)
Definition kopt (x : key * rfield) : bool := optb (snd x).
Definition flag (x : key * rfield) : bool := fst (fst x).

Lemma cnt_insert x l : cnt (map kopt (insert x l)) = cnt (map kopt (x :: l)).
Proof.
  induction l as [|y l IH]; [reflexivity|]. cbn [insert]. destruct (key_lt (fst y) (fst x)); [|reflexivity].
  cbn [map] in *. rewrite !cnt_cons in *. rewrite IH. lia.
Qed.

Lemma cnt_isort l : cnt (map kopt (isort l)) = cnt (map kopt l).
Proof.
  induction l as [|x l IH]; [reflexivity|]. cbn [isort]. rewrite cnt_insert. cbn [map]. rewrite !cnt_cons, IH. reflexivity.
Qed.

Lemma length_insert x l : length (insert x l) = S (length l).
Proof. induction l as [|y l IH]; [reflexivity|]. cbn [insert]. destruct (key_lt _ _); cbn [length]; [rewrite IH|]; reflexivity. Qed.

Lemma length_isort l : length (isort l) = length l.
Proof. induction l as [|x l IH]; [reflexivity|]. cbn [isort]. rewrite length_insert, IH. reflexivity. Qed.

Lemma Forall_insert (P : key * rfield -> Prop) x l : P x -> Forall P l -> Forall P (insert x l).
Proof.
  intros Hx. induction 1 as [|y l Hy Hl IH]; cbn [insert]; [repeat constructor; exact Hx|].
  destruct (key_lt _ _); repeat constructor; assumption.
Qed.

Lemma Forall_isort (P : key * rfield -> Prop) l : Forall P l -> Forall P (isort l).
Proof. induction 1 as [|x l Hx Hl IH]; cbn [isort]; [constructor | apply Forall_insert; assumption]. Qed.

(* an element of the root is never moved behind an extension addition *)
Lemma insert_app_flags x a b :
  flag x = false -> Forall (fun y => flag y = true) b -> insert x (a ++ b) = insert x a ++ b.
Proof.
  intros Hx Hb. induction a as [|y a IH].
  - cbn [app insert]. destruct b as [|y b]; [reflexivity|]. cbn [insert].
    inversion Hb as [|? ? Hy _]; subst. unfold key_lt. unfold flag in *. rewrite Hy, Hx. reflexivity.
  - cbn [app insert]. destruct (key_lt (fst y) (fst x)); [rewrite IH|]; reflexivity.
Qed.

Lemma isort_app_flags a b :
  Forall (fun y => flag y = false) a -> Forall (fun y => flag y = true) b -> isort (a ++ b) = isort a ++ isort b.
Proof.
  intros Ha Hb. induction Ha as [|x a Hx Ha IH]; [reflexivity|].
  cbn [app isort]. rewrite IH. apply insert_app_flags; [exact Hx | apply Forall_isort; exact Hb].
Qed.

Lemma key_fields_split e : forall fs i l, key_fields (Some e) i fs = Ok l ->
  exists l1 l2, l = l1 ++ l2 /\ Forall (fun y => flag y = false) l1 /\ Forall (fun y => flag y = true) l2 /\
    length l1 = Nat.min (length fs) (N.to_nat (e + 1 - i)) /\ length l = length fs /\ map kopt l = map optb fs.
Proof.
  induction fs as [|f r IH]; intros i l H; cbn [key_fields] in H.
  - inversion H; subst. exists [], []. repeat split; try constructor; try (cbn [length]; lia).
  - destruct (match rf_tag f with Some g => Some g | None => type_tag (rf_ty f) end) as [g|]; [|discriminate].
    destruct (key_fields (Some e) (i + 1) r) as [l'| |] eqn:E; cbn [bind] in H; try discriminate.
    inversion H; subst; clear H.
    destruct (IH (i + 1) l' E) as [l1 [l2 [El [H1 [H2 [Hlen [Hlen' Hmap]]]]]]].
    set (x := (_, tag_key g, with_tag f g)).
    assert (Hfx : flag x = (e <? i)) by reflexivity.
    assert (Hkx : kopt x = optb f) by reflexivity.
    clearbody x. subst l'.
    destruct (e <? i) eqn:Ei.
    + (* an extension addition: so are all that follow *)
      assert (l1 = []) by (destruct l1; [reflexivity | cbn [length] in Hlen; lia]). subst l1.
      exists [], (x :: l2). cbn [app] in *.
      split; [reflexivity|]. split; [constructor|]. split; [constructor; assumption|].
      split; [cbn [length]; lia|]. split; [cbn [length]; lia|]. cbn [map]. rewrite Hmap, Hkx. reflexivity.
    + exists (x :: l1), l2.
      split; [reflexivity|]. split; [constructor; assumption|]. split; [assumption|].
      split; [cbn [length]; rewrite Hlen; lia|]. split; [cbn [length app] in *; lia|].
      cbn [map app]. rewrite <- Hmap, Hkx. reflexivity.
Qed.

Lemma cnt_map_snd l : count_opt (map snd l) = cnt (map kopt l).
Proof. unfold count_opt. rewrite map_map. reflexivity. Qed.

Lemma sort_keeps_root_count fs e sorted :
  sort_fields fs (Some e) = Ok sorted ->
  opt_count_from 0 e sorted = opt_count_from 0 e fs /\ length sorted = length fs.
Proof.
  unfold sort_fields. destruct (key_fields (Some e) 0 fs) as [l| |] eqn:E; cbn [bind]; intros H; try discriminate.
  inversion H; subst; clear H.
  destruct (key_fields_split e fs 0 l E) as [l1 [l2 [El [H1 [H2 [Hlen [Hlen' Hmap]]]]]]].
  split; [|rewrite map_length, length_isort; exact Hlen'].
  rewrite !opt_count_from_spec. replace (N.to_nat (e + 1 - 0)) with (S (N.to_nat e)) in * by lia.
  set (k := S (N.to_nat e)) in *.
  subst l. rewrite (isort_app_flags l1 l2 H1 H2), map_app, firstn_app, map_length, length_isort.
  rewrite app_length in Hlen'.
  assert (Hk : (length l1 <= k)%nat) by lia.
  rewrite (firstn_all2 (map snd (isort l1))) by (rewrite map_length, length_isort; exact Hk).
  assert (Htail : firstn (k - length l1) (map snd (isort l2)) = []).
  { destruct (Nat.eq_dec (length l1) k) as [Ek|Ek].
    - rewrite Ek, Nat.sub_diag. reflexivity.
    - assert (length l2 = O) by lia. destruct l2; [cbn [isort map]; apply firstn_nil | discriminate]. }
  rewrite Htail, app_nil_r, cnt_map_snd, cnt_isort.
  unfold count_opt. rewrite <- firstn_map, <- Hmap, map_app.
  rewrite firstn_app, map_length.
  rewrite (firstn_all2 (map kopt l1)) by (rewrite map_length; exact Hk).
  assert (Htail2 : firstn (k - length l1) (map kopt l2) = []).
  { destruct (Nat.eq_dec (length l1) k) as [Ek|Ek].
    - rewrite Ek, Nat.sub_diag. reflexivity.
    - assert (length l2 = O) by lia. destruct l2; [cbn [isort map]; apply firstn_nil | discriminate]. }
  rewrite Htail2, app_nil_r. reflexivity.
Qed.

Lemma sort_none_length fs sorted : sort_fields fs None = Ok sorted -> length sorted = length fs /\ count_opt sorted = count_opt fs.
Proof.
  unfold sort_fields. destruct (key_fields None 0 fs) as [l| |] eqn:E; cbn [bind]; intros H; try discriminate.
  inversion H; subst; clear H.
  assert (Hl : forall fs i l, key_fields None i fs = Ok l -> length l = length fs /\ map kopt l = map optb fs).
  { clear. induction fs as [|f r IH]; intros i l H; cbn [key_fields] in H.
    - inversion H; subst. split; reflexivity.
    - destruct (match rf_tag f with Some g => Some g | None => type_tag (rf_ty f) end) as [g|]; [|discriminate].
      destruct (key_fields None (i + 1) r) as [l'| |] eqn:E; cbn [bind] in H; try discriminate.
      inversion H; subst. destruct (IH _ _ E) as [H1 H2]. split; cbn [length map]; [rewrite H1 | rewrite H2]; reflexivity. }
  destruct (Hl fs 0 l E) as [H1 H2]. split.
  - rewrite map_length, length_isort. exact H1.
  - rewrite cnt_map_snd, cnt_isort. unfold count_opt. rewrite H2. reflexivity.
Qed.

(* ------------------------------------------------------------------ assign_implicit_tags changes tags only *)
Lemma context_tags_shape : forall fs i, length (context_tags i fs) = length fs /\ map optb (context_tags i fs) = map optb fs.
Proof. induction fs as [|f r IH]; intros i; [split; reflexivity|]. cbn [context_tags length map]. destruct (IH (i + 1)) as [H1 H2]. rewrite H1, H2. split; reflexivity. Qed.

Lemma implicit_tags_shape fs : length (assign_implicit_tags fs) = length fs /\ map optb (assign_implicit_tags fs) = map optb fs.
Proof. unfold assign_implicit_tags. destruct (existsb has_tag fs); [split; reflexivity | apply context_tags_shape]. Qed.

(* ------------------------------------------------------------------ the constants of a definition *)
Lemma count_root_shape ext a b : map optb a = map optb b -> count_opt (root_fields ext a) = count_opt (root_fields ext b).
Proof.
  intros H. unfold count_opt, root_fields. destruct ext as [e|]; [|rewrite H; reflexivity].
  rewrite <- !firstn_map, H. reflexivity.
Qed.

Definition seq_trait (sorted : bool) : ctrait := if sorted then TrSet else TrSequence.

(* SEQUENCE / SET: EXTENDED_AFTER_FIELD is the marker position, FIELD_COUNT the number of components, STD_OPTIONAL_FIELDS
   the number of OPTIONAL / DEFAULT components of the root -- for a SET after the canonical sort as well *)
Lemma consts_struct m name sorted fs tg ext cs :
  N.of_nat (length fs) <= USIZE_MAX ->
  consts_of m name (DStruct sorted fs tg ext) = Ok cs ->
  exists fc, fields_consts name (assign_implicit_tags fs) = Ok fc /\
    cs = fc ++ [mk_dconst name (seq_trait sorted) CExtendedAfterField (VON ext);
                mk_dconst name (seq_trait sorted) CFieldCount (VN (N.of_nat (length fs)));
                mk_dconst name (seq_trait sorted) CStdOptionalFields (VN (count_opt (root_fields ext fs)))].
Proof.
  intros Hlen. unfold consts_of.
  destruct (implicit_tags_shape fs) as [Hl Hm].
  destruct (fields_consts name (assign_implicit_tags fs)) as [fc| |]; cbn [bind]; try discriminate.
  set (fs' := assign_implicit_tags fs) in *.
  assert (Hlen' : N.of_nat (length fs') <= USIZE_MAX) by (rewrite Hl; exact Hlen).
  destruct sorted.
  - destruct (sort_fields fs' ext) as [ordered| |] eqn:Es; cbn [bind]; intros H; try discriminate.
    inversion H; subst; clear H. exists fc. split; [reflexivity|]. f_equal. unfold seq_own_consts, seq_trait.
    destruct ext as [e|].
    + destruct (sort_keeps_root_count fs' e ordered Es) as [Hc Hlo].
      cbn [ext_limit]. rewrite Hc, Hlo, Hl.
      pose proof (opt_count_root (Some e) fs' Hlen') as Hr. cbn [ext_limit] in Hr. rewrite Hr.
      rewrite (count_root_shape (Some e) fs' fs Hm). reflexivity.
    + destruct (sort_none_length fs' ordered Es) as [Hlo Hc].
      rewrite (opt_count_root None ordered) by (rewrite Hlo; exact Hlen').
      cbn [root_fields]. rewrite Hlo, Hl, Hc. unfold count_opt. rewrite Hm. reflexivity.
  - cbn [bind]. intros H. inversion H; subst; clear H. exists fc. split; [reflexivity|]. f_equal.
    unfold seq_own_consts, seq_trait. rewrite (opt_count_root ext fs' Hlen'), (count_root_shape ext fs' fs Hm), Hl. reflexivity.
Qed.

(* a tuple struct is a SEQUENCE of the one field `0` without marker *)
Lemma consts_tuple m name t tg tcs cs :
  consts_of m name (DTuple t tg tcs) = Ok cs ->
  exists fc, field_consts name S_0 tg t = Ok fc /\
    cs = fc ++ [mk_dconst name TrSequence CExtendedAfterField (VON None);
                mk_dconst name TrSequence CFieldCount (VN 1);
                mk_dconst name TrSequence CStdOptionalFields (VN (if is_optional t then 1 else 0))].
Proof.
  unfold consts_of. cbn [fields_consts rf_name rf_tag rf_ty].
  destruct (field_consts name S_0 tg t) as [fc| |]; cbn [bind]; intros H; try discriminate.
  inversion H; subst; clear H. exists fc. split; [reflexivity|]. rewrite app_nil_r. f_equal.
  unfold seq_own_consts. cbn [length opt_count_from ext_limit rf_ty]. destruct (is_optional t); reflexivity.
Qed.

(* number of root items / alternatives: all of them without a marker, those up to the marker otherwise *)
Definition root_count (len : N) (ext : option N) : N := match ext with Some e => e + 1 | None => len end.
Definition ext_in_range (ext : option N) : Prop := match ext with Some e => e < USIZE_MAX | None => True end.
Definition has_marker (ext : option N) : bool := match ext with Some _ => true | None => false end.

Lemma std_variant_count_spec m len ext n : ext_in_range ext -> std_variant_count m len ext = Ok n -> n = root_count len ext.
Proof.
  unfold std_variant_count, root_count, ext_in_range. destruct ext as [e|]; intros He H.
  - apply N.ltb_lt in He. rewrite He in H. inversion H. reflexivity.
  - inversion H. reflexivity.
Qed.

Lemma consts_enum m name vs tg ext cs :
  ext_in_range ext -> consts_of m name (DEnum vs tg ext) = Ok cs ->
  cs = [mk_dconst name TrEnumerated CVariantCount (VN (N.of_nat (length vs)));
        mk_dconst name TrEnumerated CStdVariantCount (VN (root_count (N.of_nat (length vs)) ext));
        mk_dconst name TrEnumerated CExtensible (VB (has_marker ext))].
Proof.
  intros He. unfold consts_of.
  destruct (std_variant_count m (N.of_nat (length vs)) ext) as [n| |] eqn:E; cbn [bind]; intros H; try discriminate.
  inversion H; subst; clear H. rewrite (std_variant_count_spec m _ ext n He E). reflexivity.
Qed.

Lemma consts_choice m name vs tg ext cs :
  ext_in_range ext -> consts_of m name (DDataEnum vs tg ext) = Ok cs ->
  exists fc, fields_consts name (assign_implicit_tags vs) = Ok fc /\
    cs = fc ++ [mk_dconst name TrChoice CVariantCount (VN (N.of_nat (length vs)));
                mk_dconst name TrChoice CStdVariantCount (VN (root_count (N.of_nat (length vs)) ext));
                mk_dconst name TrChoice CExtensible (VB (has_marker ext))].
Proof.
  intros He. unfold consts_of.
  destruct (fields_consts name (assign_implicit_tags vs)) as [fc| |]; cbn [bind]; try discriminate.
  destruct tg as [g|]; [|discriminate].
  destruct (std_variant_count m (N.of_nat (length vs)) ext) as [n| |] eqn:E; cbn [bind]; intros H; try discriminate.
  inversion H; subst; clear H. exists fc. split; [reflexivity|]. rewrite (std_variant_count_spec m _ ext n He E). reflexivity.
Qed.

(* MIN / MAX / EXTENSIBLE of a constraint type: a bound constant exists exactly when the constraint has that bound *)
Lemma bound_consts_spec owner tr mn mx e c v :
  In (mk_dconst owner tr c v) (bound_consts owner tr mn mx e) <->
  (c = CMin /\ exists z, mn = Some z /\ v = VZ z) \/ (c = CMax /\ exists z, mx = Some z /\ v = VZ z) \/ (c = CExtensible /\ v = VB e).
Proof.
  unfold bound_consts. rewrite !in_app_iff. split.
  - intros [H|[H|H]].
    + destruct mn as [z|]; cbn in H; [|contradiction]. destruct H as [H|[]]. inversion H; subst. left. split; [reflexivity|]. exists z. split; reflexivity.
    + destruct mx as [z|]; cbn in H; [|contradiction]. destruct H as [H|[]]. inversion H; subst. right. left. split; [reflexivity|]. exists z. split; reflexivity.
    + destruct H as [H|[]]. inversion H; subst. right. right. split; reflexivity.
  - intros [[Hc [z [Hm Hv]]]|[[Hc [z [Hm Hv]]]|[Hc Hv]]]; subst.
    + left. cbn. left. reflexivity.
    + right. left. cbn. left. reflexivity.
    + right. right. cbn. left. reflexivity.
Qed.

(* which constraint type carries the bounds of an INTEGER / a SIZE: the field's own, below OPTIONAL the same one *)
Lemma field_consts_integer base fname tg k mn mx e :
  field_consts base fname tg (RInt k mn mx e) = Ok (bound_consts (constraint_type_name base fname) TrNumbers mn mx e).
Proof. reflexivity. Qed.
Lemma field_consts_option base fname tg t : field_consts base fname tg (ROption t) = field_consts base fname tg t.
Proof. reflexivity. Qed.
Lemma field_consts_string base fname tg sz cs :
  field_consts base fname tg (RString sz cs) =
  Ok (bound_consts (constraint_type_name base fname) (TrString cs) (option_map Z.of_N (size_min sz)) (option_map Z.of_N (size_max sz)) (size_ext sz)).
Proof. reflexivity. Qed.

(* ------------------------------------------------------------------ all definition kinds at once *)
Definition own_consts_spec (name : list N) (d : rust_def) : list dconst :=
  match d with
  | DStruct sorted fs _ ext =>
    [mk_dconst name (seq_trait sorted) CExtendedAfterField (VON ext);
     mk_dconst name (seq_trait sorted) CFieldCount (VN (N.of_nat (length fs)));
     mk_dconst name (seq_trait sorted) CStdOptionalFields (VN (count_opt (root_fields ext fs)))]
  | DTuple t _ _ =>
    [mk_dconst name TrSequence CExtendedAfterField (VON None);
     mk_dconst name TrSequence CFieldCount (VN 1);
     mk_dconst name TrSequence CStdOptionalFields (VN (if is_optional t then 1 else 0))]
  | DEnum vs _ ext =>
    [mk_dconst name TrEnumerated CVariantCount (VN (N.of_nat (length vs)));
     mk_dconst name TrEnumerated CStdVariantCount (VN (root_count (N.of_nat (length vs)) ext));
     mk_dconst name TrEnumerated CExtensible (VB (has_marker ext))]
  | DDataEnum vs _ ext =>
    [mk_dconst name TrChoice CVariantCount (VN (N.of_nat (length vs)));
     mk_dconst name TrChoice CStdVariantCount (VN (root_count (N.of_nat (length vs)) ext));
     mk_dconst name TrChoice CExtensible (VB (has_marker ext))]
  end.
(* a Vec is never longer than usize::MAX and an extension index is an index into it *)
Definition def_in_range (d : rust_def) : Prop :=
  match d with
  | DStruct _ fs _ _ => N.of_nat (length fs) <= USIZE_MAX
  | DEnum _ _ ext | DDataEnum _ _ ext => ext_in_range ext
  | DTuple _ _ _ => True
  end.
(* the constants of the constraint types of the members (fields, alternatives, the tuple field) *)
Definition member_consts (name : list N) (d : rust_def) : res (list dconst) :=
  match d with
  | DStruct _ fs _ _ => fields_consts name (assign_implicit_tags fs)
  | DDataEnum vs _ _ => fields_consts name (assign_implicit_tags vs)
  | DTuple t tg _ => field_consts name S_0 tg t
  | DEnum _ _ _ => Ok []
  end.

Lemma consts_spec m name d cs :
  def_in_range d -> consts_of m name d = Ok cs ->
  exists fc, member_consts name d = Ok fc /\ cs = fc ++ own_consts_spec name d.
Proof.
  destruct d as [sorted fs tg ext|vs tg ext|vs tg ext|t tg tcs]; cbn [def_in_range member_consts own_consts_spec]; intros Hr H.
  - exact (consts_struct m name sorted fs tg ext cs Hr H).
  - exists []. split; [reflexivity|]. exact (consts_enum m name vs tg ext cs Hr H).
  - exact (consts_choice m name vs tg ext cs Hr H).
  - exact (consts_tuple m name t tg tcs cs H).
Qed.
